#!/bin/bash
# MANIFEST.setup_cmd: build the analyser offline and warm caches (Go export data of /repo's
# dependencies; clang record layouts of felix/bpf-gpl) so that quick checks take seconds.
set -eu
cd "$(dirname "$0")"
. ./env.sh
mkdir -p bin evidence
(cd tools/calint && go build -o ../../bin/calint .)
bin/calint -warm || true
# pre-compute the C layouts (cached by content hash of every input)
bin/calint -prop C13 -tier quick -repo /repo -verif "$(pwd)" >/dev/null 2>&1 || true
