#!/bin/bash
# MANIFEST.setup_cmd: build the analyser offline and warm the Go build cache
# (export data of /repo's dependencies) so that quick checks take seconds.
set -eu
cd "$(dirname "$0")"
. ./env.sh
mkdir -p bin evidence
(cd tools/calint && go build -o ../../bin/calint .)
bin/calint -warm || true
