#!/bin/bash
# usage: runall.sh [quick|thorough] [parallelism]   — runs every claimed check, prints one line each.
cd "$(dirname "$0")"; . ./env.sh
TIER=${1:-quick}; P=${2:-4}
[ -x bin/calint ] || ./setup.sh >/dev/null 2>&1
mkdir -p /tmp/runall
jq -r '.checks[].property_id' MANIFEST.json | xargs -P $P -I{} sh -c "./check {} $TIER > /tmp/runall/{}.$TIER.log 2>&1; echo {} exit=\$? \$(grep -c 'fixture fired' /tmp/runall/{}.$TIER.log) fired \$(grep -cE 'fixture (MISSED|broken|STALE)' /tmp/runall/{}.$TIER.log) notfired \$(head -1 /tmp/runall/{}.$TIER.log | grep -oE '[0-9]+ obligations')"
