#!/usr/bin/env python3
"""Regenerates /verif/MANIFEST.json from `calint -list` (claimed properties) and
not_applicable.json (unclaimed ones, each with a reason).  Every property of
properties.jsonl must be in exactly one of the two."""
import json, subprocess, sys, os

here = os.path.dirname(os.path.abspath(__file__))
props = [json.loads(l) for l in open(os.path.join(here, "properties.jsonl"))]
ids = [p["id"] for p in props]
reg = json.loads(subprocess.check_output([os.path.join(here, "bin/calint"), "-list"]))
claimed = {r["id"]: r for r in reg}
na = json.load(open(os.path.join(here, "not_applicable.json")))
if "--prune" in sys.argv:  # drop entries for properties that now have a registered check
    na = [e for e in na if e["property_id"] not in claimed]
    json.dump(na, open(os.path.join(here, "not_applicable.json"), "w"), indent=1)
na_ids = {e["property_id"] for e in na}

checks = []
for pid in ids:
    if pid in claimed and pid in na_ids:
        sys.exit(f"{pid} both claimed and not_applicable")
    if pid not in claimed and pid not in na_ids:
        sys.exit(f"{pid} neither claimed nor not_applicable")
    if pid not in claimed:
        continue
    r = claimed[pid]
    text = ("Static analysis decides structural necessary conditions of the property on every path/site/sibling of the current source; "
            "it does not decide the run-time behaviour. Decided: " + r["explanation"])
    if r.get("not_decided"):
        text += " NOT decided: " + r["not_decided"]
    checks.append({
        "property_id": pid,
        "quick_cmd": f"./check {pid} quick",
        "thorough_cmd": f"./check {pid} thorough",
        "evidence_file": f"evidence/{pid}.json",
        "replay_cmd_template": "bin/calint -explain {path}",
        "engine": "calint",
        "level_claimed": {"category": r["level"], "text": text, "design_ref": r.get("design_ref") or "DESIGN.md §3"},
        "level_note": "Trusted base: " + "; ".join(r.get("assumptions") or []) + ". Obligations are necessary conditions; discharging all of them does not prove the behaviour.",
        "technique": r["technique"],
    })

manifest = {
    "version": 1,
    "setup_cmd": "./setup.sh",
    "hooks": {
        "guard": "verif",
        "enable": "none needed: calint reads /repo's source; no file in /repo uses the `verif` build tag",
        "baseline_off_cmd": json.load(open("/root/.vp/BASELINE.json"))["cmd"],
        "source_commits": [],
        "add_only": True,
    },
    "engines": [{
        "name": "calint",
        "path": "tools/calint",
        "serves_properties": [c["property_id"] for c in checks],
        "kind_free_text": "repository-specific static analyser (go/packages + go/types + go/ssa, clang layouts for the C side): ordering/dominance, cut-set guards, pairing, ownership, provenance, field coverage, finite tables, layouts",
    }],
    "checks": checks,
    "not_applicable": [e for e in na if e["property_id"] in ids],
    "notes": "All checks are static analyses of /repo's current working tree (no calico code is executed). exit 0 held / 1 VIOLATION / 2 broken check (anchor lost, floor, type errors). Thorough tier adds in-memory mutated variants (sensitivity fixtures) on which each rule must fire.",
}
json.dump(manifest, open(os.path.join(here, "MANIFEST.json"), "w"), indent=1)
print(f"MANIFEST.json: {len(checks)} checks, {len(manifest['not_applicable'])} not applicable")
