#!/bin/bash
# usage: seedeval.sh <PID> <N> [extra property ids to also check...]
# Confirms a seeded change (demo passes on the clean tree, fails with the patch) in the scratch
# worktree /tmp/wt-<PID>, runs the static checks against the patched worktree (never against /repo),
# and stores the confirmed seed under /verif/seeded/<PID>-<N>/ with the outcome (eval.json).
set -u
PID=$1; N=$2; shift 2; EXTRA="$*"
WT=/tmp/wt-$PID; S=$WT/SEED/$N
if [ ! -d $WT ]; then git -C /repo worktree add -q --detach $WT HEAD || exit 2; fi
if [ ! -f $S/patch.diff ] && [ -f /verif/seeded/$PID-$N/patch.diff ]; then mkdir -p $S; cp /verif/seeded/$PID-$N/* $S/; fi
[ -f $S/patch.diff ] || { echo "no $S/patch.diff"; exit 2; }
. /verif/env.sh
clean() { git -C $WT checkout -q -- . ; git -C $WT clean -fdq -e SEED ; }
clean
git -C $WT checkout -q --detach $(git -C /repo rev-parse HEAD) || exit 2
DEMO=$(jq -r .demo_cmd $S/meta.json)
PLACE=$(jq -r .demo_place $S/meta.json | awk '{print $1}')
place_demo() {  # put the demonstration file(s) where meta.json says, unless demo_cmd does it itself
  case "$PLACE" in
    *.go) mkdir -p $WT/$(dirname $PLACE); for f in $S/*_test.go $S/*.go; do [ -f "$f" ] && cp -n $f $WT/$(dirname $PLACE)/; done;;
    ""|null) ;;
    *) mkdir -p $WT/$PLACE; for f in $S/*_test.go $S/*.go; do [ -f "$f" ] && cp -n $f $WT/$PLACE/; done;;
  esac
}
cd $WT
STATIC_ONLY=${STATIC_ONLY:-0}   # 1: the seed was confirmed earlier (eval.json); only redo the static checks
if [ "$STATIC_ONLY" = 1 ] && [ -f /verif/seeded/$PID-$N/eval.json ]; then
  RC_CLEAN=$(jq -r .demo_rc_clean /verif/seeded/$PID-$N/eval.json); RC_PATCHED=$(jq -r .demo_rc_patched /verif/seeded/$PID-$N/eval.json)
else STATIC_ONLY=0
place_demo
echo "== demo on clean tree"; bash -o pipefail -c "$DEMO" > /tmp/seed-$PID-$N.clean.log 2>&1; RC_CLEAN=$?
grep -q "no tests to run" /tmp/seed-$PID-$N.clean.log && { echo "   demo did not run (no tests to run)"; RC_CLEAN=99; }
echo "   rc=$RC_CLEAN"
clean
fi
if ! git -C $WT apply $S/patch.diff; then echo "PATCH DOES NOT APPLY on current HEAD"; clean; exit 3; fi
FILES=$(git -C $WT diff --name-only | tr '\n' ' ')
echo "== build of touched packages"; PK=$(for f in $FILES; do case $f in *.go) echo ./$(dirname $f);; esac; done | sort -u | tr '\n' ' ')
RC_BUILD=0; : > /tmp/seed-$PID-$N.build.log
[ "$STATIC_ONLY" = 1 ] && PK=""
for pk in $PK; do
  case $pk in
    ./lib/datastructures/*) (cd lib/datastructures && go build ./${pk#./lib/datastructures/}) >> /tmp/seed-$PID-$N.build.log 2>&1 || RC_BUILD=1;;
    ./api/*) (cd api && go build ./${pk#./api/}) >> /tmp/seed-$PID-$N.build.log 2>&1 || RC_BUILD=1;;
    *) go build $pk >> /tmp/seed-$PID-$N.build.log 2>&1 || RC_BUILD=1;;
  esac
done; echo "   rc=$RC_BUILD ($PK)"
if [ "$STATIC_ONLY" != 1 ]; then
place_demo
echo "== demo with patch"; bash -o pipefail -c "$DEMO" > /tmp/seed-$PID-$N.patched.log 2>&1; RC_PATCHED=$?
echo "   rc=$RC_PATCHED"
fi
# remove demo files again (keep the patch applied for the static checks)
git -C $WT clean -fdq -e SEED
cd /verif
RES="{}"
for P in $PID $EXTRA; do
  echo "== static check $P against patched worktree"
  OUT=$(CALINT_REPO=$WT CALINT_VERIF=/tmp/seedverif-$PID-$N ./check $P quick 2>&1); RC=$?
  echo "$OUT" | grep -E "violated|VIOLATION|BROKEN|^calint" | cut -c1-400
  KEYS=$(echo "$OUT" | grep -oE "violated [^ ]+" | sed 's/violated //' | jq -R . | jq -s .)
  RES=$(echo "$RES" | jq --arg p $P --argjson rc $RC --argjson keys "$KEYS" '.[$p]={exit:$rc,violated:$keys}')
done
clean
CONF=false; [ $RC_CLEAN -eq 0 ] && [ $RC_PATCHED -ne 0 ] && [ $RC_BUILD -eq 0 ] && CONF=true
echo "confirmed=$CONF"
if $CONF; then
  D=/verif/seeded/$PID-$N; mkdir -p $D; cp $S/* $D/
  jq -n --argjson res "$RES" --arg files "$FILES" --argjson rcc $RC_CLEAN --argjson rcp $RC_PATCHED \
     '{confirmed:true, demo_rc_clean:$rcc, demo_rc_patched:$rcp, files_changed:$files, repo_head:"'$(git -C /repo rev-parse --short HEAD)'", ran:"seedeval.sh: demo on clean worktree, git apply, go build of touched packages, demo again, ./check <id> quick with CALINT_REPO=<patched worktree>", static_checks:$res}' > $D/eval.json
  cat $D/eval.json | jq -c .static_checks
fi
