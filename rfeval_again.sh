#!/bin/bash
# usage: rfeval_again.sh <P> <refactor-id>...   — re-runs every claimed quick check on stored refactors
# (refactors/<id>/patch.diff) with the current rules; rewrites refactors/<id>/eval.json (eval_first.json is kept).
cd "$(dirname "$0")"; . ./env.sh
P=$1; shift
WT=/tmp/rfe-again
[ -d $WT ] || git -C /repo worktree add --detach $WT HEAD -q
git -C $WT checkout -q --detach "$(git -C /repo rev-parse HEAD)"
cp bin/calint /tmp/rfe-calint-again; export CALINT_BIN=/tmp/rfe-calint-again
for X in "$@"; do
  OUT=refactors/$X
  git -C $WT checkout -q -- . ; git -C $WT clean -fdq
  if ! git -C $WT apply "$PWD/$OUT/patch.diff" 2>/dev/null; then echo "$X: patch does not apply on current HEAD"; continue; fi
  rm -rf /tmp/rfe-out-again; mkdir -p /tmp/rfe-out-again
  jq -r '.checks[].property_id' MANIFEST.json | CALINT_REPO=$WT CALINT_VERIF=/tmp/rfe-out-again xargs -P $P -I{} sh -c \
    './check {} quick > /tmp/rfe-out-again/{}.log 2>&1; echo "{} $?"' > /tmp/rfe-out-again/exits.txt
  BAD=$(awk '$2!=0' /tmp/rfe-out-again/exits.txt | sort | tr '\n' ';')
  python3 - "$OUT" /tmp/rfe-out-again <<'PY'
import json,sys,os,re
out,logs=sys.argv[1],sys.argv[2]
res={}
for l in open(os.path.join(logs,'exits.txt')):
    p,e=l.split()
    if e!='0':
        txt=open(os.path.join(logs,p+'.log')).read()
        lines=[x for x in txt.splitlines() if re.search(r'VIOLATION|BROKEN|violated|LOST|undecided|FLOOR',x)][:12]
        res[p]={'exit':int(e),'lines':lines}
json.dump({'non_zero':res},open(os.path.join(out,'eval.json'),'w'),indent=1)
PY
  echo "$X: ${BAD:-all 0}"
done
git -C $WT checkout -q -- . ; git -C $WT clean -fdq
