#!/bin/bash
# usage: rfeval.sh <dir-with-REFACTOR/N/patch.diff> [parallelism]
# False-alarm test: applies each behaviour-preserving refactor to a scratch worktree of /repo
# (never to /repo), runs every claimed quick check against it and reports any check that does
# not exit 0.  Results go to /verif/refactors/<set>-<N>/ (patch, meta, eval.json).
cd "$(dirname "$0")"; . ./env.sh
SRC=${1:?dir}; P=${2:-6}; SET=$(basename "$SRC" | sed 's/^rf-//')
WT=/tmp/rfe-$SET
cp bin/calint /tmp/rfe-calint-$SET; export CALINT_BIN=/tmp/rfe-calint-$SET
[ -d $WT ] || git -C /repo worktree add --detach $WT HEAD -q
git -C $WT checkout -q --detach "$(git -C /repo rev-parse HEAD)"
for d in "$SRC"/REFACTOR/*/; do
  N=$(basename "$d"); OUT=refactors/$SET-$N; mkdir -p "$OUT"
  cp "$d/patch.diff" "$d/meta.json" "$OUT/" 2>/dev/null
  git -C $WT checkout -q -- . ; git -C $WT clean -fdq
  if ! git -C $WT apply "$PWD/$OUT/patch.diff" 2>/tmp/rfe-$SET.err; then echo "$SET-$N: patch does not apply"; continue; fi
  rm -rf /tmp/rfe-out-$SET; mkdir -p /tmp/rfe-out-$SET
  jq -r '.checks[].property_id' MANIFEST.json | CALINT_REPO=$WT CALINT_VERIF=/tmp/rfe-out-$SET xargs -P $P -I{} sh -c \
    './check {} quick > /tmp/rfe-out-'$SET'/{}.log 2>&1; echo "{} $?"' > /tmp/rfe-out-$SET/exits.txt
  BAD=$(awk '$2!=0' /tmp/rfe-out-$SET/exits.txt | sort | tr '\n' ';')
  python3 - "$OUT" /tmp/rfe-out-$SET <<'EOF'
import json,sys,os,re
out,logs=sys.argv[1],sys.argv[2]
res={}
for l in open(os.path.join(logs,'exits.txt')):
    p,e=l.split()
    if e!='0':
        txt=open(os.path.join(logs,p+'.log')).read()
        lines=[x for x in txt.splitlines() if re.search(r'VIOLATION|BROKEN|violated|LOST|undecided|FLOOR',x)][:12]
        res[p]={'exit':int(e),'lines':lines}
json.dump({'non_zero':res},open(os.path.join(out,'eval.json'),'w'),indent=1)
EOF
  [ -f "$OUT/eval_first.json" ] || cp "$OUT/eval.json" "$OUT/eval_first.json"
  echo "$SET-$N: ${BAD:-all 0}"
done
git -C $WT checkout -q -- . ; git -C $WT clean -fdq
