#!/usr/bin/env python3
"""C side of property C14 (E-CAST): for every function defined in
felix/bpf-gpl/conntrack_cleanup.c, list the calls that delete a conntrack entry
(`cali_ct_delete_elem`) together with the `if` conditions they are nested under
(then-branch only), as seen by clang 14's AST (-fsyntax-only; nothing runs).

Output JSON: {"configs": {"v4": {"functions": [...], "deletes": [
   {"function": f, "line": n, "key_arg": "key", "guards": [
       {"eq": [[base, member], [base, member]], "line": n}, ...]}]}}}
where each guard lists the `==` comparisons between two member expressions that
occur in the condition of an enclosing IfStmt whose THEN branch holds the call.
"""
import json
import os
import re
import subprocess
import sys

REPO = "/repo"
for i, a in enumerate(sys.argv):
    if a == "--repo":
        REPO = sys.argv[i + 1]
GPL = os.path.join(REPO, "felix/bpf-gpl")
STUBS = os.path.normpath(os.path.join(os.path.dirname(os.path.abspath(__file__)), "..", "cstubs"))
SRC = os.path.join(GPL, "conntrack_cleanup.c")
BASE = ["clang", "-target", "bpf", "-D__x86_64__", "-D__TARGET_ARCH_x86", "-Wno-everything", "-ferror-limit=0",
        "-I", STUBS, "-I", GPL, "-I", "/usr/include/x86_64-linux-gnu", "-fsyntax-only"]
DELETE_FN = "cali_ct_delete_elem"


def flags_for(obj):
    out = subprocess.run(["bash", "./calculate-flags", obj], cwd=GPL, capture_output=True, text=True)
    fl = [t for t in out.stdout.split() if t.startswith("-D")]
    if "_v6" in obj and "-DIPVER6" not in fl:
        fl.append("-DIPVER6")
    return fl


def strip(n):
    """Skip implicit casts / parens."""
    while n.get("kind") in ("ImplicitCastExpr", "ParenExpr", "CStyleCastExpr") and n.get("inner"):
        n = n["inner"][0]
    return n


def member(n):
    n = strip(n)
    if n.get("kind") != "MemberExpr":
        return None
    base = strip(n["inner"][0]) if n.get("inner") else {}
    bname = base.get("referencedDecl", {}).get("name") if base.get("kind") == "DeclRefExpr" else None
    if bname is None and base.get("kind") == "MemberExpr":
        m = member(base)
        bname = "%s.%s" % (m[0], m[1]) if m else None
    return [bname, n.get("name")]


def eq_members(cond, out):
    if not isinstance(cond, dict):
        return
    if cond.get("kind") == "BinaryOperator" and cond.get("opcode") == "==" and len(cond.get("inner", [])) == 2:
        a, b = member(cond["inner"][0]), member(cond["inner"][1])
        if a and b:
            out.append([a, b])
    for c in cond.get("inner", []) or []:
        eq_members(c, out)


def callee_name(call):
    f = strip(call["inner"][0]) if call.get("inner") else {}
    if f.get("kind") == "DeclRefExpr":
        return f.get("referencedDecl", {}).get("name")
    return None


def line_of(n, default=None):
    loc = n.get("range", {}).get("begin", {})
    return loc.get("line") or loc.get("expansionLoc", {}).get("line") or default


def walk(n, guards, fn, deletes, last_line):
    if not isinstance(n, dict):
        return
    ln = line_of(n, last_line[0])
    if ln:
        last_line[0] = ln
    k = n.get("kind")
    if k == "CallExpr" and callee_name(n) == DELETE_FN:
        args = n.get("inner", [])[1:]
        karg = None
        if args:
            a = strip(args[0])
            if a.get("kind") == "DeclRefExpr":
                karg = a.get("referencedDecl", {}).get("name")
        deletes.append({"function": fn, "line": last_line[0], "key_arg": karg, "guards": list(guards)})
    if k == "IfStmt":
        inner = n.get("inner", [])
        # clang 14: [cond, then, else?] (no init / condition-variable in C)
        if len(inner) >= 2:
            eqs = []
            eq_members(inner[0], eqs)
            walk(inner[0], guards, fn, deletes, last_line)
            walk(inner[1], guards + [{"eq": eqs, "line": last_line[0]}], fn, deletes, last_line)
            for e in inner[2:]:
                walk(e, guards, fn, deletes, last_line)
            return
    for c in n.get("inner", []) or []:
        walk(c, guards, fn, deletes, last_line)


def analyse(obj):
    fl = flags_for(obj)
    text = open(SRC).read()
    names = sorted(set(re.findall(r"^[A-Za-z_][\w\s\*\(\)\",=]*?\b(\w+)\s*\([^;{]*\)\s*\{", text, re.M)))
    fns, deletes = [], []
    for name in names:
        p = subprocess.run(BASE + fl + ["-Xclang", "-ast-dump=json", "-Xclang", "-ast-dump-filter=" + name, SRC],
                           capture_output=True, text=True)
        # the filter prints one JSON object per matching declaration, concatenated
        dec = json.JSONDecoder()
        s, i = p.stdout, 0
        while True:
            j = s.find("{", i)
            if j < 0:
                break
            try:
                obj_, end = dec.raw_decode(s, j)
            except ValueError:
                break
            i = end
            if obj_.get("kind") == "FunctionDecl" and obj_.get("name") == name and any(
                    c.get("kind") == "CompoundStmt" for c in obj_.get("inner", [])):
                fns.append(name)
                walk(obj_, [], name, deletes, [None])
    return {"flags": fl, "functions": sorted(set(fns)), "deletes": deletes}


def main():
    res = {"configs": {"v4": analyse("bin/conntrack_cleanup_debug_v4.o"), "v6": analyse("bin/conntrack_cleanup_debug_v6.o")}}
    json.dump(res, sys.stdout, indent=1)


if __name__ == "__main__":
    main()
