#!/usr/bin/env python3
"""C side of calint's layout analysis (properties C13, C14).

Drives clang 14's front end (-fsyntax-only, nothing is executed) over the BPF
program sources of /repo/felix/bpf-gpl, with the build's own -D flags (taken
from the repo's calculate-flags script), for the IPv4 and -DIPVER6 variants, and
prints one JSON document:

  { "configs": { "<source>|<object>": {
        "records": {name: {size, align, fields:[{path, offset, size, type, aggregate?, bits?}]}},
        "maps": {symbol: {key_type, value_type, key_size, value_size, map_type, max_entries}} } } }

Record layouts come from `-Xclang -fdump-record-layouts`; scalar leaf sizes from
one-member probe structs laid out by clang itself; map declarations from the
preprocessed CALI_MAP* expansions (variables placed in section ".maps").
libbpf is not vendored: /verif/cstubs provides bpf_helpers.h, bpf_endian.h and
bpf_core_read.h (macros only).
"""
import hashlib
import json
import os
import re
import subprocess
import sys
import tempfile
from concurrent.futures import ThreadPoolExecutor

REPO = "/repo"
for i, a in enumerate(sys.argv):
    if a == "--repo":
        REPO = sys.argv[i + 1]
GPL = os.path.join(REPO, "felix/bpf-gpl")
STUBS = os.path.normpath(os.path.join(os.path.dirname(os.path.abspath(__file__)), "..", "cstubs"))

# (source file, object name handed to calculate-flags).  One representative object
# per program kind and IP version: struct layouts do not depend on the other flags.
PROGRAMS = [
    ("tc.c", "bin/to_hep_debug.o"), ("tc.c", "bin/to_hep_debug_v6.o"),
    ("xdp.c", "bin/xdp_debug.o"), ("xdp.c", "bin/xdp_debug_v6.o"),
    ("connect_balancer.c", "bin/connect_balancer_debug_v4.o"), ("connect_balancer_v6.c", "bin/connect_balancer_debug_v6.o"),
    ("conntrack_cleanup.c", "bin/conntrack_cleanup_debug_v4.o"), ("conntrack_cleanup.c", "bin/conntrack_cleanup_debug_v6.o"),
    ("policy_default.c", "bin/policy_default.o"),
]

BASE = ["clang", "-target", "bpf", "-D__x86_64__", "-D__TARGET_ARCH_x86", "-Wno-everything",
        "-ferror-limit=0", "-I", STUBS, "-I", GPL, "-I", "/usr/include/x86_64-linux-gnu"]


def flags_for(obj):
    out = subprocess.run(["bash", "./calculate-flags", obj], cwd=GPL, capture_output=True, text=True)
    fl = [t for t in out.stdout.split() if t.startswith("-D")]
    if "_v6" in obj and "-DIPVER6" not in fl:
        fl.append("-DIPVER6")
    return fl


def run(cmd, src_text):
    with tempfile.NamedTemporaryFile("w", suffix=".c", dir="/tmp", delete=False) as f:
        f.write(src_text)
        path = f.name
    try:
        p = subprocess.run(cmd + [path], capture_output=True, text=True)
        return p.stdout, p.stderr
    finally:
        os.unlink(path)


REC_HDR = re.compile(r"^\s*(\d+)\s*\|\s+((?:struct|union)\s+.+?)\s*$")
LINE = re.compile(r"^\s*(\d+)(?::(\d+)-(\d+))?\s*\|(\s+)(.+?)\s*$")
SIZE = re.compile(r"^\s*\|\s*\[sizeof=(\d+),\s*align=(\d+)")


def parse_layouts(text):
    recs = {}
    for b in text.split("*** Dumping AST Record Layout")[1:]:
        lines = [l for l in b.splitlines() if l.strip()]
        if not lines:
            continue
        m = REC_HDR.match(lines[0])
        if not m:
            continue
        name = m.group(2)
        entries, size, align, base_indent = [], None, None, None
        for l in lines[1:]:
            s = SIZE.match(l)
            if s:
                size, align = int(s.group(1)), int(s.group(2))
                break
            lm = LINE.match(l)
            if not lm:
                continue
            indent = len(lm.group(4))
            if base_indent is None:
                base_indent = indent
            bit = (int(lm.group(2)), int(lm.group(3))) if lm.group(2) else None
            entries.append(((indent - base_indent) // 2, int(lm.group(1)), lm.group(5), bit))
        if size is not None:
            recs[name] = {"size": size, "align": align, "entries": entries}
    return recs


def split_decl(decl):
    decl = decl.strip()
    m = re.match(r"^(.*\((?:anonymous|unnamed)[^)]*\))\s*(\w*)$", decl)
    if m:
        return m.group(1), m.group(2)
    m = re.match(r"^(.*?)(\w+)$", decl)
    if not m:
        return decl, ""
    return m.group(1).strip(), m.group(2)


def flatten(rec):
    """Nested dump -> [(dotted path, offset, type, bitfield, is_aggregate)]; anonymous members
    contribute no path component."""
    out, stack, ents = [], [], rec["entries"]
    for i, (depth, off, decl, bit) in enumerate(ents):
        typ, name = split_decl(decl)
        stack = stack[:depth]
        has_children = i + 1 < len(ents) and ents[i + 1][0] > depth
        stack.append(name)
        out.append((".".join(x for x in stack if x), off, typ, None if has_children else bit, has_children))
    return out


def mangle(t):
    return "calint_p_" + hashlib.md5(t.encode()).hexdigest()[:12]


def member(t, name):
    """Declaration of a member `name` of C type spelled t (handles array suffixes)."""
    am = re.match(r"^(.*?)((?:\[\d*\])+)$", t.strip())
    if am:
        return "%s %s%s;" % (am.group(1).strip(), name, am.group(2))
    if "(" in t:
        return "void *%s;" % name
    return "%s %s;" % (t, name)


def analyse(src, obj):
    fl = flags_for(obj)
    inc = '#include "%s"\n' % os.path.join(GPL, src)
    pre, _ = run(BASE + fl + ["-E", "-P"], inc)
    names = sorted(set(re.findall(r"\b(struct|union)\s+(\w+)\s*\{", pre)))
    maps = {}
    for m in re.finditer(r"struct\s*\{([^{}]*)\}\s*(\w+)\s*__attribute__\(\(section\(\"\.maps\"\),\s*used\)\)", pre):
        body, sym = m.group(1), m.group(2)
        kt = re.search(r"typeof\(([^;]+?)\)\s*\*\s*key\s*;", body)
        vt = re.search(r"typeof\(([^;]+?)\)\s*\*\s*value\s*;", body)
        mt = re.search(r"\(\*type\)\[(.+?)\]", body)
        me = re.search(r"\(\*max_entries\)\[(.+?)\]", body)
        if kt and vt:
            maps[sym] = {"key_type": kt.group(1).strip(), "value_type": vt.group(1).strip(),
                         "map_type": mt.group(1).strip() if mt else "", "max_entries": me.group(1).strip() if me else ""}
    decls, n = [], [0]

    def force(typ):
        n[0] += 1
        decls.append("static char calint_force_%d[sizeof(%s)];" % (n[0], typ))
    for kind, nm in names:
        force("%s %s" % (kind, nm))
    for sym, d in maps.items():
        decls.append("struct calint_mapk__%s { %s };" % (sym, member(d["key_type"], "x")))
        decls.append("struct calint_mapv__%s { %s };" % (sym, member(d["value_type"], "x")))
        force("struct calint_mapk__%s" % sym)
        force("struct calint_mapv__%s" % sym)
    cmd = BASE + fl + ["-fsyntax-only", "-Xclang", "-fdump-record-layouts"]
    out1, err1 = run(cmd, inc + "\n".join(decls) + "\n")
    recs = parse_layouts(out1)
    flat, leaf_types = {}, set()
    for nme, r in recs.items():
        flat[nme] = flatten(r)
        for (_p, _o, t, bit, agg) in flat[nme]:
            if not bit and "(anonymous" not in t and "(unnamed" not in t and not (agg and t in recs):
                leaf_types.add(t)
    for t in sorted(leaf_types):
        decls.append("struct %s { %s };" % (mangle(t), member(t, "x")))
        force("struct %s" % mangle(t))
    out2, _ = run(cmd, inc + "\n".join(decls) + "\n")
    recs2 = parse_layouts(out2)
    tsize = {t: recs2["struct " + mangle(t)]["size"] for t in leaf_types if "struct " + mangle(t) in recs2}
    records = {}
    for nme, f in flat.items():
        if nme.startswith("struct calint_") or "(anonymous" in nme or "(unnamed" in nme:
            continue
        fields = []
        for (p, o, t, bit, agg) in f:
            if agg:
                fields.append({"path": p, "offset": o, "size": recs.get(t, {}).get("size", tsize.get(t)), "type": t, "aggregate": True})
            elif bit:
                fields.append({"path": p, "offset": o, "size": None, "type": t, "bits": list(bit)})
            else:
                fields.append({"path": p, "offset": o, "size": tsize.get(t), "type": t})
        records[nme] = {"size": recs[nme]["size"], "align": recs[nme]["align"], "fields": fields}
    for sym, d in maps.items():
        k, v = recs.get("struct calint_mapk__" + sym), recs.get("struct calint_mapv__" + sym)
        d["key_size"] = k["size"] if k else None
        d["value_size"] = v["size"] if v else None
    return {"flags": fl, "records": records, "maps": maps, "struct_names": len(names),
            "front_end_errors": len(re.findall(r"\berror:", err1)),
            "first_errors": [l for l in err1.splitlines() if "error:" in l][:5]}


def main():
    res = {"configs": {}}

    def one(so):
        src, obj = so
        if not os.path.exists(os.path.join(GPL, src)):
            return {"missing": True}
        return analyse(src, obj)
    with ThreadPoolExecutor(max_workers=11) as ex:
        for so, r in zip(PROGRAMS, ex.map(one, PROGRAMS)):
            res["configs"]["%s|%s" % so] = r
    json.dump(res, sys.stdout, indent=1)


if __name__ == "__main__":
    main()
