#!/usr/bin/env python3
"""Regenerates the machine-derived tables of DESIGN.md (between the BEGIN/END GENERATED
markers): per-property rule families as built (from evidence/*.json) and the seeded
changes with which check catches which (from seeded/*/meta.json + eval.json)."""
import glob
import json
import os
import re

here = os.path.dirname(os.path.abspath(__file__))
out = []
out.append("### 8.1 Rule families as built (from the evidence of the last run)\n")
out.append("| Prop | level | obligations | rule families (instances) | fixtures |")
out.append("|---|---|---|---|---|")
reg = {}
try:
    import subprocess
    reg = {r["id"]: r for r in json.loads(subprocess.check_output([os.path.join(here, "bin/calint"), "-list"]))}
except Exception:
    pass
for f in sorted(glob.glob(os.path.join(here, "evidence", "C*.json"))):
    e = json.load(open(f))
    cov = e["coverage"]
    fams = ", ".join("%s (%d)" % (r["id"].split(".", 1)[1], r["count"]) for r in cov.get("rules", []))
    pid = e["property_id"]
    out.append("| %s | %s | %d | %s | %s |" % (pid, e["level"], cov.get("obligations", 0), fams, reg.get(pid, {}).get("fixtures", "")))
out.append("")
out.append("### 8.2 Seeded changes (independent sub-agents; confirmed in a scratch worktree) and what catches them\n")
out.append("| Seed | what it does | needs to manifest | caught by |")
out.append("|---|---|---|---|")
nc = nt = 0
for d in sorted(glob.glob(os.path.join(here, "seeded", "*"))):
    try:
        m = json.load(open(os.path.join(d, "meta.json")))
        ev = json.load(open(os.path.join(d, "eval.json")))
    except Exception:
        continue
    nt += 1
    keys = []
    for p, r in ev.get("static_checks", {}).items():
        keys += r.get("violated", [])
    caught = "; ".join("`%s`" % k for k in keys) if keys else "**missed** (see 8.3)"
    if keys:
        nc += 1

    def short(s, n):
        s = re.sub(r"\s+", " ", str(s)).replace("|", "/")
        return s if len(s) <= n else s[: n - 1] + "…"
    out.append("| %s | %s | %s | %s |" % (os.path.basename(d), short(m.get("summary", ""), 230), short(m.get("needs_to_manifest", ""), 200), caught))
out.append("")
out.append("Caught %d of %d confirmed seeds.\n" % (nc, nt))
out.append("### 8.3 Behaviour-preserving refactors (independent \"maintainer\" sub-agents) — every check must stay at exit 0\n")
out.append("| Refactor | kind | what it changes | checks not at exit 0 (as evaluated when the refactor came in) |")
out.append("|---|---|---|---|")
rn = rb = rnow = 0
for d in sorted(glob.glob(os.path.join(here, "refactors", "*"))):
    try:
        m = json.load(open(os.path.join(d, "meta.json")))
        ev = json.load(open(os.path.join(d, "eval.json")))
    except Exception:
        continue
    rn += 1
    try:
        first = json.load(open(os.path.join(d, "eval_first.json"))).get("non_zero", {})
    except Exception:
        first = ev.get("non_zero", {})
    now = ev.get("non_zero", {})
    if first:
        rb += 1
    if now:
        rnow += 1

    def fmt(bad):
        return "; ".join("%s exit %d" % (p, r["exit"]) for p, r in sorted(bad.items())) or "none"
    res = fmt(first) + (" → now: " + fmt(now) if first else "")
    s1 = re.sub(r"\s+", " ", str(m.get("summary", ""))).replace("|", "/")
    out.append("| %s | %s | %s | %s |" % (os.path.basename(d), str(m.get("kind", "")).replace("|", "/")[:40], s1 if len(s1) <= 200 else s1[:199] + "…", res))
out.append("")
out.append("%d of %d refactors left every check at exit 0 at first evaluation (exit 1 = false violation, exit 2 = broken check); after the repairs described in §12.1, %d of the %d that did not were re-run with the final rules and %d still do not.\n" % (rn - rb, rn, rb, rb, rnow))
text = "\n".join(out)
p = os.path.join(here, "DESIGN.md")
s = open(p).read()
b, e = "<!-- BEGIN GENERATED -->", "<!-- END GENERATED -->"
if b in s and e in s:
    s = s[: s.index(b) + len(b)] + "\n" + text + "\n" + s[s.index(e):]
else:
    s += "\n" + b + "\n" + text + "\n" + e + "\n"
open(p, "w").write(s)
print("DESIGN.md tables regenerated: %d evidence files, %d seeds (%d caught)" % (len(glob.glob(os.path.join(here, 'evidence', 'C*.json'))), nt, nc))
