package main

import (
	"fmt"
	"go/constant"
	"go/token"
	"go/types"
	"reflect"
	"sort"
	"strings"

	"golang.org/x/tools/go/ssa"
)

// Helpers for the tier-flattener families of C30 (emptyset, portspace, combine)
// and the reverse-index family (refidx).

// ===================================================================== E-DEP
//
// c30Back: backward data-dependence slice of an SSA value inside its function.
// A value depends on the operands of the instruction defining it (a call result
// on every argument of the call: callees are opaque), an address-taken local on
// everything stored into it, a free variable on its binding.  In-place effects:
// an object created locally (call result / allocation) that is handed to a call
// as receiver or argument before `at` additionally depends on the other
// arguments of that call (b.InPlaceIntersection(c), set.AddAll(ids)).
// With interproc set, a parameter depends on the matching argument of every
// call of its function inside the given function set.

type c30Back struct {
	seen   map[ssa.Value]bool
	params map[*ssa.Parameter]bool
	fields map[*types.Var][]ssa.Value // struct fields whose value is read on the slice
	calls  []ssa.CallInstruction      // calls whose result is on the slice
	at     ssa.Instruction            // in-place effects count only if they can execute before at (nil: always)
	scope  map[*ssa.Function]bool     // interprocedural parameter → argument steps inside these functions (nil: none)
}

func newC30Back(at ssa.Instruction, scope map[*ssa.Function]bool) *c30Back {
	return &c30Back{seen: map[ssa.Value]bool{}, params: map[*ssa.Parameter]bool{}, fields: map[*types.Var][]ssa.Value{}, at: at, scope: scope}
}

func c30Mutable(t types.Type) bool {
	switch t.Underlying().(type) {
	case *types.Pointer, *types.Slice, *types.Map, *types.Interface:
		return true
	}
	return false
}

func c30CallArgs(ci ssa.CallInstruction) []ssa.Value {
	cc := ci.Common()
	var out []ssa.Value
	if cc.IsInvoke() {
		out = append(out, cc.Value)
	}
	return append(out, cc.Args...)
}

func (s *c30Back) walk(v ssa.Value) {
	if v == nil || s.seen[v] {
		return
	}
	s.seen[v] = true
	switch x := v.(type) {
	case *ssa.Parameter:
		s.params[x] = true
		if s.scope == nil {
			return
		}
		fn := x.Parent()
		idx := -1
		for i, q := range fn.Params {
			if q == x {
				idx = i
			}
		}
		for caller := range s.scope {
			allInstrs(caller, false, func(_ *ssa.Function, in ssa.Instruction) {
				ci, ok := in.(ssa.CallInstruction)
				if !ok || ci.Common().IsInvoke() || calleeFn(ci.Common()) != fn || idx >= len(ci.Common().Args) {
					return
				}
				s.walk(ci.Common().Args[idx])
			})
		}
		return
	case *ssa.FreeVar:
		fn := x.Parent()
		idx := -1
		for i, q := range fn.FreeVars {
			if q == x {
				idx = i
			}
		}
		if par := fn.Parent(); par != nil && idx >= 0 {
			allInstrs(par, false, func(_ *ssa.Function, in ssa.Instruction) {
				if mc, ok := in.(*ssa.MakeClosure); ok && mc.Fn == fn && idx < len(mc.Bindings) {
					s.walk(mc.Bindings[idx])
				}
			})
		}
		return
	case *ssa.Const, *ssa.Global, *ssa.Function, *ssa.Builtin:
		return
	}
	in, isInstr := v.(ssa.Instruction)
	if !isInstr {
		return
	}
	switch x := v.(type) {
	case *ssa.FieldAddr:
		if fv := fieldVar(x); fv != nil && addrIsRead(x) {
			s.fields[fv] = append(s.fields[fv], x)
		}
	case *ssa.Field:
		if fv := fieldVar(x); fv != nil {
			s.fields[fv] = append(s.fields[fv], x)
		}
	case *ssa.Call:
		s.calls = append(s.calls, x)
		if fv := c30GetterField(x); fv != nil {
			s.fields[fv] = append(s.fields[fv], x)
		}
	case *ssa.Alloc:
		s.storesInto(x)
	}
	for _, op := range in.Operands(nil) {
		if *op != nil {
			s.walk(*op)
		}
	}
	// in-place effects on a locally created object
	switch v.(type) {
	case *ssa.Call, *ssa.Alloc, *ssa.MakeSlice, *ssa.MakeMap, *ssa.Phi, *ssa.Extract:
	default:
		return
	}
	if !c30Mutable(v.Type()) || v.Referrers() == nil {
		return
	}
	for _, r := range *v.Referrers() {
		ci, ok := r.(ssa.CallInstruction)
		if !ok || ssa.Instruction(ci) == in {
			continue
		}
		uses := false
		for _, a := range c30CallArgs(ci) {
			if a == v {
				uses = true
			}
		}
		if !uses {
			continue
		}
		if s.at != nil && !instrReaches(ci, s.at) {
			continue
		}
		for _, a := range c30CallArgs(ci) {
			s.walk(a)
		}
	}
}

// c30GetterField: for a call of a generated getter x.GetF() on a struct with a
// field F, that field.
func c30GetterField(call *ssa.Call) *types.Var {
	f := calleeOf(call.Common())
	if f == nil || !strings.HasPrefix(f.Name(), "Get") {
		return nil
	}
	sig := f.Type().(*types.Signature)
	if sig.Recv() == nil || sig.Params().Len() != 0 || sig.Results().Len() != 1 {
		return nil
	}
	st, ok := derefType(sig.Recv().Type()).Underlying().(*types.Struct)
	if !ok {
		return nil
	}
	want := strings.TrimPrefix(f.Name(), "Get")
	for i := 0; i < st.NumFields(); i++ {
		if st.Field(i).Name() == want && types.Identical(st.Field(i).Type(), sig.Results().At(0).Type()) {
			return st.Field(i)
		}
	}
	return nil
}

// storesInto: values stored into an address-taken local (directly or through a
// field / element address derived from it).
func (s *c30Back) storesInto(addr ssa.Value) {
	if addr.Referrers() == nil {
		return
	}
	for _, r := range *addr.Referrers() {
		switch x := r.(type) {
		case *ssa.Store:
			if x.Addr == addr {
				s.walk(x.Val)
			}
		case *ssa.FieldAddr:
			if x.X == addr {
				s.storesInto(x)
			}
		case *ssa.IndexAddr:
			if x.X == addr {
				s.storesInto(x)
			}
		}
	}
}

// ================================================================== emptiness

// c30SizeFact describes what an If edge says about the size of a collection.
type c30SizeFact struct {
	class    string      // "pop": population test; "cap": capacity accessor; "unk": size-like method the table does not know; "": not a size test
	empty    bool        // pop only: on this edge the collection is empty (false: non-empty)
	subjects []ssa.Value // the collection(s) measured
	how      string      // rendering for messages
}

const c30BitsetPkg = "github.com/bits-and-blooms/bitset"

// c30SizeMethod classifies a method by its type-checked identity.
// boolEmpty: for bool methods, the result that means "empty".
func c30SizeMethod(f *types.Func) (class string, isBool, boolEmpty bool, name string) {
	sig, _ := f.Type().(*types.Signature)
	if sig == nil || sig.Recv() == nil || f.Pkg() == nil {
		return "", false, false, ""
	}
	rt := recvTypeName(f)
	name = rt + "." + f.Name()
	if sig.Results().Len() != 1 {
		return "", false, false, name
	}
	res, _ := sig.Results().At(0).Type().Underlying().(*types.Basic)
	if res == nil {
		return "", false, false, name
	}
	isBool = res.Info()&types.IsBoolean != 0
	isInt := res.Info()&types.IsInteger != 0
	pkg := f.Pkg().Path()
	switch {
	case pkg == c30BitsetPkg && rt == "BitSet":
		name = "bitset." + name
		switch f.Name() {
		case "None":
			return "pop", true, true, name
		case "Any":
			return "pop", true, false, name
		case "Count", "IntersectionCardinality":
			return "pop", false, false, name
		case "Len":
			return "cap", false, false, name // number of bits the set can hold, not the number set
		}
		return "", isBool, false, name
	case strings.HasSuffix(pkg, "/lib/std/set") || strings.HasSuffix(pkg, "/libcalico-go/lib/set"):
		if f.Name() == "Len" && isInt {
			return "pop", false, false, name
		}
	}
	if isInt && sig.Params().Len() == 0 {
		return "unk", false, false, name
	}
	return "", isBool, false, name
}

// c30SizeEdge classifies the fact established by cond==pol.
func c30SizeEdge(cond ssa.Value, pol bool) c30SizeFact {
	switch x := cond.(type) {
	case *ssa.Call:
		f := calleeOf(x.Common())
		if f == nil {
			return c30SizeFact{}
		}
		class, isBool, boolEmpty, name := c30SizeMethod(f)
		if class == "pop" && isBool {
			return c30SizeFact{class: "pop", empty: pol == boolEmpty, subjects: c30CallArgs(x), how: name + "()"}
		}
		return c30SizeFact{}
	case *ssa.BinOp:
		// string compared with ""
		if x.Op == token.EQL || x.Op == token.NEQ {
			for _, side := range [][2]ssa.Value{{x.X, x.Y}, {x.Y, x.X}} {
				cv, ok := constOf(side[1])
				if !ok || cv.Kind() != constant.String || constant.StringVal(cv) != "" {
					continue
				}
				if b, isB := side[0].Type().Underlying().(*types.Basic); !isB || b.Info()&types.IsString == 0 {
					continue
				}
				if _, isC := side[0].(*ssa.Const); isC {
					continue
				}
				return c30SizeFact{class: "pop", empty: (x.Op == token.EQL) == pol, subjects: []ssa.Value{side[0]}, how: `== ""`}
			}
		}
		// size(…) op k
		var sz ssa.Value
		var k int64
		op := x.Op
		if cv, ok := constOf(x.Y); ok && cv.Kind() == constant.Int {
			sz = x.X
			k, _ = constant.Int64Val(cv)
		} else if cv, ok := constOf(x.X); ok && cv.Kind() == constant.Int {
			sz = x.Y
			k, _ = constant.Int64Val(cv)
			switch op { // mirror: k op sz  ⇒  sz op' k
			case token.LSS:
				op = token.GTR
			case token.GTR:
				op = token.LSS
			case token.LEQ:
				op = token.GEQ
			case token.GEQ:
				op = token.LEQ
			}
		} else {
			return c30SizeFact{}
		}
		if cv, isConv := sz.(*ssa.Convert); isConv {
			sz = cv.X
		}
		call, ok := sz.(*ssa.Call)
		if !ok {
			return c30SizeFact{}
		}
		fact := c30SizeFact{}
		if bi, isB := call.Call.Value.(*ssa.Builtin); isB {
			switch bi.Name() {
			case "len":
				fact = c30SizeFact{class: "pop", subjects: call.Call.Args, how: "len()"}
			case "cap":
				return c30SizeFact{class: "cap", subjects: call.Call.Args, how: "cap()"}
			default:
				return c30SizeFact{}
			}
		} else {
			f := calleeOf(call.Common())
			if f == nil {
				return c30SizeFact{}
			}
			class, isBool, _, name := c30SizeMethod(f)
			if class == "" || isBool {
				return c30SizeFact{}
			}
			fact = c30SizeFact{class: class, subjects: c30CallArgs(call), how: name + "()"}
			if class != "pop" {
				return fact
			}
		}
		// which sizes n ≥ 0 satisfy (n op k) == pol ?
		holds := func(n int64) bool {
			var r bool
			switch op {
			case token.EQL:
				r = n == k
			case token.NEQ:
				r = n != k
			case token.LSS:
				r = n < k
			case token.LEQ:
				r = n <= k
			case token.GTR:
				r = n > k
			case token.GEQ:
				r = n >= k
			default:
				return false
			}
			return r == pol
		}
		switch {
		case holds(0) && !holds(1) && !holds(2) && !holds(3):
			fact.empty = true
		case !holds(0) && holds(1) && holds(2) && holds(3):
			fact.empty = false
		default:
			return c30SizeFact{}
		}
		fact.how += fmt.Sprintf(" %s %d", op, k)
		return fact
	}
	return c30SizeFact{}
}

// c30ParamsOf: the parameters of fn the subjects of a size fact depend on,
// taking in-place effects before `at` into account.
func c30ParamsOf(subjects []ssa.Value, at ssa.Instruction) map[*ssa.Parameter]bool {
	s := newC30Back(at, nil)
	for _, v := range subjects {
		s.walk(v)
	}
	return s.params
}

// c30RetSite: one way a function returns: the values of its first and last
// result and the instruction whose reachability stands for "this return with
// these values" (the Return itself, or the jump into a merged return block).
type c30RetSite struct {
	at        ssa.Instruction
	res0, err ssa.Value
}

// c30ReturnSites splits the returns of a (T, error) function; returns whose
// results are phis of the return block are expanded per incoming edge.
// ok=false: a shape the expansion does not handle.
func c30ReturnSites(fn *ssa.Function) (sites []c30RetSite, ok bool) {
	for _, r := range returnsOf(fn) {
		if len(r.Results) != 2 {
			return nil, false
		}
		ph, isPhi := r.Results[1].(*ssa.Phi)
		if !isPhi || ph.Block() != r.Block() {
			sites = append(sites, c30RetSite{r, r.Results[0], r.Results[1]})
			continue
		}
		for i, e := range ph.Edges {
			pred := r.Block().Preds[i]
			j, isJump := pred.Instrs[len(pred.Instrs)-1].(*ssa.Jump)
			if !isJump {
				return nil, false
			}
			r0 := r.Results[0]
			if p0, is := r0.(*ssa.Phi); is && p0.Block() == r.Block() {
				r0 = p0.Edges[i]
			}
			if _, nested := e.(*ssa.Phi); nested {
				return nil, false
			}
			sites = append(sites, c30RetSite{j, r0, e})
		}
	}
	return sites, true
}

func c30LoadsGlobal(v ssa.Value, obj types.Object) bool {
	u, ok := v.(*ssa.UnOp)
	if !ok || u.Op != token.MUL {
		return false
	}
	g, ok := u.X.(*ssa.Global)
	return ok && g.Object() == obj
}

// c30DescribeGuards renders the size tests guarding an instruction, for messages.
func c30DescribeGuards(in ssa.Instruction) (desc []string, capacity []string, unknown []string) {
	for _, g := range guardsOf(in) {
		f := c30SizeEdge(g.Cond, g.True)
		switch f.class {
		case "pop":
			what := "non-empty"
			if f.empty {
				what = "empty"
			}
			var subj []string
			for _, sv := range f.subjects {
				subj = append(subj, path(sv))
			}
			desc = append(desc, fmt.Sprintf("%s of %s (%s)", f.how, strings.Join(subj, ", "), what))
		case "cap":
			capacity = append(capacity, f.how)
		case "unk":
			unknown = append(unknown, f.how)
		}
	}
	sort.Strings(desc)
	sort.Strings(capacity)
	sort.Strings(unknown)
	return
}

// ================================================================ combineRules

// c30CombineOutcome is the result of one bounded evaluation of the rule combiner.
type c30CombineOutcome struct {
	isNil            bool
	fields           map[string]any // field name → value of the returned rule
	operandsChanged  []string       // "r1.F" / "r2.F" whose value differs after the call
	returnedOperand  int            // 1/2 if the result is the r1/r2 pointer itself, else 0
	modelledCalls    []string
	unmodelledOpaque []string
}

// c30EvalCombine evaluates fn(r1, r2) over the struct model.  st is the struct
// type of the rules, f1/f2 the field values (by name) of the two operands;
// family are the criterion-intersection helpers, modelled by their contract:
// h("",b)=b, h(a,"")=a, h(a,a)=a, otherwise ("", noOp).
func c30EvalCombine(fn *ssa.Function, st *types.Struct, f1, f2 map[string]any, family map[*ssa.Function][2]int, noOp *ssa.Global) (out c30CombineOutcome, err error) {
	defer func() {
		if r := recover(); r != nil {
			switch e := r.(type) {
			case c30Outside:
				err = e
			case c30Panic:
				err = e
			default:
				err = c30Outside{fmt.Sprintf("evaluator fault: %v", r)}
			}
		}
	}()
	mk := func(vals map[string]any) *c30Arr {
		a := &c30Arr{el: c30Zero(st).(c30StructVal).el}
		for i := 0; i < st.NumFields(); i++ {
			if v, ok := vals[st.Field(i).Name()]; ok {
				a.el[i] = v
			}
		}
		return a
	}
	o1, o2 := mk(f1), mk(f2)
	before1, before2 := append([]any{}, o1.el...), append([]any{}, o2.el...)
	it := &c30Interp{fuel: 20000, opaque: true}
	it.intercept = func(callee *ssa.Function, args []any) ([]any, bool) {
		idx, ok := family[callee]
		if !ok {
			return nil, false
		}
		a, okA := args[idx[0]].(string)
		b, okB := args[idx[1]].(string)
		if !okA || !okB {
			panic(c30Outside{"criterion helper " + fnName(callee) + " called with operands the evaluator does not know"})
		}
		out.modelledCalls = append(out.modelledCalls, fnName(callee))
		switch {
		case a == "":
			return []any{b, c30Nil{}}, true
		case b == "":
			return []any{a, c30Nil{}}, true
		case a == b:
			return []any{a, c30Nil{}}, true
		}
		return []any{"", c30GlobalVal{noOp}}, true
	}
	res := it.run(fn, []any{c30StructPtr{o1}, c30StructPtr{o2}}, 0)
	if len(res) != 1 {
		return out, c30Outside{"result arity"}
	}
	for i := range before1 {
		if !reflect.DeepEqual(before1[i], o1.el[i]) {
			out.operandsChanged = append(out.operandsChanged, "r1."+st.Field(i).Name())
		}
		if !reflect.DeepEqual(before2[i], o2.el[i]) {
			out.operandsChanged = append(out.operandsChanged, "r2."+st.Field(i).Name())
		}
	}
	switch r := res[0].(type) {
	case c30Nil:
		out.isNil = true
	case c30StructPtr:
		out.fields = map[string]any{}
		for i := 0; i < st.NumFields(); i++ {
			out.fields[st.Field(i).Name()] = r.arr.el[i]
		}
		switch r.arr {
		case o1:
			out.returnedOperand = 1
		case o2:
			out.returnedOperand = 2
		}
	default:
		return out, c30Outside{fmt.Sprintf("result is %T", res[0])}
	}
	return out, nil
}
