package main

import (
	"fmt"
	"go/ast"
	"go/token"
	"go/types"
	"strings"

	"golang.org/x/tools/go/ssa"
)

const c42Pkg = "felix/bpf/proxy"

func init() {
	register(&Property{
		ID:        "C42",
		Title:     "BPF service load balancing state is never inconsistent mid-update",
		Technique: "static analysis: who-may-write, SSA dominance ordering with success guards, counter-web provenance (phi/+1 slices), forward avoid-reachability and IPv4/IPv6 twin-arm comparison by produced types (go/ssa over felix/bpf/proxy + felix/bpf/nat)",
		DesignRef: "DESIGN.md §3 C42",
		Explanation: "Decides on Syncer: (writers) the only kernel writes to the NAT frontend and backend maps are four CachingMap calls in Syncer.apply (frontend deletions, backend updates, frontend updates, backend deletions; no ApplyAllChanges, no write through the Dataplane() view); " +
			"(order) backend updates precede frontend updates, frontend deletions and frontend updates precede backend deletions, and the later call is reachable only if the earlier one returned nil; " +
			"(fresh) the desired frontend and backend images are emptied before anything is written into them, so stale entries become deletions; " +
			"(count) in updateService every backend write uses the running counter as its index, is followed on its success path by exactly `counter+1` before the next write or the frontend write, the counter starts at 0 and changes nowhere else, the frontend count/local arguments are those counters, backend writes are guarded by IsReady() of the written endpoint, the local counter is incremented exactly with backend writes guarded by IsLocal(), and no local write can follow a non-local one; " +
			"(derived) every other frontend write takes (id, count, local) from one svcInfo value whose fields were filled from updateService's results for that id; " +
			"(policy) the internal/external-local NAT flags are or-ed in exactly under the service's Internal/ExternalPolicyLocal(); " +
			"(twin) for every Syncer field assigned under both `family == 4` and `family == 6` (the typed frontend/backend/maglev map wrappers whose key/value decoders read the kernel maps back at start-up, and the key/value constructors), " +
			"the function values wired in by the two arms correspond position by position: the concrete nat types the IPv6 arm's function produces (result type, or for interface results the dynamic types its body returns) " +
			"are the IPv6 twin types of those the IPv4 arm's function produces (a type without a twin, or whose twin is an alias, maps to itself) and the IPv4 arm produces no IPv6 twin type - " +
			"otherwise entries loaded from the dataplane are decoded with the other family's layout and stale frontends/backends are never matched, hence never removed.",
		NotDecided: "What CachingMap does inside one Apply* call (batching, error slices), the Maglev LUT map (applied with ApplyAllChanges between the two steps), that eps handed to updateService are the service's endpoints, id allocation/reuse, and writers of the same pinned maps outside felix/bpf/proxy.",
		Assumptions: []string{
			"go/types + go/ssa (x/tools v0.50.0) model of the current source, CGO_ENABLED=0 build",
			"cachingmap.CachingMap: ApplyUpdatesOnly/ApplyDeletionsOnly write exactly the pending updates/deletions of the desired image against the cached dataplane image",
			"k8s proxy Endpoint.IsReady/IsLocal are pure",
		},
		Run: runC42,
		Fixtures: []Fixture{
			{Name: "frontends updated before the backends they count", File: "felix/bpf/proxy/syncer.go",
				Old:    "\terr = s.bpfEps.ApplyUpdatesOnly()\n\tif err != nil {\n\t\treturn err\n\t}\n\terr = s.bpfMaglevEps.ApplyAllChanges()\n\tif err != nil {\n\t\treturn err\n\t}\n\terr = s.bpfSvcs.ApplyUpdatesOnly()\n\tif err != nil {\n\t\treturn err\n\t}\n",
				New:    "\terr = s.bpfSvcs.ApplyUpdatesOnly()\n\tif err != nil {\n\t\treturn err\n\t}\n\terr = s.bpfEps.ApplyUpdatesOnly()\n\tif err != nil {\n\t\treturn err\n\t}\n\terr = s.bpfMaglevEps.ApplyAllChanges()\n\tif err != nil {\n\t\treturn err\n\t}\n",
				Expect: "C42.order/apply/backend.ApplyUpdatesOnly<frontend.ApplyUpdatesOnly"},
			{Name: "failed backend update does not stop the frontend update", File: "felix/bpf/proxy/syncer.go",
				Old: "\terr = s.bpfEps.ApplyUpdatesOnly()\n\tif err != nil {\n\t\treturn err\n\t}\n", New: "\terr = s.bpfEps.ApplyUpdatesOnly()\n\tif err != nil {\n\t\tlog.WithError(err).Warn(\"backends\")\n\t}\n",
				Expect: "C42.order/apply/ok(backend.ApplyUpdatesOnly)=>frontend.ApplyUpdatesOnly"},
			{Name: "backends applied in one step (deletions before frontend updates)", File: "felix/bpf/proxy/syncer.go",
				Old: "\terr = s.bpfEps.ApplyUpdatesOnly()\n", New: "\terr = s.bpfEps.ApplyAllChanges()\n", Expect: "C42.writers/"},
			{Name: "desired backend image not reset: stale backends never removed", File: "felix/bpf/proxy/syncer.go",
				Old: "\ts.bpfEps.Desired().DeleteAll()\n", New: "", Expect: "C42.fresh/apply/backend"},
			{Name: "counter not advanced after a non-local backend write", File: "felix/bpf/proxy/syncer.go",
				Old: "\t\t\tcnt++\n\t\t}\n\n\t\tcpEps = append(cpEps, ep)\n\t}\n\n\tflags := uint32(0)", New: "\t\t}\n\n\t\tcpEps = append(cpEps, ep)\n\t}\n\n\tflags := uint32(0)", Expect: "C42.count/updateService/advance/remote"},
			{Name: "not-ready endpoints written as backends", File: "felix/bpf/proxy/syncer.go",
				Old: "\t\tif ep.IsLocal() {\n\t\t\tcontinue\n\t\t}\n\n\t\t// eps could contain Ready and Terminating pods but only write Ready pods to backend.\n\t\tif ep.IsReady() {", New: "\t\tif ep.IsLocal() {\n\t\t\tcontinue\n\t\t}\n\n\t\t// eps could contain Ready and Terminating pods but only write Ready pods to backend.\n\t\tif ep.IsReady() || ep.IsServing() {", Expect: "C42.count/updateService/ready/remote"},
			{Name: "frontend count is the number of endpoints, not of written backends", File: "felix/bpf/proxy/syncer.go",
				Old: "s.writeSvc(sinfo, id, cnt, local, flags)", New: "s.writeSvc(sinfo, id, len(eps), local, flags)", Expect: "C42.count/updateService/frontend-count"},
			{Name: "derived frontend gets count and local swapped", File: "felix/bpf/proxy/syncer.go",
				Old: "s.writeSvc(sinfo, svc.id, count, local, flags)", New: "s.writeSvc(sinfo, svc.id, local, count, flags)", Expect: "C42.derived/Syncer.applyDerived->Syncer.writeSvc"},
			{Name: "internal-local flag set regardless of policy", File: "felix/bpf/proxy/syncer.go",
				Old: "\tflags := uint32(0)\n\tif sinfo.InternalPolicyLocal() {\n\t\tflags |= nat.NATFlgInternalLocal\n\t}\n\n\tif sinfo.UseMaglev() && maglevEPs != nil {", New: "\tflags := uint32(0)\n\tif sinfo.ExternalPolicyLocal() {\n\t\tflags |= nat.NATFlgInternalLocal\n\t}\n\n\tif sinfo.UseMaglev() && maglevEPs != nil {", Expect: "C42.policy/Syncer.updateService"},
			{Name: "IPv6 frontend map read back with the IPv4 key decoder", File: "felix/bpf/proxy/syncer.go",
				Old: "frontendMap, nat.FrontendKeyV6FromBytes, nat.FrontendValueFromBytes,", New: "frontendMap, nat.FrontendKeyFromBytes, nat.FrontendValueFromBytes,",
				Expect: "C42.twin/NewSyncer/bpfSvcs/FrontendKeyFromBytes"},
			{Name: "IPv6 backend map read back with the IPv4 value decoder", File: "felix/bpf/proxy/syncer.go",
				Old: "backendMap, nat.BackendKeyFromBytes, nat.BackendValueV6FromBytes,", New: "backendMap, nat.BackendKeyFromBytes, nat.BackendValueFromBytes,",
				Expect: "C42.twin/NewSyncer/bpfEps/BackendValueFromBytes"},
			{Name: "IPv4 syncer builds IPv6 source-range frontend keys", File: "felix/bpf/proxy/syncer.go",
				Old: "\t\ts.newFrontendKeySrc = nat.NewNATKeySrcIntf\n", New: "\t\ts.newFrontendKeySrc = nat.NewNATKeyV6SrcIntf\n",
				Expect: "C42.twin/NewSyncer/newFrontendKeySrc"},
		},
	})
	dplinuxFixtureFilter(registry["C42"])
}

type c42 struct {
	c      *Ctx
	p      *Prog
	apply  *ssa.Function
	updSvc *ssa.Function
	funcs  []*ssa.Function
}

// c42Kind classifies a CachingMap / ReadWriteMap instantiation by its key type.
func c42Kind(t types.Type) string {
	for {
		if p, ok := t.(*types.Pointer); ok {
			t = p.Elem()
			continue
		}
		break
	}
	n, ok := types.Unalias(t).(*types.Named)
	if !ok || n.Obj().Pkg() == nil || !strings.HasSuffix(n.Obj().Pkg().Path(), "felix/cachingmap") || n.TypeArgs().Len() < 1 {
		return ""
	}
	switch qualTypeName(n.TypeArgs().At(0)) {
	case "felix/bpf/nat.FrontendKeyInterface":
		return "frontend"
	case "felix/bpf/nat.BackendKey":
		return "backend"
	case "felix/bpf/nat.MaglevBackendKeyInterface":
		return "maglev"
	}
	return ""
}

// c42View: v is the result of CachingMap.Desired()/Dataplane(); returns the view name and kind.
func c42View(v ssa.Value) (view, kind string) {
	call, ok := v.(*ssa.Call)
	if !ok {
		return "", ""
	}
	f := calleeOf(call.Common())
	if f == nil || (f.Name() != "Desired" && f.Name() != "Dataplane") || recvTypeName(f) != "CachingMap" {
		return "", ""
	}
	return f.Name(), c42Kind(call.Common().Args[0].Type())
}

func runC42(c *Ctx) {
	p := c.Load(c42Pkg, "felix/bpf/nat") // nat bodies: concrete types produced by the key/value decoders (C42.twin)
	x := &c42{c: c, p: p}
	x.apply = p.Func(c42Pkg, "Syncer.apply")
	x.updSvc = p.Func(c42Pkg, "Syncer.updateService")
	if x.apply == nil || x.updSvc == nil {
		c.Lost("Syncer.apply / Syncer.updateService")
	}
	for _, m := range []string{"ApplyAllChanges", "ApplyUpdatesOnly", "ApplyDeletionsOnly", "Desired", "Dataplane"} {
		if p.LookupExt("felix/cachingmap", "CachingMap."+m) == nil {
			c.Lost("cachingmap.CachingMap.%s", m)
		}
	}
	for _, f := range p.AllFuncs() {
		if f.Pkg != nil && f.Pkg == p.SSAPkg(c42Pkg) {
			x.funcs = append(x.funcs, f)
		}
	}

	c.Rule("C42.writers", "E-OWN", "kernel-writing calls on the NAT frontend/backend CachingMaps in felix/bpf/proxy are exactly frontend{ApplyDeletionsOnly,ApplyUpdatesOnly} and backend{ApplyUpdatesOnly,ApplyDeletionsOnly}, all in Syncer.apply", 4)
	c.Rule("C42.order", "E-ORDER/E-GUARD", "in Syncer.apply: backend updates < frontend updates; frontend deletions < backend deletions; frontend updates < backend deletions; the later call only after the earlier returned nil", 6)
	c.Rule("C42.fresh", "E-ORDER", "Desired().DeleteAll() of the frontend/backend map dominates every call in Syncer.apply that (transitively) sets entries in that desired image, and its kernel apply calls", 2)
	c.Rule("C42.count", "E-FLOW/E-GUARD", "updateService: backend index = running counter, +1 exactly once after each successful write, frontend count/local = those counters, writes under IsReady(), local counter only with IsLocal() writes, local writes first, returns = written counts", 15)
	c.Rule("C42.derived", "E-FLOW", "every frontend write outside updateService passes (id,count,local) read from one svcInfo whose fields applySvc filled from updateService's results for that id", 3)
	c.Rule("C42.policy", "E-GUARD", "NATFlgInternalLocal/NATFlgExternalLocal are or-ed into frontend flags only under the service's InternalPolicyLocal()/ExternalPolicyLocal()", 3)

	sites := x.writers()
	x.order(sites)
	x.fresh(sites)
	cnt := x.count()
	x.derived(cnt)
	x.policy()

	c.Rule("C42.twin", "E-TWIN", "for every field assigned under both `family == 4` and `family == 6`, the function values wired in by the IPv6 arm produce the IPv6 twin types of what the IPv4 arm's functions produce, position by position", 12)
	c42Twin(x)
}

type c42Site struct {
	kind, method string
	cs           CallSite
}

func (s c42Site) name() string { return s.kind + "." + s.method }

func (x *c42) writers() []c42Site {
	c, p := x.c, x.p
	var sites []c42Site
	for _, f := range x.funcs {
		for _, cs := range callsIn(f, false, func(fn *types.Func) bool { return true }) {
			name := cs.Callee.Name()
			args := cs.Args()
			if len(args) == 0 {
				continue
			}
			if recvTypeName(cs.Callee) == "CachingMap" && strings.HasPrefix(name, "Apply") {
				if k := c42Kind(args[0].Type()); k == "frontend" || k == "backend" {
					sites = append(sites, c42Site{k, name, cs})
				}
				continue
			}
			if name == "Set" || name == "Delete" || name == "DeleteAll" {
				if view, k := c42View(args[0]); view == "Dataplane" && (k == "frontend" || k == "backend") {
					sites = append(sites, c42Site{k, "Dataplane()." + name, cs})
				} else if view == "" && c42Kind(args[0].Type()) != "" && c42Kind(args[0].Type()) != "maglev" {
					c.Undecided("C42.writers/"+fnName(f)+"/"+name, p.Pos(cs.Instr.Pos()), "%s on a cachingmap view that is not the direct result of Desired()/Dataplane()", name)
				}
			}
		}
	}
	allowed := map[string]bool{"frontend.ApplyDeletionsOnly": true, "frontend.ApplyUpdatesOnly": true, "backend.ApplyUpdatesOnly": true, "backend.ApplyDeletionsOnly": true}
	seen := map[string]int{}
	for _, s := range sites {
		key := "C42.writers/" + s.name() + "@" + fnName(s.cs.Fn)
		seen[s.name()]++
		ok := allowed[s.name()] && s.cs.Fn == x.apply && seen[s.name()] == 1
		c.Check(ok, key, p.Pos(s.cs.Instr.Pos()), "one of the four ordered kernel writes in Syncer.apply",
			fmt.Sprintf("%s in %s writes the NAT %s map outside the four-step sequence of Syncer.apply (frontend deletions, backend updates, frontend updates, backend deletions): intermediate states are no longer ordered", s.name(), fnName(s.cs.Fn), s.kind))
	}
	for n := range allowed {
		if seen[n] == 0 {
			c.Violate("C42.writers/"+n+"@Syncer.apply", p.Pos(x.apply.Pos()), "Syncer.apply has no %s call: that step of the four-step update is missing", n)
		}
	}
	return sites
}

func (x *c42) site(sites []c42Site, name string) *c42Site {
	for i := range sites {
		if sites[i].name() == name && sites[i].cs.Fn == x.apply {
			return &sites[i]
		}
	}
	return nil
}

func (x *c42) order(sites []c42Site) {
	c, p := x.c, x.p
	pairs := [][2]string{
		{"backend.ApplyUpdatesOnly", "frontend.ApplyUpdatesOnly"},
		{"frontend.ApplyDeletionsOnly", "backend.ApplyDeletionsOnly"},
		{"frontend.ApplyUpdatesOnly", "backend.ApplyDeletionsOnly"},
	}
	for _, pr := range pairs {
		a, b := x.site(sites, pr[0]), x.site(sites, pr[1])
		k1 := "C42.order/apply/" + pr[0] + "<" + pr[1]
		k2 := "C42.order/apply/ok(" + pr[0] + ")=>" + pr[1]
		if a == nil || b == nil {
			// the backend map may be written by ApplyAllChanges instead: treat as both steps at that site
			c.Violate(k1, p.Pos(x.apply.Pos()), "Syncer.apply lacks %s or %s", pr[0], pr[1])
			c.Violate(k2, p.Pos(x.apply.Pos()), "Syncer.apply lacks %s or %s", pr[0], pr[1])
			continue
		}
		ok := instrDominates(a.cs.Instr, b.cs.Instr) && !instrReaches(b.cs.Instr, a.cs.Instr)
		c.Check(ok, k1, p.Pos(b.cs.Instr.Pos()), pr[0]+" dominates "+pr[1]+" and cannot run after it",
			fmt.Sprintf("in Syncer.apply %s (%s) is not always preceded by %s (%s): a frontend can refer to backends that do not exist (yet / any more)", pr[1], p.Pos(b.cs.Instr.Pos()), pr[0], p.Pos(a.cs.Instr.Pos())))
		res, _ := a.cs.Instr.(*ssa.Call)
		g := res != nil && guardedCut(b.cs.Instr, eqCond(true, func(v ssa.Value) bool { return v == ssa.Value(res) }, isNilConst))
		c.Check(g, k2, p.Pos(b.cs.Instr.Pos()), pr[1]+" only reachable when "+pr[0]+" returned nil",
			fmt.Sprintf("%s is reachable although %s returned an error: the step it depends on may be incomplete", pr[1], pr[0]))
	}
}

// setsDesired computes, for every function, the map kinds whose Desired() image it sets (transitively).
func (x *c42) setsDesired() map[*ssa.Function]map[string]bool {
	sum := map[*ssa.Function]map[string]bool{}
	for _, f := range x.funcs {
		for _, cs := range callsIn(f, false, func(fn *types.Func) bool { return fn.Name() == "Set" }) {
			if view, k := c42View(cs.Args()[0]); view == "Desired" && k != "" {
				if sum[f] == nil {
					sum[f] = map[string]bool{}
				}
				sum[f][k] = true
			}
		}
	}
	for changed := true; changed; {
		changed = false
		for _, f := range x.funcs {
			allInstrs(f, false, func(_ *ssa.Function, in ssa.Instruction) {
				var callees []*ssa.Function
				if ci, ok := in.(ssa.CallInstruction); ok {
					if sf := calleeFn(ci.Common()); sf != nil {
						callees = append(callees, sf)
					}
				}
				if mc, ok := in.(*ssa.MakeClosure); ok {
					callees = append(callees, mc.Fn.(*ssa.Function))
				}
				for _, sf := range callees {
					for k := range sum[sf] {
						if sum[f] == nil {
							sum[f] = map[string]bool{}
						}
						if !sum[f][k] {
							sum[f][k] = true
							changed = true
						}
					}
				}
			})
		}
	}
	return sum
}

func (x *c42) fresh(sites []c42Site) {
	c, p := x.c, x.p
	sum := x.setsDesired()
	for _, kind := range []string{"frontend", "backend"} {
		key := "C42.fresh/apply/" + kind
		var resets []ssa.Instruction
		for _, cs := range callsIn(x.apply, false, func(fn *types.Func) bool { return fn.Name() == "DeleteAll" }) {
			if view, k := c42View(cs.Args()[0]); view == "Desired" && k == kind {
				resets = append(resets, cs.Instr)
			}
		}
		if len(resets) == 0 {
			c.Violate(key, p.Pos(x.apply.Pos()), "Syncer.apply never empties the desired %s image (Desired().DeleteAll()): entries of services/endpoints that no longer exist stay desired and are never deleted from the map", kind)
			continue
		}
		dominated := func(in ssa.Instruction) bool {
			for _, r := range resets {
				if instrDominates(r, in) && !instrReaches(in, r) {
					return true
				}
			}
			return false
		}
		bad := ""
		n := 0
		allInstrs(x.apply, false, func(_ *ssa.Function, in ssa.Instruction) {
			ci, ok := in.(ssa.CallInstruction)
			if !ok {
				return
			}
			if sf := calleeFn(ci.Common()); sf != nil && sum[sf][kind] {
				n++
				if !dominated(in) {
					bad = fmt.Sprintf("call of %s at %s fills the desired %s image but is not preceded by its DeleteAll()", fnName(sf), p.Pos(in.Pos()), kind)
				}
			}
		})
		for _, s := range sites {
			if s.kind == kind && s.cs.Fn == x.apply {
				n++
				if !dominated(s.cs.Instr) {
					bad = fmt.Sprintf("%s at %s is not preceded by Desired().DeleteAll()", s.name(), p.Pos(s.cs.Instr.Pos()))
				}
			}
		}
		if n == 0 {
			c.Lost("no call in Syncer.apply fills the desired %s image", kind)
		}
		c.Check(bad == "", key, p.Pos(resets[0].Pos()), fmt.Sprintf("Desired().DeleteAll() precedes all %d filling/applying call(s)", n), bad)
	}
}

// ------------------------------------------------------------------- count --

// c42Web: the set of SSA values connected to root through phi edges and X+const
// additions; returns the adds and the non-phi/non-add leaves.
func c42Web(root ssa.Value) (web map[ssa.Value]bool, adds []*ssa.BinOp, leaves []ssa.Value) {
	web = map[ssa.Value]bool{}
	var walk func(v ssa.Value)
	walk = func(v ssa.Value) {
		if web[v] {
			return
		}
		switch y := v.(type) {
		case *ssa.Phi:
			web[v] = true
			for _, e := range y.Edges {
				walk(e)
			}
		case *ssa.BinOp:
			if y.Op == token.ADD {
				if _, isConst := y.Y.(*ssa.Const); isConst {
					web[v] = true
					adds = append(adds, y)
					walk(y.X)
					return
				}
			}
			leaves = append(leaves, v)
		default:
			leaves = append(leaves, v)
		}
	}
	walk(root)
	return
}

// c42AvoidReach: is there a CFG path from just after `from` to any instruction in
// targets that passes no instruction in stops?  (Return blocks end paths.)
func c42AvoidReach(from ssa.Instruction, stops map[ssa.Instruction]bool, targets map[ssa.Instruction]bool) ssa.Instruction {
	// scan the rest of from's block, then successors
	scan := func(b *ssa.BasicBlock, start int) (hit ssa.Instruction, stopped bool) {
		for i := start; i < len(b.Instrs); i++ {
			in := b.Instrs[i]
			if stops[in] {
				return nil, true
			}
			if targets[in] {
				return in, false
			}
		}
		return nil, false
	}
	if hit, stopped := scan(from.Block(), instrIndex(from)+1); hit != nil {
		return hit
	} else if stopped {
		return nil
	}
	seen := map[*ssa.BasicBlock]bool{}
	st := append([]*ssa.BasicBlock{}, from.Block().Succs...)
	for len(st) > 0 {
		b := st[len(st)-1]
		st = st[:len(st)-1]
		if seen[b] {
			continue
		}
		seen[b] = true
		hit, stopped := scan(b, 0)
		if hit != nil {
			return hit
		}
		if stopped {
			continue
		}
		st = append(st, b.Succs...)
	}
	return nil
}

type c42Counts struct {
	idParam    ssa.Value
	count, loc ssa.Value // values passed to the frontend write and returned
}

func (x *c42) count() *c42Counts {
	c, p, fn := x.c, x.p, x.updSvc
	wb := p.Func(c42Pkg, "Syncer.writeSvcBackend")
	ws := p.Func(c42Pkg, "Syncer.writeSvc")
	if wb == nil || ws == nil {
		c.Lost("Syncer.writeSvcBackend / Syncer.writeSvc")
	}
	// parameter roles of the two helpers, derived from how they build keys/values
	wbID, wbIdx := x.paramsFeeding(wb, "felix/bpf/nat", "NewNATBackendKey", 0), x.paramsFeeding(wb, "felix/bpf/nat", "NewNATBackendKey", 1)
	wsID, wsCnt, wsLoc := x.paramsFeeding(ws, "felix/bpf/nat", "NewNATValueWithFlags", 0), x.paramsFeeding(ws, "felix/bpf/nat", "NewNATValueWithFlags", 1), x.paramsFeeding(ws, "felix/bpf/nat", "NewNATValueWithFlags", 2)
	if wbID < 0 || wbIdx < 0 || wsID < 0 || wsCnt < 0 || wsLoc < 0 {
		c.Lost("parameter roles of writeSvcBackend (NewNATBackendKey) / writeSvc (NewNATValueWithFlags)")
	}
	wbEp := -1
	for i, prm := range wb.Params {
		if qualTypeName(prm.Type()) == "k8s.io/kubernetes/pkg/proxy.Endpoint" {
			wbEp = i
		}
	}
	if wbEp < 0 {
		c.Lost("writeSvcBackend has no k8s proxy Endpoint parameter")
	}
	var writes []*ssa.Call
	var front []*ssa.Call
	allInstrs(fn, false, func(_ *ssa.Function, in ssa.Instruction) {
		if call, ok := in.(*ssa.Call); ok {
			switch calleeFn(call.Common()) {
			case wb:
				writes = append(writes, call)
			case ws:
				front = append(front, call)
			}
		}
	})
	site := p.Pos(fn.Pos())
	if len(front) != 1 || len(writes) == 0 {
		c.Lost("updateService: expected one writeSvc call and >=1 writeSvcBackend calls, found %d/%d", len(front), len(writes))
	}
	F := front[0]
	cntV, locV, idV := F.Call.Args[wsCnt], F.Call.Args[wsLoc], F.Call.Args[wsID]
	cweb, cadds, cleaves := c42Web(cntV)
	lweb, ladds, lleaves := c42Web(locV)
	_ = lweb

	// counter webs start at 0 and only step by +1
	okWeb := func(adds []*ssa.BinOp, leaves []ssa.Value) string {
		for _, l := range leaves {
			if !c42IsConstInt(l, 0) {
				return "it can take the value " + path(l) + " which is neither 0 nor counter+1"
			}
		}
		for _, a := range adds {
			if !c42IsConstInt(a.Y, 1) {
				return "it is stepped by " + path(a.Y)
			}
		}
		if len(adds) == 0 {
			return "it is never incremented"
		}
		return ""
	}
	why := okWeb(cadds, cleaves)
	c.Check(why == "", "C42.count/updateService/frontend-count", p.Pos(F.Pos()), "the count written to the frontend is a counter that starts at 0 and is only stepped by +1",
		"the count argument of the frontend write ("+path(cntV)+") is not the backend counter: "+why)
	why = okWeb(ladds, lleaves)
	c.Check(why == "", "C42.count/updateService/frontend-local", p.Pos(F.Pos()), "the local count written to the frontend is a counter that starts at 0 and is only stepped by +1",
		"the local argument of the frontend write ("+path(locV)+") is not the local-backend counter: "+why)

	targets := map[ssa.Instruction]bool{F: true}
	for _, w := range writes {
		targets[w] = true
	}
	usedAdd := map[*ssa.BinOp]bool{}
	usedLAdd := map[*ssa.BinOp]bool{}
	localOf := map[*ssa.Call]string{}
	for _, w := range writes {
		ep := w.Call.Args[wbEp]
		isLocalCall := func(want bool) EdgePred {
			return callCond(want, func(cs CallSite) bool {
				return cs.Callee != nil && cs.Callee.Name() == "IsLocal" && len(cs.Args()) == 1 && cs.Args()[0] == ep
			})
		}
		role := "unclassified"
		if guardedCut(w, isLocalCall(true)) {
			role = "local"
		} else if guardedCut(w, isLocalCall(false)) {
			role = "remote"
		}
		localOf[w] = role
		wsite := p.Pos(w.Pos())
		// same service id as the frontend
		c.Check(w.Call.Args[wbID] == idV, "C42.count/updateService/id/"+role, wsite, "backend written under the id the frontend is written with",
			"backend written under id "+path(w.Call.Args[wbID])+" but the frontend under "+path(idV))
		// ready guard on the written endpoint
		ready := guardedCut(w, callCond(true, func(cs CallSite) bool {
			return cs.Callee != nil && cs.Callee.Name() == "IsReady" && len(cs.Args()) == 1 && cs.Args()[0] == ep
		}))
		c.Check(ready, "C42.count/updateService/ready/"+role, wsite, "backend write guarded by IsReady() of the written endpoint",
			"backend write of "+path(ep)+" is reachable without "+path(ep)+".IsReady(): a frontend would list endpoints that are not ready")
		// index is the counter
		idx := c44Strip(w.Call.Args[wbIdx])
		c.Check(cweb[idx], "C42.count/updateService/index/"+role, wsite, "backend index is the running counter",
			"backend index "+path(idx)+" is not the counter that becomes the frontend's count: indices and count can disagree")
		// advance: on the success path counter+1 happens before the next write / the frontend write
		stops := map[ssa.Instruction]bool{}
		for _, a := range cadds {
			if a.X == idx && guardedCut(a, eqCond(true, func(v ssa.Value) bool { return v == ssa.Value(w) }, isNilConst)) && instrDominates(w, a) {
				stops[a] = true
				usedAdd[a] = true
			}
		}
		hit := c42AvoidReach(w, stops, targets)
		// the error return path leaves the function: AvoidReach only follows CFG edges, returns have no successors
		c.Check(hit == nil, "C42.count/updateService/advance/"+role, wsite, "after a successful backend write the counter is advanced before any further backend or frontend write",
			fmt.Sprintf("after the backend write at %s the counter %s can reach %s without `+1`: two backends would share an index or the frontend count would miss a backend", wsite, path(idx), p.Pos(posOf(hit))))
		// local counter
		lstops := map[ssa.Instruction]bool{}
		for _, a := range ladds {
			if instrDominates(w, a) && guardedCut(a, eqCond(true, func(v ssa.Value) bool { return v == ssa.Value(w) }, isNilConst)) {
				lstops[a] = true
				if role == "local" {
					usedLAdd[a] = true
				}
			}
		}
		switch role {
		case "local":
			lh := c42AvoidReach(w, lstops, targets)
			c.Check(lh == nil, "C42.count/updateService/local-advance", wsite, "a local backend write advances the local counter",
				"after the local backend write the local counter is not advanced before the next write: the frontend's local count would miss a local backend")
		case "remote":
			c.Check(len(lstops) == 0, "C42.count/updateService/local-advance/remote", wsite, "a non-local backend write does not advance the local counter",
				"the local counter is advanced after a backend write guarded by !IsLocal()")
		default:
			c.Violate("C42.count/updateService/local-advance/unclassified", wsite, "backend write of %s is guarded neither by IsLocal() nor by !IsLocal(): local backends are not guaranteed to occupy the first `local` indices", path(ep))
		}
	}
	// every +1 belongs to a write
	stray := ""
	for _, a := range cadds {
		if !usedAdd[a] {
			stray = "counter stepped at " + p.Pos(a.Pos()) + " without a preceding successful backend write at that index"
		}
	}
	for _, a := range ladds {
		if !usedLAdd[a] {
			stray = "local counter stepped at " + p.Pos(a.Pos()) + " without a preceding successful local backend write"
		}
	}
	c.Check(stray == "", "C42.count/updateService/no-stray-step", site, "every counter step follows a successful backend write", stray+": the count would exceed the number of backends written")
	// local first
	lf := ""
	for _, a := range writes {
		for _, b := range writes {
			if localOf[a] == "local" && localOf[b] != "local" && instrReaches(b, a) {
				lf = fmt.Sprintf("the local backend write at %s can execute after the non-local one at %s", p.Pos(a.Pos()), p.Pos(b.Pos()))
			}
		}
	}
	c.Check(lf == "", "C42.count/updateService/local-first", site, "no local backend write is reachable from a non-local one", lf+": local backends would not be the first `local` entries")
	// returns
	rbad := ""
	nret := 0
	for _, r := range returnsOf(fn) {
		if len(r.Results) != 3 {
			c.Lost("updateService result arity")
		}
		if !isNilConst(r.Results[2]) {
			continue
		}
		nret++
		if r.Results[0] != cntV || r.Results[1] != locV {
			rbad = fmt.Sprintf("the successful return at %s yields (%s,%s), not the (%s,%s) written to the frontend", p.Pos(r.Pos()), path(r.Results[0]), path(r.Results[1]), path(cntV), path(locV))
		}
		if !instrDominates(F, r) {
			rbad = fmt.Sprintf("the successful return at %s is not preceded by the frontend write", p.Pos(r.Pos()))
		}
	}
	if nret == 0 {
		c.Lost("updateService has no successful return")
	}
	c.Check(rbad == "", "C42.count/updateService/returns", site, "successful returns yield the (count, local) written to the frontend", rbad)
	return &c42Counts{idParam: idV, count: cntV, loc: locV}
}

func posOf(in ssa.Instruction) token.Pos {
	if in == nil {
		return token.NoPos
	}
	return in.Pos()
}

// paramsFeeding: index (in fn.Params) of the parameter that, through conversions,
// is argument #arg of the call to pkg.name inside fn; -1 if none/ambiguous.
func (x *c42) paramsFeeding(fn *ssa.Function, pkg, name string, arg int) int {
	res := -1
	for _, cs := range callsIn(fn, false, func(f *types.Func) bool { return isFunc(f, pkg, name) }) {
		a := cs.Common().Args
		if arg >= len(a) {
			return -1
		}
		v := c44Strip(a[arg])
		for i, prm := range fn.Params {
			if v == ssa.Value(prm) {
				if res >= 0 && res != i {
					return -1
				}
				res = i
			}
		}
	}
	return res
}

// ----------------------------------------------------------------- derived --

func (x *c42) derived(cnt *c42Counts) {
	c, p := x.c, x.p
	applySvc := p.Func(c42Pkg, "Syncer.applySvc")
	if applySvc == nil {
		c.Lost("Syncer.applySvc")
	}
	// roles of svcInfo fields, from the literal applySvc stores after updateService
	var upd *ssa.Call
	allInstrs(applySvc, false, func(_ *ssa.Function, in ssa.Instruction) {
		if call, ok := in.(*ssa.Call); ok && calleeFn(call.Common()) == x.updSvc {
			upd = call
		}
	})
	if upd == nil {
		c.Lost("applySvc does not call updateService")
	}
	idPos := -1
	for i, prm := range x.updSvc.Params {
		if ssa.Value(prm) == cnt.idParam {
			idPos = i
		}
	}
	if idPos < 0 {
		c.Lost("updateService: id passed to the frontend write is not a parameter")
	}
	idArg := upd.Call.Args[idPos]
	var fID, fCnt, fLoc *types.Var
	allInstrs(applySvc, false, func(_ *ssa.Function, in ssa.Instruction) {
		st, ok := in.(*ssa.Store)
		if !ok {
			return
		}
		fa, ok := st.Addr.(*ssa.FieldAddr)
		if !ok {
			return
		}
		fv := structField(fa.X.Type(), fa.Field)
		if ex, ok := st.Val.(*ssa.Extract); ok && ex.Tuple == ssa.Value(upd) {
			switch ex.Index {
			case 0:
				fCnt = fv
			case 1:
				fLoc = fv
			}
		} else if st.Val == idArg {
			fID = fv
		}
	})
	if fID == nil || fCnt == nil || fLoc == nil {
		c.Lost("applySvc: svcInfo fields filled from updateService's (id, count, local) not found (%v,%v,%v)", fID, fCnt, fLoc)
	}
	c.Ok("C42.derived/applySvc/record", p.Pos(upd.Pos()), "applySvc records id->%s, count->%s, local->%s", fID.Name(), fCnt.Name(), fLoc.Name())
	// frontend writers: Syncer methods feeding NewNATValueWithFlags(id,count,local,…) from parameters
	n := 0
	for _, w := range p.methodsOf(c42Pkg, "Syncer") {
		pi, pc, pl := x.paramsFeeding(w, "felix/bpf/nat", "NewNATValueWithFlags", 0), x.paramsFeeding(w, "felix/bpf/nat", "NewNATValueWithFlags", 1), x.paramsFeeding(w, "felix/bpf/nat", "NewNATValueWithFlags", 2)
		if pi < 0 || pc < 0 || pl < 0 {
			continue
		}
		for _, f := range x.funcs {
			if f == x.updSvc {
				continue // covered by C42.count
			}
			allInstrs(f, false, func(_ *ssa.Function, in ssa.Instruction) {
				call, ok := in.(*ssa.Call)
				if !ok || calleeFn(call.Common()) != w {
					return
				}
				n++
				key := "C42.derived/" + fnName(f) + "->" + fnName(w)
				a := call.Call.Args
				base := func(v ssa.Value, want *types.Var) ssa.Value {
					v = c44Strip(v)
					if fld, ok := v.(*ssa.Field); ok && structField(fld.X.Type(), fld.Field) == want {
						return fld.X
					}
					if b := c44FieldLoad(v, want); b != nil {
						return b
					}
					return nil
				}
				bi, bc, bl := base(a[pi], fID), base(a[pc], fCnt), base(a[pl], fLoc)
				ok = bi != nil && bi == bc && bc == bl
				c.Check(ok, key, p.Pos(call.Pos()),
					fmt.Sprintf("(id,count,local) are %s.{%s,%s,%s}", path(bi), fID.Name(), fCnt.Name(), fLoc.Name()),
					fmt.Sprintf("frontend write gets (id,count,local) = (%s, %s, %s), which are not the {%s,%s,%s} fields of one recorded svcInfo: the frontend's count would not match the backends stored under its id", path(a[pi]), path(a[pc]), path(a[pl]), fID.Name(), fCnt.Name(), fLoc.Name()))
			})
		}
	}
	if n == 0 {
		c.Lost("no frontend write outside updateService")
	}
}

// ------------------------------------------------------------------ policy --

func (x *c42) policy() {
	c, p := x.c, x.p
	flagsOf := map[string]string{"NATFlgInternalLocal": "InternalPolicyLocal", "NATFlgExternalLocal": "ExternalPolicyLocal"}
	// positions of `x |= nat.C` / `x | nat.C`, resolved through the type checker
	orPos := map[token.Pos]string{}
	for cname := range flagsOf {
		if _, ok := p.LookupExt("felix/bpf/nat", cname).(*types.Const); !ok {
			c.Lost("nat.%s", cname)
		}
	}
	pk := p.Pkg(c42Pkg)
	isFlag := func(e ast.Expr) string {
		var id *ast.Ident
		switch y := ast.Unparen(e).(type) {
		case *ast.Ident:
			id = y
		case *ast.SelectorExpr:
			id = y.Sel
		}
		if id == nil {
			return ""
		}
		if k, ok := pk.TypesInfo.Uses[id].(*types.Const); ok && k.Pkg() != nil && strings.HasSuffix(k.Pkg().Path(), "felix/bpf/nat") && flagsOf[k.Name()] != "" {
			return k.Name()
		}
		return ""
	}
	for _, file := range pk.Syntax {
		ast.Inspect(file, func(nd ast.Node) bool {
			switch y := nd.(type) {
			case *ast.AssignStmt:
				if y.Tok == token.OR_ASSIGN && len(y.Rhs) == 1 {
					if nm := isFlag(y.Rhs[0]); nm != "" {
						orPos[y.Pos()] = nm // go/ssa positions op-assignments at the statement start
					}
				}
			case *ast.BinaryExpr:
				if y.Op == token.OR {
					for _, e := range []ast.Expr{y.X, y.Y} {
						if nm := isFlag(e); nm != "" {
							orPos[y.OpPos] = nm
						}
					}
				}
			}
			return true
		})
	}
	n := 0
	for _, f := range x.funcs {
		allInstrs(f, false, func(_ *ssa.Function, in ssa.Instruction) {
			bo, ok := in.(*ssa.BinOp)
			if !ok || bo.Op != token.OR {
				return
			}
			cname := orPos[bo.Pos()]
			if cname == "" {
				return
			}
			pred := flagsOf[cname]
			n++
			g := guardedCut(in, callCond(true, func(cs CallSite) bool { return cs.Callee != nil && cs.Callee.Name() == pred }))
			c.Check(g, "C42.policy/"+fnName(f)+"/"+cname, p.Pos(in.Pos()), cname+" or-ed in only under "+pred+"()",
				cname+" is or-ed into the frontend flags without "+pred+"() being true: traffic would be restricted to (or not restricted to) local backends against the service's traffic policy")
		})
	}
	if n != len(orPos) {
		c.Lost("%d source uses of NATFlg*Local in |, %d found in SSA", len(orPos), n)
	}
	if n == 0 {
		c.Lost("no use of NATFlgInternalLocal/NATFlgExternalLocal in Syncer")
	}
}
