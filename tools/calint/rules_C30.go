package main

import (
	"fmt"
	"go/constant"
	"go/token"
	"go/types"
	"os"
	"reflect"
	"sort"
	"strings"

	"golang.org/x/tools/go/ssa"
)

const (
	c30PSPkg   = "felix/dataplane/windows/policysets"
	c30WinPkg  = "felix/dataplane/windows"
	c30HnsPkg  = "felix/dataplane/windows/hns"
	c30Proto   = "felix/proto"
	c30PSGo    = "felix/dataplane/windows/policysets/policysets.go"
	c30PMgrGo  = "felix/dataplane/windows/policy_mgr.go"
	c30FlatGo  = "felix/dataplane/windows/flattener.go"
	c30RuleFn  = "PolicySets.protoRuleToHnsRules"
	c30RulesFn = "PolicySets.protoRulesToHnsRules"
)

func init() {
	register(&Property{
		ID:        "C30",
		Title:     "Windows rule flattening preserves policy verdicts for supported rules",
		Technique: "static analysis: go/types field universe of proto.Rule, SSA reject-edge analysis (positive test ⇒ only ErrNotSupported returns), field-/context-/branch-sensitive backward provenance slicing of hns.ACLPolicy fields per direction, phi-closure analysis of the priority counter, bounded evaluation of the SSA of the list chunkers (all lengths 0..3k+1, sizes 1..4), backward pointer-provenance of the rules handed out of the policy-set cache; tier flattener: cut-set guard analysis of the criterion-intersection helpers with a type-checked table of population vs capacity accessors and a data-dependence slice (incl. in-place effects) of the tested value, go/constant value of the port bitset capacity, bounded evaluation of the SSA of the rule combiner over a struct model per criterion field (helpers modelled by contract); reverse index: backward slice from IPSetCache.GetIPSetMembers to proto.Rule fields vs fields read by the producers of policySet.IpSetIds",
		DesignRef: "DESIGN.md §3 C30",
		Explanation: "Decides structural necessary conditions on felix/dataplane/windows/policysets: " +
			"(unsupported) the match-field universe of proto.Rule is computed from the generated struct; every Not* field is rejected: a positive test of it (len>0 / !=nil) leads only to `return true` in a bool helper whose true result leads only to returns of ErrNotSupported in protoRuleToHnsRules; " +
			"every other match field is either rejected the same way (ICMP, named-port IP sets) or consumed (it reaches a match field of the generated hns.ACLPolicy), except the application-layer fields listed with a reason; " +
			"(dir) under isInbound the generated rules' RemoteAddresses/RemotePorts derive from the rule's source nets/IP sets/ports of Policy/Profile.InboundRules and LocalAddresses/LocalPorts from the destination ones, Direction is the constant In; mirrored (OutboundRules, Out) otherwise; Protocol derives from Rule.Protocol; nothing else reaches these fields; " +
			"(prio) in GetPolicySetRules the priority written into each copied rule comes from a counter that starts at PolicyRuleBasePriority, only ever grows, is bumped on every edge where the previous rule's Action differs from the next rule's Action, and the end-of-tier rule gets a strictly larger priority; " +
			"(ids) the policy manager uses the same id function and prefix for update and remove of policies / profiles and skips staged policies on both; " +
			"(emptyset) in the flattener's criterion-intersection helpers (combinePorts, combineCIDRs: every func(a, b T) (T, error) of the package reached from the rule combiner that can return ErrRuleIsNoOp) every return of ErrRuleIsNoOp lies behind a population test (BitSet.None/!Any/Count==0, len()==0, ==\"\" — resolved through the type checker; BitSet.Len and cap are capacity accessors and do not count) of a value that depends on both operands, a computed criterion is returned with nil error only behind the opposite test, and an operand is returned unchanged only where the other operand is empty (F20); " +
			"(portspace) the constant capacity of every bitset created for port lists is ≥ 65537, so bit 65536 is a clear sentinel and the end-of-range search cannot fail (F21); " +
			"(combine) the rule combiner, evaluated for each match-criterion field of ACLPolicy that the rule generators write (Protocol with its 'any' value taken from NewRule, the address and port lists with \"\" as any) on any/any, x/any, any/x, x/x, x/y, y/x, returns the intersection, nil for different specific values, leaves other criteria alone, keeps the next-tier rule's Action and does not modify its operands; " +
			"(refidx) every proto.Rule field whose ids reach IPSetCache.GetIPSetMembers is read by the functions building the reverse index policySet.IpSetIds, and every rule list rendered into policySet.Members is handed to them.",
		NotDecided: "the criterion-intersection helpers beyond the three structural conditions (that combinePorts renders every set bit as a range, that IntersectCIDRs is an intersection; the combiner is checked against their contract, not their bodies); port numbers above 65535 in a rule string; that flattenTiers applies the combiner to every pass rule × next-tier rule in order; rewritePriorities; " +
			"HNS's own evaluation order for equal priorities; that intersecting CIDRs with IP-set members preserves the match set (IntersectCIDRs); the chunkers beyond the evaluated bound (lengths up to 13, sizes up to 4 — the arithmetic is uniform in both, but this is a small-scope argument, not a proof) and that the four nested loops really form the cross product of the chunks; the static ACL rules (PolicySets.staticACLRules) are handed out uncopied — harmless today only because their action is validated to be Allow/Block and rewritePriorities overwrites every priority; uint16 overflow of the priority; " +
			"the action mapping allow/deny/pass (control dependence); DstIpPortSetIds are written to the Remote side in both directions — correct only because the API validator restricts destination service matches to egress rules (assumption); " +
			"HttpMatch and Src/DstServiceAccountMatch are neither consumed nor rejected on Windows (listed exemption: L7 criteria that no Felix dataplane enforces in the kernel; service-account matches are additionally folded into the selector IP sets).",
		Assumptions: []string{
			"go/types + go/ssa (x/tools v0.50.0) model of the current source, GOOS=linux build of the untagged Windows packages",
			"data dependence only: opaque callees (strings.Join, fmt.Sprintf, iputils.IntersectCIDRs, IPSetCache.GetIPSetMembers, proto.Clone) derive their result from all their arguments and nothing else",
			"API validation admits destination service matches (DstIpPortSetIds) only in egress rules",
			"logrus Panic* does not return",
			"bits-and-blooms/bitset: None/Any/Count/IntersectionCardinality measure the set bits, Len the capacity; New(n) gives bits 0..n-1 and Set only grows the set to the bit set; ports in rule strings are ≤ 65535",
			"contract of a criterion-intersection helper h used when evaluating the combiner: h(\"\",b)=b, h(a,\"\")=a, h(a,a)=a, otherwise (\"\", ErrRuleIsNoOp); package-level error sentinels are non-nil and never reassigned",
			"the SSA evaluator's model of ints, slices (shared backing arrays, append in place when capacity allows), min/max/len/cap/append/copy",
		},
		Run: runC30,
		Fixtures: []Fixture{
			{Name: "NotSrcIpSetIds no longer counts as a negative match", File: c30PSGo,
				Old: "if len(pRule.NotSrcIpSetIds) > 0 || len(pRule.NotDstIpSetIds) > 0 {", New: "if len(pRule.NotDstIpSetIds) > 0 {", Expect: "C30.unsupported/Rule.NotSrcIpSetIds"},
			{Name: "negative protocol match inverted to 'no negative match'", File: c30PSGo,
				Old: "\tif pRule.NotProtocol != nil {\n\t\treturn true\n\t}", New: "\tif pRule.NotProtocol != nil {\n\t\treturn false\n\t}", Expect: "C30.unsupported/Rule.NotProtocol"},
			{Name: "rules with negative matches are rendered anyway", File: c30PSGo,
				Old: "\t\tlog.WithField(\"rule\", pRule).Info(\"Skipping rule because it contains negative matches (currently unsupported).\")\n\t\treturn nil, ErrNotSupported\n", New: "\t\tlog.WithField(\"rule\", pRule).Info(\"Skipping rule because it contains negative matches (currently unsupported).\")\n", Expect: "C30.unsupported/Rule.Not"},
			{Name: "ICMP rules rendered without the ICMP match", File: c30PSGo,
				Old: "\tif pRule.Icmp != nil {", New: "\tif pRule.Icmp != nil && false {", Expect: "C30.unsupported/Rule.Icmp"},
			{Name: "source IP sets ignored", File: c30PSGo,
				Old: "\tif len(ruleCopy.SrcIpSetIds) > 0 {\n\t\tipsetAddresses, err := s.getIPSetAddresses(ruleCopy.SrcIpSetIds)", New: "\tif len(ruleCopy.SrcIpSetIds) > 0 && false {\n\t\tipsetAddresses, err := s.getIPSetAddresses(ruleCopy.DstIpSetIds)", Expect: "C30.unsupported/Rule.SrcIpSetIds"},
			{Name: "source addresses become local addresses for inbound rules", File: c30PSGo,
				Old: "\t\tif isInbound {\n\t\t\tremoteAddresses = srcAddresses", New: "\t\tif !isInbound {\n\t\t\tremoteAddresses = srcAddresses", Expect: "C30.dir/inbound/RemoteAddresses"},
			{Name: "port direction mapping flipped", File: c30PSGo,
				Old: "\t// assign src/dstPortsChunks based on traffic direction\n\tif isInbound {", New: "\t// assign src/dstPortsChunks based on traffic direction\n\tif !isInbound {", Expect: "C30.dir/outbound/LocalPorts"},
			{Name: "outbound rules converted as inbound", File: c30PSGo,
				Old: "s.protoRulesToHnsRules(policyId, outboundRules, false)", New: "s.protoRulesToHnsRules(policyId, outboundRules, true)", Expect: "C30.dir/outbound/"},
			{Name: "new rules always get direction Out", File: c30PSGo,
				Old: "func (s *PolicySets) NewRule(isInbound bool, priority uint16) *hns.ACLPolicy {\n\tdirection := hns.Out\n\tif isInbound {", New: "func (s *PolicySets) NewRule(isInbound bool, priority uint16) *hns.ACLPolicy {\n\tdirection := hns.Out\n\tif isInbound && false {", Expect: "C30.dir/inbound/Direction"},
			{Name: "no priority bump when the action changes", File: c30PSGo,
				Old: "\t\t\t\tcurrentPriority += 1\n", New: "", Expect: "C30.prio/bump-on-action-change"},
			{Name: "end-of-tier rule shares the last priority", File: c30PSGo,
				Old: "\tcurrentPriority++\n\tendOfTierRule := s.NewRule(isInbound, currentPriority)", New: "\tendOfTierRule := s.NewRule(isInbound, currentPriority)", Expect: "C30.prio/end-of-tier"},
			{Name: "priority reset for every policy set", File: c30PSGo,
				Old: "\t\tpolicySet := s.policySetIdToPolicySet[setId]\n\t\tif policySet == nil {", New: "\t\tpolicySet := s.policySetIdToPolicySet[setId]\n\t\tcurrentPriority = uint16(len(setId))\n\t\tif policySet == nil {", Expect: "C30.prio/monotone"},
			{Name: "address chunker emits a trailing empty chunk for exact multiples (special case folded into i <= len)", File: c30PSGo,
				Old: "\tif len(ipAddrs) == 0 {\n\t\tsplits = append(splits, []string{})\n\t}\n\tfor i := 0; i < len(ipAddrs); i += chunkSize {", New: "\tfor i := 0; i <= len(ipAddrs); i += chunkSize {", Expect: "C30.chunk/SplitIPList/partition"},
			{Name: "port chunker yields no chunk for a rule without ports (rule rendered zero times)", File: c30PSGo,
				Old: "\tif len(ports) == 0 {\n\t\tsplits = append(splits, []*proto.PortRange{})\n\t}\n", New: "", Expect: "C30.chunk/SplitPortList/partition"},
			{Name: "port chunker loses the tail shorter than a full chunk", File: c30PSGo,
				Old: "\tfor i := 0; i < len(ports); i += chunkSize {", New: "\tfor i := 0; i+chunkSize <= len(ports); i += chunkSize {", Expect: "C30.chunk/SplitPortList/partition"},
			{Name: "per-rule limit not positive", File: c30PSGo,
				Old: "const ipPortsPerRule = 4000", New: "const ipPortsPerRule = 0", Expect: "C30.chunk/SplitIPList/size"},
			{Name: "cached rule handed out uncopied when its priority need not change", File: c30PSGo,
				Old:    "\t\t\tmemberCopy := *member\n\t\t\tmemberCopy.Priority = currentPriority\n\t\t\trules = append(rules, &memberCopy)\n\n\t\t\tlastRule = &memberCopy",
				New:    "\t\t\trule := member\n\t\t\tif member.Priority != currentPriority {\n\t\t\t\tmemberCopy := *member\n\t\t\t\tmemberCopy.Priority = currentPriority\n\t\t\t\trule = &memberCopy\n\t\t\t}\n\t\t\trules = append(rules, rule)\n\n\t\t\tlastRule = rule",
				Expect: "C30.alias/PolicySets.GetPolicySetRules"},
			{Name: "a single policy set's cached rule list returned as is", File: c30PSGo,
				Old: "\t\tfor _, member := range policySet.Members {\n", New: "\t\tif len(setIds) == 1 && len(rules) == 0 {\n\t\t\trules = append(rules, policySet.Members...)\n\t\t\tbreak\n\t\t}\n\t\tfor _, member := range policySet.Members {\n", Expect: "C30.alias/PolicySets.GetPolicySetRules"},
			{Name: "F20 again: the port combiner decides 'disjoint' on the bitset's capacity", File: c30FlatGo,
				Old: "\tif aBitset.None() {", New: "\tif aBitset.Len() == 0 {", Expect: "C30.emptyset/combinePorts/noop"},
			{Name: "CIDR combiner tests an operand instead of the intersection", File: c30FlatGo,
				Old: "\tif combined == \"\" {", New: "\tif as == \"\" {", Expect: "C30.emptyset/combineCIDRs/noop"},
			{Name: "CIDR combiner returns the empty operand instead of the other one", File: c30FlatGo,
				Old: "func combineCIDRs(as, bs string) (string, error) {\n\tif len(as) == 0 {\n\t\treturn bs, nil", New: "func combineCIDRs(as, bs string) (string, error) {\n\tif len(as) == 0 {\n\t\treturn as, nil", Expect: "C30.emptyset/combineCIDRs/operand"},
			{Name: "F21 again: port bitset sized with XOR instead of a shift", File: c30FlatGo,
				Old: "bitset.New(1<<16 + 1)", New: "bitset.New(2 ^ 16 + 1)", Expect: "C30.portspace/parsePorts"},
			{Name: "port bitset has no sentinel bit above the highest port", File: c30FlatGo,
				Old: "bitset.New(1<<16 + 1)", New: "bitset.New(1 << 16)", Expect: "C30.portspace/parsePorts"},
			{Name: "different specific protocols no longer make the combination a no-op", File: c30FlatGo,
				Old: "\t\tif r2.Protocol == 256 {\n\t\t\tcombined.Protocol = r1.Protocol\n\t\t} else if r1.Protocol != r2.Protocol {\n\t\t\treturn nil\n\t\t}", New: "\t\tif r2.Protocol == 256 {\n\t\t\tcombined.Protocol = r1.Protocol\n\t\t}", Expect: "C30.combine/ACLPolicy.Protocol"},
			{Name: "disjoint remote ports ignored when combining rules", File: c30FlatGo,
				Old: "\tcombined.RemotePorts, err = combinePorts(r1.RemotePorts, r2.RemotePorts)\n\tif err == policysets.ErrRuleIsNoOp {\n\t\treturn nil\n\t}\n", New: "\tcombined.RemotePorts, _ = combinePorts(r1.RemotePorts, r2.RemotePorts)\n", Expect: "C30.combine/ACLPolicy.RemotePorts"},
			{Name: "local ports of the next tier intersected with the pass rule's remote ports", File: c30FlatGo,
				Old: "combinePorts(r1.LocalPorts, r2.LocalPorts)", New: "combinePorts(r1.RemotePorts, r2.LocalPorts)", Expect: "C30.combine/ACLPolicy.LocalPorts"},
			{Name: "pass rule's remote addresses not intersected at all", File: c30FlatGo,
				Old: "\tcombined.RemoteAddresses, err = combineCIDRs(r1.RemoteAddresses, r2.RemoteAddresses)\n\tif err == policysets.ErrRuleIsNoOp {\n\t\treturn nil\n\t}\n", New: "", Expect: "C30.combine/ACLPolicy.RemoteAddresses"},
			{Name: "combined rule built from the pass rule (keeps the pass action)", File: c30FlatGo,
				Old: "\tcombined := *r2\n", New: "\tcombined := *r1\n", Expect: "C30.combine/ACLPolicy.Action"},
			{Name: "next-tier rule narrowed in place instead of copied", File: c30FlatGo,
				Old: "\treturn &combined\n}", New: "\t*r2 = combined\n\treturn r2\n}", Expect: "C30.combine/operands-unchanged"},
			{Name: "ip,port sets missing from the reverse index of policy sets", File: c30PSGo,
				Old: "\t\tipSetIds.AddAll(rule.DstIpPortSetIds)\n", New: "", Expect: "C30.refidx/Rule.DstIpPortSetIds"},
			{Name: "profile's outbound rules not scanned for IP-set references", File: c30PSGo,
				Old: "log.Debug(\"Policy set represents a Profile\")\n\t\trules = s.convertPolicyToRules(setId, p.InboundRules, p.OutboundRules)\n\t\tpolicyIpSetIds = getReferencedIpSetIds(p.InboundRules, p.OutboundRules)", New: "log.Debug(\"Policy set represents a Profile\")\n\t\trules = s.convertPolicyToRules(setId, p.InboundRules, p.OutboundRules)\n\t\tpolicyIpSetIds = getReferencedIpSetIds(p.InboundRules, p.InboundRules)", Expect: "C30.refidx/Profile.OutboundRules"},
			{Name: "policy removed under the profile prefix", File: c30PMgrGo,
				Old: "m.policysetsDataplane.RemovePolicySet(policyIDToString(policysets.PolicyNamePrefix, msg.Id))", New: "m.policysetsDataplane.RemovePolicySet(policyIDToString(policysets.ProfileNamePrefix, msg.Id))", Expect: "C30.ids/policy"},
		},
	})
}

// c30MatchUniverse computes the match fields of proto.Rule from the generated struct.
// Every exclusion carries its reason.
func c30MatchUniverse(ruleT *types.TypeName) (match []string, excluded map[string]string) {
	excluded = map[string]string{}
	st := ruleT.Type().Underlying().(*types.Struct)
	for i := 0; i < st.NumFields(); i++ {
		f := st.Field(i)
		n := f.Name()
		switch {
		case !f.Exported():
			excluded[n] = "protobuf runtime internals (state/unknownFields/sizeCache)"
		case n == "Action":
			excluded[n] = "the verdict, not a match criterion"
		case n == "IpVersion":
			excluded[n] = "address family of the rule (selects the table the rule is rendered into), handled before matching"
		case strings.HasPrefix(n, "Original"):
			excluded[n] = "informational copy of the user's selector/service (the match is carried by the IP-set ids)"
		case n == "Metadata":
			excluded[n] = "annotations only"
		case n == "RuleId":
			excluded[n] = "identifier only"
		default:
			match = append(match, n)
		}
	}
	return
}

// Application-layer match fields: no Felix dataplane enforces them in the kernel
// (they are evaluated by the policy-sync consumer); service-account matches are
// additionally folded into the selector-derived IP sets by the calculation graph.
var c30L7Exempt = map[string]string{
	"HttpMatch":              "application-layer match, enforced only by the policy-sync (ALP) consumer",
	"SrcServiceAccountMatch": "service-account match: folded into the source selector IP set; the copy in the rule is for the ALP consumer",
	"DstServiceAccountMatch": "service-account match: folded into the destination selector IP set; the copy in the rule is for the ALP consumer",
}

func runC30(c *Ctx) {
	p := c.Load(c30PSPkg, c30WinPkg)
	ruleT, _ := p.LookupExt(c30Proto, "Rule").(*types.TypeName)
	aclT, _ := p.LookupExt(c30HnsPkg, "ACLPolicy").(*types.TypeName)
	if ruleT == nil || aclT == nil {
		c.Lost("proto.Rule / hns.ACLPolicy")
	}
	c.Rule("C30.unsupported", "E-FIELDS/E-GUARD", "every Not* match field of proto.Rule is rejected with ErrNotSupported; every other match field is rejected or reaches a match field of the generated ACLPolicy (L7 fields exempt with reason)", 24)
	c.Rule("C30.dir", "E-FLOW", "per direction, provenance of ACLPolicy.{Remote,Local}{Addresses,Ports}, Protocol, Direction of the rules stored for a policy set equals the expected proto.Rule fields of Inbound/OutboundRules", 12)
	c.Rule("C30.prio", "E-PAIR", "GetPolicySetRules: priority counter starts at the base, only grows, is bumped on every action change, end-of-tier rule strictly above", 3)
	c.Rule("C30.ids", "E-PAIR", "policy manager: update and remove of a policy/profile compute the set id with the same function and prefix; staged policies skipped on both", 4)

	c.Rule("C30.chunk", "E-EVAL/E-CONST", "every list chunker used by protoRuleToHnsRules, evaluated over all list lengths 0..3k+1 and chunk sizes k=1..4, yields exactly one empty chunk for an empty list and otherwise a partition of the list into consecutive non-empty chunks of at most k elements; the chunk size reaching the chunkers is a positive constant", 4)
	c.Rule("C30.alias", "E-PROV", "no function of the policysets package hands out a pointer (or the slice) stored in the policySet.Members cache: results are copies, so the flattener's in-place rewrites cannot change what later endpoints get", 1)

	c30Unsupported(c, p, ruleT, aclT)
	c30Dir(c, p, ruleT, aclT)
	c30Prio(c, p, aclT)
	c30Ids(c, p)
	c30Chunk(c, p)
	c30Alias(c, p, aclT)

	c.Rule("C30.emptyset", "E-GUARD/E-DEP", "in every criterion-intersection helper of the tier flattener (func(a, b T) (T, error) returning ErrRuleIsNoOp): the no-op return is decided by a population test (type-checked: BitSet.None/Any/Count, len, == \"\"; never a capacity accessor such as BitSet.Len) of a value computed from both operands; a computed criterion is returned with nil error only behind the opposite test; an operand is returned unchanged only where the other operand is empty", 6)
	c.Rule("C30.portspace", "E-CONST", "every bitset created for port lists in the closure of the criterion-intersection helpers has a constant capacity (go/constant value of the constructor argument) of at least 65537: bit 65536 is a guaranteed-clear sentinel, so the search for the end of a port range cannot fail", 1)
	c.Rule("C30.combine", "E-EVAL", "the rule combiner func(*ACLPolicy, *ACLPolicy) *ACLPolicy, evaluated over its SSA for every match-criterion field of ACLPolicy written by the rule generators (helpers modelled by their contract) and the value pairs any/any, x/any, any/x, x/x, x/y, y/x: the result carries the intersection, is nil for different specific values, leaves the other criteria alone, keeps the next-tier rule's Action and modifies neither operand", 7)
	c.Rule("C30.refidx", "E-FIELDS/E-DEP", "every proto.Rule field whose IP-set ids reach IPSetCache.GetIPSetMembers in the translator is read by the function(s) that build the reverse index policySet.IpSetIds, and every rule list rendered into policySet.Members is also handed to them", 7)
	combiner, family, order, noOp := c30CombineFamily(c, p, aclT)
	c30EmptySet(c, p, family, order)
	c30PortSpace(c, p, order)
	c30Combine(c, p, aclT, combiner, family, noOp)
	c30RefIdx(c, p, ruleT)
}

// ------------------------------------------------------------ unsupported --

// c30PositiveEdge: if cond (negations stripped, polarity pol of the edge) is a
// positive test of field fv — len(x.F)>0, len(x.F)!=0, x.F!=nil on the true edge,
// or len(x.F)==0, x.F==nil on the false edge — returns true.
func c30PositiveEdge(cond ssa.Value, pol bool, fv *types.Var) bool {
	bo, ok := cond.(*ssa.BinOp)
	if !ok {
		return false
	}
	isLenOfField := func(v ssa.Value) bool {
		call, ok := v.(*ssa.Call)
		if !ok {
			return false
		}
		b, ok := call.Call.Value.(*ssa.Builtin)
		return ok && b.Name() == "len" && len(call.Call.Args) == 1 && fieldVar(call.Call.Args[0]) == fv
	}
	isZero := func(v ssa.Value) bool {
		cv, ok := constOf(v)
		return ok && cv.ExactString() == "0"
	}
	isField := func(v ssa.Value) bool {
		if _, isLoad := v.(*ssa.UnOp); !isLoad {
			if _, isF := v.(*ssa.Field); !isF {
				return false
			}
		}
		return fieldVar(v) == fv
	}
	switch bo.Op {
	case token.GTR: // len(F) > 0
		return pol && isLenOfField(bo.X) && isZero(bo.Y)
	case token.LSS: // 0 < len(F)
		return pol && isLenOfField(bo.Y) && isZero(bo.X)
	case token.NEQ:
		if (isLenOfField(bo.X) && isZero(bo.Y)) || (isLenOfField(bo.Y) && isZero(bo.X)) {
			return pol
		}
		if (isField(bo.X) && isNilConst(bo.Y)) || (isField(bo.Y) && isNilConst(bo.X)) {
			return pol
		}
	case token.EQL:
		if (isLenOfField(bo.X) && isZero(bo.Y)) || (isLenOfField(bo.Y) && isZero(bo.X)) {
			return !pol
		}
		if (isField(bo.X) && isNilConst(bo.Y)) || (isField(bo.Y) && isNilConst(bo.X)) {
			return !pol
		}
	}
	return false
}

// c30LeadsOnlyTo: every Return reachable from block s satisfies ok, and at least one is reachable.
func c30LeadsOnlyTo(s *ssa.BasicBlock, ok func(*ssa.Return) bool) bool {
	blocks := blockReach(s)
	blocks[s] = true
	n := 0
	for b := range blocks {
		if len(b.Instrs) == 0 {
			continue
		}
		if r, isRet := b.Instrs[len(b.Instrs)-1].(*ssa.Return); isRet {
			n++
			if !ok(r) {
				return false
			}
		}
	}
	return n > 0
}

// c30EdgesLeadingTo visits the If edges of fn from which only returns satisfying
// ok are reachable and whose test dominates every other return of fn.
func c30EdgesLeadingTo(fn *ssa.Function, ok func(*ssa.Return) bool, visit func(cond ssa.Value, pol bool, ifi *ssa.If)) {
	for _, b := range fn.Blocks {
		if len(b.Instrs) == 0 {
			continue
		}
		ifi, isIf := b.Instrs[len(b.Instrs)-1].(*ssa.If)
		if !isIf || len(b.Succs) != 2 || b.Succs[0] == b.Succs[1] {
			continue
		}
		// the test must be passed on the way to every other outcome: its block dominates every Return not satisfying ok
		domAll := true
		for _, r := range returnsOf(fn) {
			if !ok(r) && !(b == r.Block() || b.Dominates(r.Block())) {
				domAll = false
			}
		}
		if !domAll {
			continue
		}
		for k, s := range b.Succs {
			// everything reachable from s is reachable through this edge, so "only ok-returns reachable from s" is a statement about the edge
			if c30LeadsOnlyTo(s, ok) {
				cond, pol := stripNot(ifi.Cond, k == 0)
				visit(cond, pol, ifi)
			}
		}
	}
}

func c30Unsupported(c *Ctx, p *Prog, ruleT, aclT *types.TypeName) {
	main := p.Func(c30PSPkg, c30RuleFn)
	if main == nil {
		c.Lost(c30RuleFn)
	}
	errNS := p.LookupObj(c30PSPkg, "ErrNotSupported")
	if errNS == nil {
		c.Lost("policysets.ErrNotSupported")
	}
	match, excluded := c30MatchUniverse(ruleT)
	if len(match) < 20 || len(excluded) < 10 {
		c.Lost("proto.Rule universe: %d match fields, %d excluded", len(match), len(excluded))
	}
	st := ruleT.Type().Underlying().(*types.Struct)
	fieldByName := map[string]*types.Var{}
	for i := 0; i < st.NumFields(); i++ {
		fieldByName[st.Field(i).Name()] = st.Field(i)
	}

	returnsNotSupported := func(r *ssa.Return) bool {
		if len(r.Results) != 2 {
			return false
		}
		u, ok := r.Results[1].(*ssa.UnOp)
		if !ok || u.Op != token.MUL {
			return false
		}
		g, ok := u.X.(*ssa.Global)
		return ok && g.Object() == errNS
	}
	returnsTrue := func(r *ssa.Return) bool {
		if len(r.Results) != 1 {
			return false
		}
		cv, ok := constOf(r.Results[0])
		return ok && cv.ExactString() == "true"
	}

	// reject[F] = description of the rejecting edge
	reject := map[string]string{}
	var helperCalls []string
	c30EdgesLeadingTo(main, returnsNotSupported, func(cond ssa.Value, pol bool, ifi *ssa.If) {
		for name, fv := range fieldByName {
			if c30PositiveEdge(cond, pol, fv) {
				reject[name] = "tested in " + fnName(main) + " at " + p.Pos(cond.Pos())
			}
		}
		// bool helper: h(rule)==true leads only to ErrNotSupported
		if cs, ok := condCall(cond); ok && pol {
			h := calleeFn(cs.Common())
			if h == nil || h.Blocks == nil || h.Signature.Results().Len() != 1 {
				return
			}
			takesRule := false
			for _, a := range cs.Common().Args {
				if n, ok := types.Unalias(derefType(a.Type())).(*types.Named); ok && n.Obj() == ruleT {
					takesRule = true
				}
			}
			if !takesRule {
				return
			}
			helperCalls = append(helperCalls, fnName(h))
			c30EdgesLeadingTo(h, returnsTrue, func(hc ssa.Value, hp bool, hif *ssa.If) {
				for name, fv := range fieldByName {
					if c30PositiveEdge(hc, hp, fv) {
						reject[name] = "tested in " + fnName(h) + " (true ⇒ ErrNotSupported in " + fnName(main) + ")"
					}
				}
			})
		}
	})

	// consumed: reaches a match field of the returned ACLPolicy values
	sl := newC29Slicer(p, ruleT)
	consumedBy := map[string][]string{}
	aclMatch := []string{"Protocol", "LocalAddresses", "RemoteAddresses", "LocalPorts", "RemotePorts"}
	for _, af := range aclMatch {
		if obj, _, _ := types.LookupFieldOrMethod(aclT.Type(), true, aclT.Pkg(), af); obj == nil {
			c.Lost("hns.ACLPolicy.%s", af)
		}
		sl.reset()
		for _, r := range returnsOf(main) {
			sl.val(r.Results[0], []string{af}, nil)
		}
		if sl.overflow {
			c.Undecided("C30.unsupported/slicer", p.Pos(main.Pos()), "slicer budget exhausted")
			return
		}
		for _, l := range sl.FieldLeaves() {
			n := strings.TrimPrefix(l, "Rule.")
			consumedBy[n] = append(consumedBy[n], af)
		}
	}
	if os.Getenv("C30_DEBUG") != "" {
		fmt.Printf("C30 match=%v\nexcluded=%v\nreject=%v\nconsumed=%v helpers=%v\n", match, excluded, reject, consumedBy, helperCalls)
	}
	site := p.Pos(main.Pos())
	anyNot := false
	for _, f := range match {
		key := "C30.unsupported/Rule." + f
		isNeg := strings.HasPrefix(f, "Not")
		switch {
		case isNeg:
			anyNot = true
			c.Check(reject[f] != "", key, site, "negative match rejected: "+reject[f],
				fmt.Sprintf("negative match field proto.Rule.%s is not rejected: no positive test of it leads only to ErrNotSupported (via %v) — a rule using it would be rendered without the negation", f, helperCalls))
		case reject[f] != "":
			c.Ok(key, site, "unsupported match rejected: %s", reject[f])
		case len(consumedBy[f]) > 0:
			c.Ok(key, site, "consumed: reaches ACLPolicy.%v", consumedBy[f])
		case c30L7Exempt[f] != "":
			c.Ok(key, site, "exempt: %s", c30L7Exempt[f])
		default:
			c.Violate(key, site, "match field proto.Rule.%s is neither rejected with ErrNotSupported nor does it reach any match field of the generated hns.ACLPolicy: the rule is rendered as if the criterion were absent", f)
		}
	}
	if !anyNot {
		c.Lost("no Not* field in proto.Rule")
	}
	for f := range c30L7Exempt {
		if fieldByName[f] == nil {
			c.Lost("exempt field proto.Rule.%s no longer exists", f)
		}
	}
}

// -------------------------------------------------------------------- dir --

func c30Dir(c *Ctx, p *Prog, ruleT, aclT *types.TypeName) {
	rulesFn := p.Func(c30PSPkg, c30RulesFn)
	if rulesFn == nil {
		c.Lost(c30RulesFn)
	}
	boolIdx := -1
	for i, prm := range rulesFn.Params {
		if types.Identical(prm.Type().Underlying(), types.Typ[types.Bool]) {
			if boolIdx >= 0 {
				c.Lost("%s has more than one bool parameter", c30RulesFn)
			}
			boolIdx = i
		}
	}
	if boolIdx < 0 {
		c.Lost("%s has no bool (direction) parameter", c30RulesFn)
	}
	members, _ := p.LookupObj(c30PSPkg, "policySet.Members").(*types.Var)
	if members == nil {
		c.Lost("policySet.Members")
	}
	polT, _ := p.LookupExt(c30Proto, "Policy").(*types.TypeName)
	proT, _ := p.LookupExt(c30Proto, "Profile").(*types.TypeName)
	prT, _ := p.LookupExt(c30Proto, "PortRange").(*types.TypeName)
	if polT == nil || proT == nil || prT == nil {
		c.Lost("proto.Policy/Profile/PortRange")
	}
	var stores []*ssa.Store
	for _, fn := range p.AllFuncs() {
		allInstrs(fn, false, func(f *ssa.Function, in ssa.Instruction) {
			if st, ok := in.(*ssa.Store); ok {
				if _, isFA := st.Addr.(*ssa.FieldAddr); isFA && fieldVar(st.Addr) == members {
					stores = append(stores, st)
				}
			}
		})
	}
	if len(stores) == 0 {
		c.Lost("no store into policySet.Members")
	}
	in, _ := p.LookupExt(c30HnsPkg, "In").(*types.Const)
	out, _ := p.LookupExt(c30HnsPkg, "Out").(*types.Const)
	if in == nil || out == nil {
		c.Lost("hns.In / hns.Out")
	}
	sl := newC29Slicer(p, ruleT, polT, proT, prT)
	sl.assumeFn, sl.assumeIdx = rulesFn, boolIdx

	type row struct {
		field       string
		want, extra []string
		consts      []string
	}
	ipport := "Rule.DstIpPortSetIds"
	for _, d := range []struct {
		name          string
		val           bool
		list          string
		remote, local string // Src or Dst
		dirConst      *types.Const
	}{
		{"inbound", true, "InboundRules", "Src", "Dst", in},
		{"outbound", false, "OutboundRules", "Dst", "Src", out},
	} {
		sl.assumeVal = d.val
		lists := []string{"Policy." + d.list, "Profile." + d.list}
		cat := func(a []string, b ...string) []string { return append(append([]string{}, a...), b...) }
		ipp, ippExtra := []string{}, []string{ipport}
		if !d.val {
			ipp, ippExtra = []string{ipport}, nil
		}
		rows := []row{
			{field: "RemoteAddresses", want: cat(cat(lists, "Rule."+d.remote+"Net", "Rule."+d.remote+"IpSetIds"), ipp...), extra: ippExtra},
			{field: "LocalAddresses", want: cat(lists, "Rule."+d.local+"Net", "Rule."+d.local+"IpSetIds")},
			{field: "RemotePorts", want: cat(cat(lists, "Rule."+d.remote+"Ports", "PortRange.First", "PortRange.Last"), ipp...), extra: ippExtra},
			{field: "LocalPorts", want: cat(lists, "Rule."+d.local+"Ports", "PortRange.First", "PortRange.Last")},
			{field: "Protocol", want: cat(lists, "Rule.Protocol")},
			{field: "Direction", consts: []string{d.dirConst.Val().ExactString()}},
		}
		for _, r := range rows {
			sl.reset()
			for _, st := range stores {
				sl.val(st.Val, []string{r.field}, nil)
			}
			key := "C30.dir/" + d.name + "/" + r.field
			site := p.Pos(stores[0].Pos())
			if sl.overflow {
				c.Undecided(key, site, "slicer budget exhausted")
				continue
			}
			if os.Getenv("C30_DEBUG") != "" {
				fmt.Printf("C30 %s: %v\n", key, sl.Leaves())
			}
			allowed := map[string]bool{}
			for _, w := range append(append([]string{}, r.want...), r.extra...) {
				allowed[w] = true
			}
			miss := c29Subset(r.want, sl.Has)
			var surplus []string
			for _, g := range sl.FieldLeaves() {
				if !allowed[g] {
					surplus = append(surplus, g)
				}
			}
			constBad := ""
			if r.consts != nil {
				var have []string
				for _, h := range sl.ConstLeaves() {
					if h != "nil" {
						have = append(have, h)
					}
				}
				sort.Strings(have)
				if strings.Join(have, ",") != strings.Join(r.consts, ",") {
					constBad = fmt.Sprintf("is the constant(s) %v, expected %v", have, r.consts)
				}
			}
			if len(miss) == 0 && len(surplus) == 0 && constBad == "" {
				c.Ok(key, site, "%s rules: ACLPolicy.%s derives from %v %v", d.name, r.field, sl.FieldLeaves(), r.consts)
				continue
			}
			var parts []string
			if len(miss) > 0 {
				parts = append(parts, fmt.Sprintf("does not derive from %v", miss))
			}
			if len(surplus) > 0 {
				parts = append(parts, fmt.Sprintf("derives from %v which must not reach it in this direction", surplus))
			}
			if constBad != "" {
				parts = append(parts, constBad)
			}
			c.Violate(key, site, "for %s rules (isInbound=%v) hns.ACLPolicy.%s of the rules stored in policySet.Members %s", d.name, d.val, r.field, strings.Join(parts, "; "))
		}
	}
}

// ------------------------------------------------------------------- prio --

func c30Prio(c *Ctx, p *Prog, aclT *types.TypeName) {
	fn := p.Func(c30PSPkg, "PolicySets.GetPolicySetRules")
	if fn == nil {
		c.Lost("PolicySets.GetPolicySetRules")
	}
	lookup := func(name string) *types.Var {
		o, _, _ := types.LookupFieldOrMethod(aclT.Type(), true, aclT.Pkg(), name)
		v, _ := o.(*types.Var)
		if v == nil {
			c.Lost("hns.ACLPolicy.%s", name)
		}
		return v
	}
	prioF, actionF := lookup("Priority"), lookup("Action")
	base, _ := p.LookupObj(c30PSPkg, "PolicyRuleBasePriority").(*types.Const)
	if base == nil {
		c.Lost("PolicyRuleBasePriority")
	}
	var stores []*ssa.Store
	allInstrs(fn, true, func(f *ssa.Function, in ssa.Instruction) {
		if st, ok := in.(*ssa.Store); ok {
			if _, isFA := st.Addr.(*ssa.FieldAddr); isFA && fieldVar(st.Addr) == prioF {
				stores = append(stores, st)
			}
		}
	})
	site := p.Pos(fn.Pos())
	if len(stores) == 0 {
		c.Violate("C30.prio/assigned", site, "GetPolicySetRules never writes ACLPolicy.Priority of the rules it returns")
		return
	}
	// closure of the counter: phis and x+const chains
	isBump := func(v ssa.Value) (*ssa.BinOp, bool) {
		bo, ok := v.(*ssa.BinOp)
		if !ok || bo.Op != token.ADD {
			return nil, false
		}
		cv, isC := constOf(bo.Y)
		if !isC {
			return nil, false
		}
		n, exact := c30ConstantInt(cv)
		return bo, exact && n > 0
	}
	closure := map[ssa.Value]bool{}
	var badLeaves []string
	var walk func(v ssa.Value)
	walk = func(v ssa.Value) {
		if closure[v] {
			return
		}
		closure[v] = true
		switch x := v.(type) {
		case *ssa.Phi:
			for _, e := range x.Edges {
				walk(e)
			}
		case *ssa.Const:
			if x.Value == nil || x.Value.ExactString() != base.Val().ExactString() {
				badLeaves = append(badLeaves, "constant "+path(x))
			}
		case *ssa.Convert:
			walk(x.X)
		default:
			if bo, ok := isBump(v); ok {
				walk(bo.X)
			} else {
				badLeaves = append(badLeaves, path(v))
			}
		}
	}
	for _, st := range stores {
		walk(st.Val)
	}
	sort.Strings(badLeaves)
	c.Check(len(badLeaves) == 0, "C30.prio/monotone", p.Pos(stores[0].Pos()),
		"priority written to copied rules comes from a counter built only from PolicyRuleBasePriority and +const steps",
		fmt.Sprintf("the priority written to copied rules can also come from %v: it is no longer a counter that starts at PolicyRuleBasePriority and only grows, so a later rule can get a priority at or below an earlier one", badLeaves))

	// bump on action change
	isActionNeq := func(cond ssa.Value, pol bool) bool {
		bo, ok := cond.(*ssa.BinOp)
		if !ok || (bo.Op != token.NEQ && bo.Op != token.EQL) {
			return false
		}
		if fieldVar(bo.X) != actionF || fieldVar(bo.Y) != actionF {
			return false
		}
		return (bo.Op == token.NEQ) == pol
	}
	nEdges, nBumped := 0, 0
	var firstBad token.Pos
	nCmp := 0
	for _, b := range fn.Blocks {
		if ifi, ok := b.Instrs[len(b.Instrs)-1].(*ssa.If); ok {
			cnd, _ := stripNot(ifi.Cond, true)
			if isActionNeq(cnd, true) || isActionNeq(cnd, false) {
				nCmp++
			}
		}
	}
	for v := range closure {
		ph, ok := v.(*ssa.Phi)
		if !ok {
			continue
		}
		for i, e := range ph.Edges {
			pred := ph.Block().Preds[i]
			differs := false
			for _, g := range guardsOfBlock(pred) {
				if isActionNeq(g.Cond, g.True) {
					differs = true
				}
			}
			// the edge pred→phi itself
			if ifi, ok := pred.Instrs[len(pred.Instrs)-1].(*ssa.If); ok && len(pred.Succs) == 2 && pred.Succs[0] != pred.Succs[1] {
				cnd, pol := stripNot(ifi.Cond, pred.Succs[0] == ph.Block())
				if isActionNeq(cnd, pol) {
					differs = true
				}
			}
			if !differs {
				continue
			}
			nEdges++
			if _, ok := isBump(e); ok {
				nBumped++
			} else if firstBad == token.NoPos {
				firstBad = ph.Pos()
			}
		}
	}
	switch {
	case nCmp == 0:
		c.Violate("C30.prio/bump-on-action-change", site, "GetPolicySetRules never compares the Action of the previous rule with the Action of the next rule: rules with different actions can share a priority (HNS tie-break differs from first-match)")
	case nEdges == 0 || nBumped != nEdges:
		c.Violate("C30.prio/bump-on-action-change", site, "when the previous rule's Action differs from the next rule's Action the priority counter is carried over unchanged on %d of %d control-flow edges: rules with different actions share a priority", nEdges-nBumped, nEdges)
	default:
		c.Ok("C30.prio/bump-on-action-change", site, "counter is bumped on all %d edge(s) taken when the actions differ", nEdges)
	}

	// end-of-tier rule strictly above
	nEnd := 0
	for _, cs := range callsIn(fn, false, func(f *types.Func) bool {
		sig := f.Type().(*types.Signature)
		if sig.Results().Len() != 1 || namedTypeName(sig.Results().At(0).Type()) != "ACLPolicy" {
			return false
		}
		for i := 0; i < sig.Params().Len(); i++ {
			if types.Identical(sig.Params().At(i).Type(), types.Typ[types.Uint16]) {
				return true
			}
		}
		return false
	}) {
		nEnd++
		okArg := false
		for _, a := range cs.Common().Args {
			if !types.Identical(a.Type(), types.Typ[types.Uint16]) {
				continue
			}
			if bo, ok := isBump(a); ok && closure[bo.X] {
				okArg = true
			}
		}
		c.Check(okArg, "C30.prio/end-of-tier", p.Pos(cs.Instr.Pos()),
			"the default rule appended after the policy sets gets counter+const (strictly above every copied rule)",
			"the default (end-of-tier) rule is created with a priority that is not the counter plus a positive constant: it can tie with the last policy rule")
	}
	if nEnd == 0 {
		c.Lost("no rule constructor call taking a uint16 priority in GetPolicySetRules")
	}
}

func c30ConstantInt(cv interface{ ExactString() string }) (int64, bool) {
	var n int64
	_, err := fmt.Sscanf(cv.ExactString(), "%d", &n)
	return n, err == nil
}

// -------------------------------------------------------------------- ids --

func c30Ids(c *Ctx, p *Prog) {
	fn := p.Func(c30WinPkg, "policyManager.OnUpdate")
	if fn == nil {
		c.Lost("policyManager.OnUpdate")
	}
	type site struct {
		idFn, prefix string
		staged       bool
		pos          token.Pos
	}
	find := func(method string) []site {
		var out []site
		for _, cs := range callsIn(fn, false, func(f *types.Func) bool { return f.Name() == method }) {
			args := cs.Args()
			if len(args) < 2 {
				continue
			}
			s := site{pos: cs.Instr.Pos()}
			if idc, ok := args[1].(*ssa.Call); ok {
				if f := calleeOf(idc.Common()); f != nil {
					s.idFn = f.Name()
				}
				if len(idc.Call.Args) > 0 {
					if cv, ok := constOf(idc.Call.Args[0]); ok {
						s.prefix = cv.ExactString()
					}
				}
			}
			s.staged = guardedCut(cs.Instr, callCond(false, func(g CallSite) bool { return g.Callee != nil && g.Callee.Name() == "KindIsStaged" }))
			out = append(out, s)
		}
		return out
	}
	adds, rems := find("AddOrReplacePolicySet"), find("RemovePolicySet")
	if len(adds) != 2 || len(rems) != 2 {
		c.Lost("policyManager.OnUpdate: %d AddOrReplacePolicySet / %d RemovePolicySet calls (expected 2/2)", len(adds), len(rems))
	}
	used := map[int]bool{}
	for _, a := range adds {
		kind := "profile"
		if a.staged {
			kind = "policy"
		}
		var match *site
		for i := range rems {
			if !used[i] && rems[i].idFn == a.idFn && rems[i].prefix == a.prefix && a.idFn != "" && a.prefix != "" {
				match = &rems[i]
				used[i] = true
				break
			}
		}
		c.Check(match != nil, "C30.ids/"+kind+"/same-id", p.Pos(a.pos),
			fmt.Sprintf("update and remove both use %s(%s, …)", a.idFn, a.prefix),
			fmt.Sprintf("the policy set added with id %s(%s, …) is never removed under the same id function and prefix: a removed %s keeps being enforced", a.idFn, a.prefix, kind))
		if match != nil {
			c.Check(match.staged == a.staged, "C30.ids/"+kind+"/staged", p.Pos(match.pos),
				fmt.Sprintf("staged-kind guard identical on update and remove (guarded=%v)", a.staged),
				"update and remove disagree on skipping staged policies")
		}
	}
}

// ------------------------------------------------------------------ chunk --

// c30Chunkers: the functions of the package with the shape
// f(list []T, size int) [][]T that protoRuleToHnsRules calls.
func c30Chunk(c *Ctx, p *Prog) {
	main := p.Func(c30PSPkg, c30RuleFn)
	if main == nil {
		c.Lost(c30RuleFn)
	}
	type chunker struct {
		fn               *ssa.Function
		listIdx, sizeIdx int
		sites            []CallSite
	}
	byFn := map[*ssa.Function]*chunker{}
	var order []*chunker
	shape := func(fn *ssa.Function) (int, int, bool) {
		sig := fn.Signature
		if sig.Results().Len() != 1 || sig.Recv() != nil {
			return 0, 0, false
		}
		outer, ok := sig.Results().At(0).Type().Underlying().(*types.Slice)
		if !ok {
			return 0, 0, false
		}
		inner, ok := outer.Elem().Underlying().(*types.Slice)
		if !ok {
			return 0, 0, false
		}
		li, si := -1, -1
		for i := 0; i < sig.Params().Len(); i++ {
			t := sig.Params().At(i).Type()
			switch {
			case types.Identical(t.Underlying(), inner):
				if li >= 0 {
					return 0, 0, false
				}
				li = i
			case types.Identical(t.Underlying(), types.Typ[types.Int]):
				if si >= 0 {
					return 0, 0, false
				}
				si = i
			default:
				return 0, 0, false
			}
		}
		return li, si, li >= 0 && si >= 0
	}
	for _, cs := range callsIn(main, true, func(f *types.Func) bool { return f.Pkg() != nil && strings.HasSuffix(f.Pkg().Path(), c30PSPkg) }) {
		fn := calleeFn(cs.Common())
		if fn == nil || fn.Blocks == nil {
			continue
		}
		li, si, ok := shape(fn)
		if !ok {
			continue
		}
		ch := byFn[fn]
		if ch == nil {
			ch = &chunker{fn: fn, listIdx: li, sizeIdx: si}
			byFn[fn] = ch
			order = append(order, ch)
		}
		ch.sites = append(ch.sites, cs)
	}
	if len(order) < 2 {
		c.Lost("list chunkers (func(list []T, size int) [][]T) called by %s: found %d, expected the address and the port chunker", c30RuleFn, len(order))
	}
	for _, ch := range order {
		name := fnName(ch.fn)
		site := p.Pos(ch.fn.Pos())
		// (a) bounded evaluation
		key := "C30.chunk/" + name + "/partition"
		bad, undec := "", ""
		nCases := 0
	cases:
		for k := 1; k <= 4; k++ {
			for n := 0; n <= 3*k+1; n++ {
				nCases++
				got, err := c30EvalChunker(ch.fn, ch.listIdx, ch.sizeIdx, n, k)
				if err != nil {
					if _, out := err.(c30Outside); out {
						undec = fmt.Sprintf("%s(list of %d, %d): %v", name, n, k, err)
					} else {
						bad = fmt.Sprintf("%s(list of %d elements, chunk size %d): %v", name, n, k, err)
					}
					break cases
				}
				if why := c30PartitionDefect(got, n, k); why != "" {
					bad = fmt.Sprintf("%s(list of %d elements, chunk size %d) yields %s: %s", name, n, k, c30ChunksString(got), why)
					break cases
				}
			}
		}
		switch {
		case undec != "":
			c.Undecided(key, site, "%s", undec)
		case bad != "":
			c.Violate(key, site, "%s", bad)
		default:
			c.Ok(key, site, "%d (length, size) cases: one empty chunk for the empty list, otherwise consecutive non-empty chunks of at most size elements covering the list", nCases)
		}
		// (b) the size argument at every call site is a positive constant
		key = "C30.chunk/" + name + "/size"
		var badSize []string
		nSrc := 0
		for _, cs := range ch.sites {
			for _, v := range c30ConstSources(p, cs.Common().Args[ch.sizeIdx], 3) {
				nSrc++
				cv, ok := v.(*ssa.Const)
				if !ok {
					badSize = append(badSize, "not a constant: "+path(v))
					continue
				}
				if n, exact := c30ConstantInt(cv.Value); !exact || n <= 0 {
					badSize = append(badSize, "the constant "+cv.Value.ExactString())
				}
			}
		}
		sort.Strings(badSize)
		c.Check(len(badSize) == 0 && nSrc > 0, key, p.Pos(ch.sites[0].Instr.Pos()),
			fmt.Sprintf("chunk size at all %d call sites is a positive constant", len(ch.sites)),
			fmt.Sprintf("the chunk size handed to %s is %v: the chunker is only a partition for a positive size", name, badSize))
	}
}

// c30PartitionDefect: "" if chunks is the required chunking of tokens 0..n-1.
func c30PartitionDefect(chunks [][]int, n, k int) string {
	if n == 0 {
		if len(chunks) != 1 || len(chunks[0]) != 0 {
			return "an empty list (criterion absent = match any) must yield exactly one empty chunk, otherwise the rule is rendered zero times or more than once"
		}
		return ""
	}
	next := 0
	for i, ch := range chunks {
		if len(ch) == 0 {
			return fmt.Sprintf("chunk %d is empty although the list is not: it is rendered as a rule with an empty (= any) address/port field", i)
		}
		if len(ch) > k {
			return fmt.Sprintf("chunk %d has %d elements, more than the per-rule limit", i, len(ch))
		}
		for _, t := range ch {
			if t != next {
				return fmt.Sprintf("chunk %d does not continue the list in order (element %d where %d is due): elements are lost, repeated or reordered", i, t, next)
			}
			next++
		}
	}
	if next != n {
		return fmt.Sprintf("only the first %d of %d elements are covered: the rule matches less than the policy says", next, n)
	}
	return ""
}

// c30ConstSources follows v through phis/conversions and, for parameters, to
// the arguments of every call of the enclosing function in the root packages.
func c30ConstSources(p *Prog, v ssa.Value, depth int) []ssa.Value {
	var out []ssa.Value
	for _, o := range origins(v, nil) {
		prm, ok := o.V.(*ssa.Parameter)
		if !ok || depth == 0 {
			out = append(out, o.V)
			continue
		}
		fn := prm.Parent()
		idx := -1
		for i, q := range fn.Params {
			if q == prm {
				idx = i
			}
		}
		n := 0
		for _, caller := range p.AllFuncs() {
			allInstrs(caller, false, func(_ *ssa.Function, in ssa.Instruction) {
				ci, ok := in.(ssa.CallInstruction)
				if !ok || ci.Common().IsInvoke() || calleeFn(ci.Common()) != fn {
					return
				}
				n++
				out = append(out, c30ConstSources(p, ci.Common().Args[idx], depth-1)...)
			})
		}
		if n == 0 {
			out = append(out, o.V)
		}
	}
	return out
}

// ------------------------------------------------------------------ alias --

func c30Alias(c *Ctx, p *Prog, aclT *types.TypeName) {
	members, _ := p.LookupObj(c30PSPkg, "policySet.Members").(*types.Var)
	if members == nil {
		c.Lost("policySet.Members")
	}
	// results that can carry *ACLPolicy: *ACLPolicy, []*ACLPolicy
	carries := func(t types.Type) (elems, ok bool) {
		if sl, isSl := t.Underlying().(*types.Slice); isSl {
			t, elems = sl.Elem(), true
		}
		pt, isPtr := t.Underlying().(*types.Pointer)
		if !isPtr {
			return false, false
		}
		n, isN := types.Unalias(pt.Elem()).(*types.Named)
		return elems, isN && n.Obj() == aclT
	}
	n := 0
	for _, fn := range c28PkgFuncs(c, p, c30PSPkg) {
		if fn.Parent() != nil {
			continue // closures are reached through their parents' results
		}
		reads := false
		allInstrs(fn, true, func(_ *ssa.Function, in ssa.Instruction) {
			if fa, ok := in.(*ssa.FieldAddr); ok && fieldVar(fa) == members && addrIsRead(fa) {
				reads = true
			}
		})
		if !reads {
			continue
		}
		res := fn.Signature.Results()
		for i := 0; i < res.Len(); i++ {
			elems, ok := carries(res.At(i).Type())
			if !ok {
				continue
			}
			n++
			pr := newC30Prov(p, members)
			for _, r := range returnsOf(fn) {
				if elems {
					pr.elems(r.Results[i], nil)
				} else {
					pr.ptr(r.Results[i], nil)
				}
			}
			key := "C30.alias/" + fnName(fn)
			site := p.Pos(fn.Pos())
			switch {
			case len(pr.cached) > 0:
				c.Violate(key, site, "the rules returned by %s can be %v (not copies): the flattener rewrites pass->Block and the priorities of the rules it receives in place, so the cached rule is changed and every later endpoint using this policy gets the rewritten action", fnName(fn), c30Keys(pr.cached))
			case len(pr.unknown) > 0:
				c.Undecided(key, site, "cannot trace where the returned rule pointers come from: %v", c30Keys(pr.unknown))
			default:
				c.Ok(key, site, "returned rule pointers are %v; none is read from policySet.Members", c30Keys(pr.fresh))
			}
		}
	}
	if n == 0 {
		c.Lost("no function of %s reads policySet.Members and returns ACL rules", c30PSPkg)
	}
}

// =============================================================== flattener --
//
// The tier flattener (felix/dataplane/windows/flattener.go) replaces a `pass`
// rule of one tier by its conjunction with every rule of the next tier.

// c30CombineFamily: the rule combiner (the only func(*ACLPolicy, *ACLPolicy)
// *ACLPolicy of the windows package) and the criterion-intersection helpers it
// reaches: functions f(…T…, …T…) (T, error) of the package that can return
// ErrRuleIsNoOp.  The value is the index of the two operand parameters.
func c30CombineFamily(c *Ctx, p *Prog, aclT *types.TypeName) (combiner *ssa.Function, family map[*ssa.Function][2]int, order []*ssa.Function, noOp *ssa.Global) {
	isACLPtr := func(t types.Type) bool {
		pt, ok := t.Underlying().(*types.Pointer)
		if !ok {
			return false
		}
		n, ok := types.Unalias(pt.Elem()).(*types.Named)
		return ok && n.Obj() == aclT
	}
	for _, fn := range c28PkgFuncs(c, p, c30WinPkg) {
		sig := fn.Signature
		if fn.Parent() != nil || sig.Recv() != nil || sig.Params().Len() != 2 || sig.Results().Len() != 1 {
			continue
		}
		if isACLPtr(sig.Params().At(0).Type()) && isACLPtr(sig.Params().At(1).Type()) && isACLPtr(sig.Results().At(0).Type()) {
			if combiner != nil {
				c.Lost("more than one func(*hns.ACLPolicy, *hns.ACLPolicy) *hns.ACLPolicy in %s: %s and %s", c30WinPkg, fnName(combiner), fnName(fn))
			}
			combiner = fn
		}
	}
	if combiner == nil {
		c.Lost("the rule combiner func(*hns.ACLPolicy, *hns.ACLPolicy) *hns.ACLPolicy of %s", c30WinPkg)
	}
	noOpObj := p.LookupObj(c30PSPkg, "ErrRuleIsNoOp")
	if sp := p.SSAPkg(c30PSPkg); sp != nil {
		noOp, _ = sp.Members["ErrRuleIsNoOp"].(*ssa.Global)
	}
	if noOpObj == nil || noOp == nil {
		c.Lost("policysets.ErrRuleIsNoOp")
	}
	winSSA := p.SSAPkg(c30WinPkg)
	family = map[*ssa.Function][2]int{}
	for fn := range p.closure(combiner) {
		if fn.Pkg != winSSA || fn.Blocks == nil || fn == combiner {
			continue
		}
		sig := fn.Signature
		if sig.Results().Len() != 2 || !types.Identical(sig.Results().At(1).Type(), types.Universe.Lookup("error").Type()) {
			continue
		}
		canNoOp := false
		for _, r := range returnsOf(fn) {
			if len(r.Results) == 2 {
				vals := []ssa.Value{r.Results[1]}
				if ph, ok := r.Results[1].(*ssa.Phi); ok {
					vals = ph.Edges
				}
				for _, v := range vals {
					if c30LoadsGlobal(v, noOpObj) {
						canNoOp = true
					}
				}
			}
		}
		if !canNoOp {
			continue
		}
		var idx []int
		for i := 0; i < sig.Params().Len(); i++ {
			if types.Identical(sig.Params().At(i).Type(), sig.Results().At(0).Type()) {
				idx = append(idx, i)
			}
		}
		if len(idx) != 2 {
			c.Lost("%s can return ErrRuleIsNoOp but does not have exactly two operands of its result type", fnName(fn))
		}
		family[fn] = [2]int{idx[0], idx[1]}
		order = append(order, fn)
	}
	sort.Slice(order, func(i, j int) bool { return fnName(order[i]) < fnName(order[j]) })
	if len(order) < 2 {
		c.Lost("criterion-intersection helpers (func(a, b T) (T, error) returning ErrRuleIsNoOp) reached from %s: found %d, expected the CIDR and the port combiner", fnName(combiner), len(order))
	}
	return
}

func c30EmptySet(c *Ctx, p *Prog, family map[*ssa.Function][2]int, order []*ssa.Function) {
	noOpObj := p.LookupObj(c30PSPkg, "ErrRuleIsNoOp")
	for _, fn := range order {
		name := fnName(fn)
		idx := family[fn]
		ops := []*ssa.Parameter{fn.Params[idx[0]], fn.Params[idx[1]]}
		isOperand := func(v ssa.Value) bool { return v == ssa.Value(ops[0]) || v == ssa.Value(ops[1]) }
		intersection := func(wantEmpty bool) EdgePred {
			return func(cond ssa.Value, pol bool) bool {
				f := c30SizeEdge(cond, pol)
				if f.class != "pop" || f.empty != wantEmpty {
					return false
				}
				at, _ := cond.(ssa.Instruction)
				deps := c30ParamsOf(f.subjects, at)
				return deps[ops[0]] && deps[ops[1]]
			}
		}
		operandEmpty := func(except *ssa.Parameter) EdgePred {
			return func(cond ssa.Value, pol bool) bool {
				f := c30SizeEdge(cond, pol)
				if f.class != "pop" || !f.empty || len(f.subjects) != 1 {
					return false
				}
				return isOperand(f.subjects[0]) && f.subjects[0] != ssa.Value(except)
			}
		}
		sameOperands := eqCond(true, func(v ssa.Value) bool { return v == ssa.Value(ops[0]) }, func(v ssa.Value) bool { return v == ssa.Value(ops[1]) })

		sites, ok := c30ReturnSites(fn)
		if !ok {
			c.Undecided("C30.emptyset/"+name+"/noop", p.Pos(fn.Pos()), "%s merges its results in a way the return-site expansion does not handle", name)
			continue
		}
		type verdict struct {
			n       int
			bad     []string
			undec   []string
			badSite token.Pos
		}
		var noop, nonempty, operand verdict
		explain := func(v *verdict, s c30RetSite, what string) {
			desc, capa, unk := c30DescribeGuards(s.at)
			if v.badSite == token.NoPos {
				v.badSite = s.at.Pos()
			}
			switch {
			case len(capa) > 0:
				v.bad = append(v.bad, fmt.Sprintf("%s; the guarding test reads %s, the capacity of the collection (how many elements it can hold), not how many it holds", what, strings.Join(capa, ", ")))
			case len(unk) > 0:
				v.undec = append(v.undec, fmt.Sprintf("%s; the guarding test uses %s, which is not in the table of population tests", what, strings.Join(unk, ", ")))
			case len(desc) > 0:
				v.bad = append(v.bad, fmt.Sprintf("%s; the tests in force there are only: %s", what, strings.Join(desc, "; ")))
			default:
				v.bad = append(v.bad, what+"; no emptiness test is in force there")
			}
		}
		for _, s := range sites {
			switch {
			case c30LoadsGlobal(s.err, noOpObj):
				noop.n++
				if !guardedCut(s.at, intersection(true)) {
					explain(&noop, s, "the no-op decision (return …, ErrRuleIsNoOp) is reachable without a test that the intersection of both operands is empty")
				}
			case isNilConst(s.err):
				if prm, isP := s.res0.(*ssa.Parameter); isP && isOperand(prm) {
					operand.n++
					if !guardedCut(s.at, anyOf(operandEmpty(prm), sameOperands)) {
						explain(&operand, s, fmt.Sprintf("operand %q is returned unchanged as the combined criterion on a path where the other operand is not known to be empty (= any): the other rule's restriction is dropped", prm.Name()))
					}
					continue
				}
				nonempty.n++
				if !guardedCut(s.at, anyOf(intersection(false), operandEmpty(nil))) {
					explain(&nonempty, s, "a computed criterion is returned with a nil error on a path where the intersection is not known to be non-empty: for disjoint operands the result is \"\" = match any")
				}
			}
		}
		emit := func(kind string, v verdict, okText string) {
			if v.n == 0 {
				return
			}
			key := "C30.emptyset/" + name + "/" + kind
			site := p.Pos(fn.Pos())
			if v.badSite != token.NoPos {
				site = p.Pos(v.badSite)
			}
			switch {
			case len(v.bad) > 0:
				c.Violate(key, site, "%s: %s", name, strings.Join(v.bad, " | "))
			case len(v.undec) > 0:
				c.Undecided(key, site, "%s: %s", name, strings.Join(v.undec, " | "))
			default:
				c.Ok(key, site, "%s (%d return site(s))", okText, v.n)
			}
		}
		emit("noop", noop, "every return of ErrRuleIsNoOp is decided by a population test showing the intersection of both operands empty")
		emit("nonempty", nonempty, "every computed criterion returned with a nil error is behind a test showing the intersection non-empty (or an operand empty)")
		emit("operand", operand, "an operand is returned unchanged only where the other operand is empty")
	}
}

func c30PortSpace(c *Ctx, p *Prog, order []*ssa.Function) {
	// highest port 65535 → bits 0..65535; one more bit (65536) that is never set, so that the
	// search for the clear bit ending a range always succeeds: capacity ≥ 65537
	need := constant.MakeInt64(int64(^uint16(0)) + 2)
	winSSA := p.SSAPkg(c30WinPkg)
	var fns []*ssa.Function
	for fn := range p.closure(order...) {
		if fn.Pkg == winSSA && fn.Blocks != nil {
			fns = append(fns, fn)
		}
	}
	sort.Slice(fns, func(i, j int) bool { return fnName(fns[i]) < fnName(fns[j]) })
	n := 0
	for _, fn := range fns {
		for _, cs := range callsIn(fn, true, func(f *types.Func) bool {
			sig := f.Type().(*types.Signature)
			if f.Pkg() == nil || f.Pkg().Path() != c30BitsetPkg || sig.Recv() != nil || sig.Results().Len() == 0 {
				return false
			}
			return namedTypeName(sig.Results().At(0).Type()) == "BitSet"
		}) {
			n++
			key := "C30.portspace/" + fnName(topFn(fn))
			site := p.Pos(cs.Instr.Pos())
			if cs.Callee.Name() != "New" && cs.Callee.Name() != "MustNew" {
				c.Undecided(key, site, "port bitset created with bitset.%s: its capacity is not a constructor argument", cs.Callee.Name())
				continue
			}
			cv, ok := constOf(cs.Common().Args[0])
			if !ok || cv.Kind() != constant.Int {
				c.Undecided(key, site, "the capacity handed to bitset.%s is not a constant: %s", cs.Callee.Name(), path(cs.Common().Args[0]))
				continue
			}
			c.Check(constant.Compare(cv, token.GEQ, need), key, site,
				fmt.Sprintf("port bitset capacity is the constant %s ≥ %s: bit 65536 exists and is never set, so every range of set bits ends at a clear bit", cv.ExactString(), need.ExactString()),
				fmt.Sprintf("the port bitset is created with capacity %s (the constant expression evaluates to that; `^` is XOR in Go), below %s: the set then only grows to the highest port set, so for a port list whose intersection contains the highest bit NextClear finds no clear bit after it and the port combiner panics (\"no end of range\") — e.g. 1-65535 ∩ 65535", cv.ExactString(), need.ExactString()))
		}
	}
	if n == 0 {
		c.Lost("no bitset constructor call in the closure of the criterion-intersection helpers (%d functions)", len(fns))
	}
}

// c30NonCriteria: fields of hns.ACLPolicy written by the rule generators that are
// not match criteria, each with the reason.
var c30NonCriteria = map[string]string{
	"Type":      "constant ACL",
	"RuleType":  "scope of the rule (Switch/Host), not a match on the connection",
	"Id":        "identifier only",
	"Action":    "the verdict",
	"Direction": "all rules handed to the flattener were selected for one direction (GetPolicySetRules)",
	"Priority":  "ordering, rewritten after flattening",
}

func c30Combine(c *Ctx, p *Prog, aclT *types.TypeName, combiner *ssa.Function, family map[*ssa.Function][2]int, noOp *ssa.Global) {
	st, _ := aclT.Type().Underlying().(*types.Struct)
	if st == nil {
		c.Lost("hns.ACLPolicy is not a struct")
	}
	// criterion universe: ACLPolicy fields the rule generators of the policysets package write
	written := map[string]bool{}
	for _, fn := range c28PkgFuncs(c, p, c30PSPkg) {
		allInstrs(fn, false, func(_ *ssa.Function, in ssa.Instruction) {
			if s, ok := in.(*ssa.Store); ok {
				if fa, isFA := s.Addr.(*ssa.FieldAddr); isFA {
					if n, isN := types.Unalias(derefType(fa.X.Type())).(*types.Named); isN && n.Obj() == aclT {
						written[fieldVar(fa).Name()] = true
					}
				}
			}
		})
	}
	var criteria []string
	for _, f := range sortedKeys(written) {
		if c30NonCriteria[f] == "" {
			criteria = append(criteria, f)
		}
	}
	for f := range c30NonCriteria {
		if !written[f] {
			c.Lost("hns.ACLPolicy.%s (listed as a non-criterion) is no longer written by %s", f, c30PSPkg)
		}
	}
	if len(criteria) < 5 {
		c.Lost("match-criterion fields of hns.ACLPolicy written by %s: %v (expected at least Protocol and the four address/port lists)", c30PSPkg, criteria)
	}
	// the 'any' value of scalar criteria: the constant the rule constructor stores
	newRule := p.Func(c30PSPkg, "PolicySets.NewRule")
	if newRule == nil {
		c.Lost("PolicySets.NewRule")
	}
	anyOfField := map[string]any{}
	x, y := map[string]any{}, map[string]any{}
	site := p.Pos(combiner.Pos())
	var usable []string
	for _, f := range criteria {
		obj, _, _ := types.LookupFieldOrMethod(aclT.Type(), true, aclT.Pkg(), f)
		fv := obj.(*types.Var)
		b, _ := fv.Type().Underlying().(*types.Basic)
		switch {
		case b != nil && b.Info()&types.IsString != 0:
			anyOfField[f], x[f], y[f] = "", "A", "B"
		case b != nil && b.Info()&types.IsInteger != 0:
			var consts []int64
			allInstrs(newRule, false, func(_ *ssa.Function, in ssa.Instruction) {
				if s, ok := in.(*ssa.Store); ok && fieldVar(s.Addr) == fv {
					if cv, isC := constOf(s.Val); isC {
						if n, exact := constant.Int64Val(cv); exact {
							consts = append(consts, n)
						}
					}
				}
			})
			if len(consts) != 1 {
				c.Lost("the 'any' value of hns.ACLPolicy.%s: PolicySets.NewRule stores %v into it (expected one constant)", f, consts)
			}
			anyOfField[f] = consts[0]
			vals := []int64{}
			for v := int64(6); len(vals) < 2; v += 11 {
				if v != consts[0] {
					vals = append(vals, v)
				}
			}
			x[f], y[f] = vals[0], vals[1]
		default:
			c.Undecided("C30.combine/ACLPolicy."+f, site, "criterion field of type %s: the evaluator has no model of its 'any' value", fv.Type())
			continue
		}
		usable = append(usable, f)
	}
	base := func(who string) map[string]any {
		m := map[string]any{"Action": who + "-action", "Id": who + "-id"}
		for _, f := range usable {
			m[f] = anyOfField[f]
		}
		return m
	}
	problem := map[string]string{}
	undec := map[string]string{}
	note := func(m map[string]string, k, v string) {
		if m[k] == "" {
			m[k] = v
		}
	}
	nEval := 0
	name := fnName(combiner)
	for _, f := range usable {
		type tc struct {
			a, b any
			want any // nil: no rule
		}
		a0 := anyOfField[f]
		cases := []tc{{a0, a0, a0}, {x[f], a0, x[f]}, {a0, x[f], x[f]}, {x[f], x[f], x[f]}, {x[f], y[f], nil}, {y[f], x[f], nil}}
		for _, t := range cases {
			f1, f2 := base("r1"), base("r2")
			f1[f], f2[f] = t.a, t.b
			out, err := c30EvalCombine(combiner, st, f1, f2, family, noOp)
			nEval++
			call := fmt.Sprintf("%s(pass rule with %s=%#v, next-tier rule with %s=%#v; every other criterion 'any')", name, f, t.a, f, t.b)
			if err != nil {
				if _, outside := err.(c30Outside); outside {
					note(undec, f, call+": "+err.Error())
				} else {
					note(problem, f, call+": "+err.Error())
				}
				continue
			}
			if len(out.operandsChanged) > 0 {
				note(problem, "operands-unchanged", fmt.Sprintf("%s changes %v of its operands: the next-tier rule is combined with every pass rule of the tier above, so later combinations (and the tier itself) see the narrowed rule", call, out.operandsChanged))
			}
			switch {
			case t.want == nil && !out.isNil:
				note(problem, f, fmt.Sprintf("%s returns a rule with %s=%#v; the two rules name different specific values, no connection matches both, so the combination must be dropped (nil) — the flattened tier otherwise applies the next-tier rule to traffic the pass rule never handed on", call, f, out.fields[f]))
			case t.want != nil && out.isNil:
				note(problem, f, fmt.Sprintf("%s returns no rule; expected a rule with %s=%#v", call, f, t.want))
			case t.want != nil:
				if !reflect.DeepEqual(out.fields[f], t.want) {
					note(problem, f, fmt.Sprintf("%s returns a rule with %s=%#v; expected %#v (the intersection of the two)", call, f, out.fields[f], t.want))
				}
				for _, g := range usable {
					if g != f && !reflect.DeepEqual(out.fields[g], anyOfField[g]) {
						note(problem, g, fmt.Sprintf("%s returns a rule with %s=%#v although both rules leave %s as 'any'", call, g, out.fields[g], g))
					}
				}
				if out.fields["Action"] != "r2-action" {
					note(problem, "ACLPolicy.Action", fmt.Sprintf("%s returns a rule with Action=%#v: the combined rule must carry the next-tier rule's verdict", call, out.fields["Action"]))
				}
			}
		}
	}
	for _, f := range usable {
		key := "C30.combine/ACLPolicy." + f
		switch {
		case problem[f] != "":
			c.Violate(key, site, "%s", problem[f])
		case undec[f] != "":
			c.Undecided(key, site, "%s", undec[f])
		default:
			c.Ok(key, site, "any/any, x/any, any/x, x/x give the intersection, x/y and y/x give no rule; other criteria untouched")
		}
	}
	anyUndec := ""
	for _, f := range usable {
		if undec[f] != "" {
			anyUndec = undec[f]
		}
	}
	for _, k := range []struct{ key, pk, ok string }{
		{"C30.combine/ACLPolicy.Action", "ACLPolicy.Action", "the combined rule carries the next-tier rule's Action in all evaluated cases"},
		{"C30.combine/operands-unchanged", "operands-unchanged", "neither operand is modified in any evaluated case"},
	} {
		switch {
		case problem[k.pk] != "":
			c.Violate(k.key, site, "%s", problem[k.pk])
		case anyUndec != "":
			c.Undecided(k.key, site, "%s", anyUndec)
		default:
			c.Ok(k.key, site, "%s (%d evaluations)", k.ok, nEval)
		}
	}
}

// ----------------------------------------------------------------- refidx --

func c30RefIdx(c *Ctx, p *Prog, ruleT *types.TypeName) {
	members, _ := p.LookupObj(c30PSPkg, "policySet.Members").(*types.Var)
	ipSetIds, _ := p.LookupObj(c30PSPkg, "policySet.IpSetIds").(*types.Var)
	if members == nil || ipSetIds == nil {
		c.Lost("policySet.Members / policySet.IpSetIds")
	}
	getMembers, _ := p.LookupObj(c30PSPkg, "IPSetCache.GetIPSetMembers").(*types.Func)
	if getMembers == nil {
		c.Lost("IPSetCache.GetIPSetMembers")
	}
	pkgFns := c28PkgFuncs(c, p, c30PSPkg)
	scope := map[*ssa.Function]bool{}
	for _, fn := range pkgFns {
		scope[fn] = true
	}
	isRuleField := func(fv *types.Var) bool {
		st := ruleT.Type().Underlying().(*types.Struct)
		for i := 0; i < st.NumFields(); i++ {
			if st.Field(i) == fv {
				return true
			}
		}
		return false
	}
	isRuleList := func(t types.Type) bool {
		sl, ok := t.Underlying().(*types.Slice)
		if !ok {
			return false
		}
		n, ok := types.Unalias(derefType(sl.Elem())).(*types.Named)
		return ok && n.Obj() == ruleT
	}
	// (1) T: the fields of proto.Rule whose value reaches the id argument of IPSetCache.GetIPSetMembers
	expand := newC30Back(nil, scope)
	nSinks := 0
	var sinkPos token.Pos
	for _, fn := range pkgFns {
		for _, cs := range callsIn(fn, false, func(f *types.Func) bool { return f == getMembers }) {
			args := cs.Args()
			if len(args) != 2 {
				c.Lost("IPSetCache.GetIPSetMembers call with %d arguments", len(args))
			}
			nSinks++
			sinkPos = cs.Instr.Pos()
			expand.walk(args[1])
		}
	}
	if nSinks == 0 {
		c.Lost("no call of IPSetCache.GetIPSetMembers in %s", c30PSPkg)
	}
	var expanded []string
	for fv := range expand.fields {
		if isRuleField(fv) {
			expanded = append(expanded, fv.Name())
		}
	}
	sort.Strings(expanded)
	if len(expanded) == 0 {
		c.Lost("no field of proto.Rule reaches IPSetCache.GetIPSetMembers")
	}
	// (2) the producers of policySet.Members / policySet.IpSetIds and the rule lists handed to them
	type side struct {
		lists   map[string]bool
		callees map[*ssa.Function]bool
		pos     token.Pos
	}
	collect := func(field *types.Var) side {
		sd := side{lists: map[string]bool{}, callees: map[*ssa.Function]bool{}}
		for _, fn := range pkgFns {
			allInstrs(fn, false, func(_ *ssa.Function, in ssa.Instruction) {
				st, ok := in.(*ssa.Store)
				if !ok {
					return
				}
				if _, isFA := st.Addr.(*ssa.FieldAddr); !isFA || fieldVar(st.Addr) != field {
					return
				}
				sd.pos = st.Pos()
				b := newC30Back(nil, nil)
				b.walk(st.Val)
				for _, ci := range b.calls {
					if f := calleeFn(ci.Common()); f != nil && f.Blocks != nil && scope[f] {
						sd.callees[f] = true
					}
				}
				for fv, reads := range b.fields {
					if !isRuleList(fv.Type()) {
						continue
					}
					for _, r := range reads {
						var base types.Type
						switch x := r.(type) {
						case *ssa.FieldAddr:
							base = x.X.Type()
						case *ssa.Field:
							base = x.X.Type()
						case *ssa.Call:
							if a := c30CallArgs(x); len(a) > 0 {
								base = a[0].Type()
							}
						}
						if base == nil {
							continue
						}
						sd.lists[namedTypeName(base)+"."+fv.Name()] = true
					}
				}
			})
		}
		return sd
	}
	rendered, indexed := collect(members), collect(ipSetIds)
	if len(rendered.callees) == 0 || len(rendered.lists) == 0 {
		c.Lost("producers of policySet.Members: %d functions, rule lists %v", len(rendered.callees), sortedKeys(rendered.lists))
	}
	if len(indexed.callees) == 0 {
		c.Lost("no function of %s produces the value stored into policySet.IpSetIds", c30PSPkg)
	}
	var collectors []*ssa.Function
	var collectorNames []string
	for f := range indexed.callees {
		collectors = append(collectors, f)
		collectorNames = append(collectorNames, fnName(f))
	}
	sort.Strings(collectorNames)
	read := fieldsRead(p.closure(collectors...), ruleT.Type())
	for _, f := range expanded {
		c.Check(len(read[f]) > 0, "C30.refidx/Rule."+f, p.Pos(collectors[0].Pos()),
			fmt.Sprintf("the reverse index (policySet.IpSetIds, built by %v) reads Rule.%s, whose members the translator expands", collectorNames, f),
			fmt.Sprintf("the rule translator expands the members of the IP sets named by proto.Rule.%s into the cached HNS rules (it reaches IPSetCache.GetIPSetMembers at %s), but %v, which builds the reverse index policySet.IpSetIds, never reads that field: when such an IP set changes, ProcessIpSetUpdate finds no policy set to re-render and the cached rules keep the old members", f, p.Pos(sinkPos), collectorNames))
	}
	for _, l := range sortedKeys(rendered.lists) {
		c.Check(indexed.lists[l], "C30.refidx/"+l, p.Pos(indexed.pos),
			"rule list handed both to the translator (policySet.Members) and to the reverse-index collector (policySet.IpSetIds)",
			fmt.Sprintf("the rules of %s are rendered into policySet.Members but are not handed to %v, which builds policySet.IpSetIds (it gets %v): IP sets referenced only by those rules are missing from the reverse index, their later changes do not re-render the policy set", l, collectorNames, sortedKeys(indexed.lists)))
	}
}
