package main

import (
	"go/types"
	"strings"

	"golang.org/x/tools/go/ssa"
)

// C10.wlindex
//
// The set of interfaces the workload dispatch chains / verdict maps are rendered
// from is endpointManager.activeWlEndpoints.  Whether a pending endpoint gets
// into that set is decided by the reverse index interface-name -> endpoint id
// (activeWlIfaceNameToID): a name found there under another id makes the new
// endpoint a duplicate (it is shadowed, or it evicts the indexed endpoint).  So
// "every known interface is dispatched to its own chain" needs the reverse
// index to be exact:
//
//	index    every store activeWlEndpoints[id]=w comes with activeWlIfaceNameToID[w.Name]=id      (rules_C44.go, c44.index)
//	unindex  every delete(activeWlEndpoints, id) comes with delete(activeWlIfaceNameToID, w.Name)
//	         of the endpoint being removed (only skipped when that endpoint is nil)
//	agree /  the interface-rename block of resolveWorkloadEndpoints retires the OLD name from the
//	oldname  reverse index exactly as the removal function does                                    (rules_C44.go, c44.cleanup)
//
// A stale entry (seed C10-3: rename without retiring the old name) makes a later
// endpoint created on the freed interface a "duplicate": one of the two known
// interfaces drops out of the dispatch and hits the unknown-interface drop.
//
// The index/agree/oldname obligations are the ones rules_C44.go computes for
// property C44; they are run here in a scratch context and only those that
// concern the two index maps are re-reported under C10's id (the other
// clean-up operations - routes, link-local addresses, RPF - do not feed the
// dispatch).

func c10NewC44(c *Ctx, p *Prog) *c44 {
	x := &c44{c: c, p: p}
	fv := func(name string) *types.Var {
		v, _ := p.LookupObj(c44Pkg, "endpointManager."+name).(*types.Var)
		if v == nil {
			c.Lost("endpointManager.%s", name)
		}
		return v
	}
	x.fActive, x.fPending, x.fShadowed, x.fIfaceIdx = fv("activeWlEndpoints"), fv("pendingWlEpUpdates"), fv("shadowedWlEndpoints"), fv("activeWlIfaceNameToID")
	if tn, ok := p.LookupObj(c44Pkg, "endpointManager").(*types.TypeName); ok {
		x.mgr, _ = tn.Type().(*types.Named)
	}
	if x.mgr == nil {
		c.Lost("type endpointManager")
	}
	x.nameField, _ = p.LookupExt("felix/proto", "WorkloadEndpoint.Name").(*types.Var)
	x.stateFld, _ = p.LookupExt("felix/proto", "WorkloadEndpoint.State").(*types.Var)
	if x.nameField == nil || x.stateFld == nil {
		c.Lost("proto.WorkloadEndpoint.Name/State")
	}
	x.resolve = p.Func(c44Pkg, "endpointManager.resolveWorkloadEndpoints")
	x.cmp = p.Func(c44Pkg, "wlIdsAscending")
	if x.resolve == nil || x.cmp == nil {
		c.Lost("resolveWorkloadEndpoints / wlIdsAscending")
	}
	x.findHasWrappers()
	return x
}

func c10WlIndex(c *Ctx, p *Prog) {
	c.Rule("C10.wlindex", "E-PAIR/E-SIBLING", "the reverse index interface-name -> endpoint id that gates membership of the dispatched set (activeWlEndpoints) is exact: stored with every store into the set (index), deleted with every delete from the set (unindex), and retired for the OLD name by the interface-rename block exactly as by the removal function (agree/oldname; c44.index, c44.cleanup)", 3)
	x := c10NewC44(c, p)

	// the dispatched set really is the field the index gates
	rr := p.LookupObj(c10RulesPkg, "RuleRenderer.WorkloadDispatchChains")
	if rr == nil {
		c.Lost("rules.RuleRenderer.WorkloadDispatchChains")
	}
	fed := false
	for _, f := range x.mgrFuncs() {
		for _, cs := range callsIn(f, false, func(fn *types.Func) bool { return fn == rr }) {
			a := cs.Args()
			if len(a) == 2 && x.mgrField(a[1]) == x.fActive {
				fed = true
			}
		}
	}
	if !fed {
		c.Lost("endpointManager: WorkloadDispatchChains is no longer rendered from %s", x.fActive.Name())
	}

	// C44's families in a scratch context, filtered to the index maps.
	sub := &Ctx{Prop: c.Prop, Tier: c.Tier, Repo: c.Repo, Overlay: c.Overlay, progs: c.progs, quiet: true}
	x.c = sub
	sub.Alias("C44.index", "C10.wlindex/index", func() { x.index() })
	sub.Alias("C44.cleanup", "C10.wlindex", func() { x.cleanup() })
	x.c = c
	wanted := map[string]bool{}
	for _, f := range []*types.Var{x.fIfaceIdx, x.fActive} {
		wanted["delete("+f.Name()+")"] = true
		wanted["store("+f.Name()+")"] = true
	}
	for _, o := range sub.obls {
		parts := strings.SplitN(o.Key, "/", 3)
		if len(parts) != 3 || parts[0] != "C10.wlindex" {
			continue
		}
		if parts[1] == "index" || wanted[parts[2]] {
			c.add(o.st, o.Key, o.Site, o.Detail)
		}
	}

	// unindex
	n := 0
	for _, f := range x.mgrFuncs() {
		var dels, idxDels []ssa.Instruction
		allInstrs(f, false, func(_ *ssa.Function, in ssa.Instruction) {
			cc, ok := isBuiltinCall(in, "delete")
			if !ok || len(cc.Args) != 2 {
				return
			}
			switch x.mgrField(cc.Args[0]) {
			case x.fActive:
				dels = append(dels, in)
			case x.fIfaceIdx:
				idxDels = append(idxDels, in)
			}
		})
		if len(dels) == 0 {
			continue
		}
		pd := postDominators(f)
		for _, d := range dels {
			n++
			ok := false
			for _, e := range idxDels {
				cc, _ := isBuiltinCall(e, "delete")
				w := c44FieldLoad(cc.Args[1], x.nameField)
				if w == nil {
					continue // not keyed by an endpoint's interface name
				}
				if instrDominates(e, d) || instrPostDominates(pd, e, d) {
					ok = true
					break
				}
				// every path to d (or from d to a return) that misses e has the endpoint nil
				isNil := eqCond(true, func(v ssa.Value) bool { return c44Strip(v) == w }, isNilConst)
				if !c10ReachesInstr(f, d, isNil, e) || !c10ReturnsFrom(d, isNil, e) {
					ok = true
					break
				}
			}
			c.Check(ok, "C10.wlindex/unindex/"+fnName(f), p.Pos(d.Pos()),
				"delete from "+x.fActive.Name()+" comes with the delete of the removed endpoint's interface name from "+x.fIfaceIdx.Name()+" (skipped only for a nil endpoint)",
				fnName(f)+" deletes an endpoint from "+x.fActive.Name()+" but not (on every path with a non-nil endpoint) its interface name from "+x.fIfaceIdx.Name()+": the stale name->id entry makes the next endpoint created on that interface a duplicate, so a known interface is left out of (or evicted from) the workload dispatch and falls to the unknown-interface drop")
		}
	}
	if n == 0 {
		c.Lost("no delete from endpointManager.%s", x.fActive.Name())
	}
}

// c10ReachesInstr: target is reachable from fn's entry without crossing an If
// edge accepted by cut and without executing instruction avoid.
func c10ReachesInstr(fn *ssa.Function, target ssa.Instruction, cut EdgePred, avoid ssa.Instruction) bool {
	if len(fn.Blocks) == 0 {
		return false
	}
	seen := map[*ssa.BasicBlock]bool{}
	st := []*ssa.BasicBlock{fn.Blocks[0]}
	for len(st) > 0 {
		b := st[len(st)-1]
		st = st[:len(st)-1]
		if seen[b] {
			continue
		}
		seen[b] = true
		if isPanicBlock(b) {
			continue
		}
		stopped := false
		for _, in := range b.Instrs {
			if in == avoid {
				stopped = true
				break
			}
			if in == target {
				return true
			}
		}
		if stopped {
			continue
		}
		if ifi, ok := b.Instrs[len(b.Instrs)-1].(*ssa.If); ok && len(b.Succs) == 2 && b.Succs[0] != b.Succs[1] {
			for k, s := range b.Succs {
				if cnd, pol := stripNot(ifi.Cond, k == 0); cut != nil && cut(cnd, pol) {
					continue
				}
				st = append(st, s)
			}
			continue
		}
		st = append(st, b.Succs...)
	}
	return false
}

// c10ReturnsFrom: a Return is reachable from the instruction after `from`
// without crossing an If edge accepted by cut and without executing avoid.
func c10ReturnsFrom(from ssa.Instruction, cut EdgePred, avoid ssa.Instruction) bool {
	type item struct {
		b *ssa.BasicBlock
		i int
	}
	seen := map[*ssa.BasicBlock]bool{}
	st := []item{{from.Block(), instrIndex(from) + 1}}
	for len(st) > 0 {
		it := st[len(st)-1]
		st = st[:len(st)-1]
		b := it.b
		if it.i == 0 {
			if seen[b] {
				continue
			}
			seen[b] = true
		}
		if isPanicBlock(b) {
			continue
		}
		stopped := false
		for _, in := range b.Instrs[it.i:] {
			if in == avoid {
				stopped = true
				break
			}
			if _, ok := in.(*ssa.Return); ok {
				return true
			}
		}
		if stopped {
			continue
		}
		if ifi, ok := b.Instrs[len(b.Instrs)-1].(*ssa.If); ok && len(b.Succs) == 2 && b.Succs[0] != b.Succs[1] {
			for k, s := range b.Succs {
				if cnd, pol := stripNot(ifi.Cond, k == 0); cut != nil && cut(cnd, pol) {
					continue
				}
				st = append(st, item{s, 0})
			}
			continue
		}
		for _, s := range b.Succs {
			st = append(st, item{s, 0})
		}
	}
	return false
}
