package main

import (
	"fmt"
	"go/token"
	"go/types"
	"sort"
	"strings"

	"golang.org/x/tools/go/ssa"
)

// C27.comparator: the comparator that picks the winning selector-scoped
// FelixConfiguration (the whole DatastorePerSelector source).
//
// The runtime path hands MergeSelectorConfigs a slice built by ranging over a Go
// map, so the winner is independent of the order in which the resources were
// read only if the comparator is a total order on the entries.  Two structural
// necessary conditions are decided on every comparator (function value handed to
// a slices.* / sort.* function) over calc.SelectorConfigEntry:
//
//	(sym)   every comparison step - a comparison operator, or a two-operand call
//	        returning bool/int (Before, Compare, strings.Compare, cmp.Compare, a
//	        helper), or a subtraction - whose operands are both projections of the
//	        comparator's parameters compares the SAME projection of the two
//	        DIFFERENT parameters (never a with a, b with b, or a.X with b.Y);
//	(total) one of those well-formed steps compares the unique key of the entries:
//	        the field that ConfigBatcher stores its map key into.

type c27CmpStep struct {
	pos          token.Pos
	what         string
	ra, rb       *ssa.Parameter
	pathA, pathB string
}

// c27Project: v as a projection of one parameter of fn: (root parameter, access
// path).  nil root = not a projection of a single parameter.
func c27Project(v ssa.Value, depth int) (*ssa.Parameter, string) {
	if v == nil || depth > 10 {
		return nil, ""
	}
	fld := func(t types.Type, i int) string {
		if f := structField(t, i); f != nil {
			return "." + f.Name()
		}
		return fmt.Sprintf(".#%d", i)
	}
	switch x := v.(type) {
	case *ssa.Parameter:
		return x, ""
	case *ssa.FieldAddr:
		r, p := c27Project(x.X, depth+1)
		return r, p + fld(x.X.Type(), x.Field)
	case *ssa.Field:
		r, p := c27Project(x.X, depth+1)
		return r, p + fld(x.X.Type(), x.Field)
	case *ssa.UnOp:
		if x.Op == token.MUL {
			if al, ok := x.X.(*ssa.Alloc); ok {
				var val ssa.Value
				n := 0
				if refs := al.Referrers(); refs != nil {
					for _, r := range *refs {
						if st, ok := r.(*ssa.Store); ok && st.Addr == ssa.Value(al) {
							val = st.Val
							n++
						}
					}
				}
				if n != 1 {
					return nil, ""
				}
				return c27Project(val, depth+1)
			}
			return c27Project(x.X, depth+1)
		}
		return nil, ""
	case *ssa.Convert:
		return c27Project(x.X, depth+1)
	case *ssa.ChangeType:
		return c27Project(x.X, depth+1)
	case *ssa.MakeInterface:
		return c27Project(x.X, depth+1)
	case *ssa.IndexAddr:
		if prm, ok := c27Unwrap(x.Index).(*ssa.Parameter); ok {
			return prm, path(x.X) + "[]"
		}
		r, p := c27Project(x.X, depth+1)
		return r, p + "[" + path(x.Index) + "]"
	case *ssa.Index:
		if prm, ok := c27Unwrap(x.Index).(*ssa.Parameter); ok {
			return prm, path(x.X) + "[]"
		}
		r, p := c27Project(x.X, depth+1)
		return r, p + "[" + path(x.Index) + "]"
	case *ssa.Lookup:
		r, p := c27Project(x.X, depth+1)
		return r, p + "[" + path(x.Index) + "]"
	case *ssa.Extract:
		r, p := c27Project(x.Tuple, depth+1)
		return r, fmt.Sprintf("%s#%d", p, x.Index)
	case *ssa.Call:
		ops := c27Operands(x.Common())
		if len(ops) != 1 {
			return nil, ""
		}
		r, p := c27Project(ops[0], depth+1)
		return r, p + "." + c27CallName(x.Common()) + "()"
	}
	return nil, ""
}

func c27Operands(cc *ssa.CallCommon) []ssa.Value {
	var ops []ssa.Value
	if cc.IsInvoke() {
		ops = append(ops, cc.Value)
	}
	return append(ops, cc.Args...)
}

func c27CallName(cc *ssa.CallCommon) string {
	if f := calleeOf(cc); f != nil {
		return f.Name()
	}
	if b, ok := cc.Value.(*ssa.Builtin); ok {
		return b.Name()
	}
	return "func"
}

func c27IsCmpResult(t types.Type) bool {
	b, ok := types.Unalias(t).(*types.Basic)
	return ok && (b.Kind() == types.Bool || b.Kind() == types.Int || b.Kind() == types.UntypedBool)
}

// c27CmpSteps collects the comparison steps of comparator fn over its parameters
// pa, pb (path prefix for steps found in helpers).
func c27CmpSteps(p *Prog, fn *ssa.Function, pa, pb *ssa.Parameter, prefix string, depth int, out *[]c27CmpStep) {
	isPrm := func(r *ssa.Parameter) bool { return r != nil && (r == pa || r == pb) }
	allInstrs(fn, false, func(_ *ssa.Function, in ssa.Instruction) {
		var x, y ssa.Value
		what := ""
		var call *ssa.Call
		switch z := in.(type) {
		case *ssa.BinOp:
			switch z.Op {
			case token.EQL, token.NEQ, token.LSS, token.LEQ, token.GTR, token.GEQ, token.SUB:
				x, y, what = z.X, z.Y, "`"+z.Op.String()+"`"
			default:
				return
			}
		case *ssa.Call:
			ops := c27Operands(z.Common())
			if len(ops) != 2 || !c27IsCmpResult(z.Type()) {
				return
			}
			x, y, what, call = ops[0], ops[1], c27CallName(z.Common())+"(..)", z
		default:
			return
		}
		ra, pathA := c27Project(x, 0)
		rb, pathB := c27Project(y, 0)
		if !isPrm(ra) || !isPrm(rb) {
			return
		}
		if bo, ok := in.(*ssa.BinOp); ok && bo.Op == token.SUB && ra == rb {
			return // arithmetic inside one element, not a comparison
		}
		*out = append(*out, c27CmpStep{pos: in.Pos(), what: what, ra: ra, rb: rb, pathA: prefix + pathA, pathB: prefix + pathB})
		// a helper comparator: its own steps, under this projection
		if call != nil && ra != rb && pathA == pathB && depth < 2 {
			if sf := calleeFn(call.Common()); sf != nil && sf.Blocks != nil && len(sf.Params) == 2 {
				c27CmpSteps(p, sf, sf.Params[0], sf.Params[1], prefix+pathA, depth+1, out)
			}
		}
	})
}

func c27Comparator(c *Ctx) {
	p := c.Load(calcPkg)
	entryTN, _ := p.LookupObj(calcPkg, "SelectorConfigEntry").(*types.TypeName)
	if entryTN == nil {
		c.Lost("type felix/calc.SelectorConfigEntry")
	}
	isEntry := func(t types.Type) bool {
		if pt, ok := types.Unalias(t).(*types.Pointer); ok {
			t = pt.Elem()
		}
		n, ok := types.Unalias(t).(*types.Named)
		return ok && n.Obj() == entryTN
	}
	// the unique key: the entry field the batcher stores its map key into
	batcherTN, _ := p.LookupObj(calcPkg, "ConfigBatcher").(*types.TypeName)
	if batcherTN == nil {
		c.Lost("type felix/calc.ConfigBatcher")
	}
	bst, _ := batcherTN.Type().Underlying().(*types.Struct)
	var regFld *types.Var
	for i := 0; bst != nil && i < bst.NumFields(); i++ {
		if mt, ok := bst.Field(i).Type().Underlying().(*types.Map); ok && isEntry(mt.Elem()) {
			if regFld != nil {
				c.Lost("ConfigBatcher has more than one map of SelectorConfigEntry")
			}
			regFld = bst.Field(i)
		}
	}
	if regFld == nil {
		c.Lost("ConfigBatcher map of SelectorConfigEntry")
	}
	keyField := ""
	nUpd := 0
	for _, f := range withClosures(p.methodsOf(calcPkg, "ConfigBatcher")) {
		allInstrs(f, false, func(_ *ssa.Function, in ssa.Instruction) {
			mu, ok := in.(*ssa.MapUpdate)
			if !ok || fieldVar(mu.Map) != regFld {
				return
			}
			nUpd++
			for name, vals := range literalFieldStores(mu.Value) {
				for _, v := range vals {
					if v == mu.Key || path(v) == path(mu.Key) {
						if keyField != "" && keyField != name {
							c.Lost("ConfigBatcher.%s is keyed by more than one entry field (%s, %s)", regFld.Name(), keyField, name)
						}
						keyField = name
					}
				}
			}
		})
	}
	if nUpd == 0 || keyField == "" {
		c.Lost("no update of ConfigBatcher.%s with an entry literal that stores the map key into one of its fields (%d updates)", regFld.Name(), nUpd)
	}

	// comparators over entries handed to slices.* / sort.*
	type cmpSite struct {
		fn     *ssa.Function
		pa, pb *ssa.Parameter
		in     *ssa.Function
		callee string
		pos    token.Pos
	}
	var sites []cmpSite
	for _, f := range p.AllFuncs() {
		allInstrs(f, false, func(in *ssa.Function, ins ssa.Instruction) {
			ci, ok := ins.(ssa.CallInstruction)
			if !ok {
				return
			}
			cc := ci.Common()
			callee := calleeOf(cc)
			if callee == nil || callee.Pkg() == nil || (callee.Pkg().Path() != "slices" && callee.Pkg().Path() != "sort") {
				return
			}
			overEntries := false
			for _, a := range cc.Args {
				if sl, ok := a.Type().Underlying().(*types.Slice); ok && isEntry(sl.Elem()) {
					overEntries = true
				}
			}
			for _, a := range cc.Args {
				var cf *ssa.Function
				switch y := a.(type) {
				case *ssa.MakeClosure:
					cf, _ = y.Fn.(*ssa.Function)
				case *ssa.Function:
					cf = y
				}
				if cf == nil || cf.Blocks == nil || len(cf.Params) != 2 || !types.Identical(cf.Params[0].Type(), cf.Params[1].Type()) {
					continue
				}
				pt := cf.Params[0].Type()
				if b, isB := types.Unalias(pt).(*types.Basic); !(isEntry(pt) || (overEntries && isB && b.Kind() == types.Int)) {
					continue
				}
				sites = append(sites, cmpSite{cf, cf.Params[0], cf.Params[1], in, callee.Name(), ins.Pos()})
			}
		})
	}
	if len(sites) == 0 {
		c.Lost("no comparator over calc.SelectorConfigEntry is handed to a slices/sort function: the selection of the winning selector-scoped FelixConfiguration is no longer anchored")
	}
	sort.Slice(sites, func(i, j int) bool { return sites[i].pos < sites[j].pos })
	seenKey := map[string]int{}
	for _, s := range sites {
		id := fnName(topFn(s.in)) + "/" + s.callee
		seenKey[id]++
		if n := seenKey[id]; n > 1 {
			id = fmt.Sprintf("%s#%d", id, n)
		}
		site := p.Pos(s.pos)
		var steps []c27CmpStep
		c27CmpSteps(p, s.fn, s.pa, s.pb, "", 0, &steps)
		var bad []string
		covered := map[string]bool{}
		for _, st := range steps {
			switch {
			case st.ra == st.rb:
				bad = append(bad, fmt.Sprintf("%s at %s compares %s%s with %s%s: both operands come from the same element, so the step is constant", st.what, p.Pos(st.pos), st.ra.Name(), st.pathA, st.rb.Name(), st.pathB))
			case st.pathA != st.pathB:
				bad = append(bad, fmt.Sprintf("%s at %s compares %s%s with %s%s: different projections of the two elements", st.what, p.Pos(st.pos), st.ra.Name(), st.pathA, st.rb.Name(), st.pathB))
			default:
				covered[st.pathA] = true
			}
		}
		if len(steps) == 0 {
			c.Undecided("C27.comparator/sym/"+id, site, "no comparison step over the two parameters found in the comparator")
			continue
		}
		c.Check(len(bad) == 0, "C27.comparator/sym/"+id, site,
			fmt.Sprintf("%d comparison step(s), each comparing the same projection of the two different elements", len(steps)),
			fmt.Sprintf("comparator handed to %s in %s is not a function of (a, b): %s — entries that differ only in that projection compare equal, and the winner among them is whichever comes first in the input, which the runtime path builds by ranging over a Go map: the per-selector configuration source depends on map iteration order",
				s.callee, fnName(topFn(s.in)), strings.Join(bad, "; ")))
		hasKey := false
		var paths []string
		for pth := range covered {
			paths = append(paths, pth)
			if pre, ok := strings.CutSuffix(pth, "."+keyField); ok && (pre == "" || strings.HasSuffix(pre, "[]")) {
				hasKey = true
			}
		}
		sort.Strings(paths)
		c.Check(hasKey, "C27.comparator/total/"+id, site,
			fmt.Sprintf("compares %v of both elements; %s is the unique key (ConfigBatcher.%s is keyed by it)", paths, keyField, regFld.Name()),
			fmt.Sprintf("comparator handed to %s in %s compares only %v of the two elements and never their %s (the unique key: ConfigBatcher.%s is keyed by it): entries that tie on the compared projections (e.g. same creationTimestamp, 1 s granularity) are ordered by their position in the input, which the runtime path builds by ranging over a Go map",
				s.callee, fnName(topFn(s.in)), paths, keyField, regFld.Name()))
	}
}
