package main

import (
	"fmt"
	"go/ast"
	"go/token"
	"go/types"
	"os"
	"sort"
	"strings"

	"golang.org/x/tools/go/ssa"
)

// C01: computed dataplane state depends only on the current datastore state.
// Whole-history behaviour is not decidable statically; the rules decide the
// node-contract conditions that felix/design/calc-graph.md states, on the code
// of EventSequencer (shared model seqmodel.go) and of the calc-graph packages.

var c01Roots = []string{
	"felix/calc", "felix/dispatcher", "felix/serviceindex",
	"felix/labelindex", "felix/labelindex/ipsetmember",
	"felix/labelindex/labelnamevalueindex", "felix/labelindex/labelrestrictionindex",
}

func init() {
	register(&Property{
		ID:        "C01",
		Title:     "Felix's computed dataplane state depends only on current datastore state",
		Technique: "static analysis: sibling cross-check of pending-update/pending-delete families and of the tier update/delete branches (SSA dominance + post-dominance, cut-set guards), premise/cancel/re-read cross-check of the batched sets of the calc-graph nodes, AST twin-block symmetry (IPv4/IPv6 copies compared modulo the twin substitution, type-resolved), field read-set ownership and coverage (equality functions), value-flow slice from the per-endpoint callback argument, provenance of sorted-tree items, concurrency-construct ownership, interface-conversion ownership",
		DesignRef: "DESIGN.md §3 C01",
		Explanation: "Decides structural necessary conditions of history-independence. (cancel) For every EventSequencer message family, derived from the proto types XUpdate/XRemove it emits and the " +
			"pending collections ranged over at those emissions: every store into the pending-update map is accompanied on every path by a Discard of the same key from the pending-delete set, and every Add to the " +
			"pending-delete set by a delete of the same key from the pending-update map, so add-remove-add (or remove-add-remove) between two flushes collapses to the last event. " +
			"(flushclears) Every XUpdate emission records its key in the same 'sent' set from which the XRemove emission discards (else a later removal is never sent), and every flush empties the pending " +
			"collection it ranges over (per-key delete/Discard of the iteration key, Clear(), or replacement by a fresh map/set), including the two IP-set member-delta multidicts. " +
			"(tierreset) A TierInfo that survives the deletion of its Tier resource (policies still name it) has every field that the update branch copies from the Tier value overwritten by the deletion branch, or invalid tiers are skipped where the per-endpoint list is built: nothing of a deleted tier leaks into later output. " +
			"(nilnotype) api.Update.UpdateType is read only by StatsCollector: no calc-graph node decides existence from the event type instead of Value==nil. " +
			"(sync) go statements and channel operations occur only in the AsyncCalcGraph/decoupler shell, so the graph proper is single-threaded and its output cannot depend on goroutine schedule. " +
			"(filter) in felix/daemon an *AsyncCalcGraph is converted to api.SyncerCallbacks only as the sink argument of calc.NewValidationFilter, and the filter's result is what is handed on. " +
			"(pendinglive) For every batched set of a calc-graph node other than EventSequencer (a lib/set-typed struct field with Add sites and a loop that empties it — the Discard of the iteration key / the RemoveItem result / the Clear may sit in a helper the loop body hands the key to or the enclosing function calls: PolicyResolver.pendingPolicyUpdates/dirtyEndpoints, InheritIndex.dirtyItemIDs, ActiveRulesCalculator.missingProfiles, RouteTrie.dirtyCIDRs) and every sibling map/set/multidict M of the same struct into which the queued key is inserted on a path through the Add (in the adding function or its caller): the flush loop (or a callee handed the iteration key) re-reads M at that key, or every function that removes a key from M also Discards it from the batched set (before/after on every path, or under guards that only establish that M no longer contains the key, directly or through a helper that discards its parameter unconditionally). So start-then-stop between two flushes cannot leave a queued action whose premise no longer holds. " +
			"(twin) Sibling statements / case clauses of felix/calc that are copies of each other up to the IPv4->IPv6 twin relation on identifiers (V4x->V6x, v4->v6, IPv4->IPv6, unmarked x->xV6 inserted anywhere, literal 4->6; block-local names alpha-renamed) use no identifier un-substituted that has a twin resolvable the same way (member of the receiver types, package scope, lexical scope): neither address family's block reads the other family's field, method, variable or type. " +
			"(twin, missing member) A function of felix/calc that uses both members of one IPv4/IPv6 field pair of a struct (so it handles both families of that struct) uses both members of every twin pair of that struct it touches: a dropped IPv6 (or IPv4) sibling is reported as <fn>/<field>/missing-twin. " +
			"(eqfields) Every function of felix/calc of the shape func(a, b T) bool over a struct T that is called in felix/calc (vtepEqual, l3rrNodeInfo.Equal, HostInfo.equals, RouteInfo.Equals, policyMetadata.Equals: the tests that suppress re-emission when nothing changed) reads every field of T (exported fields for felix/proto messages) from both operands, or compares the operands whole (==, reflect.DeepEqual, proto.Equal). " +
			"(treekey, shared with C03) Items handed to Delete on the sorted btrees of PolicySorter are rebuilt from what is stored (the tier's own Policies[key] / the TierInfo's fields before reassignment) and items handed to ReplaceOrInsert are what is stored afterwards, so no stale tree entry can survive an update that changes the sort key. " +
			"(tierreset) locates the per-endpoint tier list through the value flow into the tiers argument of OnEndpointTierUpdate, following felix/calc helpers. An anchor lost by one family breaks the run but no longer silences the other families.",
		NotDecided: "pendinglive: premises recorded in containers other than builtin map / lib/set / felix/multidict fields of the same struct (e.g. the ip.CIDRTrie behind RouteTrie.dirtyCIDRs), batches kept in plain maps, and a flush that re-derives the premise from a mirror index instead of the container written at the Add site. twin: IPv4/IPv6 code whose two halves are not structurally identical copies (one side refactored, extra statement) is not paired (the instance floor then breaks the run); unsubstituted integer/string literals; a function split into one helper per address family is not seen as dual-stack by the missing-member clause. eqfields: equality decided by something other than a func(a, b T) bool over a struct (inline comparisons, interface-typed operands), and whether an uncompared field is derived from compared ones. That each calc-graph node (ActiveRulesCalculator, PolicyResolver, RuleScanner, L3RouteResolver, VXLANResolver, label indexes) computes a function of its current inputs only; equality of the emitted state with a fresh start over all histories.",
		Assumptions: []string{
			"go/types + go/ssa (x/tools v0.50.0) model of the current source, CGO_ENABLED=0 build",
			"set.Set / multidict / builtin map have their usual semantics (Add/Discard/Clear/DiscardKey/delete)",
			"logrus Panic*/Fatal* do not return",
			"proto message naming convention XUpdate/XRemove identifies a message family (generated API contract)",
		},
		Run: runC01,
		Fixtures: []Fixture{
			{Name: "F17 re-introduced: match-stopped leaves the policy queued for the sorter", File: "felix/calc/policy_resolver.go",
				Old: "\t\tpr.pendingPolicyUpdates.Discard(policyKey)\n", New: "", Expect: "C01.pendinglive/PolicyResolver.pendingPolicyUpdates"},
			{Name: "F14 re-introduced: deleted tier keeps its default action", File: "felix/calc/policy_sorter.go",
				Old: "\t\t\t\ttierInfo.DefaultAction = \"\"\n", New: "", Expect: "C01.tierreset/PolicySorter.OnUpdate/TierInfo.DefaultAction"},
			{Name: "policy re-activation no longer cancels the pending delete", File: "felix/calc/event_sequencer.go",
				Old: "\tbuf.pendingPolicyDeletes.Discard(key)\n\tbuf.pendingPolicyUpdates[key] = rules\n", New: "\tbuf.pendingPolicyUpdates[key] = rules\n", Expect: "C01.cancel/pendingPolicyUpdates/store@EventSequencer.OnPolicyActive"},
			{Name: "VTEP removal leaves the queued update in place", File: "felix/calc/event_sequencer.go",
				Old: "\tdelete(buf.pendingVTEPUpdates, dst)\n", New: "", Expect: "C01.cancel/pendingVTEPDeletes/add@EventSequencer.OnVTEPRemove"},
			{Name: "endpoint deletion squashes the update only when already sent", File: "felix/calc/event_sequencer.go",
				Old: "\t\tdelete(buf.pendingEndpointUpdates, endpointKey)\n\t\tif buf.sentEndpoints.Contains(endpointKey) {\n\t\t\t// We'd previously sent an update, so we need to send a deletion.\n\t\t\tbuf.pendingEndpointDeletes.Add(endpointKey)\n\t\t}",
				New: "\t\tif buf.sentEndpoints.Contains(endpointKey) {\n\t\t\tbuf.pendingEndpointDeletes.Add(endpointKey)\n\t\t} else {\n\t\t\tdelete(buf.pendingEndpointUpdates, endpointKey)\n\t\t}", Expect: "C01.cancel/pendingEndpointDeletes/add@EventSequencer.OnEndpointTierUpdate"},
			{Name: "route update cancels the delete of a different key", File: "felix/calc/event_sequencer.go",
				Old: "\tbuf.pendingRouteDeletes.Discard(routeID)\n\tbuf.pendingRouteUpdates[routeID] = update\n", New: "\tbuf.pendingRouteDeletes.Discard(struct{ dst string }{})\n\tbuf.pendingRouteUpdates[routeID] = update\n", Expect: "C01.cancel/pendingRouteUpdates/store@EventSequencer.OnRouteUpdate"},
			{Name: "IP set add does not cancel the pending removal", File: "felix/calc/event_sequencer.go",
				Old: "\tbuf.pendingAddedIPSets[setID] = ipSetType\n\tbuf.pendingRemovedIPSets.Discard(setID)\n", New: "\tbuf.pendingAddedIPSets[setID] = ipSetType\n", Expect: "C01.cancel/pendingAddedIPSets/store@EventSequencer.OnIPSetAdded"},
			{Name: "profile update not recorded as sent", File: "felix/calc/event_sequencer.go",
				Old: "\t\tbuf.sentProfiles.Add(key)\n", New: "", Expect: "C01.flushclears/sent/ActiveProfileUpdate"},
			{Name: "route update recorded in the wrong sent set", File: "felix/calc/event_sequencer.go",
				Old: "\t\tbuf.sentRoutes.Add(id)\n", New: "\t\tbuf.sentVTEPs.Add(id.dst)\n", Expect: "C01.flushclears/sent/RouteUpdate"},
			{Name: "flushed IP set add stays pending (re-sent empty at next flush)", File: "felix/calc/event_sequencer.go",
				Old: "\t\tdelete(buf.pendingAddedIPSets, setID)\n", New: "", Expect: "C01.flushclears/clear/pendingAddedIPSets"},
			{Name: "VTEP delete set not cleared after flush", File: "felix/calc/event_sequencer.go",
				Old: "\tbuf.pendingVTEPDeletes.Clear()\n", New: "", Expect: "C01.flushclears/clear/pendingVTEPDeletes"},
			{Name: "service update map only replaced when non-empty deletes", File: "felix/calc/event_sequencer.go",
				Old: "\tbuf.pendingServiceUpdates = make(map[serviceID]*proto.ServiceUpdate)\n", New: "\tif buf.pendingServiceDeletes.Len() > 0 {\n\t\tbuf.pendingServiceUpdates = make(map[serviceID]*proto.ServiceUpdate)\n\t}\n", Expect: "C01.flushclears/clear/pendingServiceUpdates"},
			{Name: "IP set member deltas not cleared after delta flush", File: "felix/calc/event_sequencer.go",
				Old: "\tbuf.pendingAddedIPSetMembers.DiscardKey(setID)\n\tbuf.pendingRemovedIPSetMembers.DiscardKey(setID)\n\tbuf.Callback(&deltaUpdate)\n", New: "\tbuf.pendingRemovedIPSetMembers.DiscardKey(setID)\n\tbuf.Callback(&deltaUpdate)\n", Expect: "C01.flushclears/clear/pendingAddedIPSetMembers"},
			{Name: "deleted tier keeps its old order", File: "felix/calc/policy_sorter.go",
				Old: "\t\t\t\ttierInfo.Valid = false\n\t\t\t\ttierInfo.Order = nil\n", New: "\t\t\t\ttierInfo.Valid = false\n", Expect: "C01.tierreset/PolicySorter.OnUpdate/TierInfo.Order"},
			{Name: "policy resolver decides deletion from UpdateType", File: "felix/calc/policy_resolver.go",
				Old: "\t\tif update.Value == nil {\n\t\t\tdelete(pr.allPolicies, key)\n", New: "\t\tif update.UpdateType == api.UpdateTypeKVDeleted {\n\t\t\tdelete(pr.allPolicies, key)\n", Expect: "C01.nilnotype/PolicyResolver.OnUpdate"},
			{Name: "dispatcher fans out on a goroutine", File: "felix/dispatcher/dispatcher.go",
				Old: "\ttypeSpecificHandlers.DispatchToAll(update)\n", New: "\tgo typeSpecificHandlers.DispatchToAll(update)\n", Expect: "C01.sync/Dispatcher.OnUpdate"},
			{Name: "endpoint flush no longer re-reads the BGP peer data recorded when the endpoint was marked dirty", File: "felix/calc/policy_resolver.go",
				Old: "\t\tdata := pr.endpointBGPPeerData[key]\n", New: "\t\t_ = key\n\t\tvar data EndpointBGPPeer\n", Expect: "C01.pendinglive/PolicyResolver.dirtyEndpoints/endpointBGPPeerData@PolicyResolver.OnEndpointBGPPeerDataUpdate"},
			{Name: "profile going inactive no longer cancels its queued missing-profile entry", File: "felix/calc/active_rules_calculator.go",
				Old: "\tarc.missingProfiles.Discard(key.Name)\n", New: "", Expect: "C01.pendinglive/ActiveRulesCalculator.missingProfiles/profileIDToEndpointKeys@ActiveRulesCalculator.updateEndpointProfileIDs"},
			{Name: "seed C01-2: IPv6 same-subnet re-evaluation is triggered by the IPv4 CIDRs", File: "felix/calc/l3_route_resolver.go",
				Old: "\t\tif oldNodeInfo.V6CIDR != myNewV6CIDR {\n", New: "\t\tif oldNodeInfo.V4CIDR != myNewV4CIDR {\n", Expect: "C01.twin/L3RouteResolver.onNodeUpdate/V4CIDR+myNewV4CIDR"},
			{Name: "IPv6 same-subnet test requires the local IPv4 CIDR to be known", File: "felix/calc/l3_route_resolver.go",
				Old: "\t\treturn localNodeInfo.V6CIDR != ip.V6CIDR{} && ", New: "\t\treturn localNodeInfo.V4CIDR != ip.V4CIDR{} && ", Expect: "C01.twin/L3RouteResolver.nodeInOurSubnet/"},
			{Name: "VXLAN resolver records the node's IPv4 address as its IPv6 address", File: "felix/calc/vxlan_resolver.go",
				Old: "\t\tc.nodeNameToIPv6Addr[nodeName] = newIPv6\n", New: "\t\tc.nodeNameToIPv6Addr[nodeName] = newIPv4\n", Expect: "C01.twin/VXLANResolver.onNodeIPUpdate/newIPv4"},
			{Name: "seed C01-4: VTEP duplicate suppression no longer compares the parent device IPv6 address (missing twin)", File: "felix/calc/vxlan_resolver.go",
				Old: "\tcase vtep1.ParentDeviceIpv6 != vtep2.ParentDeviceIpv6:\n\t\treturn false\n", New: "", Expect: "C01.twin/VXLANResolver.vtepEqual/ParentDeviceIp/missing-twin"},
			{Name: "seed C01-4 again: the equality function no longer covers every field of the message", File: "felix/calc/vxlan_resolver.go",
				Old: "\tcase vtep1.ParentDeviceIpv6 != vtep2.ParentDeviceIpv6:\n\t\treturn false\n", New: "", Expect: "C01.eqfields/VXLANResolver.vtepEqual/VXLANTunnelEndpointUpdate.ParentDeviceIpv6"},
			{Name: "VTEP comparison reads the IPv6 MAC of the first operand twice", File: "felix/calc/vxlan_resolver.go",
				Old: "\tcase vtep1.MacV6 != vtep2.MacV6:\n", New: "\tcase vtep1.MacV6 != vtep1.MacV6:\n", Expect: "C01.eqfields/VXLANResolver.vtepEqual/VXLANTunnelEndpointUpdate.MacV6"},
			{Name: "node info comparison ignores the IPv6 wireguard address", File: "felix/calc/l3_route_resolver.go",
				Old: "\t\ti.WireguardAddr == b.WireguardAddr &&\n\t\ti.WireguardV6Addr == b.WireguardV6Addr {\n", New: "\t\ti.WireguardAddr == b.WireguardAddr {\n", Expect: "C01.twin/l3rrNodeInfo.Equal/WireguardAddr/missing-twin"},
			{Name: "host metadata comparison ignores the AS number", File: "felix/calc/event_sequencer.go",
				Old: "\t\th.asnumber == a.asnumber &&\n", New: "", Expect: "C01.eqfields/HostInfo.equals/HostInfo.asnumber"},
			{Name: "seed C01-3: policy moved to another tier is deleted from the old tier's tree with the new metadata", File: "felix/calc/policy_sorter.go",
				Old: "\t\toldPolicy := oldTierInfo.Policies[key]\n\t\toldTiKey := tierInfoKey{\n\t\t\tName:  oldTierInfo.Name,\n\t\t\tOrder: oldTierInfo.Order,\n\t\t\tValid: oldTierInfo.Valid,\n\t\t}\n\t\toldTierInfo.SortedPolicies.Delete(PolKV{Key: key, Value: &oldPolicy})\n",
				New: "\t\toldTiKey := tierInfoKey{\n\t\t\tName:  oldTierInfo.Name,\n\t\t\tOrder: oldTierInfo.Order,\n\t\t\tValid: oldTierInfo.Valid,\n\t\t}\n\t\toldTierInfo.SortedPolicies.Delete(PolKV{Key: key, Value: newPolicy})\n", Expect: "C01.treekey/delete/PolKV@PolicySorter.UpdatePolicy"},
			{Name: "syncer feeds the calc graph without the validation filter", File: "felix/daemon/daemon.go",
				Old: "\tgo syncerToValidator.SendToSinkForever(validator)\n", New: "\t_ = validator\n\tgo syncerToValidator.SendToSinkForever(asyncCalcGraph)\n", Expect: "C01.filter/"},
		},
	})
}

// c01Family is one pending-update map / pending-delete set pair.
type c01Family struct {
	U, D  *types.Var
	Stems []string
}

func c01Stem(msg string) (stem, kind string) {
	for _, k := range []string{"Update", "Remove"} {
		if strings.HasSuffix(msg, k) && len(msg) > len(k) {
			return strings.TrimSuffix(msg, k), k
		}
	}
	return "", ""
}

func c01IsMap(v *types.Var) bool {
	_, ok := v.Type().Underlying().(*types.Map)
	return ok
}

func runC01(c *Ctx) {
	p := c.Load(c01Roots...)
	m := buildSeqModel(c, p)

	c.Rule("C01.cancel", "E-PAIR", "per message family (XUpdate/XRemove): every store into the pending-update map is dominated or post-dominated by Discard(same key) on the pending-delete set, and every Add to the pending-delete set by delete(update map, same key)", 24)
	c.Rule("C01.flushclears", "E-PAIR", "every XUpdate emission is post-dominated by Add on the sent set the XRemove emission discards from; every pending collection ranged over at an emission is emptied by the flush (per-key delete/Discard of the iteration key, Clear(), or fresh map/set), and both member-delta multidicts are cleared where IPSetDeltaUpdate is emitted", 40)
	c.Rule("C01.nilnotype", "E-OWN", "api.Update.UpdateType is read only in methods of StatsCollector (existence is decided from Value==nil everywhere else in the calc graph)", 1)
	c.Rule("C01.sync", "E-OWN", "go statements, channel send/receive and select occur only in the allow-listed AsyncCalcGraph / SyncerCallbacksDecoupler shell functions of the calc-graph packages", 8)
	c.Rule("C01.filter", "E-OWN", "in felix/daemon *calc.AsyncCalcGraph is converted to an interface only as the sink argument of calc.NewValidationFilter, whose result is then passed on as api.SyncerCallbacks", 2)

	c.Rule("C01.tierreset", "E-PAIR/E-GUARD", "every TierInfo field that PolicySorter.OnUpdate stores when a Tier value is present is also stored when the value is nil (tier deleted but kept because policies still name it), unless the per-endpoint tier list skips tiers whose Valid flag is false", 3)

	c.Rule("C01.pendinglive", "E-PAIR/E-GUARD", "for every batched set S of a calc-graph node (set-typed field with Add sites and a loop that empties it) and every sibling container M that receives the key where it is queued: the flush loop re-reads M at the iteration key, or every removal of a key from M is accompanied by S.Discard(same key) (possibly under a guard that M no longer contains it)", 9)

	c.Rule("C01.twin", "E-PAIR", "IPv4/IPv6 twin blocks (sibling statements or case clauses of identical shape whose identifiers differ only by the V4->V6 twin relation) substitute every identifier that has a twin in scope: neither half uses the other family's field, method, variable or type; and a function that uses both members of one IPv4/IPv6 field pair of a struct uses both members of every such pair of that struct it touches (a dropped twin is a violation, not a smaller count)", 76)

	c.Rule("C01.eqfields", "E-FIELDS", "every function of felix/calc of the shape func(a, b T) bool over a struct T (used to suppress re-emission when nothing changed) reads every field of T (exported fields of felix/proto messages) from both operands, or compares them whole (==, reflect.DeepEqual, proto.Equal)", 5)
	c.Rule("C01.inheritreg", "E-GUARD/E-ORDER/E-FLOW", "label inheritance registry discipline (c07ParentReg): a parent entry is deleted only when it has no children and no labels; an item is unregistered from an old parent only if that parent is not among its new parents; every parent pointer an item holds is the registered object", 4)

	// Each family runs on its own: an anchor lost by one of them breaks the run
	// (exit 2) but the families that do not depend on that anchor still report.
	c01Isolated(c, func() { c01TierReset(c, p) })
	c01Isolated(c, func() { c01Cancel(c, m, c01Families(c, m), "C01.cancel") })
	// label-inheritance plumbing (shared checker, also armed under C03 and C07): an endpoint that keeps
	// pointing at an orphaned parent never inherits labels that arrive later — output depends on history.
	c01Isolated(c, func() { c07ParentReg(c, p, "C01.inheritreg") })
	c01Isolated(c, func() { c01FlushClears(c, m) })
	c01Isolated(c, func() { c01NilNoType(c, p) })
	c01Isolated(c, func() { c01Sync(c, p) })
	c01Isolated(c, func() { c01Filter(c) })
	c01Isolated(c, func() { c01PendingLive(c, p) })
	c01Isolated(c, func() { c01Twin(c, p) })
	c01Isolated(c, func() { c01EqFields(c, p) })
	// sorted-tree bookkeeping of PolicySorter (implemented in engine_C03key.go, also armed under C03): a
	// Delete that misses leaves a stale entry behind, so what is emitted depends on the order history.
	c.Alias("C03.treekey", "C01.treekey", func() {
		c.Rule("C03.treekey", "E-PAIR/E-FLOW", c03TreeKeyText, 11)
		c01Isolated(c, func() { c03TreeKey(c, p) })
	})
}

// c01Isolated runs one rule family.  c.Lost inside it is recorded as a broken
// check (the run still exits 2) without aborting the sibling families.
func c01Isolated(c *Ctx, f func()) {
	defer func() {
		if r := recover(); r != nil {
			if al, ok := r.(anchorLost); ok {
				c.broken = append(c.broken, al.msg)
				return
			}
			if os.Getenv("CALINT_DEBUG") != "" {
				panic(r)
			}
			c.broken = append(c.broken, fmt.Sprintf("ENGINE-PANIC: %v", r))
		}
	}()
	f()
}

// c01Families pairs pending-update maps with pending-delete sets through the
// emitted proto types: the collection ranged over where XUpdate is emitted and
// the one ranged over where XRemove is emitted.
func c01Families(c *Ctx, m *seqModel) []*c01Family {
	type slot struct{ u, d map[*types.Var]bool }
	stems := map[string]*slot{}
	for _, e := range m.emissions {
		stem, kind := c01Stem(e.Msg)
		if stem == "" || e.Ranged == nil {
			continue
		}
		s := stems[stem]
		if s == nil {
			s = &slot{map[*types.Var]bool{}, map[*types.Var]bool{}}
			stems[stem] = s
		}
		switch {
		case kind == "Update" && c01IsMap(e.Ranged):
			s.u[e.Ranged] = true
		case kind == "Remove" && !c01IsMap(e.Ranged):
			s.d[e.Ranged] = true
		}
	}
	byPair := map[[2]*types.Var]*c01Family{}
	var out []*c01Family
	for _, stem := range sortedKeys(stems) {
		s := stems[stem]
		if len(s.u) != 1 || len(s.d) != 1 {
			c.Undecided("C01.cancel/family/"+stem, m.p.Pos(m.recv.Obj().Pos()),
				"message family %s: %d pending-update map(s) and %d pending-delete set(s) ranged over at its Update/Remove emissions; cannot pair them", stem, len(s.u), len(s.d))
			continue
		}
		var u, d *types.Var
		for k := range s.u {
			u = k
		}
		for k := range s.d {
			d = k
		}
		k := [2]*types.Var{u, d}
		if f := byPair[k]; f != nil {
			f.Stems = append(f.Stems, stem)
			continue
		}
		f := &c01Family{U: u, D: d, Stems: []string{stem}}
		byPair[k] = f
		out = append(out, f)
	}
	if len(out) == 0 {
		c.Lost("no pending-update/pending-delete families derivable from EventSequencer emissions")
	}
	return out
}

// c01KeyID: identity of a key operand.  Loads of the same local compare equal by
// the identity of the Alloc; everything else by canonical access path.
func c01KeyID(v ssa.Value) string {
	for {
		switch x := v.(type) {
		case *ssa.MakeInterface:
			v = x.X
			continue
		case *ssa.ChangeInterface:
			v = x.X
			continue
		case *ssa.ChangeType:
			v = x.X
			continue
		}
		break
	}
	if u, ok := v.(*ssa.UnOp); ok && u.Op == token.MUL {
		if al, ok := u.X.(*ssa.Alloc); ok {
			return fmt.Sprintf("local:%s@%p", al.Comment, al)
		}
	}
	if _, ok := v.(*ssa.Alloc); ok {
		return fmt.Sprintf("alloc@%p", v)
	}
	return path(v)
}

// c01Around: some instruction of `cands` dominates or post-dominates `at`.
func (m *seqModel) c01Around(cands []ssa.Instruction, at ssa.Instruction) bool {
	pd := m.postdom(at.Parent())
	for _, x := range cands {
		if x.Parent() != at.Parent() {
			continue
		}
		if instrDominates(x, at) || instrPostDominates(pd, x, at) {
			return true
		}
	}
	return false
}

// c01Discards lists D.Discard(k) calls in fn with the given key identity.
func (m *seqModel) c01Discards(fn *ssa.Function, d *types.Var, keyID string) []ssa.Instruction {
	var out []ssa.Instruction
	for _, cs := range callsIn(fn, false, func(f *types.Func) bool { return f.Name() == "Discard" }) {
		if m.setCallOnField(cs, "Discard") == d && len(cs.Args()) == 2 && c01KeyID(cs.Args()[1]) == keyID {
			out = append(out, cs.Instr)
		}
	}
	return out
}

// c01Deletes lists delete(U, k) builtin calls in fn with the given key identity.
func c01Deletes(fn *ssa.Function, u *types.Var, keyID string) []ssa.Instruction {
	var out []ssa.Instruction
	allInstrs(fn, false, func(_ *ssa.Function, in ssa.Instruction) {
		if cc, ok := isBuiltinCall(in, "delete"); ok && len(cc.Args) == 2 && fieldVar(cc.Args[0]) == u && (keyID == "" || c01KeyID(cc.Args[1]) == keyID) {
			out = append(out, in)
		}
	})
	return out
}

// c01CallersHold: the key is parameter #idx of fn; every static call site of fn
// inside EventSequencer must satisfy hold(callSite, actual key).  False if fn has
// no such call site.
func (m *seqModel) c01CallersHold(fn *ssa.Function, k ssa.Value, hold func(at ssa.Instruction, key ssa.Value) bool) bool {
	par, ok := k.(*ssa.Parameter)
	if !ok {
		return false
	}
	idx := -1
	for i, q := range fn.Params {
		if q == par {
			idx = i
		}
	}
	if idx < 0 {
		return false
	}
	n := 0
	for _, g := range m.all {
		for _, b := range g.Blocks {
			for _, in := range b.Instrs {
				ci, ok := in.(ssa.CallInstruction)
				if !ok || calleeFn(ci.Common()) != fn {
					continue
				}
				if _, isGo := in.(*ssa.Go); isGo {
					return false
				}
				n++
				if idx >= len(ci.Common().Args) || !hold(in, ci.Common().Args[idx]) {
					return false
				}
			}
		}
	}
	return n > 0
}

func c01Cancel(c *Ctx, m *seqModel, fams []*c01Family, prefix string) {
	p := m.p
	for _, fam := range fams {
		nStore, nAdd := 0, 0
		for _, f := range m.all {
			// (a) store into U  =>  D.Discard(same key)
			allInstrs(f, false, func(_ *ssa.Function, in ssa.Instruction) {
				mu, ok := in.(*ssa.MapUpdate)
				if !ok || fieldVar(mu.Map) != fam.U {
					return
				}
				nStore++
				key := prefix + "/" + fam.U.Name() + "/store@" + fnName(f)
				kid := c01KeyID(mu.Key)
				good := m.c01Around(m.c01Discards(f, fam.D, kid), in) ||
					m.c01CallersHold(f, mu.Key, func(at ssa.Instruction, k ssa.Value) bool {
						return m.c01Around(m.c01Discards(at.Parent(), fam.D, c01KeyID(k)), at)
					})
				c.Check(good, key, p.Pos(in.Pos()),
					fmt.Sprintf("%s[%s] = … is paired with %s.Discard(%s) on every path", fam.U.Name(), path(mu.Key), fam.D.Name(), path(mu.Key)),
					fmt.Sprintf("%s stores into %s[%s] without %s.Discard(%s) on every path: a delete queued earlier in the same flush interval survives and is emitted after the update (remove-add leaves the dataplane without the object)", fnName(f), fam.U.Name(), path(mu.Key), fam.D.Name(), path(mu.Key)))
			})
			// (b) D.Add(key)  =>  delete(U, same key)
			for _, cs := range callsIn(f, false, func(fn *types.Func) bool { return fn.Name() == "Add" }) {
				if m.setCallOnField(cs, "Add") != fam.D || len(cs.Args()) != 2 {
					continue
				}
				nAdd++
				key := prefix + "/" + fam.D.Name() + "/add@" + fnName(f)
				k := cs.Args()[1]
				good := m.c01Around(c01Deletes(f, fam.U, c01KeyID(k)), cs.Instr) ||
					m.c01CallersHold(f, k, func(at ssa.Instruction, ak ssa.Value) bool {
						return m.c01Around(c01Deletes(at.Parent(), fam.U, c01KeyID(ak)), at)
					})
				c.Check(good, key, p.Pos(cs.Instr.Pos()),
					fmt.Sprintf("%s.Add(%s) is paired with delete(%s, %s) on every path", fam.D.Name(), path(k), fam.U.Name(), path(k)),
					fmt.Sprintf("%s adds %s to %s without delete(%s, same key) on every path: an update queued earlier in the same flush interval survives (add-remove still emits the object)", fnName(f), path(k), fam.D.Name(), fam.U.Name()))
			}
		}
		if nStore == 0 || nAdd == 0 {
			c.Lost("family %v (%s/%s): %d stores into the update map, %d adds to the delete set", fam.Stems, fam.U.Name(), fam.D.Name(), nStore, nAdd)
		}
	}
}

// c01LoopSite: the instruction in the outermost function that stands for the
// loop containing emission e (the emission itself, or the MakeClosure of the
// range-over-func body chain that contains it).
func c01LoopSite(e seqEmission) ssa.Instruction {
	top := topFn(e.Fn)
	if e.Fn == top {
		return e.Call
	}
	f := e.Fn
	for f.Parent() != top {
		f = f.Parent()
	}
	var site ssa.Instruction
	allInstrs(top, false, func(_ *ssa.Function, in ssa.Instruction) {
		if mc, ok := in.(*ssa.MakeClosure); ok && mc.Fn == f {
			site = in
		}
	})
	return site
}

// c01IsIterKey: k is the iteration key of the loop over field r that contains
// emission e (map range: Next(Range(r)); range-over-func: parameter 0 of the body).
func c01IsIterKey(k ssa.Value, e seqEmission, r *types.Var) bool {
	os := origins(k, nil)
	if len(os) == 0 {
		return false
	}
	for _, o := range os {
		switch x := o.V.(type) {
		case *ssa.Parameter:
			if e.Fn.Parent() == nil || len(e.Fn.Params) == 0 || e.Fn.Params[0] != x || x.Parent() != e.Fn {
				return false
			}
		case *ssa.Next:
			rg, ok := x.Iter.(*ssa.Range)
			if !ok || fieldVar(rg.X) != r {
				return false
			}
		default:
			return false
		}
	}
	return true
}

func c01IsFresh(v ssa.Value) bool {
	switch x := v.(type) {
	case *ssa.MakeMap:
		return true
	case *ssa.Call:
		f := calleeOf(x.Common())
		return f != nil && f.Name() == "New" && len(x.Common().Args) == 0 && f.Pkg() != nil && strings.HasSuffix(f.Pkg().Path(), "/lib/set")
	}
	return false
}

func c01FlushClears(c *Ctx, m *seqModel) {
	p := m.p
	// ---- sent bookkeeping: XUpdate emission => Add on the set XRemove discards from
	removeSent := map[string]map[*types.Var]bool{}
	for _, e := range m.emissions {
		if stem, kind := c01Stem(e.Msg); kind == "Remove" {
			if removeSent[stem] == nil {
				removeSent[stem] = map[*types.Var]bool{}
			}
			for fv := range m.sentSetsAfter(e, "Discard") {
				if !c01IsMap(fv) && fv != e.Ranged {
					removeSent[stem][fv] = true
				}
			}
		}
	}
	for _, e := range m.emissions {
		stem, kind := c01Stem(e.Msg)
		if kind != "Update" || e.Ranged == nil || !c01IsMap(e.Ranged) {
			continue
		}
		key := "C01.flushclears/sent/" + e.Msg + "@" + fnName(topFn(e.Fn))
		site := p.Pos(e.Call.Pos())
		rs := removeSent[stem]
		if len(rs) == 0 {
			c.Undecided(key, site, "no %sRemove emission followed by a Discard from a sent set: cannot identify the sent set of family %s", stem, stem)
			continue
		}
		var names, added []string
		for fv := range rs {
			names = append(names, fv.Name())
		}
		sort.Strings(names)
		okk := false
		for fv := range m.sentSetsAfter(e, "Add") {
			added = append(added, fv.Name())
			if rs[fv] {
				okk = true
			}
		}
		sort.Strings(added)
		c.Check(okk, key, site,
			fmt.Sprintf("emission of %s is post-dominated by %v.Add, the set %sRemove discards from", e.Msg, names, stem),
			fmt.Sprintf("emission of %s is not followed on every path by Add on %v (the sent set consulted/discarded for %sRemove); sets added to: %v — a later removal of the object would never be emitted", e.Msg, names, stem, added))
	}

	// ---- every ranged pending collection is emptied by its flush
	type grp struct {
		r   *types.Var
		top *ssa.Function
		es  []seqEmission
	}
	groups := map[string]*grp{}
	for _, e := range m.emissions {
		if e.Ranged == nil {
			continue
		}
		k := e.Ranged.Name() + "@" + fnName(topFn(e.Fn))
		if groups[k] == nil {
			groups[k] = &grp{r: e.Ranged, top: topFn(e.Fn)}
		}
		groups[k].es = append(groups[k].es, e)
	}
	for _, gk := range sortedKeys(groups) {
		g := groups[gk]
		key := "C01.flushclears/clear/" + gk
		allOK := true
		how := map[string]bool{}
		bad := ""
		for _, e := range g.es {
			ok := false
			// idiom A: per-iteration removal of the iteration key
			pdF := m.postdom(e.Fn)
			var rem []ssa.CallInstruction
			allInstrs(e.Fn, false, func(_ *ssa.Function, in ssa.Instruction) {
				if cc, isDel := isBuiltinCall(in, "delete"); isDel && len(cc.Args) == 2 && fieldVar(cc.Args[0]) == g.r && c01IsIterKey(cc.Args[1], e, g.r) {
					rem = append(rem, in.(ssa.CallInstruction))
				}
			})
			for _, cs := range callsIn(e.Fn, false, func(f *types.Func) bool { return f.Name() == "Discard" }) {
				if m.setCallOnField(cs, "Discard") == g.r && len(cs.Args()) == 2 && c01IsIterKey(cs.Args()[1], e, g.r) {
					rem = append(rem, cs.Instr)
				}
			}
			for _, r := range rem {
				if instrPostDominates(pdF, r, e.Call) {
					ok = true
					how["per-key removal of the iteration key"] = true
				}
			}
			// idiom B: Clear() / fresh replacement after the loop
			if !ok {
				site := c01LoopSite(e)
				if site == nil {
					c.Undecided(key, p.Pos(e.Call.Pos()), "cannot locate the loop of the %s emission in %s", e.Msg, fnName(g.top))
					allOK = false
					continue
				}
				pdT := m.postdom(g.top)
				for _, cs := range callsIn(g.top, false, func(f *types.Func) bool { return f.Name() == "Clear" }) {
					if m.setCallOnField(cs, "Clear") == g.r && instrPostDominates(pdT, cs.Instr, site) {
						ok = true
						how["Clear() after the loop"] = true
					}
				}
				allInstrs(g.top, false, func(_ *ssa.Function, in ssa.Instruction) {
					if st, isSt := in.(*ssa.Store); isSt && fieldVar(st.Addr) == g.r && c01IsFresh(st.Val) && instrPostDominates(pdT, in, site) {
						ok = true
						how["replaced by a fresh collection after the loop"] = true
					}
				})
			}
			if !ok {
				allOK = false
				bad = fmt.Sprintf("after emitting %s at %s", e.Msg, p.Pos(e.Call.Pos()))
			}
		}
		c.Check(allOK, key, p.Pos(g.top.Pos()),
			fmt.Sprintf("%s leaves %s empty: %v", fnName(g.top), g.r.Name(), sortedKeys(how)),
			fmt.Sprintf("%s does not empty %s on every path %s (no post-dominating delete/Discard of the iteration key, Clear() or fresh replacement): flushed entries stay pending and are emitted again at the next flush with stale content", fnName(g.top), g.r.Name(), bad))
	}

	// ---- IP-set member deltas: both multidicts cleared where the delta is emitted
	deltas := m.emissionsOf("IPSetDeltaUpdate")
	if len(deltas) == 0 {
		c.Lost("no emission of IPSetDeltaUpdate")
	}
	mds := m.multidictFields()
	if len(mds) == 0 {
		c.Lost("no multidict fields in EventSequencer")
	}
	for _, e := range deltas {
		for _, md := range mds {
			var dk []ssa.Instruction
			for _, cs := range callsIn(e.Fn, false, func(f *types.Func) bool { return f.Name() == "DiscardKey" }) {
				if m.setCallOnField(cs, "DiscardKey") == md {
					dk = append(dk, cs.Instr)
				}
			}
			c.Check(m.c01Around(dk, e.Call), "C01.flushclears/clear/"+md.Name()+"@"+fnName(topFn(e.Fn)), p.Pos(e.Call.Pos()),
				fmt.Sprintf("%s.DiscardKey accompanies the IPSetDeltaUpdate emission on every path", md.Name()),
				fmt.Sprintf("%s emits IPSetDeltaUpdate without %s.DiscardKey on every path: flushed member deltas stay pending, and a later opposite delta is cancelled against them instead of being sent", fnName(e.Fn), md.Name()))
		}
	}
}

// ------------------------------------------------------------ tierreset --

// c01TierReset: a TierInfo outlives the deletion of its Tier resource while
// policies still name the tier.  A fresh Felix fed the same final state builds
// that TierInfo from NewTierInfo (zero values).  So whatever the update branch
// copies out of the Tier value must be overwritten by the deletion branch, or
// the stale copy must be unobservable because invalid tiers are skipped where
// the per-endpoint tier list is built.
func c01TierReset(c *Ctx, p *Prog) {
	fn := p.Func(calcPkg, "PolicySorter.OnUpdate")
	if fn == nil {
		c.Lost("PolicySorter.OnUpdate")
	}
	validF, _ := p.LookupObj(calcPkg, "TierInfo.Valid").(*types.Var)
	valueField, _ := p.LookupExt("libcalico-go/lib/backend/model", "KVPair.Value").(*types.Var)
	if validF == nil || valueField == nil {
		c.Lost("TierInfo.Valid / model.KVPair.Value")
	}
	isVal := func(v ssa.Value) bool { return fieldVar(v) == valueField }
	present := eqCond(false, isVal, isNilConst)
	absent := eqCond(true, isVal, isNilConst)
	upd := map[string]ssa.Instruction{}
	del := map[string]bool{}
	// tierFieldStores: TierInfo fields stored directly by in, or (helper
	// extraction) anywhere in the static callee of in, two levels deep.
	var tierFieldStores func(in ssa.Instruction, depth int, seen map[*ssa.Function]bool) []string
	tierFieldStores = func(in ssa.Instruction, depth int, seen map[*ssa.Function]bool) []string {
		if st, ok := in.(*ssa.Store); ok {
			if fa, ok := st.Addr.(*ssa.FieldAddr); ok && qualTypeName(fa.X.Type()) == "felix/calc.TierInfo" {
				if fv := fieldVar(fa); fv != nil {
					return []string{fv.Name()}
				}
			}
			return nil
		}
		ci, ok := in.(ssa.CallInstruction)
		if !ok || depth >= 2 {
			return nil
		}
		sf := calleeFn(ci.Common())
		if sf == nil || sf.Blocks == nil || seen[sf] || sf.Pkg == nil || !strings.HasSuffix(sf.Pkg.Pkg.Path(), "/"+calcPkg) {
			return nil
		}
		// a constructor of a fresh TierInfo initialises, it does not overwrite
		seen[sf] = true
		var out []string
		allInstrs(sf, true, func(_ *ssa.Function, in2 ssa.Instruction) {
			if st, ok := in2.(*ssa.Store); ok {
				if fa, ok := st.Addr.(*ssa.FieldAddr); ok {
					if _, fresh := fa.X.(*ssa.Alloc); fresh {
						return
					}
				}
			}
			out = append(out, tierFieldStores(in2, depth+1, seen)...)
		})
		return out
	}
	allInstrs(fn, false, func(_ *ssa.Function, in ssa.Instruction) {
		names := tierFieldStores(in, 0, map[*ssa.Function]bool{})
		if len(names) == 0 {
			return
		}
		inUpd, inDel := guardedCut(in, present), guardedCut(in, absent)
		if !inUpd && !inDel {
			inUpd, inDel = true, true // unconditional: applies to both branches
		}
		for _, name := range names {
			if inUpd {
				if _, dup := upd[name]; !dup {
					upd[name] = in
				}
			}
			if inDel {
				del[name] = true
			}
		}
	})
	if len(upd) == 0 {
		c.Lost("PolicySorter.OnUpdate: no store to a TierInfo field under `update.Value != nil`")
	}
	// are invalid tiers skipped where the per-endpoint list is built?
	// (the append sites are found through the value flow into the tiers argument of
	// the OnEndpointTierUpdate callback, wherever a refactor puts the loop)
	nApp, nGuarded := 0, 0
	flow := c03BuildTierFlow(p)
	if flow == nil {
		c.Lost("no OnEndpointTierUpdate call with a []TierInfo argument in felix/calc")
	}
	for _, a := range flow.AppendsOf("TierInfo") {
		nApp++
		if guardedCut(a.Call, func(cond ssa.Value, pol bool) bool { return pol && fieldVar(cond) == validF }) {
			nGuarded++
		}
	}
	if nApp == 0 {
		c.Lost("no append of a TierInfo flows into the tiers argument of OnEndpointTierUpdate")
	}
	skipped := nGuarded == nApp
	for _, name := range sortedKeys(upd) {
		in := upd[name]
		how := "re-stored by the deletion branch"
		if !del[name] {
			how = "not re-stored on deletion, but tiers with Valid == false are skipped when the per-endpoint tier list is built"
		}
		c.Check(del[name] || skipped, "C01.tierreset/PolicySorter.OnUpdate/TierInfo."+name, p.Pos(in.Pos()),
			"TierInfo."+name+" is "+how,
			fmt.Sprintf("PolicySorter.OnUpdate copies TierInfo.%s from the Tier value but does not overwrite it when the Tier is deleted (Value == nil) while policies keep the TierInfo alive, and PolicyResolver appends tiers to the endpoint's list without a dominating `Valid` test: after [tier created, tier deleted] endpoints are sent the stale %s, whereas a fresh Felix fed only the final state sends the zero value — output depends on history", name, name))
	}
}

// ------------------------------------------------------------ nilnotype --

func c01NilNoType(c *Ctx, p *Prog) {
	upd, _ := p.LookupExt("libcalico-go/lib/backend/api", "Update").(*types.TypeName)
	if upd == nil {
		c.Lost("type libcalico-go/lib/backend/api.Update")
	}
	if f, _, _ := types.LookupFieldOrMethod(upd.Type(), true, upd.Pkg(), "UpdateType"); f == nil {
		c.Lost("field api.Update.UpdateType")
	}
	fns := map[*ssa.Function]bool{}
	for _, f := range p.AllFuncs() {
		fns[f] = true
	}
	reads := fieldsRead(fns, upd.Type())["UpdateType"]
	byFn := map[string]ssa.Instruction{}
	for _, in := range reads {
		byFn[fnName(topFn(in.Parent()))] = in
	}
	nStats := 0
	for _, name := range sortedKeys(byFn) {
		in := byFn[name]
		top := topFn(in.Parent())
		isStats := false
		if o, ok := top.Object().(*types.Func); ok && recvTypeName(o) == "StatsCollector" {
			isStats = true
			nStats++
		}
		c.Check(isStats, "C01.nilnotype/"+name, p.Pos(in.Pos()),
			"UpdateType read by the statistics collector only (counts, no dataplane output)",
			name+" reads api.Update.UpdateType: a calc-graph node that decides existence from the event type (not from Value==nil) gives different output for duplicated, coalesced or spuriously-deleted updates")
	}
	if nStats == 0 {
		c.Lost("no StatsCollector method reads api.Update.UpdateType (anchor of the allow-list)")
	}
}

// ----------------------------------------------------------------- sync --

// Types whose methods form the asynchronous shell around the calculation graph:
// only they may contain go statements or channel operations.
var c01SyncShell = map[string]string{
	"AsyncCalcGraph":           "owns the single calc-graph goroutine: input channel, flush timer, in-order blocking output",
	"SyncerCallbacksDecoupler": "order-preserving channel decoupler in front of the graph",
}

func c01Sync(c *Ctx, p *Prog) {
	for tname := range c01SyncShell {
		if _, ok := p.LookupObj(calcPkg, tname).(*types.TypeName); !ok {
			c.Lost("shell type felix/calc.%s", tname)
		}
	}
	type hit struct {
		in   ssa.Instruction
		top  *ssa.Function
		what map[string]bool
	}
	found := map[string]*hit{}
	for _, f := range p.AllFuncs() {
		allInstrs(f, false, func(fn *ssa.Function, in ssa.Instruction) {
			kind := ""
			switch x := in.(type) {
			case *ssa.Go:
				kind = "go statement"
			case *ssa.Send:
				kind = "channel send"
			case *ssa.Select:
				kind = "select"
			case *ssa.UnOp:
				if x.Op == token.ARROW {
					kind = "channel receive"
				}
			}
			if kind == "" {
				return
			}
			top := topFn(fn)
			n := fnName(top)
			if found[n] == nil {
				found[n] = &hit{in, top, map[string]bool{}}
			}
			found[n].what[kind] = true
		})
	}
	for _, n := range sortedKeys(found) {
		h := found[n]
		reason, ok := "", false
		if o, isF := h.top.Object().(*types.Func); isF && o.Pkg() != nil && strings.HasSuffix(o.Pkg().Path(), "/"+calcPkg) {
			reason, ok = c01SyncShell[recvTypeName(o)]
		}
		c.Check(ok, "C01.sync/"+n, p.Pos(h.in.Pos()),
			fmt.Sprintf("%v in a method of the asynchronous shell: %s", sortedKeys(h.what), reason),
			fmt.Sprintf("%s contains %v: the calculation graph proper must be synchronous (single goroutine), otherwise emitted state depends on goroutine schedule", n, sortedKeys(h.what)))
	}
}

// --------------------------------------------------------------- filter --

func c01Filter(c *Ctx) {
	const daemonPkg = "felix/daemon"
	p := c01LoadDaemon(c, daemonPkg)
	nvf, _ := p.LookupExt(calcPkg, "NewValidationFilter").(*types.Func)
	if nvf == nil {
		c.Lost("felix/calc.NewValidationFilter (from felix/daemon)")
	}
	nConv, nUse := 0, 0
	for _, f := range p.AllFuncs() {
		allInstrs(f, false, func(fn *ssa.Function, in ssa.Instruction) {
			switch x := in.(type) {
			case *ssa.MakeInterface:
				if qualTypeName(x.X.Type()) != "felix/calc.AsyncCalcGraph" {
					return
				}
				nConv++
				good := true
				refs := x.Referrers()
				n := 0
				if refs != nil {
					for _, r := range *refs {
						if _, dbg := r.(*ssa.DebugRef); dbg {
							continue
						}
						n++
						ci, ok := r.(ssa.CallInstruction)
						if !ok || calleeOf(ci.Common()) != nvf || len(ci.Common().Args) == 0 || ci.Common().Args[0] != x {
							good = false
						}
					}
				}
				c.Check(good && n > 0, "C01.filter/sink/"+fnName(topFn(fn)), c01PosOf(p, x),
					"*AsyncCalcGraph converted to "+qualTypeName(x.Type())+" only as the sink of NewValidationFilter",
					fnName(topFn(fn))+" hands the *AsyncCalcGraph out as "+qualTypeName(x.Type())+" to something other than calc.NewValidationFilter: datastore updates could reach the calculation graph unvalidated (invalid resources must look absent)")
			case ssa.CallInstruction:
				if calleeOf(x.Common()) != nvf {
					return
				}
				v := x.Value()
				if v == nil {
					return
				}
				nUse++
				// the filter must be handed on as api.SyncerCallbacks
				passed := false
				var walk func(val ssa.Value, depth int)
				walk = func(val ssa.Value, depth int) {
					if val.Referrers() == nil || depth > 4 {
						return
					}
					for _, r := range *val.Referrers() {
						switch y := r.(type) {
						case *ssa.MakeInterface:
							if qualTypeName(y.Type()) == "libcalico-go/lib/backend/api.SyncerCallbacks" {
								if y.Referrers() != nil {
									for _, rr := range *y.Referrers() {
										if _, ok := rr.(ssa.CallInstruction); ok {
											passed = true
										}
										if _, ok := rr.(*ssa.Store); ok {
											passed = true
										}
									}
								}
							}
						case *ssa.Store:
							if y.Val == val {
								// stored into a local: follow the loads
								if al, ok := y.Addr.(*ssa.Alloc); ok && al.Referrers() != nil {
									for _, lr := range *al.Referrers() {
										if ld, ok := lr.(*ssa.UnOp); ok && ld.Op == token.MUL {
											walk(ld, depth+1)
										}
									}
								}
							}
						case *ssa.Phi:
							walk(y, depth+1)
						case *ssa.MakeClosure:
							// captured by a closure (go func(){ … SendToSinkForever(validator) }())
							passed = passed || c01CapturedPassed(y, val)
						}
					}
				}
				walk(v, 0)
				c.Check(passed, "C01.filter/used/"+fnName(topFn(fn)), p.Pos(x.Pos()),
					"the ValidationFilter wrapping the calc graph is passed on as api.SyncerCallbacks",
					"the ValidationFilter constructed in "+fnName(topFn(fn))+" is never passed on as api.SyncerCallbacks: the syncer output does not go through validation")
			}
		})
	}
	if nUse == 0 {
		c.Lost("no call of calc.NewValidationFilter in felix/daemon")
	}
	if nConv == 0 {
		c.Lost("no conversion of *calc.AsyncCalcGraph to an interface in felix/daemon (the graph is no longer fed from here?)")
	}
}

// c01CapturedPassed: val is bound as a free variable of closure mc; inside the
// closure the free variable is converted to api.SyncerCallbacks and passed to a call.
func c01CapturedPassed(mc *ssa.MakeClosure, val ssa.Value) bool {
	fn, _ := mc.Fn.(*ssa.Function)
	if fn == nil {
		return false
	}
	for i, b := range mc.Bindings {
		if b != val || i >= len(fn.FreeVars) {
			continue
		}
		fv := fn.FreeVars[i]
		if fv.Referrers() == nil {
			continue
		}
		for _, r := range *fv.Referrers() {
			var vals []ssa.Value
			if ld, ok := r.(*ssa.UnOp); ok && ld.Op == token.MUL {
				vals = append(vals, ld)
			}
			if mi, ok := r.(*ssa.MakeInterface); ok {
				vals = append(vals, mi)
			}
			for _, v := range vals {
				if mi, ok := v.(*ssa.MakeInterface); ok {
					if qualTypeName(mi.Type()) == "libcalico-go/lib/backend/api.SyncerCallbacks" {
						return true
					}
					continue
				}
				if v.Referrers() == nil {
					continue
				}
				for _, rr := range *v.Referrers() {
					if mi, ok := rr.(*ssa.MakeInterface); ok && qualTypeName(mi.Type()) == "libcalico-go/lib/backend/api.SyncerCallbacks" {
						return true
					}
				}
			}
		}
	}
	return false
}

// c01PosOf: position of a value, falling back to its first referrer (implicit
// conversions carry no position of their own).
func c01PosOf(p *Prog, v ssa.Value) string {
	if v.Pos().IsValid() {
		return p.Pos(v.Pos())
	}
	if refs := v.Referrers(); refs != nil {
		for _, r := range *refs {
			if r.Pos().IsValid() {
				return p.Pos(r.Pos())
			}
		}
	}
	return "?"
}

// c01LoadDaemon loads felix/daemon.  The rule reads only felix/daemon's own
// function bodies.  When a source overlay is active (sensitivity fixtures) and
// touches no file of felix/daemon, the package is loaded without the overlay:
// otherwise every variant of a felix/calc file would force the toolchain to
// recompile export data for the ~200 packages between felix/calc and
// felix/daemon (minutes per fixture) without changing anything this rule reads.
func c01LoadDaemon(c *Ctx, pkg string) *Prog {
	touches := len(c.Overlay) == 0
	for f := range c.Overlay {
		if strings.Contains(f, "/"+pkg+"/") {
			touches = true
		}
	}
	if touches {
		return c.Load(pkg)
	}
	key := "c01-no-overlay|" + pkg
	if p, ok := c.progs[key]; ok {
		return p
	}
	p, err := Load(LoadOpts{Repo: c.Repo}, pkg)
	if err != nil {
		c.Lost("load of %s: %v", pkg, err)
	}
	if c.progs == nil {
		c.progs = map[string]*Prog{}
	}
	c.progs[key] = p
	c.nLoaded += len(p.Roots)
	c.nFuncs += p.nFuncs
	return p
}

// ---------------------------------------------------------- pendinglive --

// A calc-graph node batches work in a set-typed field S ("pending…", "dirty…"):
// keys are Added while updates arrive and a flush loop iterates S, acts on each
// key and empties S.  Where the function that queues k also records k in a
// sibling container M of the same node (map store, set Add, multidict Put), the
// queued entry stands for "k is in M".  The node's output is a function of the
// current state only if a later removal of k from M cannot leave a stale queued
// action behind: either the flush loop re-reads M for the iteration key (the
// "dirty" idiom: recompute from current state), or every site that removes k
// from M also Discards k from S (the "pending action" idiom; the Discard may be
// conditional on M no longer containing k, for multidicts).

type c01FlushLoop struct {
	Top, Body *ssa.Function
	At        ssa.Instruction
}

type c01Batch struct {
	S     *types.Var
	Owner *types.TypeName
	Adds  []CallSite
	Loops []c01FlushLoop
}

type c01KeyedOp struct {
	In  ssa.Instruction
	Fn  *ssa.Function
	Key ssa.Value
}

func c01PkgSuffix(t types.Type, suffix string) bool {
	if p, ok := t.(*types.Pointer); ok {
		t = p.Elem()
	}
	n, ok := t.(*types.Named)
	return ok && n.Obj().Pkg() != nil && strings.HasSuffix(n.Obj().Pkg().Path(), suffix)
}

func c01IsSetType(t types.Type) bool { return c01PkgSuffix(t, "/lib/set") }

// c01IsContainer: builtin map, lib/set set or felix/multidict multidict.
func c01IsContainer(t types.Type) bool {
	if c01IsSetType(t) || c01PkgSuffix(t, "/felix/multidict") {
		return true
	}
	_, isMap := t.Underlying().(*types.Map)
	return isMap
}

// c01Root: identity of a key value inside one function — the leaves of its
// backward slice through interface conversions, type assertions, phis and local
// variables (so `key`, `key.(model.Key)` and the `wlKey` of `wlKey, ok :=
// key.(T)` all denote the same key).
func c01Root(v ssa.Value) string {
	var ls []string
	seen := map[string]bool{}
	for _, o := range origins(v, c01ThroughLocalStruct) {
		s := o.Kind + ":" + path(o.V)
		if o.Kind == "param" || o.Kind == "freevar" {
			s = "var:" + o.V.Name()
		}
		if !seen[s] {
			seen[s] = true
			ls = append(ls, s)
		}
	}
	sort.Strings(ls)
	return strings.Join(ls, "|")
}

// c01ThroughLocalStruct: a read of a (nested) field of a local struct variable
// denotes the value(s) stored into that field (`key := T{Name: id}; … key.Name`).
func c01ThroughLocalStruct(v ssa.Value) []ssa.Value {
	u, ok := v.(*ssa.UnOp)
	if !ok || u.Op != token.MUL {
		return nil
	}
	var idx []int
	cur := u.X
	for {
		fa, ok := cur.(*ssa.FieldAddr)
		if !ok {
			break
		}
		idx = append([]int{fa.Field}, idx...)
		cur = fa.X
	}
	al, ok := cur.(*ssa.Alloc)
	if !ok || len(idx) == 0 || al.Referrers() == nil {
		return nil
	}
	var vals []ssa.Value
	whole := false
	seen := map[ssa.Value]bool{}
	var walk func(addr ssa.Value, rest []int)
	walk = func(addr ssa.Value, rest []int) {
		if seen[addr] || addr.Referrers() == nil {
			return
		}
		seen[addr] = true
		for _, r := range *addr.Referrers() {
			switch x := r.(type) {
			case *ssa.Store:
				if x.Addr != addr {
					continue
				}
				if len(rest) == 0 {
					vals = append(vals, x.Val)
					continue
				}
				// an enclosing struct is assigned as a whole: read the rest of
				// the field path from the local struct it is copied from
				src, ok := x.Val.(*ssa.UnOp)
				if !ok || src.Op != token.MUL {
					whole = true
					continue
				}
				base := src.X
				for {
					fa, ok := base.(*ssa.FieldAddr)
					if !ok {
						break
					}
					base = fa.X
				}
				if _, ok := base.(*ssa.Alloc); !ok {
					whole = true
					continue
				}
				walk(src.X, rest)
			case *ssa.FieldAddr:
				if x.X == addr && len(rest) > 0 && x.Field == rest[0] {
					walk(x, rest[1:])
				}
			}
		}
	}
	walk(al, idx)
	if whole || len(vals) == 0 {
		return nil
	}
	return vals
}

// c01FieldCall: cs is a call of one of the named methods on (a load of) a struct
// field; returns the field.
func c01FieldCall(cs CallSite, names ...string) *types.Var {
	if cs.Callee == nil || len(cs.Args()) == 0 {
		return nil
	}
	for _, n := range names {
		if cs.Callee.Name() == n {
			return fieldVar(cs.Args()[0])
		}
	}
	return nil
}

func c01SortedFuncs(p *Prog) []*ssa.Function {
	fs := p.AllFuncs()
	sort.Slice(fs, func(i, j int) bool {
		if fs[i].Pos() != fs[j].Pos() {
			return fs[i].Pos() < fs[j].Pos()
		}
		return fs[i].String() < fs[j].String()
	})
	return fs
}

func c01AllCalls(fs []*ssa.Function) []CallSite {
	var out []CallSite
	for _, f := range fs {
		out = append(out, callsIn(f, false, func(*types.Func) bool { return true })...)
	}
	return out
}

// c01Batches finds the batched sets of the calc-graph node types: set-typed
// struct fields with an Add site and a loop over the field that empties it.
func c01Batches(c *Ctx, p *Prog, fs []*ssa.Function, calls []CallSite) []*c01Batch {
	owner := map[*types.Var]*types.TypeName{}
	for _, pk := range p.Roots {
		sc := pk.Types.Scope()
		for _, n := range sc.Names() {
			tn, ok := sc.Lookup(n).(*types.TypeName)
			if !ok {
				continue
			}
			st, ok := tn.Type().Underlying().(*types.Struct)
			if !ok {
				continue
			}
			for i := 0; i < st.NumFields(); i++ {
				owner[st.Field(i)] = tn
			}
		}
	}
	by := map[*types.Var]*c01Batch{}
	get := func(s *types.Var) *c01Batch {
		if s == nil || owner[s] == nil || !c01IsSetType(s.Type()) || owner[s].Name() == "EventSequencer" {
			return nil
		}
		if by[s] == nil {
			by[s] = &c01Batch{S: s, Owner: owner[s]}
		}
		return by[s]
	}
	bodyOf := func(v ssa.Value) *ssa.Function {
		switch x := v.(type) {
		case *ssa.MakeClosure:
			f, _ := x.Fn.(*ssa.Function)
			return f
		case *ssa.Function:
			return x
		}
		return nil
	}
	clears := map[*types.Var]map[*ssa.Function]bool{}
	for _, cs := range calls {
		if s := c01FieldCall(cs, "Add"); s != nil && len(cs.Args()) == 2 {
			if b := get(s); b != nil {
				b.Adds = append(b.Adds, cs)
			}
		}
		if s := c01FieldCall(cs, "Clear"); s != nil {
			if clears[s] == nil {
				clears[s] = map[*ssa.Function]bool{}
			}
			clears[s][cs.Fn] = true
		}
		if s := c01FieldCall(cs, "Iter"); s != nil && len(cs.Args()) == 2 {
			if b, body := get(s), bodyOf(cs.Args()[1]); b != nil && body != nil && len(body.Params) == 1 {
				b.Loops = append(b.Loops, c01FlushLoop{cs.Fn, body, cs.Instr})
			}
		}
		if s := c01FieldCall(cs, "All"); s != nil {
			b := get(s)
			seq := cs.Instr.Value()
			if b == nil || seq == nil || seq.Referrers() == nil {
				continue
			}
			for _, r := range *seq.Referrers() {
				ci, ok := r.(ssa.CallInstruction)
				if !ok || ci.Common().Value != seq || len(ci.Common().Args) != 1 {
					continue
				}
				if body := bodyOf(ci.Common().Args[0]); body != nil && len(body.Params) == 1 {
					b.Loops = append(b.Loops, c01FlushLoop{cs.Fn, body, ci})
				}
			}
		}
	}
	var out []*c01Batch
	for _, b := range by {
		if len(b.Adds) == 0 || len(b.Loops) == 0 {
			continue
		}
		// keep the loops that empty S: Discard of the iteration key / RemoveItem
		// returned from the Iter callback / Clear() in the enclosing function
		var flush []c01FlushLoop
		for _, l := range b.Loops {
			// (the Discard / the RemoveItem result / the Clear may sit in a helper the
			// loop body hands the iteration key to, resp. the enclosing function calls)
			emptied := c01ClearsVia(l.Top, b.S, clears, 0) ||
				c01DiscardsKey(l.Body, l.Body.Params[0], b.S, 0) ||
				c01ReturnsRemoveItem(l.Body, 0)
			if emptied {
				flush = append(flush, l)
			}
		}
		if len(flush) == 0 {
			continue
		}
		b.Loops = flush
		out = append(out, b)
	}
	sort.Slice(out, func(i, j int) bool {
		return out[i].Owner.Name()+"."+out[i].S.Name() < out[j].Owner.Name()+"."+out[j].S.Name()
	})
	return out
}

// c01DiscardsKey: f (closures included), or — up to three static calls deep — a
// callee that is handed the key, calls S.Discard(key).
func c01DiscardsKey(f *ssa.Function, key ssa.Value, s *types.Var, depth int) bool {
	if f == nil || f.Blocks == nil {
		return false
	}
	kr := c01Root(key)
	for _, cs := range callsIn(f, true, func(*types.Func) bool { return true }) {
		if c01FieldCall(cs, "Discard") == s && len(cs.Args()) == 2 && c01Root(cs.Args()[1]) == kr {
			return true
		}
		q := calleeFn(cs.Common())
		if q == nil || q.Blocks == nil || q == f || depth >= 3 {
			continue
		}
		for i, a := range cs.Common().Args {
			if i < len(q.Params) && c01Root(a) == kr && c01DiscardsKey(q, q.Params[i], s, depth+1) {
				return true
			}
		}
	}
	return false
}

// c01ReturnsRemoveItem: a result of f originates from lib/set's RemoveItem
// sentinel, directly or as the result of a callee (up to three calls deep).
func c01ReturnsRemoveItem(f *ssa.Function, depth int) bool {
	if f == nil || f.Blocks == nil {
		return false
	}
	for _, ret := range returnsOf(f) {
		for _, rv := range ret.Results {
			for _, o := range origins(rv, nil) {
				if g, ok := o.V.(*ssa.Global); ok && g.Name() == "RemoveItem" && g.Pkg != nil && strings.HasSuffix(g.Pkg.Pkg.Path(), "/lib/set") {
					return true
				}
				if call, ok := o.V.(*ssa.Call); ok && depth < 3 {
					if q := calleeFn(call.Common()); q != nil && q != f && c01ReturnsRemoveItem(q, depth+1) {
						return true
					}
				}
			}
		}
	}
	return false
}

// c01ClearsVia: f, or a function it calls statically (up to two calls deep),
// calls S.Clear().
func c01ClearsVia(f *ssa.Function, s *types.Var, clears map[*types.Var]map[*ssa.Function]bool, depth int) bool {
	if f == nil || f.Blocks == nil {
		return false
	}
	if clears[s][f] {
		return true
	}
	if depth >= 2 || len(clears[s]) == 0 {
		return false
	}
	for _, cs := range callsIn(f, true, func(*types.Func) bool { return true }) {
		if q := calleeFn(cs.Common()); q != nil && q != f && c01ClearsVia(q, s, clears, depth+1) {
			return true
		}
	}
	return false
}

// c01KeyedInserts: instructions of f that put key (root kr) into a container
// field: M[k] = v, M.Put(k, v), M.Add(k).
func c01KeyedInserts(f *ssa.Function, kr string) []struct {
	M  *types.Var
	In ssa.Instruction
} {
	var out []struct {
		M  *types.Var
		In ssa.Instruction
	}
	add := func(m *types.Var, in ssa.Instruction, k ssa.Value) {
		if m != nil && c01IsContainer(m.Type()) && c01Root(k) == kr {
			out = append(out, struct {
				M  *types.Var
				In ssa.Instruction
			}{m, in})
		}
	}
	for _, b := range f.Blocks {
		for _, in := range b.Instrs {
			switch x := in.(type) {
			case *ssa.MapUpdate:
				add(fieldVar(x.Map), in, x.Key)
			case ssa.CallInstruction:
				cs := CallSite{x, calleeOf(x.Common()), f}
				if m := c01FieldCall(cs, "Put", "Add"); m != nil && len(cs.Args()) >= 2 {
					add(m, in, cs.Args()[1])
				}
			}
		}
	}
	return out
}

// c01KeyedReads: f (or, up to two static calls deep, a callee that is handed the
// key) reads container field M at the key: M[k], M.Contains(k…), M.ContainsKey(k),
// M.Get(k), M.Iter(k, …).
func c01KeyedReads(f *ssa.Function, key ssa.Value, m *types.Var, depth int) bool {
	kr := c01Root(key)
	found := false
	allInstrs(f, false, func(_ *ssa.Function, in ssa.Instruction) {
		if found {
			return
		}
		switch x := in.(type) {
		case *ssa.Lookup:
			if fieldVar(x.X) == m && c01Root(x.Index) == kr {
				found = true
			}
		case ssa.CallInstruction:
			cs := CallSite{x, calleeOf(x.Common()), f}
			if c01FieldCall(cs, "Contains", "ContainsKey", "Get", "Iter") == m && len(cs.Args()) >= 2 && c01Root(cs.Args()[1]) == kr {
				found = true
				return
			}
			q := calleeFn(x.Common())
			if q == nil || q.Blocks == nil || depth >= 3 {
				return
			}
			for i, a := range x.Common().Args {
				if i < len(q.Params) && c01Root(a) == kr && c01KeyedReads(q, q.Params[i], m, depth+1) {
					found = true
					return
				}
			}
		}
	})
	return found
}

// c01AbsentGuard: g establishes that container field M does not contain the key:
// !M.ContainsKey(k) / !M.Contains(k, …) / `_, ok := M[k]; !ok`.
func c01AbsentGuard(g Guard, m *types.Var, kr string) bool {
	if g.True {
		return false
	}
	if cs, ok := condCall(g.Cond); ok {
		return c01FieldCall(cs, "ContainsKey", "Contains") == m && len(cs.Args()) >= 2 && c01Root(cs.Args()[1]) == kr
	}
	if ex, ok := g.Cond.(*ssa.Extract); ok && ex.Index == 1 {
		if lk, ok := ex.Tuple.(*ssa.Lookup); ok && lk.CommaOk {
			return fieldVar(lk.X) == m && c01Root(lk.Index) == kr
		}
	}
	return false
}

// c01Cancelled: the removal `rem` of key (from M) in its function is accompanied
// by S.Discard(same key): dominating or post-dominating it, or following it under
// guards that only test that M no longer contains the key; or by a call of a
// helper that discards its parameter from S on every path.
func c01Cancelled(pd func(*ssa.Function) map[*ssa.BasicBlock]map[*ssa.BasicBlock]bool, rem ssa.Instruction, key ssa.Value, s, m *types.Var) bool {
	h := rem.Parent()
	kr := c01Root(key)
	var cands []ssa.Instruction
	for _, b := range h.Blocks {
		for _, in := range b.Instrs {
			ci, ok := in.(ssa.CallInstruction)
			if !ok {
				continue
			}
			cs := CallSite{ci, calleeOf(ci.Common()), h}
			if c01FieldCall(cs, "Discard") == s && len(cs.Args()) == 2 && c01Root(cs.Args()[1]) == kr {
				cands = append(cands, in)
				continue
			}
			if q := calleeFn(ci.Common()); q != nil && q.Blocks != nil && q != h {
				for i, a := range ci.Common().Args {
					if i >= len(q.Params) || c01Root(a) != kr {
						continue
					}
					pr := c01Root(q.Params[i])
					for _, qs := range callsIn(q, false, func(f *types.Func) bool { return f.Name() == "Discard" }) {
						if c01FieldCall(qs, "Discard") == s && len(qs.Args()) == 2 && c01Root(qs.Args()[1]) == pr && len(guardsOf(qs.Instr)) == 0 {
							cands = append(cands, in)
						}
					}
				}
			}
		}
	}
	remGuards := map[*ssa.If]bool{}
	for _, g := range guardsOf(rem) {
		remGuards[g.If] = true
	}
	for _, d := range cands {
		if d == rem {
			continue
		}
		if instrDominates(d, rem) || instrPostDominates(pd(h), d, rem) {
			return true
		}
		if !instrDominates(rem, d) {
			continue
		}
		ok := true
		for _, g := range guardsOf(d) {
			if !remGuards[g.If] && !c01AbsentGuard(g, m, kr) {
				ok = false
			}
		}
		if ok {
			return true
		}
	}
	return false
}

func c01PendingLive(c *Ctx, p *Prog) {
	fs := c01SortedFuncs(p)
	calls := c01AllCalls(fs)
	batches := c01Batches(c, p, fs, calls)
	if len(batches) == 0 {
		c.Lost("no batched set (set-typed field with an Add site and an emptying loop) in the calc-graph node types")
	}
	pds := map[*ssa.Function]map[*ssa.BasicBlock]map[*ssa.BasicBlock]bool{}
	pd := func(f *ssa.Function) map[*ssa.BasicBlock]map[*ssa.BasicBlock]bool {
		if pds[f] == nil {
			pds[f] = postDominators(f)
		}
		return pds[f]
	}
	structOf := func(tn *types.TypeName) *types.Struct { return tn.Type().Underlying().(*types.Struct) }
	sibling := func(b *c01Batch, m *types.Var) bool {
		if m == b.S {
			return false
		}
		st := structOf(b.Owner)
		for i := 0; i < st.NumFields(); i++ {
			if st.Field(i) == m {
				return true
			}
		}
		return false
	}
	// removal sites of every container field
	removals := map[*types.Var][]c01KeyedOp{}
	for _, f := range fs {
		for _, blk := range f.Blocks {
			for _, in := range blk.Instrs {
				if cc, ok := isBuiltinCall(in, "delete"); ok && len(cc.Args) == 2 {
					if m := fieldVar(cc.Args[0]); m != nil {
						removals[m] = append(removals[m], c01KeyedOp{in, f, cc.Args[1]})
					}
					continue
				}
				if ci, ok := in.(ssa.CallInstruction); ok {
					cs := CallSite{ci, calleeOf(ci.Common()), f}
					if m := c01FieldCall(cs, "Discard", "DiscardKey"); m != nil && len(cs.Args()) >= 2 {
						removals[m] = append(removals[m], c01KeyedOp{in, f, cs.Args()[1]})
					}
				}
			}
		}
	}
	callersOf := func(g *ssa.Function) []ssa.CallInstruction {
		var out []ssa.CallInstruction
		for _, cs := range calls {
			if calleeFn(cs.Common()) == g {
				out = append(out, cs.Instr)
			}
		}
		return out
	}
	paramIndex := func(g *ssa.Function, v ssa.Value) int {
		os := origins(v, nil)
		if len(os) != 1 {
			return -1
		}
		for i, q := range g.Params {
			if os[0].V == q {
				return i
			}
		}
		return -1
	}
	for _, b := range batches {
		name := b.Owner.Name() + "." + b.S.Name()
		// ---- premises: containers that receive the key where it is queued
		prem := map[*types.Var]string{} // M -> where established
		note := func(f *ssa.Function, at ssa.Instruction, kr string) {
			for _, ins := range c01KeyedInserts(f, kr) {
				if sibling(b, ins.M) && (instrReaches(ins.In, at) || instrReaches(at, ins.In)) {
					if _, dup := prem[ins.M]; !dup {
						prem[ins.M] = fnName(f)
					}
				}
			}
		}
		for _, a := range b.Adds {
			k := a.Args()[1]
			note(a.Fn, a.Instr, c01Root(k))
			if idx := paramIndex(a.Fn, k); idx >= 0 && a.Fn.Parent() == nil {
				for _, ci := range callersOf(a.Fn) {
					if idx < len(ci.Common().Args) {
						note(ci.Parent(), ci, c01Root(ci.Common().Args[idx]))
					}
				}
			}
		}
		var loopNames []string
		for _, l := range b.Loops {
			loopNames = append(loopNames, fnName(l.Top))
		}
		sort.Strings(loopNames)
		n := 0
		var ms []*types.Var
		for m := range prem {
			ms = append(ms, m)
		}
		sort.Slice(ms, func(i, j int) bool { return ms[i].Name() < ms[j].Name() })
		for _, m := range ms {
			rems := removals[m]
			if len(rems) == 0 {
				continue
			}
			reread := true
			for _, l := range b.Loops {
				if !c01KeyedReads(l.Body, l.Body.Params[0], m, 0) {
					reread = false
				}
			}
			byFn := map[string][]c01KeyedOp{}
			for _, r := range rems {
				byFn[fnName(topFn(r.Fn))] = append(byFn[fnName(topFn(r.Fn))], r)
			}
			for _, fnm := range sortedKeys(byFn) {
				n++
				key := "C01.pendinglive/" + name + "/" + m.Name() + "@" + fnm
				site := p.Pos(byFn[fnm][0].In.Pos())
				if reread {
					c.Ok(key, site, "%s queues a key in %s where it enters %s; the flush loop in %v re-reads %s at the iteration key, so removal in %s cannot leave a stale action", prem[m], b.S.Name(), m.Name(), loopNames, m.Name(), fnm)
					continue
				}
				good := true
				for _, r := range byFn[fnm] {
					ok := c01Cancelled(pd, r.In, r.Key, b.S, m)
					if !ok {
						if idx := paramIndex(r.Fn, r.Key); idx >= 0 && r.Fn.Parent() == nil {
							cs := callersOf(r.Fn)
							ok = len(cs) > 0
							for _, ci := range cs {
								if idx >= len(ci.Common().Args) || !c01Cancelled(pd, ci, ci.Common().Args[idx], b.S, m) {
									ok = false
								}
							}
						}
					}
					if !ok {
						good = false
						site = p.Pos(r.In.Pos())
					}
				}
				c.Check(good, key, site,
					fmt.Sprintf("removal from %s in %s is accompanied by %s.Discard(same key) (unconditionally or once %s no longer contains the key)", m.Name(), fnm, b.S.Name(), m.Name()),
					fmt.Sprintf("%s queues a key in %s.%s where the key enters %s; %s removes the key from %s without %s.Discard(same key), and the flush loop in %v does not re-read %s for the queued key: started-then-stopped between two flushes leaves a queued action for something that no longer holds, so what the flush does depends on the history and not on the current state", prem[m], b.Owner.Name(), b.S.Name(), m.Name(), fnm, m.Name(), b.S.Name(), loopNames, m.Name()))
			}
		}
		if n == 0 {
			c.Ok("C01.pendinglive/"+name, p.Pos(b.S.Pos()), "no Add site of %s records the queued key in a sibling map/set/multidict that is ever shrunk: entries carry no premise that could be retracted (flush loops: %v)", b.S.Name(), loopNames)
		}
	}
}

// ----------------------------------------------------------------- twin --

func c01Twin(c *Ctx, p *Prog) {
	c01TwinMissing(c, p)
	pairs := c01FindTwins(p, calcPkg, func(fd *ast.FuncDecl, info *types.Info) bool { return true })
	for _, pr := range pairs {
		key := "C01.twin/" + pr.Fn + "/" + pr.Label
		site := p.Pos(pr.A.Pos())
		if len(pr.Unsub) > 0 {
			site = p.Pos(pr.UnsubAt)
		}
		c.Check(len(pr.Unsub) == 0, key, site,
			fmt.Sprintf("IPv4 block at %s and its IPv6 twin at %s differ exactly by the IPv4->IPv6 substitution (%d substituted leaves)", p.Pos(pr.A.Pos()), p.Pos(pr.B.Pos()), pr.NTwin),
			fmt.Sprintf("%s: the IPv4 block at %s and its IPv6 twin at %s are copies of each other, but the IPv4<->IPv6 substitution is incomplete: %s — one address family's output is computed from (and only re-evaluated on changes of) the other family's input", pr.Fn, p.Pos(pr.A.Pos()), p.Pos(pr.B.Pos()), strings.Join(pr.Unsub, "; ")))
	}
}

// c01TwinMissing: a function of felix/calc that treats a struct dual-stack (uses
// both members of one of its IPv4/IPv6 field pairs) uses both members of every
// pair of that struct it touches.  The block-level rule above can only compare
// twins that both exist; a twin that was dropped is reported here instead of
// silently shrinking the instance count.
func c01TwinMissing(c *Ctx, p *Prog) {
	uses, missing := c01FieldTwins(p, calcPkg)
	bad := map[string]bool{}
	for _, m := range missing {
		key := "C01.twin/" + m.Fn + "/" + m.Have.Name() + "/missing-twin"
		bad[m.Fn+"/"+m.Struct] = true
		c.Violate(key, p.Pos(m.Pos), "%s handles both address families of %s (it uses %s and %s) and uses %s.%s, but never its twin %s.%s: the %s half of what it computes/compares is missing, so a change that only touches %s is ignored",
			m.Fn, m.Struct, m.Witness[0].Name(), m.Witness[1].Name(), m.Struct, m.Have.Name(), m.Struct, m.Missing.Name(), m.Missing.Name(), m.Missing.Name())
	}
	for _, u := range uses {
		if bad[u.Fn+"/"+u.Struct] {
			continue
		}
		c.Ok("C01.twin/"+u.Fn+"/"+u.Struct+"/both-families", p.Pos(u.Pos), "%d IPv4/IPv6 field pair(s) of %s used with both members, none one-sidedly", u.Pairs, u.Struct)
	}
}

// ------------------------------------------------------------- eqfields --

// c01EqFields: hand-written equality functions of felix/calc.  The calc-graph
// nodes suppress re-emission / re-calculation when "nothing changed", and decide
// that with functions of the shape  func(a, b T) bool  over a struct T (two
// operands of one struct type, receiver included; called from felix/calc).  A
// field such a function forgets makes an update that changes only that field
// invisible: the dataplane keeps the old value while a fresh Felix emits the new
// one.  So each of them reads every field of T from both operands (exported
// fields only for generated felix/proto messages), or compares the operands
// whole (==, reflect.DeepEqual, proto.Equal).
func c01EqFields(c *Ctx, p *Prog) {
	fs := c01SortedFuncs(p)
	called := map[*ssa.Function]bool{}
	for _, f := range fs {
		if !c03InCalc(f) {
			continue
		}
		for _, b := range f.Blocks {
			for _, in := range b.Instrs {
				if ci, ok := in.(ssa.CallInstruction); ok {
					if g := calleeFn(ci.Common()); g != nil {
						called[g] = true
					}
				}
			}
		}
	}
	structOf := func(t types.Type) *types.Named {
		t = types.Unalias(t)
		if pt, ok := t.(*types.Pointer); ok {
			t = types.Unalias(pt.Elem())
		}
		n, ok := t.(*types.Named)
		if !ok {
			return nil
		}
		if _, ok := n.Underlying().(*types.Struct); !ok {
			return nil
		}
		return n
	}
	n := 0
	for _, fn := range fs {
		if !c03InCalc(fn) || fn.Parent() != nil || fn.Blocks == nil || !called[fn] {
			continue
		}
		res := fn.Signature.Results()
		if res.Len() != 1 {
			continue
		}
		if b, ok := res.At(0).Type().Underlying().(*types.Basic); !ok || b.Kind() != types.Bool {
			continue
		}
		// exactly two operands of one struct type
		var T *types.Named
		var ops []int
		for i, a := range fn.Params {
			ta := structOf(a.Type())
			if ta == nil {
				continue
			}
			var same []int
			for j, b := range fn.Params {
				if types.Identical(a.Type(), b.Type()) {
					same = append(same, j)
				}
			}
			if len(same) == 2 && same[0] == i {
				if T != nil {
					T = nil // two different pairs: not an equality of two values
					break
				}
				T, ops = ta, same
			}
		}
		if T == nil || len(ops) != 2 {
			continue
		}
		name := fnName(fn)
		site := p.Pos(fn.Pos())
		tname := T.Obj().Name()
		// whole-value comparison?
		whole := ""
		sidesOf := func(v ssa.Value) map[int]bool {
			out := map[int]bool{}
			for i := range c03ParamRoots(fn, v) {
				out[i] = true
			}
			for _, o := range origins(v, nil) {
				if par, ok := o.V.(*ssa.Parameter); ok {
					for i, q := range fn.Params {
						if q == par {
							out[i] = true
						}
					}
				}
			}
			return out
		}
		isOp := func(v ssa.Value, k int) bool {
			if structOf(v.Type()) != T {
				return false
			}
			if fieldVar(v) != nil {
				return false
			}
			s := sidesOf(v)
			return s[ops[k]] && !s[ops[1-k]]
		}
		allInstrs(fn, false, func(_ *ssa.Function, in ssa.Instruction) {
			switch x := in.(type) {
			case *ssa.BinOp:
				if (x.Op == token.EQL || x.Op == token.NEQ) && structOf(x.X.Type()) == T {
					if _, isPtr := types.Unalias(x.X.Type()).(*types.Pointer); isPtr {
						return // pointer identity, not a value comparison
					}
					if (isOp(x.X, 0) && isOp(x.Y, 1)) || (isOp(x.X, 1) && isOp(x.Y, 0)) {
						whole = "compares the two values with " + x.Op.String()
					}
				}
			case ssa.CallInstruction:
				f := calleeOf(x.Common())
				if f == nil || f.Pkg() == nil || len(x.Common().Args) != 2 {
					return
				}
				id := f.Pkg().Path() + "." + f.Name()
				if id != "reflect.DeepEqual" && id != "google.golang.org/protobuf/proto.Equal" {
					return
				}
				a0, a1 := c03StripIface(x.Common().Args[0]), c03StripIface(x.Common().Args[1])
				if (isOp(a0, 0) && isOp(a1, 1)) || (isOp(a0, 1) && isOp(a1, 0)) {
					whole = "hands both values to " + id
				}
			}
		})
		if whole != "" {
			n++
			c.Ok("C01.eqfields/"+name+"/"+tname, site, "%s %s", name, whole)
			continue
		}
		exported := T.Obj().Pkg() != nil && strings.HasSuffix(T.Obj().Pkg().Path(), "/felix/proto")
		cl := p.closure(fn)
		reads := fieldsRead(cl, T)
		// only functions that compare at all (read some field of both operands)
		any := false
		for _, ins := range reads {
			for _, in := range ins {
				if v, ok := in.(ssa.Value); ok && in.Parent() == fn && len(sidesOf(v)) > 0 {
					any = true
				}
			}
		}
		if !any {
			continue
		}
		for _, fld := range structFieldNames(T, exported) {
			n++
			sides := map[int]bool{}
			inCallee := false
			for _, in := range reads[fld] {
				if in.Parent() != fn {
					inCallee = true
					continue
				}
				if v, ok := in.(ssa.Value); ok {
					for i := range sidesOf(v) {
						sides[i] = true
					}
				}
			}
			good := (sides[ops[0]] && sides[ops[1]]) || (inCallee && len(sides) == 0)
			c.Check(good, "C01.eqfields/"+name+"/"+tname+"."+fld, site,
				fmt.Sprintf("%s reads %s.%s of both operands", name, tname, fld),
				fmt.Sprintf("%s decides whether two %s values are equal but does not read %s of both of them (first: %v, second: %v): an update that changes only %s is treated as \"no change\" and never propagated, so what has been emitted depends on what was sent before", name, tname, fld, sides[ops[0]], sides[ops[1]], fld))
		}
	}
	if n == 0 {
		c.Lost("no equality function func(a, b T) bool over a struct type called in felix/calc")
	}
}
