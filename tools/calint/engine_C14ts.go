package main

// C14.ts: every delete verdict of LivenessScanner.Check carries the LastSeen() of
// the entry that was judged expired.
//
// The rule is about (verdict, timestamp) pairs that reach Check's caller, not
// about the text of Check: the pairs are found by following Check's results
//   - through merged results (a verdict/timestamp pair assigned on several paths
//     and returned once: phi edges of one block are taken pairwise),
//   - into in-package callees whose two results are returned as they are
//     (`return l.checkX(...)`: each delete return of the callee is an instance), and
//   - back through parameters to the arguments at the call site (a timestamp or an
//     entry that was computed by the caller and handed to the helper).
// The guard ("EntryExpired(…, E) said true" / "the reverse entry does not exist")
// may be established in the function of the return, in any caller on the chain
// (at the call site), or by a predicate helper whose `true` answers are
// themselves all guarded by EntryExpired on the corresponding argument.

import (
	"fmt"
	"go/types"

	"golang.org/x/tools/go/ssa"
)

// c14Frame is one activation on the chain Check -> helper -> helper...
type c14Frame struct {
	fn     *ssa.Function
	call   *ssa.Call // the call in parent.fn that entered fn (nil for the root)
	parent *c14Frame
}

func (f *c14Frame) depth() int {
	n := 0
	for ; f != nil; f = f.parent {
		n++
	}
	return n
}

func (f *c14Frame) onChain(fn *ssa.Function) bool {
	for ; f != nil; f = f.parent {
		if f.fn == fn {
			return true
		}
	}
	return false
}

// c14Pt is a program point: before instruction `in`, or on the CFG edge from->to.
type c14Pt struct {
	in       ssa.Instruction
	from, to *ssa.BasicBlock
}

func c14CutAt(pt c14Pt, pred EdgePred) bool {
	if pt.in != nil {
		return guardedCut(pt.in, pred)
	}
	last := pt.from.Instrs[len(pt.from.Instrs)-1]
	if ifi, ok := last.(*ssa.If); ok && len(pt.from.Succs) == 2 && pt.from.Succs[0] != pt.from.Succs[1] {
		for k, s := range pt.from.Succs {
			if s == pt.to {
				c, pol := stripNot(ifi.Cond, k == 0)
				if pred(c, pol) {
					return true
				}
			}
		}
	}
	return guardedCut(last, pred)
}

// c14Up resolves a value through parameters to the argument of the call that
// entered the frame (repeatedly), stripping conversions.
func c14Up(v ssa.Value, fr *c14Frame) (ssa.Value, *c14Frame) {
	for {
		v = c14Strip(v)
		pa, ok := v.(*ssa.Parameter)
		if !ok || fr == nil || fr.parent == nil || fr.call == nil || pa.Parent() != fr.fn {
			return v, fr
		}
		idx := -1
		for i, q := range fr.fn.Params {
			if q == pa {
				idx = i
			}
		}
		args := fr.call.Common().Args
		if idx < 0 || idx >= len(args) {
			return v, fr
		}
		v, fr = args[idx], fr.parent
	}
}

// c14SameUp: two values denote the same thing once both are resolved to the
// outermost frame that can name them.
func c14SameUp(a ssa.Value, fa *c14Frame, b ssa.Value, fb *c14Frame) bool {
	a, fa = c14Up(a, fa)
	b, fb = c14Up(b, fb)
	return fa == fb && (a == b || path(a) == path(b))
}

type c14TsEngine struct {
	c   *Ctx
	p   *Prog
	pkg *ssa.Package
	del *types.Const
}

// inPkg: static callee with a body in the conntrack package.
func (e *c14TsEngine) inPkg(cc *ssa.CallCommon) *ssa.Function {
	g := calleeFn(cc)
	if g == nil || g.Blocks == nil || g.Pkg != e.pkg || len(cc.Args) != len(g.Params) {
		return nil
	}
	return g
}

func c14IsEntryExpired(cc *ssa.CallCommon) bool {
	f := calleeOf(cc)
	return f != nil && f.Name() == "EntryExpired" && f.Pkg() != nil && f.Pkg().Path() == calicoPrefix+ctPkg
}

// boolResultOf: v is (an extract of) a call; returns the call and the index of the
// result v stands for (0 for a single-result call).
func c14ResultOf(v ssa.Value) (*ssa.Call, int, bool) {
	switch x := v.(type) {
	case *ssa.Extract:
		if call, ok := x.Tuple.(*ssa.Call); ok {
			return call, x.Index, true
		}
	case *ssa.Call:
		if _, isTuple := x.Type().(*types.Tuple); !isTuple {
			return x, 0, true
		}
	}
	return nil, 0, false
}

// impliesExpired: in frame fr, "cond is true" implies "EntryExpired(…, E) returned
// expired==true", E given as (entry, fe).
func (e *c14TsEngine) impliesExpired(cond ssa.Value, fr *c14Frame, entry ssa.Value, fe *c14Frame, depth int) bool {
	if depth <= 0 {
		return false
	}
	if phi, ok := cond.(*ssa.Phi); ok {
		// a merged flag: every way of being true must imply it
		for i, ed := range phi.Edges {
			if cv, isC := constOf(ed); isC {
				if cv.String() == "true" && !e.expiredAt(c14Pt{from: phi.Block().Preds[i], to: phi.Block()}, fr, entry, fe, depth-1) {
					return false
				}
				continue
			}
			if !e.impliesExpired(ed, fr, entry, fe, depth-1) {
				return false
			}
		}
		return len(phi.Edges) > 0
	}
	call, idx, ok := c14ResultOf(cond)
	if !ok {
		return false
	}
	cc := call.Common()
	if c14IsEntryExpired(cc) {
		res := calleeOf(cc).Type().(*types.Signature).Results()
		args := CallSite{call, calleeOf(cc), call.Parent()}.Args()
		return idx == res.Len()-1 && len(args) >= 1 && c14SameUp(args[len(args)-1], fr, entry, fe)
	}
	// a predicate helper: all its `true` answers are guarded by EntryExpired on E
	g := e.inPkg(cc)
	if g == nil || fr.onChain(g) {
		return false
	}
	if b, isB := g.Signature.Results().At(idx).Type().Underlying().(*types.Basic); !isB || b.Kind() != types.Bool {
		return false
	}
	sub := &c14Frame{fn: g, call: call, parent: fr}
	rets := returnsOf(g)
	for _, r := range rets {
		if idx >= len(r.Results) {
			return false
		}
		rv := r.Results[idx]
		if cv, isC := constOf(rv); isC {
			if cv.String() == "true" && !e.expiredAt(c14Pt{in: r}, sub, entry, fe, depth-1) {
				return false
			}
			continue
		}
		if !e.impliesExpired(rv, sub, entry, fe, depth-1) && !e.expiredAt(c14Pt{in: r}, sub, entry, fe, depth-1) {
			return false
		}
	}
	return len(rets) > 0
}

// expiredAt: every path to pt (in frame fr, or - failing that - to the call that
// entered fr, and so on up the chain) crosses an edge that implies EntryExpired(…,E).
func (e *c14TsEngine) expiredAt(pt c14Pt, fr *c14Frame, entry ssa.Value, fe *c14Frame, depth int) bool {
	if depth <= 0 {
		return false
	}
	if c14CutAt(pt, func(cond ssa.Value, pol bool) bool {
		return pol && e.impliesExpired(cond, fr, entry, fe, depth-1)
	}) {
		return true
	}
	if fr.parent != nil && fr.call != nil {
		return e.expiredAt(c14Pt{in: fr.call}, fr.parent, entry, fe, depth-1)
	}
	return false
}

// notFoundAt: every path to pt crosses `IsNotExists(err)==true` (in the frame or up the chain).
func (e *c14TsEngine) notFoundAt(pt c14Pt, fr *c14Frame) bool {
	if c14CutAt(pt, callCond(true, func(cs CallSite) bool { return cs.Callee != nil && cs.Callee.Name() == "IsNotExists" })) {
		return true
	}
	if fr.parent != nil && fr.call != nil {
		return e.notFoundAt(c14Pt{in: fr.call}, fr.parent)
	}
	return false
}

// c14At is a program point in an activation.
type c14At struct {
	pt c14Pt
	fr *c14Frame
}

// c14TsRun analyses the (verdict, timestamp) results of root and everything they are
// forwarded from.  Returns the number of delete-verdict instances found.
func c14TsRun(c *Ctx, p *Prog, root *ssa.Function, rootName string, del *types.Const) int {
	e := &c14TsEngine{c: c, p: p, pkg: root.Pkg, del: del}
	total := 0
	count := map[string]int{}
	nameOf := func(fr *c14Frame) string {
		if fr.parent == nil {
			return rootName
		}
		return fr.fn.Name()
	}
	siteOf := func(at c14At) string {
		if at.pt.in != nil && at.pt.in.Pos().IsValid() {
			return p.Pos(at.pt.in.Pos())
		}
		return p.Pos(at.fr.fn.Pos())
	}
	// judge: the constant `delete` becomes the verdict at pts[0] (innermost) and then
	// passes pts[1], pts[2]... (the returns that forward it) on its way to Check's
	// caller; ts (a value of frame tsFr) is the timestamp that accompanies it.
	judge := func(pts []c14At, site string, ts ssa.Value, tsFr *c14Frame) {
		name := nameOf(pts[0].fr)
		count[name]++
		total++
		key := fmt.Sprintf("C14.ts/%s/delete#%d", name, count[name])
		tv, tf := c14Up(ts, tsFr)
		call, ok := tv.(*ssa.Call)
		if !ok || calleeOf(call.Common()) == nil || calleeOf(call.Common()).Name() != "LastSeen" {
			c.Violate(key, site, "delete verdict returns %s, which is not the LastSeen() of an entry", path(tv))
			return
		}
		entry := CallSite{call, calleeOf(call.Common()), call.Parent()}.Args()[0]
		ev, _ := c14Up(entry, tf)
		ep := path(ev)
		expired, notFound := false, false
		for _, at := range pts {
			if e.expiredAt(at.pt, at.fr, entry, tf, 8) {
				expired = true
			}
			if e.notFoundAt(at.pt, at.fr) {
				notFound = true
			}
		}
		switch {
		case expired:
			c.Ok(key, site, "guarded by EntryExpired(…, %s)==true and returns %s.LastSeen()", ep, ep)
		case notFound:
			c.Ok(key, site, "reverse entry not found: the orphaned forward entry's own LastSeen() (%s) is returned", ep)
		default:
			c.Violate(key, site, "delete verdict with timestamp %s.LastSeen() is not guarded by EntryExpired(…, %s)==true: the kernel cleaner would compare against a timestamp of an entry that was not the one judged expired", ep, ep)
		}
	}
	// pair: `verdict` (a value of pts[0].fr, taken at pts[0].pt) travels with ts (a value of tsFr).
	var pair func(pts []c14At, verdict ssa.Value, ts ssa.Value, tsFr *c14Frame, d int)
	pair = func(pts []c14At, verdict ssa.Value, ts ssa.Value, tsFr *c14Frame, d int) {
		at := pts[0]
		site := siteOf(at)
		name := nameOf(at.fr)
		if _, isC := constOf(verdict); isC {
			if c14IsConst(verdict, del) {
				judge(pts, site, ts, tsFr)
			}
			return
		}
		if d > 8 {
			c.Undecided("C14.ts/"+name+"/verdict", site, "the returned verdict %s is produced too deep to follow", path(verdict))
			return
		}
		switch x := verdict.(type) {
		case *ssa.Phi:
			// results merged from several paths: phis of one block are taken edge-wise
			tphi, _ := ts.(*ssa.Phi)
			for i, ed := range x.Edges {
				t := ts
				if tphi != nil && tsFr == at.fr && tphi.Block() == x.Block() {
					t = tphi.Edges[i]
				}
				edge := c14At{c14Pt{from: x.Block().Preds[i], to: x.Block()}, at.fr}
				pair(append([]c14At{edge}, pts...), ed, t, tsFr, d+1)
			}
			return
		case *ssa.Extract:
			call, ok := x.Tuple.(*ssa.Call)
			if !ok {
				break
			}
			g := e.inPkg(call.Common())
			if g == nil {
				break
			}
			if at.fr.onChain(g) {
				c.Undecided("C14.ts/"+name+"/forward", site, "recursive forwarding of the verdict through %s", g.Name())
				return
			}
			// a result of an in-package function: its returns produce the verdict; a
			// timestamp that is another result of the same call is taken from the same return
			sub := &c14Frame{fn: g, call: call, parent: at.fr}
			tIdx := -1
			if tx, ok := ts.(*ssa.Extract); ok && tx.Tuple == x.Tuple && tsFr == at.fr {
				tIdx = tx.Index
			}
			for _, r := range returnsOf(g) {
				if x.Index >= len(r.Results) || tIdx >= len(r.Results) {
					continue
				}
				t, tf := ts, tsFr
				if tIdx >= 0 {
					t, tf = r.Results[tIdx], sub
				}
				pair(append([]c14At{{c14Pt{in: r}, sub}}, pts...), r.Results[x.Index], t, tf, d+1)
			}
			return
		}
		c.Undecided("C14.ts/"+name+"/verdict", site, "cannot tell whether the returned verdict %s can be `delete`", path(verdict))
	}
	fr := &c14Frame{fn: root}
	for _, r := range returnsOf(root) {
		if len(r.Results) != 2 {
			continue
		}
		pair([]c14At{{c14Pt{in: r}, fr}}, r.Results[0], r.Results[1], fr, 0)
	}
	return total
}
