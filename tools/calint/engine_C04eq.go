package main

import (
	"fmt"
	"go/token"
	"go/types"
	"sort"

	"golang.org/x/tools/go/ssa"
)

// C04.eqcover — the no-op suppression of the label index.
//
// UpdateEndpointOrSet drops an update when the freshly built value "equals" the stored
// one.  The IP-set members the index has emitted stay correct only if that equality
// distinguishes everything the update can change: every field of the value that the
// caller of the equality fills in (the update's inputs; caches the value carries along
// are not inputs), and — for a slice field — every element, in every field of the
// element struct (a named port is name+protocol+port).  So, for every function of
// felix/labelindex of the shape func(a, b T) bool over a struct T of the package that is
// called in the package:  (field) each input field is read from both operands in the
// function (or the function forwards to a callee that reads it);  (elements) for a
// slice-typed input field with element type E the closure contains an element
// comparison: a whole-value one (==/!= on operands of type E, slices.Equal /
// reflect.DeepEqual on []E), or — E being a struct — reads of EVERY field of E rooted at
// two different values.
func c04EqCover(c *Ctx, m *c04Model) {
	c.Rule("C04.eqcover", "E-FIELDS", "the equality that lets the label index skip a no-op update reads, from both operands, every field its caller fills in, and compares the elements of every slice field whole (==, slices.Equal, reflect.DeepEqual) or in every field of the element struct", 7)
	p := m.p
	pkg := p.SSAPkg(c04Pkg)
	if pkg == nil {
		c.Lost("SSA package %s", c04Pkg)
	}
	structOf := func(t types.Type) *types.Named {
		t = types.Unalias(t)
		if pt, ok := t.(*types.Pointer); ok {
			t = types.Unalias(pt.Elem())
		}
		n, ok := t.(*types.Named)
		if !ok {
			return nil
		}
		if _, ok := n.Underlying().(*types.Struct); !ok {
			return nil
		}
		return n
	}
	var fs []*ssa.Function
	for _, f := range m.funcs {
		if f.Pkg == pkg {
			fs = append(fs, f)
		}
	}
	sort.Slice(fs, func(i, j int) bool { return fnName(fs[i]) < fnName(fs[j]) })
	n := 0
	for _, fn := range fs {
		if fn.Parent() != nil || fn.Blocks == nil || len(fn.Params) != 2 {
			continue
		}
		res := fn.Signature.Results()
		if res.Len() != 1 {
			continue
		}
		if b, ok := res.At(0).Type().Underlying().(*types.Basic); !ok || b.Kind() != types.Bool {
			continue
		}
		T := structOf(fn.Params[0].Type())
		if T == nil || !types.Identical(fn.Params[0].Type(), fn.Params[1].Type()) || T.Obj().Pkg() != pkg.Pkg {
			continue
		}
		// callers in the package; the fields of T they fill in are the update's inputs
		var callers []*ssa.Function
		inputs := map[string]*types.Var{}
		for _, g := range fs {
			calls := false
			allInstrs(g, true, func(_ *ssa.Function, in ssa.Instruction) {
				if ci, ok := in.(ssa.CallInstruction); ok && calleeFn(ci.Common()) == fn {
					calls = true
				}
			})
			if !calls || g == fn {
				continue
			}
			callers = append(callers, g)
			// the caller itself and the in-package constructors/helpers it calls directly
			// (methods of T excluded: they maintain the value, they do not build it from the update)
			builders := map[*ssa.Function]bool{g: true}
			allInstrs(g, true, func(_ *ssa.Function, in ssa.Instruction) {
				if ci, ok := in.(ssa.CallInstruction); ok {
					h := calleeFn(ci.Common())
					if h == nil || h.Pkg != pkg || h == fn || h.Blocks == nil {
						return
					}
					if r := h.Signature.Recv(); r != nil && structOf(r.Type()) == T {
						return
					}
					builders[h] = true
				}
			})
			for h := range builders {
				allInstrs(h, true, func(_ *ssa.Function, in ssa.Instruction) {
					st, ok := in.(*ssa.Store)
					if !ok {
						return
					}
					fa, ok := st.Addr.(*ssa.FieldAddr)
					if !ok || structOf(fa.X.Type()) != T {
						return
					}
					if fv := structField(fa.X.Type(), fa.Field); fv != nil {
						inputs[fv.Name()] = fv
					}
				})
			}
		}
		if len(callers) == 0 {
			continue
		}
		name := fnName(fn)
		site := p.Pos(fn.Pos())
		tname := T.Obj().Name()
		if len(inputs) == 0 {
			c.Undecided("C04.eqcover/"+name+"/"+tname, site, "the callers of %s (%s) store no field of %s: cannot derive which fields an update fills in", name, fnName(callers[0]), tname)
			n++
			continue
		}
		cl := p.closure(fn)
		reads := fieldsRead(cl, T)
		for _, fld := range sortedKeys(inputs) {
			n++
			fv := inputs[fld]
			sides := map[int]bool{}
			inCallee := false
			for _, in := range reads[fld] {
				if in.Parent() != fn {
					inCallee = true
					continue
				}
				if v, ok := in.(ssa.Value); ok {
					for i := range c03ParamRoots(fn, v) {
						sides[i] = true
					}
				}
			}
			key := "C04.eqcover/" + name + "/" + tname + "." + fld
			good := (sides[0] && sides[1]) || (inCallee && len(sides) == 0)
			c.Check(good, key, site,
				fmt.Sprintf("%s reads %s.%s of both operands", name, tname, fld),
				fmt.Sprintf("%s decides whether an update changes a %s but does not read %s of both operands (first: %v, second: %v), which its caller %s fills in from the update: an update changing only %s is dropped as a no-op and the IP set members computed from the old value stay programmed", name, tname, fld, sides[0], sides[1], fnName(callers[0]), fld))
			if !good {
				continue
			}
			var E types.Type
			switch t := fv.Type().Underlying().(type) {
			case *types.Slice:
				E = t.Elem()
			case *types.Array:
				E = t.Elem()
			default:
				continue
			}
			n += c04EqElems(c, p, cl, key, site, name, tname+"."+fld, E)
		}
	}
	if n == 0 {
		c.Lost("no equality function func(a, b T) bool over a struct of %s that is called in the package (endpointData.Equals confirmed by reading)", c04Pkg)
	}
}

// c04EqElems: the element comparison of one slice field inside the closure cl.
func c04EqElems(c *Ctx, p *Prog, cl map[*ssa.Function]bool, key, site, name, what string, E types.Type) int {
	whole := ""
	isSliceOfE := func(t types.Type) bool {
		switch s := t.Underlying().(type) {
		case *types.Slice:
			return types.Identical(s.Elem(), E)
		case *types.Array:
			return types.Identical(s.Elem(), E)
		}
		return false
	}
	for f := range cl {
		if f.Blocks == nil {
			continue
		}
		for _, b := range f.Blocks {
			for _, in := range b.Instrs {
				switch x := in.(type) {
				case *ssa.BinOp:
					if (x.Op == token.EQL || x.Op == token.NEQ) && types.Identical(x.X.Type(), E) && types.Identical(x.Y.Type(), E) && !isNilConst(x.X) && !isNilConst(x.Y) {
						whole = "elements compared whole with " + x.Op.String() + " in " + fnName(f)
					}
				case ssa.CallInstruction:
					g := calleeOf(x.Common())
					if g == nil || g.Pkg() == nil || len(x.Common().Args) != 2 {
						continue
					}
					id := g.Pkg().Path() + "." + g.Name()
					a0, a1 := c03StripIface(x.Common().Args[0]), c03StripIface(x.Common().Args[1])
					switch id {
					case "slices.Equal", "reflect.DeepEqual":
						if isSliceOfE(a0.Type()) && isSliceOfE(a1.Type()) {
							whole = "slices compared whole by " + id + " in " + fnName(f)
						}
					}
					if id == "reflect.DeepEqual" && types.Identical(a0.Type(), E) && types.Identical(a1.Type(), E) {
						whole = "elements compared whole by reflect.DeepEqual in " + fnName(f)
					}
				}
			}
		}
	}
	if whole != "" {
		c.Ok(key+"/elements", site, "%s: %s", what, whole)
		return 1
	}
	var EN *types.Named
	if nt, ok := types.Unalias(E).(*types.Named); ok {
		if _, isStruct := nt.Underlying().(*types.Struct); isStruct {
			EN = nt
		}
	}
	if EN == nil {
		c.Violate(key+"/elements", site, "%s never compares the elements of %s (element type %s) — no ==/!= on two elements, no slices.Equal/reflect.DeepEqual on the slices: an update that replaces an element is dropped as a no-op", name, what, E.String())
		return 1
	}
	ereads := fieldsRead(cl, EN)
	cnt := 0
	for _, ef := range structFieldNames(EN, false) {
		cnt++
		roots := map[ssa.Value]bool{}
		for _, in := range ereads[ef] {
			if v, ok := in.(ssa.Value); ok {
				for _, r := range c05Roots(v) {
					roots[r] = true
				}
			}
		}
		c.Check(len(roots) >= 2, key+"/"+EN.Obj().Name()+"."+ef, site,
			fmt.Sprintf("%s: %s.%s of both elements is read by the element comparison", what, EN.Obj().Name(), ef),
			fmt.Sprintf("%s compares the elements of %s field by field but does not read %s.%s of both elements (%d operand(s)): an update that changes only %s of an element (e.g. a named port's protocol) is dropped as a no-op and the old IP set members stay programmed", name, what, EN.Obj().Name(), ef, len(roots), ef))
	}
	return cnt
}
