package main

import (
	"fmt"
	"go/token"
	"go/types"
	"sort"
	"strings"

	"golang.org/x/tools/go/ssa"
)

const (
	c06ParserPkg = "libcalico-go/lib/selector/parser"
	c06TokPkg    = "libcalico-go/lib/selector/tokenizer"
)

func init() {
	register(&Property{
		ID:        "C06",
		Title:     "Selectors keep their meaning through canonical formatting",
		Technique: "static analysis: relational skip-equivalence (non-interference) of the validateOnly flag over go/ssa CFGs with post-dominator joins; three-way operator table agreement formatter↔tokenizer↔parser; exhaustiveness over Node implementations (go/types)",
		DesignRef: "DESIGN.md §3 C06",
		Explanation: "Decides the last clause (validation accepts exactly what the parser accepts) structurally: (entry) Validate and Parse reach the same root parse function with the same input, differing only in a constant flag, and Validate returns that function's error unchanged; " +
			"(noninterf) in every function that threads the flag, the flag is used only as a branch condition or passed on in flag position, and for every branch on it the flag=true and flag=false continuations contain, up to their immediate post-dominator or return, only instructions that cannot influence the non-AST results " +
			"(no parse call, no store outside fresh AST objects, no value feeding err/remTokens/branch conditions), and they deliver identical err/remTokens values where they meet or return; " +
			"(optable) for each binary label operator the text emitted by collectFragments is the text the tokenizer maps to the token kind under which the parser constructs that same node type; " +
			"(verbatim) every string the formatter family (the Node method of type func([]string) []string and the helpers it calls) puts into the fragment slice is a constant or a string read from the AST (uniquestr.Handle.Value() / a field), possibly concatenated, " +
			"never the result of a call or operation applied to such a string — the tokenizer takes the bytes between quotes verbatim, so any escaping/trimming/case-folding of a label name or value changes what the canonical text parses back to — " +
			"and the field returned by Selector.String() is only ever assigned strings.Join(<collected fragments>, \"\"); " +
			"(nodes) every Node implementation is constructed by the parser, and every one with a LabelName field has its LabelName rewritten in a case of PrefixVisitor.Visit; " +
			"(hash) the identity hash is a function of the current canonical text: with T the field Selector.String() returns and H the field Selector.UniqueID() returns, every function that assigns T assigns H of the same selector on every path through that assignment " +
			"(the text is rebuilt after parsing by Selector.AcceptVisitor), every value assigned to H is \"\" or computed from the text current at that point (the value assigned to T, a read of T not followed by the function's own assignment of T, or a fresh run of the fragment collector), " +
			"and if H can be invalidated it is read only by the function that recomputes it; if UniqueID() caches nothing it must be computed from T.",
		NotDecided: "Full round-trip equality (choice of the quote character for a value, nesting/parenthesisation, set literal ordering; for the hash only that it is the hash function applied to the current canonical text, not the function itself) and Evaluate equivalence after re-parsing; panics (index out of range) inside AST construction; the tokenizer's acceptance itself (shared by both modes).",
		Assumptions: []string{
			"go/types + go/ssa (x/tools v0.50.0) model of the current source, CGO_ENABLED=0 build",
			"uniquestr.Make, logrus calls, builtins and methods invoked only on freshly built AST values (Node/*Selector) neither fail nor touch parser-visible state",
			"termination-insensitive non-interference (a panic or non-termination in one mode only is not detected)",
		},
		Run: runC06,
		Fixtures: []Fixture{
			{Name: "Validate drops the parse error", File: "libcalico-go/lib/selector/parser/parser.go",
				Old: "\t_, err = p.parseRoot(selector, true)\n\treturn\n", New: "\t_, _ = p.parseRoot(selector, true)\n\treturn\n", Expect: "C06.noninterf/entry"},
			{Name: "validate mode continues past an error in a later || term", File: "libcalico-go/lib/selector/parser/parser.go",
				Old: "\t\t\tif err != nil {\n\t\t\t\treturn\n\t\t\t}\n\t\t\tif validateOnly {\n\t\t\t\tcontinue\n\t\t\t}\n\t\t\tandNodes = append(andNodes, sel)", New: "\t\t\tif validateOnly {\n\t\t\t\tcontinue\n\t\t\t}\n\t\t\tif err != nil {\n\t\t\t\treturn\n\t\t\t}\n\t\t\tandNodes = append(andNodes, sel)", Expect: "C06.noninterf/Parser.parseOrExpression"},
			{Name: "validate mode accepts a non-string right-hand side of ==", File: "libcalico-go/lib/selector/parser/parser.go",
				Old: "\t\tcase tokenizer.TokEq:\n\t\t\tif tokens[2].Kind == tokenizer.TokStringLiteral {", New: "\t\tcase tokenizer.TokEq:\n\t\t\tif validateOnly || tokens[2].Kind == tokenizer.TokStringLiteral {", Expect: "C06.noninterf/Parser.parseOperation"},
			{Name: "validate mode skips the trailing-content check", File: "libcalico-go/lib/selector/parser/parser.go",
				Old: "\t\tif len(remTokens) != 1 {\n\t\t\terr = errors.New(fmt.Sprint(\"unexpected content at end of selector \", remTokens))\n\t\t\treturn\n\t\t}\n\t\tif validateOnly {\n\t\t\treturn\n\t\t}", New: "\t\tif validateOnly {\n\t\t\treturn\n\t\t}\n\t\tif len(remTokens) != 1 {\n\t\t\terr = errors.New(fmt.Sprint(\"unexpected content at end of selector \", remTokens))\n\t\t\treturn\n\t\t}", Expect: "C06.noninterf/Parser.parseRoot"},
			{Name: "validate mode does not consume the && operand", File: "libcalico-go/lib/selector/parser/parser.go",
				Old: "\t\t\tremTokens = remTokens[1:]\n\t\t\tsel, remTokens, err = p.parseOperation(remTokens, validateOnly)\n\t\t\tif err != nil {\n\t\t\t\treturn\n\t\t\t}", New: "\t\t\tremTokens = remTokens[1:]\n\t\t\tif validateOnly {\n\t\t\t\tcontinue\n\t\t\t}\n\t\t\tsel, remTokens, err = p.parseOperation(remTokens, validateOnly)\n\t\t\tif err != nil {\n\t\t\t\treturn\n\t\t\t}", Expect: "C06.noninterf/Parser.parseAndExpression"},
			{Name: "ends-with formatted as starts-with", File: "libcalico-go/lib/selector/parser/ast.go",
				Old: "node.LabelName.Value(), \" ends with \", node.Value.Value())", New: "node.LabelName.Value(), \" starts with \", node.Value.Value())", Expect: "C06.optable/LabelEndsWithValueNode"},
			{Name: "not-in formatted as in", File: "libcalico-go/lib/selector/parser/ast.go",
				Old: "return collectInOpFragments(fragments, node.LabelName.Value(), \"not in\", node.Value)", New: "return collectInOpFragments(fragments, node.LabelName.Value(), \"in\", node.Value)", Expect: "C06.optable/LabelNotInSetNode"},
			{Name: "parser builds != node for ==", File: "libcalico-go/lib/selector/parser/parser.go",
				Old: "\t\t\t\t\tsel = &LabelEqValueNode{uniquestr.Make(tokens[0].Value), uniquestr.Make(tokens[2].Value)}", New: "\t\t\t\t\tsel = &LabelNeValueNode{uniquestr.Make(tokens[0].Value), uniquestr.Make(tokens[2].Value)}", Expect: "C06.optable/"},
			{Name: "tokenizer maps 'contains' to the starts-with token", File: "libcalico-go/lib/selector/tokenizer/tokenizer.go",
				Old: "tokens = append(tokens, Token{Kind: TokContains})", New: "tokens = append(tokens, Token{Kind: TokStartsWith})", Expect: "C06.optable/LabelContainsValueNode"},
			{Name: "parser never builds GlobalNode", File: "libcalico-go/lib/selector/parser/parser.go",
				Old: "\t\t\tsel = &GlobalNode{}\n", New: "\t\t\tsel = &AllNode{}\n", Expect: "C06.nodes/built/GlobalNode"},
			{Name: "formatter escapes backslashes in a value although the grammar has no escapes", File: "libcalico-go/lib/selector/parser/ast.go",
				Old: "\treturn append(fragments, label, op, quote, s, quote)\n", New: "\treturn append(fragments, label, op, quote, strings.ReplaceAll(s, \"\\\\\", \"\\\\\\\\\"), quote)\n", Expect: "C06.verbatim/appendLabelOpAndQuotedString"},
			{Name: "set members are trimmed when formatted", File: "libcalico-go/lib/selector/parser/ast.go",
				Old: "\t\tfragments = append(fragments, quote, s, quote)\n", New: "\t\tfragments = append(fragments, quote, strings.TrimSpace(s), quote)\n", Expect: "C06.verbatim/collectInOpFragments"},
			{Name: "label name lower-cased in has()", File: "libcalico-go/lib/selector/parser/ast.go",
				Old: "\treturn append(fragments, \"has(\", node.LabelName.Value(), \")\")\n", New: "\treturn append(fragments, \"has(\", strings.ToLower(node.LabelName.Value()), \")\")\n", Expect: "C06.verbatim/HasNode.collectFragments"},
			{Name: "fragments joined with a separator", File: "libcalico-go/lib/selector/parser/ast.go",
				Old: "\tstr := strings.Join(fragments, \"\")\n", New: "\tstr := strings.Join(fragments, \" \")\n", Expect: "C06.verbatim/join/"},
			{Name: "PrefixVisitor forgets LabelInSetNode", File: "libcalico-go/lib/selector/parser/ast.go",
				Old: "\tcase *LabelInSetNode:\n\t\tnp.LabelName = uniquestr.Make(fmt.Sprintf(\"%s%s\", v.Prefix, np.LabelName.Value()))\n", New: "", Expect: "C06.nodes/visit/LabelInSetNode"},
			{Name: "identity hash computed only once although the text can be rebuilt", File: "libcalico-go/lib/selector/parser/ast.go",
				Old: "\tsel.stringRep = str\n\tsel.hash = hash.MakeUniqueID(\"s\", str)\n", New: "\tsel.stringRep = str\n\tif sel.hash == \"\" {\n\t\tsel.hash = hash.MakeUniqueID(\"s\", str)\n\t}\n",
				Expect: "C06.hash/cowrite/Selector.updateFields"},
			{Name: "identity hash computed from the previous text", File: "libcalico-go/lib/selector/parser/ast.go",
				Old: "\tsel.stringRep = str\n\tsel.hash = hash.MakeUniqueID(\"s\", str)\n", New: "\tsel.hash = hash.MakeUniqueID(\"s\", sel.stringRep)\n\tsel.stringRep = str\n",
				Expect: "C06.hash/value/Selector.updateFields"},
		},
	})
}

func runC06(c *Ctx) {
	p := c.Load(c06ParserPkg, c06TokPkg)
	c.Rule("C06.noninterf", "non-interference", "Validate/Parse share the root parse function; in each function threading validateOnly the two continuations of every flag branch are skip-equivalent w.r.t. err/remTokens", 5)
	c.Rule("C06.optable", "E-TABLE", "operator text emitted by collectFragments ↔ tokenizer token kind ↔ parser case constructing the same node type", 7)
	c.Rule("C06.nodes", "E-FIELDS", "every Node implementation is constructed by the parser; those with a LabelName field are rewritten by PrefixVisitor.Visit", 21)

	c.Rule("C06.verbatim", "E-FLOW (value provenance)", "every fragment the canonical formatter emits is a string constant or a string held in the AST, unmodified (the grammar has no escapes); the canonical text is the plain concatenation of the fragments", 9)

	fam := c06NonInterf(c, p)
	c06OpTable(c, p, fam)
	c06Nodes(c, p, fam)
	c06Verbatim(c, p)

	c.Rule("C06.hash", "E-PAIR/E-FLOW", "the cached identity hash is a function of the current canonical text: the field UniqueID() returns is assigned wherever the field String() returns is assigned, and only values computed from that text (or \"\" to invalidate)", 2)
	c06Hash(c, p)
}

func c06NodeTypes(c *Ctx, p *Prog) (nodeI *types.Interface, nodeT types.Type, impls []*types.Named) {
	pk := p.Pkg(c06ParserPkg)
	tn, _ := p.LookupObj(c06ParserPkg, "Node").(*types.TypeName)
	if pk == nil || tn == nil {
		c.Lost("parser.Node")
	}
	nodeI, _ = tn.Type().Underlying().(*types.Interface)
	if nodeI == nil {
		c.Lost("parser.Node is not an interface")
	}
	sc := pk.Types.Scope()
	for _, name := range sc.Names() {
		t, ok := sc.Lookup(name).(*types.TypeName)
		if !ok || t.IsAlias() {
			continue
		}
		named, ok := t.Type().(*types.Named)
		if !ok {
			continue
		}
		if _, isI := named.Underlying().(*types.Interface); isI {
			continue
		}
		if types.Implements(types.NewPointer(named), nodeI) || types.Implements(named, nodeI) {
			impls = append(impls, named)
		}
	}
	if len(impls) == 0 {
		c.Lost("implementations of parser.Node")
	}
	return nodeI, tn.Type(), impls
}

// -------------------------------------------------------------- noninterf --

func c06NonInterf(c *Ctx, p *Prog) map[*ssa.Function]*c06Fn {
	nodeI, nodeT, _ := c06NodeTypes(c, p)
	selTN, _ := p.LookupObj(c06ParserPkg, "Selector").(*types.TypeName)
	if selTN == nil {
		c.Lost("parser.Selector")
	}
	isAST := func(t types.Type) bool {
		t = types.Unalias(t)
		if sl, ok := t.Underlying().(*types.Slice); ok {
			t = types.Unalias(sl.Elem())
		}
		if types.Identical(t, nodeT) {
			return true
		}
		if pt, ok := t.(*types.Pointer); ok {
			if types.Identical(types.Unalias(pt.Elem()), selTN.Type()) {
				return true
			}
			if n, ok := types.Unalias(pt.Elem()).(*types.Named); ok && n.Obj().Pkg() == selTN.Pkg() && types.Implements(pt, nodeI) {
				return true
			}
		}
		return false
	}
	pure := func(cc *ssa.CallCommon) bool {
		f := calleeOf(cc)
		return c06PkgIs(f, "lib/std/uniquestr", "sirupsen/logrus")
	}

	// entry points
	val := p.Func(c06ParserPkg, "Parser.Validate")
	par := p.Func(c06ParserPkg, "Parser.Parse")
	if val == nil || par == nil {
		c.Lost("Parser.Validate / Parser.Parse")
	}
	type entryCall struct {
		call    *ssa.Call
		root    *ssa.Function
		flagIdx int
		flagVal string
	}
	findRoot := func(fn *ssa.Function) *entryCall {
		var out *entryCall
		n := 0
		for _, cs := range callsIn(fn, false, func(*types.Func) bool { return true }) {
			sf := calleeFn(cs.Common())
			if sf == nil || sf.Pkg != fn.Pkg {
				continue
			}
			for i, a := range cs.Common().Args {
				if cv, ok := a.(*ssa.Const); ok && cv.Value != nil && types.Identical(cv.Type().Underlying(), types.Typ[types.Bool]) {
					if call, ok := cs.Instr.(*ssa.Call); ok {
						out = &entryCall{call, sf, i, cv.Value.ExactString()}
						n++
					}
				}
			}
		}
		if n != 1 {
			return nil
		}
		return out
	}
	ev, ep := findRoot(val), findRoot(par)
	if ev == nil || ep == nil {
		c.Lost("the root parse function called with a constant mode flag from Parser.Validate / Parser.Parse")
	}
	var bad []string
	if ev.root != ep.root || ev.flagIdx != ep.flagIdx {
		bad = append(bad, fmt.Sprintf("Validate calls %s but Parse calls %s", fnName(ev.root), fnName(ep.root)))
	}
	if ev.flagVal == ep.flagVal {
		bad = append(bad, "Validate and Parse pass the same flag value")
	}
	for _, e := range []*entryCall{ev, ep} {
		fn := e.call.Parent()
		for i, a := range e.call.Common().Args {
			if i == e.flagIdx {
				continue
			}
			if _, ok := a.(*ssa.Parameter); !ok {
				bad = append(bad, fmt.Sprintf("%s passes a derived value (not its own parameter) as argument %d of %s", fnName(fn), i, fnName(e.root)))
			}
		}
		// every error-typed result returned originates from the root call's error result
		res := fn.Signature.Results()
		for _, r := range returnsOf(fn) {
			for i := 0; i < res.Len(); i++ {
				if !types.Identical(res.At(i).Type(), types.Universe.Lookup("error").Type()) {
					continue
				}
				okErr := true
				os := origins(r.Results[i], func(v ssa.Value) []ssa.Value {
					if ex, ok := v.(*ssa.Extract); ok && ex.Tuple == ssa.Value(e.call) {
						if !types.Identical(ex.Type(), types.Universe.Lookup("error").Type()) {
							okErr = false
						}
						return []ssa.Value{}
					}
					return nil
				})
				for _, o := range os {
					_ = o
					okErr = false // any leaf other than the root call's error result
				}
				if !okErr {
					bad = append(bad, fmt.Sprintf("%s does not return the error of %s unchanged", fnName(fn), fnName(e.root)))
				}
			}
		}
	}
	// package-level wrappers
	for _, w := range [][2]string{{"Validate", "Parser.Validate"}, {"Parse", "Parser.Parse"}} {
		wf := p.Func(c06ParserPkg, w[0])
		if wf == nil {
			c.Lost("parser.%s", w[0])
		}
		target := p.Func(c06ParserPkg, w[1])
		n := 0
		for _, cs := range callsIn(wf, false, func(*types.Func) bool { return true }) {
			if calleeFn(cs.Common()) == target {
				n++
			}
		}
		if n != 1 {
			bad = append(bad, fmt.Sprintf("parser.%s does not delegate to %s", w[0], w[1]))
		}
	}
	c.Check(len(bad) == 0, "C06.noninterf/entry", p.Pos(val.Pos()),
		fmt.Sprintf("Validate and Parse both run %s on their input, flag %s vs %s, and return its error", fnName(ev.root), ev.flagVal, ep.flagVal),
		"validation and parsing entry points do not share acceptance: "+strings.Join(bad, "; "))

	fam, problem := c06Family(ev.root, ev.flagIdx, isAST)
	if problem != "" {
		c.Lost("flag-threading family of %s: %s", fnName(ev.root), problem)
	}
	an := &c06Analysis{fam: fam, isAST: isAST, pureCall: pure}
	var fns []*c06Fn
	for _, f := range fam {
		fns = append(fns, f)
	}
	sort.Slice(fns, func(i, j int) bool { return fns[i].fn.Pos() < fns[j].fn.Pos() })
	for _, f := range fns {
		key := "C06.noninterf/" + fnName(f.fn)
		site := p.Pos(f.fn.Pos())
		n, bad, und := an.checkFn(f, p.Pos)
		switch {
		case len(bad) > 0:
			c.Violate(key, site, "acceptance in %s depends on %s: %s", fnName(f.fn), f.flag.Name(), strings.Join(bad, "; "))
		case len(und) > 0:
			c.Undecided(key, site, "%s", strings.Join(und, "; "))
		case n == 0:
			c.Undecided(key, site, "%s threads %s but never branches on it (family discovery is off)", fnName(f.fn), f.flag.Name())
		default:
			c.Ok(key, site, "%d branches on %s; both continuations of each are skip-equivalent for results %v", n, f.flag.Name(), f.obsIdx)
		}
	}
	return fam
}

// ---------------------------------------------------------------- optable --

// c06TokenizerTable extracts text→Kind from the tokenizer: for every call of a
// prefix-cutting helper with constant word arguments, the Kind stored into the
// Token appended on the "found" edge.
func c06TokenizerTable(c *Ctx, p *Prog) map[string]string {
	fn := p.Func(c06TokPkg, "AppendTokens")
	if fn == nil {
		c.Lost("tokenizer.AppendTokens")
	}
	kindName := map[string]string{}
	pk := p.Pkg(c06TokPkg)
	for _, n := range pk.Types.Scope().Names() {
		if k, ok := pk.Types.Scope().Lookup(n).(*types.Const); ok && namedTypeName(k.Type()) == "Kind" {
			kindName[k.Val().ExactString()] = n
		}
	}
	out := map[string]string{}
	for _, b := range fn.Blocks {
		for _, in := range b.Instrs {
			call, ok := in.(*ssa.Call)
			if !ok {
				continue
			}
			f := calleeOf(call.Common())
			if f == nil || !strings.Contains(strings.ToLower(f.Name()), "prefix") {
				continue
			}
			// constant words: string constants among the args, or elements of a varargs literal
			var words []string
			for _, a := range call.Common().Args[1:] {
				if cv, ok := constOf(a); ok {
					words = append(words, strings.Trim(cv.ExactString(), `"`))
				} else if sl, ok := a.(*ssa.Slice); ok {
					if al, ok := sl.X.(*ssa.Alloc); ok {
						type iw struct {
							i int64
							w string
						}
						var ws []iw
						for _, r := range *al.Referrers() {
							if ia, ok := r.(*ssa.IndexAddr); ok {
								ic, _ := constOf(ia.Index)
								for _, rr := range *ia.Referrers() {
									if st, ok := rr.(*ssa.Store); ok {
										if cv, ok := constOf(st.Val); ok && ic != nil {
											var idx int64
											fmt.Sscan(ic.ExactString(), &idx)
											ws = append(ws, iw{idx, strings.Trim(cv.ExactString(), `"`)})
										}
									}
								}
							}
						}
						sort.Slice(ws, func(i, j int) bool { return ws[i].i < ws[j].i })
						for _, w := range ws {
							words = append(words, w.w)
						}
					}
				}
			}
			if len(words) == 0 {
				continue
			}
			// the If on the found result (#1)
			var found ssa.Value
			for _, r := range *call.Referrers() {
				if ex, ok := r.(*ssa.Extract); ok && ex.Index == 1 {
					found = ex
				}
			}
			if found == nil {
				continue
			}
			for _, r := range *found.Referrers() {
				ifi, ok := r.(*ssa.If)
				if !ok {
					continue
				}
				tb := ifi.Block().Succs[0]
				// Kind constants stored into Token literals in the found block
				for _, ti := range tb.Instrs {
					st, ok := ti.(*ssa.Store)
					if !ok {
						continue
					}
					fa, ok := st.Addr.(*ssa.FieldAddr)
					if !ok || namedTypeName(fa.X.Type()) != "Token" || fieldName(fa.X.Type(), fa.Field) != "Kind" {
						continue
					}
					if cv, ok := constOf(st.Val); ok {
						out[strings.Join(words, " ")] = kindName[cv.ExactString()]
					}
				}
			}
		}
	}
	return out
}

// c06KindExprs lists the canonical paths of expressions compared against Kind
// constants in fn.
func c06KindExprs(fn *ssa.Function) []string {
	seen := map[string]bool{}
	for _, b := range fn.Blocks {
		for _, in := range b.Instrs {
			bo, ok := in.(*ssa.BinOp)
			if !ok || (bo.Op != token.EQL && bo.Op != token.NEQ) {
				continue
			}
			if _, isC := bo.Y.(*ssa.Const); isC && namedTypeName(bo.Y.Type()) == "Kind" {
				seen[path(bo.X)] = true
			}
		}
	}
	return sortedKeys(seen)
}

// c06BuiltUnder: node types allocated in blocks of fn reachable when every
// comparison of expression P with a Kind constant is decided by P == kindVal.
func c06BuiltUnder(fn *ssa.Function, P, kindVal string, isImpl map[string]bool) map[string]bool {
	out := map[string]bool{}
	seen := map[*ssa.BasicBlock]bool{}
	st := []*ssa.BasicBlock{fn.Blocks[0]}
	for len(st) > 0 {
		b := st[len(st)-1]
		st = st[:len(st)-1]
		if seen[b] {
			continue
		}
		seen[b] = true
		for _, in := range b.Instrs {
			if al, ok := in.(*ssa.Alloc); ok && isImpl[namedTypeName(al.Type())] {
				out[namedTypeName(al.Type())] = true
			}
		}
		if ifi, ok := b.Instrs[len(b.Instrs)-1].(*ssa.If); ok {
			cnd, pol := stripNot(ifi.Cond, true)
			if bo, ok := cnd.(*ssa.BinOp); ok && (bo.Op == token.EQL || bo.Op == token.NEQ) {
				if cv, isC := bo.Y.(*ssa.Const); isC && cv.Value != nil && namedTypeName(bo.Y.Type()) == "Kind" && path(bo.X) == P {
					truth := (cv.Value.ExactString() == kindVal) == (bo.Op == token.EQL)
					if truth == pol {
						st = append(st, b.Succs[0])
					} else {
						st = append(st, b.Succs[1])
					}
					continue
				}
			}
		}
		st = append(st, b.Succs...)
	}
	return out
}

func c06OpTable(c *Ctx, p *Prog, fam map[*ssa.Function]*c06Fn) {
	_, _, impls := c06NodeTypes(c, p)
	tok := c06TokenizerTable(c, p)
	kindVal := map[string]string{}
	tpk := p.Pkg(c06TokPkg)
	for _, kn := range tpk.Types.Scope().Names() {
		if k, ok := tpk.Types.Scope().Lookup(kn).(*types.Const); ok && namedTypeName(k.Type()) == "Kind" {
			kindVal[kn] = k.Val().ExactString()
		}
	}
	opNode := map[string]bool{}
	for _, named := range impls {
		if st, ok := named.Underlying().(*types.Struct); ok {
			hasL, hasV := false, false
			for i := 0; i < st.NumFields(); i++ {
				hasL = hasL || st.Field(i).Name() == "LabelName"
				hasV = hasV || st.Field(i).Name() == "Value"
			}
			if hasL && hasV {
				opNode[named.Obj().Name()] = true
			}
		}
	}
	if len(tok) < 5 {
		c.Lost("tokenizer operator table (found %v)", tok)
	}
	pk := p.Pkg(c06ParserPkg)
	n := 0
	for _, named := range impls {
		obj, _, _ := types.LookupFieldOrMethod(types.NewPointer(named), true, pk.Types, "collectFragments")
		mf, _ := obj.(*types.Func)
		if mf == nil {
			c.Lost("%s.collectFragments", named.Obj().Name())
		}
		fn := p.SSA.FuncValue(mf)
		if fn == nil || fn.Blocks == nil {
			c.Lost("%s.collectFragments body", named.Obj().Name())
		}
		// operator nodes: those with both a LabelName and a Value field
		st, _ := named.Underlying().(*types.Struct)
		hasL, hasV := false, false
		if st != nil {
			for i := 0; i < st.NumFields(); i++ {
				hasL = hasL || st.Field(i).Name() == "LabelName"
				hasV = hasV || st.Field(i).Name() == "Value"
			}
		}
		if !hasL || !hasV {
			continue
		}
		n++
		name := named.Obj().Name()
		key := "C06.optable/" + name
		site := p.Pos(fn.Pos())
		// the operator text: the string constant argument(s) of the single helper call, other than separators
		var ops []string
		for _, cs := range callsIn(fn, false, func(*types.Func) bool { return true }) {
			if cs.Common().IsInvoke() || calleeFn(cs.Common()) == nil || calleeFn(cs.Common()).Pkg != fn.Pkg {
				continue
			}
			for _, a := range cs.Common().Args {
				if cv, ok := constOf(a); ok && types.Identical(a.Type().Underlying(), types.Typ[types.String]) {
					ops = append(ops, strings.TrimSpace(strings.Trim(cv.ExactString(), `"`)))
				}
			}
		}
		if len(ops) != 1 {
			c.Undecided(key, site, "cannot find the single operator text emitted by %s.collectFragments (found %v)", name, ops)
			continue
		}
		op := ops[0]
		kind := tok[op]
		if op == "==" || op == "!=" {
			// single-character dispatch in the tokenizer: CutPrefix("==") / CutPrefix("!=")
			kind = tok[op]
		}
		if kind == "" {
			c.Violate(key, site, "%s.collectFragments emits operator %q, which the tokenizer does not map to any token kind (known: %v): the canonical text does not parse back", name, op, sortedKeys(tok))
			continue
		}
		// exists a token-kind expression P in a parse function such that, when
		// P == kind, exactly this operator node type is constructed.
		okc := false
		var seenSets []string
		for pf := range fam {
			for _, P := range c06KindExprs(pf) {
				b := c06BuiltUnder(pf, P, kindVal[kind], opNode)
				if len(b) == 0 {
					continue
				}
				ks := sortedKeys(b)
				if len(ks) == 1 && ks[0] == name {
					okc = true
				}
				if len(ks) < len(opNode) {
					seenSets = append(seenSets, fmt.Sprintf("%s==%s→%v", P, kind, ks))
				}
			}
		}
		sort.Strings(seenSets)
		c.Check(okc, key, site,
			fmt.Sprintf("%q → tokenizer %s → parser builds exactly %s", op, kind, name),
			fmt.Sprintf("%s formats itself with operator %q, the tokenizer maps that to %s, but no token test in the parser builds exactly %s for that kind (%v): String() re-parses to a different node", name, op, kind, name, seenSets))
	}
	if n == 0 {
		c.Lost("no operator node types")
	}
}

// ------------------------------------------------------------------ nodes --

func c06Nodes(c *Ctx, p *Prog, fam map[*ssa.Function]*c06Fn) {
	_, _, impls := c06NodeTypes(c, p)
	built := map[string]bool{}
	for fn := range fam {
		allInstrs(fn, true, func(_ *ssa.Function, in ssa.Instruction) {
			if al, ok := in.(*ssa.Alloc); ok {
				built[namedTypeName(al.Type())] = true
			}
		})
	}
	visit := p.Func(c06ParserPkg, "PrefixVisitor.Visit")
	if visit == nil {
		c.Lost("PrefixVisitor.Visit")
	}
	rewritten := map[string]bool{}
	allInstrs(visit, false, func(_ *ssa.Function, in ssa.Instruction) {
		st, ok := in.(*ssa.Store)
		if !ok {
			return
		}
		fa, ok := st.Addr.(*ssa.FieldAddr)
		if !ok || fieldName(fa.X.Type(), fa.Field) != "LabelName" {
			return
		}
		if ex, ok := fa.X.(*ssa.Extract); ok {
			if ta, ok := ex.Tuple.(*ssa.TypeAssert); ok && ta.X == ssa.Value(visit.Params[1]) {
				rewritten[namedTypeName(ta.AssertedType)] = true
			}
		} else if ta, ok := fa.X.(*ssa.TypeAssert); ok && ta.X == ssa.Value(visit.Params[1]) {
			rewritten[namedTypeName(ta.AssertedType)] = true
		}
	})
	for _, named := range impls {
		name := named.Obj().Name()
		site := p.Pos(named.Obj().Pos())
		c.Check(built[name], "C06.nodes/built/"+name, site, "constructed by the parser",
			name+" implements Node but is never constructed by the parse functions: its canonical text cannot parse back to it")
		st, _ := named.Underlying().(*types.Struct)
		hasL := false
		if st != nil {
			for i := 0; i < st.NumFields(); i++ {
				hasL = hasL || st.Field(i).Name() == "LabelName"
			}
		}
		if hasL {
			c.Check(rewritten[name], "C06.nodes/visit/"+name, site, "LabelName rewritten by PrefixVisitor.Visit",
				name+" has a LabelName but PrefixVisitor.Visit has no case rewriting it: prefixed selectors silently keep the unprefixed label")
		}
	}
}

// --------------------------------------------------------------- verbatim --

type c06Cls struct {
	node     bool // derived from a string held in the AST
	bad, und []string
}

func (a *c06Cls) merge(b c06Cls) {
	a.node = a.node || b.node
	a.bad = append(a.bad, b.bad...)
	a.und = append(a.und, b.und...)
}

// c06Verbatim: the selector grammar has no escape sequences — the tokenizer
// takes the bytes between a pair of quotes (and the bytes of a label name) as
// they are.  So the canonical text parses back to the same selector only if the
// formatter writes every label name and value exactly as it is stored.  The rule
// follows every string stored into the fragment slices back to its leaves.
func c06Verbatim(c *Ctx, p *Prog) {
	nodeI, _, impls := c06NodeTypes(c, p)
	sp := p.SSAPkg(c06ParserPkg)
	pk := p.Pkg(c06ParserPkg)
	if sp == nil || pk == nil {
		c.Lost("package %s", c06ParserPkg)
	}
	isStr := func(t types.Type) bool {
		b, ok := t.Underlying().(*types.Basic)
		return ok && b.Info()&types.IsString != 0
	}
	isStrSlice := func(t types.Type) bool {
		sl, ok := t.Underlying().(*types.Slice)
		return ok && isStr(sl.Elem())
	}
	// the fragment collector of Node: the method of type func([]string) []string
	var collect *types.Func
	for i := 0; i < nodeI.NumMethods(); i++ {
		m := nodeI.Method(i)
		sig := m.Type().(*types.Signature)
		if sig.Params().Len() == 1 && sig.Results().Len() == 1 && isStrSlice(sig.Params().At(0).Type()) && isStrSlice(sig.Results().At(0).Type()) {
			if collect != nil {
				c.Lost("parser.Node has two methods of type func([]string) []string")
			}
			collect = m
		}
	}
	if collect == nil {
		c.Lost("parser.Node has no method of type func([]string) []string (the fragment collector)")
	}
	returnsFragments := func(f *ssa.Function) bool {
		res := f.Signature.Results()
		for i := 0; i < res.Len(); i++ {
			if isStrSlice(res.At(i).Type()) {
				return true
			}
		}
		return false
	}
	// family: the collector implementations and the package functions they call that return fragments
	fam := map[*ssa.Function]bool{}
	var order []*ssa.Function
	var add func(f *ssa.Function)
	add = func(f *ssa.Function) {
		if f == nil || f.Blocks == nil || fam[f] {
			return
		}
		fam[f] = true
		order = append(order, f)
		allInstrs(f, true, func(_ *ssa.Function, in ssa.Instruction) {
			if ci, ok := in.(ssa.CallInstruction); ok {
				if sf := calleeFn(ci.Common()); sf != nil && sf.Pkg == sp && returnsFragments(sf) {
					add(sf)
				}
			}
		})
	}
	for _, named := range impls {
		obj, _, _ := types.LookupFieldOrMethod(types.NewPointer(named), true, pk.Types, collect.Name())
		mf, _ := obj.(*types.Func)
		if mf == nil {
			c.Lost("%s.%s", named.Obj().Name(), collect.Name())
		}
		fn := p.SSA.FuncValue(mf)
		if fn == nil || fn.Blocks == nil {
			c.Lost("%s.%s body", named.Obj().Name(), collect.Name())
		}
		add(fn)
	}
	// static call sites inside the package
	var pkgFns []*ssa.Function
	sites := map[*ssa.Function][]*ssa.CallCommon{}
	for _, f := range p.AllFuncs() {
		top := topFn(f)
		if top.Pkg != sp {
			continue
		}
		pkgFns = append(pkgFns, f)
		allInstrs(f, false, func(_ *ssa.Function, in ssa.Instruction) {
			if ci, ok := in.(ssa.CallInstruction); ok {
				if sf := calleeFn(ci.Common()); sf != nil && sf.Pkg == sp {
					sites[sf] = append(sites[sf], ci.Common())
				}
			}
		})
	}
	calleeText := func(cc *ssa.CallCommon) string {
		if fo := calleeOf(cc); fo != nil {
			if fo.Pkg() != nil {
				return fo.Pkg().Name() + "." + fo.Name()
			}
			return fo.Name()
		}
		return "a function value"
	}
	var cls func(v ssa.Value, seen map[ssa.Value]bool) c06Cls
	viaCall := func(v ssa.Value, call *ssa.Call, seen map[ssa.Value]bool) c06Cls {
		cc := call.Common()
		fo := calleeOf(cc)
		if fo != nil && fo.Name() == "Value" && c06PkgIs(fo, "lib/std/uniquestr") && len(cc.Args) == 1 {
			return c06Cls{node: true} // the string of an interned handle, as stored
		}
		if sf := calleeFn(cc); sf != nil && sf.Pkg == sp && sf.Blocks != nil && !cc.IsInvoke() {
			idx := 0
			if ex, ok := v.(*ssa.Extract); ok {
				idx = ex.Index
			}
			var out c06Cls
			for _, r := range returnsOf(sf) {
				if idx < len(r.Results) {
					out.merge(cls(r.Results[idx], seen))
				}
			}
			return out
		}
		var args c06Cls
		for _, a := range cc.Args {
			if isStr(a.Type()) {
				args.merge(cls(a, seen))
			}
		}
		if cc.IsInvoke() && isStr(cc.Value.Type()) {
			args.merge(cls(cc.Value, seen))
		}
		out := c06Cls{node: args.node, bad: args.bad, und: args.und}
		if args.node {
			out.bad = append(out.bad, fmt.Sprintf("a string of the AST is passed through %s at %s before it is emitted", calleeText(cc), p.Pos(call.Pos())))
		} else {
			out.und = append(out.und, fmt.Sprintf("a fragment is produced by %s at %s", calleeText(cc), p.Pos(call.Pos())))
		}
		return out
	}
	nodeDerived := map[ssa.Value]bool{}
	var cls1 func(v ssa.Value, seen map[ssa.Value]bool) c06Cls
	cls = func(v ssa.Value, seen map[ssa.Value]bool) c06Cls {
		if seen[v] {
			// already reported in this traversal; only its provenance matters here
			return c06Cls{node: nodeDerived[v]}
		}
		seen[v] = true
		out := cls1(v, seen)
		if out.node {
			nodeDerived[v] = true
		}
		return out
	}
	cls1 = func(v ssa.Value, seen map[ssa.Value]bool) c06Cls {
		switch x := v.(type) {
		case *ssa.Const:
			return c06Cls{}
		case *ssa.Phi:
			var out c06Cls
			for _, e := range x.Edges {
				out.merge(cls(e, seen))
			}
			return out
		case *ssa.BinOp:
			if x.Op == token.ADD && isStr(x.Type()) {
				out := cls(x.X, seen)
				out.merge(cls(x.Y, seen))
				return out
			}
		case *ssa.Parameter:
			f := x.Parent()
			idx := -1
			for i, pa := range f.Params {
				if pa == x {
					idx = i
				}
			}
			ss := sites[f]
			if idx < 0 || len(ss) == 0 {
				return c06Cls{und: []string{fmt.Sprintf("parameter %s of %s has no static call site in the package", x.Name(), fnName(f))}}
			}
			var out c06Cls
			for _, cc := range ss {
				if idx < len(cc.Args) {
					out.merge(cls(cc.Args[idx], seen))
				}
			}
			return out
		case *ssa.UnOp:
			if x.Op == token.MUL {
				if al, ok := x.X.(*ssa.Alloc); ok {
					var out c06Cls
					if refs := al.Referrers(); refs != nil {
						for _, r := range *refs {
							switch y := r.(type) {
							case *ssa.Store:
								if y.Addr == ssa.Value(al) {
									out.merge(cls(y.Val, seen))
								}
							case *ssa.UnOp, *ssa.DebugRef:
							default:
								out.und = append(out.und, fmt.Sprintf("the address of local %s escapes at %s", al.Comment, p.Pos(r.Pos())))
							}
						}
					}
					return out
				}
				if _, ok := x.X.(*ssa.FreeVar); ok {
					return c06Cls{und: []string{"a captured variable is emitted at " + p.Pos(x.Pos())}}
				}
				return c06Cls{node: true} // a string read from memory (a field / element of the AST), as stored
			}
		case *ssa.Field:
			return c06Cls{node: true}
		case *ssa.Call:
			return viaCall(v, x, seen)
		case *ssa.Extract:
			if call, ok := x.Tuple.(*ssa.Call); ok {
				return viaCall(v, call, seen)
			}
		}
		// any other operation (substring, conversion, lookup …)
		var ops c06Cls
		if in, ok := v.(ssa.Instruction); ok {
			for _, o := range in.Operands(nil) {
				if *o != nil && isStr((*o).Type()) {
					ops.merge(cls(*o, seen))
				}
			}
		}
		if ops.node {
			ops.bad = append(ops.bad, fmt.Sprintf("a string of the AST is transformed by `%s` at %s before it is emitted", v.String(), p.Pos(v.Pos())))
		} else {
			ops.und = append(ops.und, fmt.Sprintf("a fragment is computed by `%s` at %s", v.String(), p.Pos(v.Pos())))
		}
		return ops
	}

	// sinks: every string stored into an element of a string array/slice inside the family
	// (the varargs of append, or a direct element store), and every spread append
	sort.Slice(order, func(i, j int) bool { return fnName(order[i]) < fnName(order[j]) })
	for _, f := range order {
		var res c06Cls
		nSinks := 0
		allInstrs(f, true, func(_ *ssa.Function, in ssa.Instruction) {
			if st, ok := in.(*ssa.Store); ok {
				if ia, ok := st.Addr.(*ssa.IndexAddr); ok && isStr(st.Val.Type()) {
					_ = ia
					nSinks++
					res.merge(cls(st.Val, map[ssa.Value]bool{}))
				}
				return
			}
			if cc, ok := isBuiltinCall(in, "append"); ok && len(cc.Args) == 2 && isStrSlice(cc.Args[0].Type()) {
				// the appended elements must be a literal varargs array (checked above through its stores) or fragments
				for _, a := range cc.Args {
					for _, o := range origins(a, func(x ssa.Value) []ssa.Value {
						if sl, ok := x.(*ssa.Slice); ok {
							return []ssa.Value{sl.X}
						}
						if ci, ok := x.(*ssa.Call); ok {
							if ac, isApp := isBuiltinCall(ci, "append"); isApp {
								return ac.Args
							}
						}
						return nil
					}) {
						switch y := o.V.(type) {
						case *ssa.Alloc, *ssa.Parameter, *ssa.Const:
						case *ssa.Call:
							yc := y.Common()
							ok := yc.IsInvoke() && yc.Method.Name() == collect.Name()
							if sf := calleeFn(yc); sf != nil && fam[sf] {
								ok = true
							}
							if !ok {
								res.und = append(res.und, fmt.Sprintf("fragments produced by %s at %s are appended", calleeText(yc), p.Pos(y.Pos())))
							}
						default:
							res.und = append(res.und, fmt.Sprintf("fragments of unknown origin (%s) are appended at %s", o.Kind, p.Pos(in.Pos())))
						}
					}
				}
			}
		})
		if nSinks == 0 {
			continue // only forwards to a helper; its arguments are followed from the helper's parameters
		}
		key := "C06.verbatim/" + fnName(f)
		site := p.Pos(f.Pos())
		switch {
		case len(res.bad) > 0:
			sort.Strings(res.bad)
			c.Violate(key, site, "%s: %s — the selector grammar has no escape sequences and the tokenizer takes label names and quoted values byte for byte, so the canonical text no longer parses back to the same selector (different matches, text and id) for inputs the operation changes",
				fnName(f), strings.Join(c25Uniq(res.bad), "; "))
		case len(res.und) > 0:
			c.Undecided(key, site, "%s", strings.Join(c25Uniq(res.und), "; "))
		default:
			c.Ok(key, site, "%d emitted string(s): constants and strings of the AST as stored (possibly concatenated)", nSinks)
		}
	}

	// the canonical text is the plain concatenation of the collected fragments
	strFn := p.Func(c06ParserPkg, "Selector.String")
	if strFn == nil {
		c.Lost("Selector.String")
	}
	var textField *types.Var
	for _, r := range returnsOf(strFn) {
		if len(r.Results) == 1 {
			for _, o := range origins(r.Results[0], nil) {
				if fv := fieldVar(o.V); fv != nil {
					if textField != nil && textField != fv {
						c.Lost("Selector.String returns more than one field")
					}
					textField = fv
				}
			}
		}
	}
	if textField == nil {
		c.Lost("the field returned by Selector.String()")
	}
	isCollected := func(v ssa.Value) bool {
		os := origins(v, nil)
		if len(os) == 0 {
			return false
		}
		for _, o := range os {
			call, ok := o.V.(*ssa.Call)
			if !ok {
				return false
			}
			cc := call.Common()
			if cc.IsInvoke() && cc.Method.Name() == collect.Name() {
				continue
			}
			if sf := calleeFn(cc); sf != nil && fam[sf] {
				continue
			}
			return false
		}
		return true
	}
	nStores := 0
	for _, f := range pkgFns {
		allInstrs(f, false, func(_ *ssa.Function, in ssa.Instruction) {
			st, ok := in.(*ssa.Store)
			if !ok || fieldVar(st.Addr) != textField {
				return
			}
			if _, isFA := st.Addr.(*ssa.FieldAddr); !isFA {
				return
			}
			nStores++
			key := "C06.verbatim/join/" + fnName(topFn(f))
			bad := ""
			for _, o := range origins(st.Val, nil) {
				call, ok := o.V.(*ssa.Call)
				fo := (*types.Func)(nil)
				if ok {
					fo = calleeOf(call.Common())
				}
				switch {
				case fo == nil || fo.Pkg() == nil || fo.Pkg().Path() != "strings" || fo.Name() != "Join" || len(call.Common().Args) != 2:
					bad = fmt.Sprintf("%s is assigned %s, which is not strings.Join of the collected fragments", textField.Name(), path(o.V))
				case !isCollected(call.Common().Args[0]):
					bad = fmt.Sprintf("the slice joined into %s is not (only) the result of %s", textField.Name(), collect.Name())
				default:
					if cv, isC := constOf(call.Common().Args[1]); !isC || cv.ExactString() != `""` {
						bad = fmt.Sprintf("the fragments are joined into %s with a separator other than the empty string", textField.Name())
					}
				}
			}
			c.Check(bad == "", key, p.Pos(st.Pos()),
				textField.Name()+" = strings.Join(<collected fragments>, \"\")",
				fnName(topFn(f))+": "+bad+": the canonical text is no longer the formatter's fragments byte for byte, so quoted values change when it is parsed back")
		})
	}
	if nStores == 0 {
		c.Lost("no assignment of Selector.%s", textField.Name())
	}
}
