package main

import (
	"go/types"

	"golang.org/x/tools/go/ssa"
)

// c26IP — a small in-package interprocedural layer over go/ssa, used to keep
// rules insensitive to extract-method / split-function / closure<->method
// refactors: facts that hold at every call site of a helper are lifted into the
// helper (guards, parameter identities), facts established inside a helper are
// lifted to its call sites (must-execute summaries, returned values).
//
// A function is a *helper* when every use of it inside the package is a direct,
// synchronous call (ssa.Call with a static callee) and it cannot be called from
// outside the package; only then the set of call sites is complete.
type c26IP struct {
	fns     []*ssa.Function
	inPkg   map[*ssa.Function]bool
	sites   map[*ssa.Function][]ssa.CallInstruction // static call sites (call, go, defer)
	escapes map[*ssa.Function]bool                  // used as a value / reachable from outside
	callees map[*ssa.Function][]*ssa.Function       // static in-package callees (closures created by f included)
}

func c26NewIP(fns []*ssa.Function) *c26IP {
	ip := &c26IP{fns: fns, inPkg: map[*ssa.Function]bool{}, sites: map[*ssa.Function][]ssa.CallInstruction{},
		escapes: map[*ssa.Function]bool{}, callees: map[*ssa.Function][]*ssa.Function{}}
	for _, f := range fns {
		ip.inPkg[f] = true
	}
	ifaceMethods := map[string]bool{} // names of methods callable through some interface a package type is converted to
	for _, f := range fns {
		// reachable from other packages?
		if f.Parent() == nil {
			if o, ok := f.Object().(*types.Func); ok && o.Exported() {
				sig, _ := o.Type().(*types.Signature)
				if sig == nil || sig.Recv() == nil {
					ip.escapes[f] = true
				} else if n := c26RecvNamed(sig.Recv().Type()); n == nil || n.Obj().Exported() {
					ip.escapes[f] = true
				}
			}
		}
		seenCallee := map[*ssa.Function]bool{}
		for _, b := range f.Blocks {
			for _, in := range b.Instrs {
				var callVal ssa.Value
				if ci, ok := in.(ssa.CallInstruction); ok {
					cc := ci.Common()
					if !cc.IsInvoke() {
						callVal = cc.Value
						if g := cc.StaticCallee(); g != nil && ip.inPkg[g] {
							ip.sites[g] = append(ip.sites[g], ci)
							if !seenCallee[g] {
								seenCallee[g] = true
								ip.callees[f] = append(ip.callees[f], g)
							}
						}
					}
				}
				if mi, ok := in.(*ssa.MakeInterface); ok {
					if it, ok := mi.Type().Underlying().(*types.Interface); ok {
						for i := 0; i < it.NumMethods(); i++ {
							ifaceMethods[it.Method(i).Name()] = true
						}
					}
				}
				_, isMC := in.(*ssa.MakeClosure)
				for _, op := range in.Operands(nil) {
					if op == nil || *op == nil {
						continue
					}
					if isMC && *op == in.(*ssa.MakeClosure).Fn {
						continue // the closure's own function: judged by the uses of the closure value below
					}
					switch x := (*op).(type) {
					case *ssa.Function:
						if ssa.Value(x) != callVal {
							ip.escapes[x] = true
						}
					case *ssa.MakeClosure:
						if g, ok := x.Fn.(*ssa.Function); ok && ssa.Value(x) != callVal {
							ip.escapes[g] = true
						}
					}
				}
				if mc, ok := in.(*ssa.MakeClosure); ok {
					if g, ok := mc.Fn.(*ssa.Function); ok {
						if !seenCallee[g] {
							seenCallee[g] = true
							ip.callees[f] = append(ip.callees[f], g)
						}
						// a closure value that is stored / passed / captured escapes
						if refs := mc.Referrers(); refs != nil {
							for _, r := range *refs {
								ci, isCall := r.(ssa.CallInstruction)
								if !isCall || ci.Common().Value != ssa.Value(mc) {
									ip.escapes[g] = true
									continue
								}
								for _, a := range ci.Common().Args {
									if a == ssa.Value(mc) {
										ip.escapes[g] = true
									}
								}
							}
						}
					}
				}
			}
		}
	}
	// methods that may be invoked through an interface
	for _, f := range fns {
		if f.Parent() == nil && f.Signature.Recv() != nil && ifaceMethods[f.Name()] {
			ip.escapes[f] = true
		}
	}
	return ip
}

func c26RecvNamed(t types.Type) *types.Named {
	if p, ok := t.(*types.Pointer); ok {
		t = p.Elem()
	}
	n, _ := types.Unalias(t).(*types.Named)
	return n
}

// helperSites returns the complete set of call sites of g when g is a helper
// (see above) and every site is a plain synchronous call; ok=false otherwise.
func (ip *c26IP) helperSites(g *ssa.Function) (out []*ssa.Call, ok bool) {
	if g == nil || !ip.inPkg[g] || ip.escapes[g] || len(ip.sites[g]) == 0 {
		return nil, false
	}
	for _, s := range ip.sites[g] {
		c, isCall := s.(*ssa.Call)
		if !isCall {
			return nil, false
		}
		out = append(out, c)
	}
	return out, true
}

// guarded: every execution reaching `site` crossed an If edge accepted by pred —
// inside site's function, or else (the function being a helper) on the way to
// every one of its call sites, recursively.  pred is evaluated in the function the
// edge belongs to; value matchers used by pred must therefore be position
// independent (see paramArgs for mapping a helper's parameters to arguments).
func (ip *c26IP) guarded(site ssa.Instruction, pred EdgePred) bool {
	return ip.guardedRec(site, pred, map[*ssa.Function]bool{}, 0)
}

func (ip *c26IP) guardedRec(site ssa.Instruction, pred EdgePred, busy map[*ssa.Function]bool, depth int) bool {
	if guardedCut(site, pred) {
		return true
	}
	g := site.Parent()
	if busy[g] || depth > 5 {
		return false
	}
	sites, ok := ip.helperSites(g)
	if !ok {
		return false
	}
	busy[g] = true
	defer delete(busy, g)
	for _, s := range sites {
		if !ip.guardedRec(s, pred, busy, depth+1) {
			return false
		}
	}
	return true
}

// paramArgs: for a parameter of a helper, the argument bound to it at every call
// site (receiver counts as parameter 0, as in ssa); ok=false when the function is
// not a helper.
func (ip *c26IP) paramArgs(pa *ssa.Parameter) ([]ssa.Value, bool) {
	g := pa.Parent()
	idx := -1
	for i, q := range g.Params {
		if q == pa {
			idx = i
		}
	}
	sites, ok := ip.helperSites(g)
	if !ok || idx < 0 {
		return nil, false
	}
	var out []ssa.Value
	for _, s := range sites {
		if idx >= len(s.Call.Args) {
			return nil, false
		}
		out = append(out, s.Call.Args[idx])
	}
	return out, true
}

// reach: f and every in-package function statically reachable from it (closures
// created on the way included), not descending into functions rejected by skip.
func (ip *c26IP) reach(f *ssa.Function, skip func(*ssa.Function) bool) map[*ssa.Function]bool {
	out := map[*ssa.Function]bool{}
	var walk func(g *ssa.Function)
	walk = func(g *ssa.Function) {
		if g == nil || out[g] || !ip.inPkg[g] || (skip != nil && skip(g)) {
			return
		}
		out[g] = true
		for _, h := range ip.callees[g] {
			walk(h)
		}
	}
	walk(f)
	return out
}

// mustExec: every path from g's entry to a return executes an instruction
// accepted by is (panicking paths do not count).
func c26MustExec(g *ssa.Function, is func(ssa.Instruction) bool) bool {
	isRet := func(in ssa.Instruction) bool { _, ok := in.(*ssa.Return); return ok }
	return c25Reach(g, nil, isRet, is, nil) == nil
}

// lifted: the instruction a itself plus every call instruction that is certain to
// execute a before it returns (call sites of helpers in which a is on every path
// to the return, transitively).
func (ip *c26IP) lifted(a ssa.Instruction) map[ssa.Instruction]bool {
	out := map[ssa.Instruction]bool{a: true}
	work := []ssa.Instruction{a}
	for len(work) > 0 {
		x := work[len(work)-1]
		work = work[:len(work)-1]
		g := x.Parent()
		if !c26MustExec(g, func(in ssa.Instruction) bool { return out[in] }) {
			continue
		}
		for _, s := range ip.sites[g] {
			if c, ok := s.(*ssa.Call); ok && !out[c] {
				out[c] = true
				work = append(work, c)
			}
		}
	}
	return out
}

// before: on every execution reaching b, a (or a call that is certain to execute
// a) has been executed earlier: some lifted form of a dominates b in b's
// function, or b's function is a helper and that holds at all of its call sites.
func (ip *c26IP) before(a, b ssa.Instruction) bool {
	return ip.beforeRec(ip.lifted(a), b, map[*ssa.Function]bool{}, 0)
}

func (ip *c26IP) beforeRec(la map[ssa.Instruction]bool, b ssa.Instruction, busy map[*ssa.Function]bool, depth int) bool {
	for x := range la {
		if x != b && x.Parent() == b.Parent() && instrDominates(x, b) {
			return true
		}
	}
	g := b.Parent()
	if busy[g] || depth > 5 {
		return false
	}
	sites, ok := ip.helperSites(g)
	if !ok {
		return false
	}
	busy[g] = true
	defer delete(busy, g)
	for _, s := range sites {
		if la[s] || !ip.beforeRec(la, s, busy, depth+1) {
			return false
		}
	}
	return true
}

// ------------------------------------------------- C26 model: list identity --

func (m *c26Model) isListCall(in ssa.Instruction) bool {
	ci, ok := in.(*ssa.Call)
	return ok && ci.Call.IsInvoke() && ci.Call.Method.Name() == "List" && qualTypeName(ci.Call.Value.Type()) == c25APIPkg+".Client"
}

func (m *c26Model) allListCalls() []*ssa.Call {
	var out []*ssa.Call
	for _, f := range m.fns {
		out = append(out, m.listCalls(f)...)
	}
	return out
}

// isListErr: v is the error of an api.Client.List call — the call's second
// result, possibly handed through in-package helpers: returned by a callee whose
// every return yields the List error (or nil), or received as a parameter of a
// helper all of whose call sites pass the List error.
func (m *c26Model) isListErr(v ssa.Value) bool {
	if v == nil || !types.Identical(v.Type(), types.Universe.Lookup("error").Type()) {
		return false
	}
	switch m.listErrMemo[v] {
	case 1:
		return true
	case 2, 3:
		return false
	}
	m.listErrMemo[v] = 3
	res := false
	for _, o := range origins(v, nil) {
		if m.leafIsListErr(v, o) {
			res = true
		}
	}
	m.listErrMemo[v] = 2
	if res {
		m.listErrMemo[v] = 1
	}
	return res
}

func (m *c26Model) leafIsListErr(v ssa.Value, o Origin) bool {
	switch x := o.V.(type) {
	case *ssa.Call:
		idx := 0
		if ex, ok := v.(*ssa.Extract); ok && ex.Tuple == ssa.Value(x) {
			idx = ex.Index
		} else if tup, ok := x.Type().(*types.Tuple); ok {
			// reached through phi/alloc: find the error component
			idx = -1
			for i := 0; i < tup.Len(); i++ {
				if types.Identical(tup.At(i).Type(), v.Type()) {
					idx = i
				}
			}
		}
		if m.isListCall(x) {
			return idx == 1
		}
		g := calleeFn(x.Common())
		if g == nil || !m.ip.inPkg[g] || idx < 0 {
			return false
		}
		rets := returnsOf(g)
		n := 0
		for _, r := range rets {
			if idx >= len(r.Results) {
				return false
			}
			switch rv := r.Results[idx]; {
			case isNilConst(rv):
			case m.isListErr(rv):
				n++
			default:
				return false
			}
		}
		return n > 0
	case *ssa.Parameter:
		args, ok := m.ip.paramArgs(x)
		if !ok {
			return false
		}
		for _, a := range args {
			if !m.isListErr(a) {
				return false
			}
		}
		return true
	}
	return false
}

// listOK accepts the edges on which the last List is known to have completed:
// its error is nil, or the error says the API is not installed (IsNotFound).
func (m *c26Model) listOK(notFoundToo bool) EdgePred {
	nilErr := c25NilCond(true, m.isListErr)
	if !notFoundToo {
		return nilErr
	}
	return anyOf(nilErr, callCond(true, func(cs CallSite) bool {
		return cs.Callee != nil && cs.Callee.Name() == "IsNotFound" && len(cs.Args()) == 1 && m.isListErr(cs.Args()[0])
	}))
}

// reachesInstr: g, or an in-package function it statically reaches, contains an
// instruction accepted by is.
func (m *c26Model) reachesInstr(g *ssa.Function, is func(ssa.Instruction) bool) bool {
	for h := range m.ip.reach(g, nil) {
		found := false
		allInstrs(h, false, func(_ *ssa.Function, in ssa.Instruction) {
			if is(in) {
				found = true
			}
		})
		if found {
			return true
		}
	}
	return false
}

// resolveResyncFn: the resync function is located by what it does — the lowest
// function of the package's call graph from which both a List call and a call of
// the finisher are reached (either directly or through in-package callees).
func (m *c26Model) resolveResyncFn() {
	isFin := func(in ssa.Instruction) bool {
		ci, ok := in.(ssa.CallInstruction)
		return ok && calleeFn(ci.Common()) == m.finishFn
	}
	both := map[*ssa.Function]bool{}
	for _, f := range m.fns {
		if f.Parent() == nil && f != m.finishFn && m.reachesInstr(f, m.isListCall) && m.reachesInstr(f, isFin) {
			both[f] = true
		}
	}
	var lowest []*ssa.Function
	for f := range both {
		low := true
		for g := range m.ip.reach(f, nil) {
			if g != f && both[topFn(g)] && topFn(g) != f {
				low = false
			}
		}
		if low {
			lowest = append(lowest, f)
		}
	}
	if len(lowest) != 1 {
		var ns []string
		for _, f := range lowest {
			ns = append(ns, fnName(f))
		}
		m.c.Lost("resync function (lowest function reaching both api.Client.List and %s): expected exactly one, found %v", fnName(m.finishFn), ns)
	}
	m.resyncFn = lowest[0]
}

// resyncScope: the resync function and the in-package functions it reaches,
// without the result sender.
func (m *c26Model) resyncScope() map[*ssa.Function]bool {
	return m.ip.reach(m.resyncFn, func(g *ssa.Function) bool { return g == m.sendFn })
}
