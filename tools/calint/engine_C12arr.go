package main

import (
	"fmt"
	"go/constant"
	"go/token"
	"go/types"
	"sort"

	"golang.org/x/tools/go/ssa"
)

// C12.bitmap — geometry of the application-layer checker's IP-set bitmap.
//
// The checker's IP sets (app-policy/policystore) keep the last address byte of the
// members in a fixed-size array of words; the kernel dataplanes keep the same members in
// kernel IP sets.  The two agree on membership only if every method of such a
// fixed-size-array type addresses ALL words and nothing else:  (scan) a loop that indexes
// the receiver array by its induction variable visits exactly the indices 0..len-1
// (decided by executing the loop's counter: initial value, step, exit test — any of
// range-over-array, range-over-int, three-clause loops, counting up or down);  (word) an
// index computed as x / D (or x >> k) from an unsigned value x of s bits addresses
// exactly the words 0..len-1, i.e. (2^s-1)/D == len-1.
const c12StorePkg = "app-policy/policystore"

func c12Bitmap(c *Ctx) {
	c.Rule("C12.bitmap", "E-TABLE", "every method of a fixed-size array type of the checker's IP-set store addresses exactly the array: induction loops over the receiver visit indices 0..len-1, computed word indices x/D range over exactly 0..len-1", 3)
	p := c.Load(c12StorePkg)
	pkg := p.SSAPkg(c12StorePkg)
	if pkg == nil {
		c.Lost("SSA package %s", c12StorePkg)
	}
	type res struct {
		fn        *ssa.Function
		bad, und  []string
		n         int
		firstSite token.Pos
	}
	out := map[string]*res{}
	get := func(fn *ssa.Function, kind string, pos token.Pos) *res {
		k := "C12.bitmap/" + fnName(fn) + "/" + kind
		if out[k] == nil {
			out[k] = &res{fn: fn, firstSite: pos}
		}
		return out[k]
	}
	for _, fn := range p.AllFuncs() {
		if fn.Pkg != pkg || fn.Parent() != nil || fn.Signature.Recv() == nil || len(fn.Blocks) == 0 || len(fn.Params) == 0 {
			continue
		}
		recv := fn.Params[0]
		rt := types.Unalias(recv.Type())
		if pt, ok := rt.Underlying().(*types.Pointer); ok {
			rt = types.Unalias(pt.Elem())
		}
		if _, named := rt.(*types.Named); !named {
			continue
		}
		arr, ok := rt.Underlying().(*types.Array)
		if !ok {
			continue
		}
		N := arr.Len()
		for _, b := range fn.Blocks {
			for _, in := range b.Instrs {
				var x, idx ssa.Value
				switch ia := in.(type) {
				case *ssa.IndexAddr:
					x, idx = ia.X, ia.Index
				case *ssa.Index:
					x, idx = ia.X, ia.Index
				default:
					continue
				}
				if x != ssa.Value(recv) {
					if ld, ok := x.(*ssa.UnOp); !ok || ld.Op != token.MUL || ld.X != ssa.Value(recv) {
						continue
					}
				}
				for {
					if cv, ok := idx.(*ssa.Convert); ok {
						idx = cv.X
						continue
					}
					break
				}
				if _, isC := idx.(*ssa.Const); isC {
					continue
				}
				if visited, why, ok := c12Induction(idx, in); ok {
					r := get(fn, "scan", in.Pos())
					r.n++
					if why != "" {
						r.und = append(r.und, why)
						continue
					}
					var miss, extra []int64
					for i := int64(0); i < N; i++ {
						if !visited[i] {
							miss = append(miss, i)
						}
					}
					for i := range visited {
						if i < 0 || i >= N {
							extra = append(extra, i)
						}
					}
					sort.Slice(extra, func(i, j int) bool { return extra[i] < extra[j] })
					if len(miss) > 0 || len(extra) > 0 {
						r.bad = append(r.bad, fmt.Sprintf("the loop over the receiver (%s, %d elements) at %s never looks at index(es) %v and indexes %v outside the array: members recorded in the skipped word(s) are invisible to the decision this method takes (e.g. a node still holding addresses is reported empty and pruned)", rt.String(), N, p.Pos(in.Pos()), miss, extra))
					}
					continue
				}
				if bo, ok := idx.(*ssa.BinOp); ok && (bo.Op == token.QUO || bo.Op == token.SHR) {
					r := get(fn, "word", in.Pos())
					r.n++
					kc, isC := bo.Y.(*ssa.Const)
					bt, isB := bo.X.Type().Underlying().(*types.Basic)
					if !isC || kc.Value == nil || !isB || bt.Info()&types.IsUnsigned == 0 {
						r.und = append(r.und, fmt.Sprintf("word index at %s: divisor is not a constant or the dividend is not unsigned", p.Pos(in.Pos())))
						continue
					}
					bits := map[types.BasicKind]uint{types.Uint8: 8, types.Uint16: 16, types.Uint32: 32}[bt.Kind()]
					k, _ := constant.Int64Val(constant.ToInt(kc.Value))
					if bits == 0 || k <= 0 {
						r.und = append(r.und, fmt.Sprintf("word index at %s: dividend type %s has no small fixed range", p.Pos(in.Pos()), bt.Name()))
						continue
					}
					max := int64(1)<<bits - 1
					if bo.Op == token.QUO {
						max /= k
					} else {
						max >>= uint(k)
					}
					if max != N-1 {
						r.bad = append(r.bad, fmt.Sprintf("the word index %s at %s ranges over 0..%d for a %s dividend but the receiver %s has words 0..%d: set/clear/lookup address a different word than the sibling methods (or run off the array)", path(bo), p.Pos(in.Pos()), max, bt.Name(), rt.String(), N-1))
					}
					continue
				}
				r := get(fn, "index", in.Pos())
				r.n++
				r.und = append(r.und, fmt.Sprintf("index %s at %s is neither a loop counter nor x/const", path(idx), p.Pos(in.Pos())))
			}
		}
	}
	if len(out) == 0 {
		c.Lost("no method of a fixed-size array type indexing its receiver in %s (networkBitmap.isEmpty/setAt/contains confirmed by reading)", c12StorePkg)
	}
	for _, k := range sortedKeys(out) {
		r := out[k]
		site := p.Pos(r.firstSite)
		switch {
		case len(r.bad) > 0:
			c.Violate(k, site, "%s: %s", fnName(r.fn), r.bad[0])
		case len(r.und) > 0:
			c.Undecided(k, site, "%s: %s", fnName(r.fn), r.und[0])
		default:
			c.Ok(k, site, "%d access(es) to the receiver array address exactly its index range", r.n)
		}
	}
}

// c12Induction: idx is (an increment of) a loop counter: a phi whose edges are constants
// or the phi itself ± a constant.  The function's control flow is executed on the counter
// alone: conditions over the counter and constants are decided, every other condition
// (data-dependent early exits) is followed both ways.  Returns the set of index values the
// access sees on any such execution.
func c12Induction(idx ssa.Value, at ssa.Instruction) (visited map[int64]bool, why string, ok bool) {
	var ph *ssa.Phi
	var eval func(v ssa.Value, cur int64, def bool) (int64, bool)
	eval = func(v ssa.Value, cur int64, def bool) (int64, bool) {
		switch x := v.(type) {
		case *ssa.Const:
			if x.Value == nil {
				return 0, false
			}
			return constant.Int64Val(constant.ToInt(x.Value))
		case *ssa.Phi:
			if x == ph && def {
				return cur, true
			}
		case *ssa.Convert:
			return eval(x.X, cur, def)
		case *ssa.BinOp:
			if x.Op != token.ADD && x.Op != token.SUB {
				return 0, false
			}
			a, okA := eval(x.X, cur, def)
			b, okB := eval(x.Y, cur, def)
			if !okA || !okB {
				return 0, false
			}
			if x.Op == token.SUB {
				return a - b, true
			}
			return a + b, true
		}
		return 0, false
	}
	// the counter idx is built from
	var find func(v ssa.Value, depth int) *ssa.Phi
	find = func(v ssa.Value, depth int) *ssa.Phi {
		if depth > 4 {
			return nil
		}
		switch x := v.(type) {
		case *ssa.Phi:
			return x
		case *ssa.Convert:
			return find(x.X, depth+1)
		case *ssa.BinOp:
			if x.Op == token.ADD || x.Op == token.SUB {
				if _, isC := x.Y.(*ssa.Const); isC {
					return find(x.X, depth+1)
				}
			}
		}
		return nil
	}
	ph = find(idx, 0)
	if ph == nil {
		return nil, "", false
	}
	for _, e := range ph.Edges {
		if _, okE := eval(e, 0, true); !okE {
			return nil, "", false // not a counter: some edge is not const / counter ± const
		}
	}
	ok = true
	type state struct {
		b   *ssa.BasicBlock
		cur int64
		def bool
	}
	fn := ph.Parent()
	seen := map[state]bool{}
	visited = map[int64]bool{}
	work := []state{{fn.Blocks[0], 0, false}}
	enter := func(from *ssa.BasicBlock, to *ssa.BasicBlock, st state) {
		ns := state{to, st.cur, st.def}
		if to == ph.Block() {
			for i, pr := range to.Preds {
				if pr == from {
					v, okV := eval(ph.Edges[i], st.cur, st.def)
					if !okV {
						return
					}
					ns.cur, ns.def = v, true
				}
			}
		}
		if !seen[ns] {
			seen[ns] = true
			work = append(work, ns)
		}
	}
	for len(work) > 0 {
		if len(seen) > 1<<16 {
			return nil, "the loop counter does not terminate within 65536 states", true
		}
		st := work[len(work)-1]
		work = work[:len(work)-1]
		if st.b == at.Block() {
			if v, okV := eval(idx, st.cur, st.def); okV {
				visited[v] = true
			}
		}
		if len(st.b.Instrs) == 0 {
			continue
		}
		switch t := st.b.Instrs[len(st.b.Instrs)-1].(type) {
		case *ssa.If:
			decided, val := false, false
			if bo, isB := t.Cond.(*ssa.BinOp); isB {
				a, okA := eval(bo.X, st.cur, st.def)
				b, okB := eval(bo.Y, st.cur, st.def)
				if okA && okB {
					decided = true
					switch bo.Op {
					case token.LSS:
						val = a < b
					case token.LEQ:
						val = a <= b
					case token.GTR:
						val = a > b
					case token.GEQ:
						val = a >= b
					case token.EQL:
						val = a == b
					case token.NEQ:
						val = a != b
					default:
						decided = false
					}
				}
			}
			if !decided || val {
				enter(st.b, st.b.Succs[0], st)
			}
			if !decided || !val {
				enter(st.b, st.b.Succs[1], st)
			}
		case *ssa.Jump:
			enter(st.b, st.b.Succs[0], st)
		}
	}
	return visited, "", true
}
