package main

import (
	"fmt"
	"go/ast"
	"go/token"
	"go/types"
	"os"
	"path/filepath"
	"sort"
	"strings"

	"golang.org/x/tools/go/packages"
	"golang.org/x/tools/go/ssa"
	"golang.org/x/tools/go/ssa/ssautil"
)

// Module roots that the baseline builds separately.
const (
	modMain = ""                   // /repo
	modDS   = "lib/datastructures" // /repo/lib/datastructures
	modAPI  = "api"                // /repo/api
)

const calicoPrefix = "github.com/projectcalico/calico/"

// Prog is one loaded, type-checked program (a set of root packages with syntax
// and SSA bodies; dependencies come from export data).
type Prog struct {
	Fset    *token.FileSet
	Roots   []*packages.Package
	byPath  map[string]*packages.Package
	SSA     *ssa.Program
	ssaPkgs map[string]*ssa.Package
	// astFuncs maps a types.Func (or closure position) to its declaration.
	nFuncs int
}

func goEnv() []string {
	env := []string{}
	for _, kv := range os.Environ() {
		if strings.HasPrefix(kv, "GOWORK=") || strings.HasPrefix(kv, "GOFLAGS=") ||
			strings.HasPrefix(kv, "GOTOOLCHAIN=") || strings.HasPrefix(kv, "GOPROXY=") ||
			strings.HasPrefix(kv, "GOSUMDB=") || strings.HasPrefix(kv, "CGO_ENABLED=") ||
			strings.HasPrefix(kv, "PATH=") || strings.HasPrefix(kv, "GOOS=") || strings.HasPrefix(kv, "GOARCH=") {
			continue
		}
		env = append(env, kv)
	}
	env = append(env,
		"PATH=/opt/veriftools/go1.26.8/bin:"+os.Getenv("PATH"),
		"GOTOOLCHAIN=local", "GOFLAGS=-mod=mod", "GOPROXY=off", "GOSUMDB=off",
		"CGO_ENABLED=0", "GOWORK=off")
	return env
}

// LoadOpts controls one load.
type LoadOpts struct {
	Repo    string            // repository root (default /repo)
	Module  string            // modMain, modDS or modAPI
	Overlay map[string][]byte // absolute file -> replacement content
	GOOS    string
	GOARCH  string
	NoSSA   bool
}

// Load type-checks the given root packages (paths relative to the calico module,
// e.g. "felix/calc") and builds SSA for them.  Any type error is fatal.
func Load(o LoadOpts, rel ...string) (*Prog, error) {
	if o.Repo == "" {
		o.Repo = "/repo"
	}
	dir := filepath.Join(o.Repo, o.Module)
	var pats []string
	for _, r := range rel {
		if first, _, _ := strings.Cut(r, "/"); strings.Contains(first, ".") && first != "." && first != ".." {
			pats = append(pats, r) // fully-qualified import path
		} else {
			pats = append(pats, "./"+strings.TrimPrefix(strings.TrimPrefix(r, "./"), o.Module+"/"))
		}
	}
	env := goEnv()
	if o.GOOS != "" {
		env = append(env, "GOOS="+o.GOOS)
	}
	if o.GOARCH != "" {
		env = append(env, "GOARCH="+o.GOARCH)
	}
	cfg := &packages.Config{
		Mode: packages.NeedName | packages.NeedFiles | packages.NeedCompiledGoFiles |
			packages.NeedImports | packages.NeedTypes | packages.NeedTypesSizes |
			packages.NeedSyntax | packages.NeedTypesInfo | packages.NeedDeps | packages.NeedModule,
		Dir:     dir,
		Env:     env,
		Tests:   false,
		Overlay: o.Overlay,
		Fset:    token.NewFileSet(),
	}
	// Type-check only the roots from source; dependencies from export data.
	// (NeedDeps is kept so that packages.Visit can see import edges, but
	// x/tools only parses packages for which syntax is requested: with
	// NeedDeps+NeedSyntax everything is parsed.  We therefore do two-step
	// loading: roots by pattern with full syntax.)
	cfg.Mode &^= packages.NeedDeps
	pkgs, err := packages.Load(cfg, pats...)
	if err != nil {
		return nil, fmt.Errorf("load %v: %w", pats, err)
	}
	if len(pkgs) == 0 {
		return nil, fmt.Errorf("load %v: zero packages", pats)
	}
	p := &Prog{Fset: cfg.Fset, byPath: map[string]*packages.Package{}, ssaPkgs: map[string]*ssa.Package{}}
	var errs []string
	// packages matched by a "..." pattern that hold only test files have nothing to analyse
	kept := pkgs[:0]
	for _, pk := range pkgs {
		if len(pk.GoFiles) == 0 && len(pk.CompiledGoFiles) == 0 && len(pk.Errors) == 0 {
			continue
		}
		kept = append(kept, pk)
	}
	pkgs = kept
	for _, pk := range pkgs {
		for _, e := range pk.Errors {
			errs = append(errs, pk.PkgPath+": "+e.Error())
		}
		if pk.Types == nil || pk.TypesInfo == nil || len(pk.Syntax) == 0 {
			errs = append(errs, pk.PkgPath+": no types/syntax")
		}
		p.byPath[pk.PkgPath] = pk
	}
	if len(errs) > 0 {
		sort.Strings(errs)
		if len(errs) > 10 {
			errs = errs[:10]
		}
		return nil, fmt.Errorf("load errors:\n  %s", strings.Join(errs, "\n  "))
	}
	sort.Slice(pkgs, func(i, j int) bool { return pkgs[i].PkgPath < pkgs[j].PkgPath })
	p.Roots = pkgs
	if !o.NoSSA {
		prog, spkgs := ssautil.Packages(pkgs, ssa.InstantiateGenerics|ssa.BareInits)
		for i, sp := range spkgs {
			if sp == nil {
				return nil, fmt.Errorf("no SSA for %s", pkgs[i].PkgPath)
			}
			sp.Build()
			p.ssaPkgs[pkgs[i].PkgPath] = sp
		}
		p.SSA = prog
	}
	for _, pk := range pkgs {
		for _, f := range pk.Syntax {
			for _, d := range f.Decls {
				if fd, ok := d.(*ast.FuncDecl); ok && fd.Body != nil {
					p.nFuncs++
				}
			}
		}
	}
	return p, nil
}

// Pkg returns a root package by calico-relative or full path.
func (p *Prog) Pkg(path string) *packages.Package {
	if pk, ok := p.byPath[path]; ok {
		return pk
	}
	if pk, ok := p.byPath[calicoPrefix+path]; ok {
		return pk
	}
	return nil
}

func (p *Prog) SSAPkg(path string) *ssa.Package {
	if pk, ok := p.ssaPkgs[path]; ok {
		return pk
	}
	return p.ssaPkgs[calicoPrefix+path]
}

// Pos renders a position relative to the repo root.
func (p *Prog) Pos(pos token.Pos) string {
	if !pos.IsValid() {
		return "?"
	}
	ps := p.Fset.Position(pos)
	f := ps.Filename
	if i := strings.Index(f, "/repo/"); i >= 0 {
		f = f[i+len("/repo/"):]
	}
	return fmt.Sprintf("%s:%d", f, ps.Line)
}

// LookupObj finds a package-level object, or a method "Type.Method", in a root
// package.  Returns nil if absent.
func (p *Prog) LookupObj(pkgPath, name string) types.Object {
	pk := p.Pkg(pkgPath)
	if pk == nil {
		return nil
	}
	if i := strings.Index(name, "."); i >= 0 {
		tn, _ := pk.Types.Scope().Lookup(name[:i]).(*types.TypeName)
		if tn == nil {
			return nil
		}
		obj, _, _ := types.LookupFieldOrMethod(tn.Type(), true, pk.Types, name[i+1:])
		return obj
	}
	return pk.Types.Scope().Lookup(name)
}

// LookupExt finds an object in any (possibly non-root) imported package.
func (p *Prog) LookupExt(pkgPath, name string) types.Object {
	var found *types.Package
	seen := map[*types.Package]bool{}
	var walk func(tp *types.Package)
	walk = func(tp *types.Package) {
		if found != nil || seen[tp] {
			return
		}
		seen[tp] = true
		if tp.Path() == pkgPath || tp.Path() == calicoPrefix+pkgPath {
			found = tp
			return
		}
		for _, im := range tp.Imports() {
			walk(im)
		}
	}
	for _, r := range p.Roots {
		walk(r.Types)
	}
	if found == nil {
		return nil
	}
	if i := strings.Index(name, "."); i >= 0 {
		tn, _ := found.Scope().Lookup(name[:i]).(*types.TypeName)
		if tn == nil {
			return nil
		}
		obj, _, _ := types.LookupFieldOrMethod(tn.Type(), true, found, name[i+1:])
		return obj
	}
	return found.Scope().Lookup(name)
}

// Func returns the SSA function for "Name" or "Type.Method" in a root package.
func (p *Prog) Func(pkgPath, name string) *ssa.Function {
	obj := p.LookupObj(pkgPath, name)
	fn, _ := obj.(*types.Func)
	if fn == nil || p.SSA == nil {
		return nil
	}
	return p.SSA.FuncValue(fn)
}

// FuncDecl returns the AST declaration of a function object in a root package.
func (p *Prog) FuncDecl(fn *types.Func) (*ast.FuncDecl, *packages.Package) {
	if fn == nil || fn.Pkg() == nil {
		return nil, nil
	}
	pk := p.byPath[fn.Pkg().Path()]
	if pk == nil {
		return nil, nil
	}
	for _, f := range pk.Syntax {
		for _, d := range f.Decls {
			if fd, ok := d.(*ast.FuncDecl); ok && pk.TypesInfo.Defs[fd.Name] == fn {
				return fd, pk
			}
		}
	}
	return nil, nil
}

// AllFuncs returns every SSA function (incl. closures) whose package is a root.
func (p *Prog) AllFuncs() []*ssa.Function {
	var out []*ssa.Function
	for fn := range ssautil.AllFunctions(p.SSA) {
		if fn.Pkg == nil && fn.Parent() == nil {
			// instantiations / wrappers: keep if origin belongs to a root
			if o := fn.Origin(); o != nil && o.Pkg != nil && p.ssaPkgs[o.Pkg.Pkg.Path()] != nil && fn.Blocks != nil {
				out = append(out, fn)
			}
			continue
		}
		top := fn
		for top.Parent() != nil {
			top = top.Parent()
		}
		if top.Pkg == nil {
			if o := top.Origin(); o == nil || o.Pkg == nil || p.ssaPkgs[o.Pkg.Pkg.Path()] == nil {
				continue
			}
		} else if p.ssaPkgs[top.Pkg.Pkg.Path()] == nil {
			continue
		}
		// range-over-func loop bodies are synthetic closures that hold user code
		if fn.Blocks == nil || (fn.Synthetic != "" && !strings.HasPrefix(fn.Synthetic, "range-over-func")) {
			continue
		}
		out = append(out, fn)
	}
	sort.Slice(out, func(i, j int) bool {
		if out[i].Pos() != out[j].Pos() {
			return out[i].Pos() < out[j].Pos()
		}
		return out[i].String() < out[j].String()
	})
	return out
}
