package main

import (
	"fmt"
	"go/constant"
	"go/token"
	"go/types"
	"sort"
	"strings"

	"golang.org/x/tools/go/ssa"
)

const (
	c07IdxPkg    = "felix/labelindex"
	c07ParserPkg = "libcalico-go/lib/selector/parser"
)

func init() {
	register(&Property{
		ID:        "C07",
		Title:     "Indexed selector matching equals direct selector evaluation",
		Technique: "static analysis: cut-set guard / dominance pairing on InheritIndex match bookkeeping, reachability of rescans from every input write, partial evaluation of each leaf Node's Evaluate against its LabelRestrictions, symbolic execution of the And/Or restriction-merge loops with a truth-table check per LabelRestriction field, guard/order analysis of the parent registry, typestate of the sorted value-set type (every conversion to the binary-searched slice type is cut by a sort or a len<=1 edge), cut-set guard on the adoption of a single-index scan strategy (go/ssa)",
		DesignRef: "DESIGN.md §3 C07",
		Explanation: "Decides (alternate) every OnMatchStarted/OnMatchStopped invocation of InheritIndex is guarded by non-membership/membership of the (selector,item) pair in one of the two match maps, " +
			"performs the matching Add/Discard on that map and the mirror map on the same path, and nothing else mutates, replaces or drops entries of the match maps (map entries created only empty-on-miss, deleted only when empty); " +
			"(eval) the start function is only called under Selector.EvaluateLabels()==true and the same function stops the match on the false edge with the same ids; " +
			"(rescan) every write to the item map, the selector map, or a field read by the item's GetHandle is followed (selectors: accompanied) by a call that reaches both the start and the stop function; " +
			"(restrict) for each of the 10 leaf Node types a partial evaluation of Evaluate under label-absent / label-present agrees with the literal returned by LabelRestrictions " +
			"(MustBePresent ⇒ absent→false; MustHaveOneOfValues ⇒ absent→false and present→ val==node.F / node.F.Contains(val) on the same field; key = the label looked up), " +
			"and NotNode only derives MustBeAbsent from operand types whose Evaluate is constantly true when the label is present; " +
			"(combine) for every Node type with an operand list (And/Or, classified as conjunction/disjunction from its Evaluate), every path of the loop that merges an operand's restrictions into the accumulated map is executed symbolically (in-package helpers that take/return/capture a restriction or the maps, or that are loop-free computations on bools and lists, are executed as part of the path with their parameters bound to the arguments — so the merge, the keep-or-drop decision and the map write may sit in helpers, methods with pointer receivers or closures; merge loops are also found in helpers that are handed the accumulated map) and, per field of LabelRestriction (enumerated from the struct), a disjunction keeps a bool restriction only if both merged entries impose it and a value list only if both are non-nil and the result is computed from both, a conjunction only if one of the entries imposes it; a disjunction merges every operand; " +
			"(parentreg) a parent registry entry is deleted only when it has no children and no labels (tested on the entry deleted); on a parents update an item is unregistered from / the registry entry dropped for an old parent only if that parent is not among the new parents (membership test using the same projection of old and new parents) or after re-registration; an item's parent list holds registry objects only — so every parent an item references is the object that receives that parent's label updates; " +
			"(sortedset) the parser's value-set type is found structurally (the named slice type with a method that binary-searches its receiver: StringSet.Contains) and every creation of such a value from a plain slice - explicit conversion, implicit conversion in an assignment/return/struct literal, composite literal, append to a set - in the parser and label index packages is justified: the source is nil or has at most one element, or it is sorted (library sort, or a helper that sorts its parameter on every path) on every path that reaches the conversion or that path establishes len<=1, and elements appended on the way are taken from that same sorted slice; plain []Handle values (MustHaveOneOfValues lists, which Or builds in source order) carry no ordering guarantee; " +
			"(candidates) in SelectorAndNamedPortIndex the scan strategy that one label index (endpoint-own or parent) offers for a label restriction is adopted as the candidate scan only where every path has tested the other index's strategy for the same label and restriction to be empty - an endpoint can satisfy a restriction through its own or an inherited label, and an endpoint left out of the scan is never evaluated.",
		NotDecided: "That the match relation equals evaluation over histories (only the per-step bookkeeping is decided); that the helpers merging two value lists really compute union (Or) / intersection (And) — only that the result is derived from both lists under the right nil-guards; soundness of LabelRestrictionIndex/LabelNameValueIndex candidate selection and, beyond the single-index adoption rule, of the scan strategies in named_port_index.go (cost comparison, parent scan de-duplication); that the order produced by the sort is the order the binary search assumes (comparator agreement), element stores / copy() into an existing set value, and sets built with make()+index stores; contents of sets at run time.",
		Assumptions: []string{
			"go/types + go/ssa (x/tools v0.50.0) model of the current source, CGO_ENABLED=0 build",
			"set.Typed has set semantics (Add/Discard/Contains/Len); methods other than String/Len/Contains/All/Copy/Slice/Equals/ContainsAll are treated as mutators",
			"parser.StringSet.Contains is membership on a sorted receiver (sortedness of every receiver is what C07.sortedset decides) and StringSet.SliceCopy returns the same elements",
			"sort.Slice/SliceStable/Sort/Stable/Strings and slices.Sort/SortFunc/SortStableFunc sort their first argument; slices.Compact/CompactFunc/Clip keep the order",
			"logrus Panic*/Fatal* do not return",
		},
		Run: runC07,
		Fixtures: []Fixture{
			{Name: "start callback fired without the previously-matched check", File: "felix/labelindex/label_inheritance_index.go",
				Old: "\tif !previouslyMatched {\n\t\tlog.Debugf(\"Selector %v now matches labels %v\", selId, labelId)", New: "\tif !previouslyMatched || true {\n\t\tlog.Debugf(\"Selector %v now matches labels %v\", selId, labelId)", Expect: "C07.alternate/guard/OnMatchStarted"},
			{Name: "stop callback fired when NOT previously matched", File: "felix/labelindex/label_inheritance_index.go",
				Old: "\tif previouslyMatched {\n\t\tlog.Debugf(\"Selector %v no longer matches labels %v\",", New: "\tif !previouslyMatched {\n\t\tlog.Debugf(\"Selector %v no longer matches labels %v\",", Expect: "C07.alternate/guard/OnMatchStopped"},
			{Name: "match started but not recorded", File: "felix/labelindex/label_inheritance_index.go",
				Old: "\t\tlabelIds.Add(labelId)\n", New: "", Expect: "C07.alternate/pair/OnMatchStarted"},
			{Name: "reverse index not updated on match start", File: "felix/labelindex/label_inheritance_index.go",
				Old: "\t\tselIDs.Add(selId)\n", New: "\t\tselIDs.Add(labelId)\n", Expect: "C07.alternate/mirror/OnMatchStarted"},
			{Name: "reverse index entry not discarded on match stop", File: "felix/labelindex/label_inheritance_index.go",
				Old: "\t\tidx.selIdsByLabelId[labelId].Discard(selId)\n", New: "", Expect: "C07.alternate/mirror/OnMatchStopped"},
			{Name: "match set dropped while non-empty", File: "felix/labelindex/label_inheritance_index.go",
				Old: "\t\tif labelIds.Len() == 0 {\n\t\t\tdelete(idx.labelIdsBySelId, selId)\n\t\t}", New: "\t\tdelete(idx.labelIdsBySelId, selId)", Expect: "C07.alternate/drop/labelIdsBySelId"},
			{Name: "match set re-created although present", File: "felix/labelindex/label_inheritance_index.go",
				Old: "\t\tif !ok {\n\t\t\tselIDs = set.New[any]()\n\t\t\tidx.selIdsByLabelId[labelId] = selIDs\n\t\t}", New: "\t\tif ok {\n\t\t\tselIDs = set.New[any]()\n\t\t\tidx.selIdsByLabelId[labelId] = selIDs\n\t\t}", Expect: "C07.alternate/create/selIdsByLabelId"},
			{Name: "match set cleared behind the callbacks' back", File: "felix/labelindex/label_inheritance_index.go",
				Old: "\tdelete(idx.selectorsById, id)\n", New: "\tif matchSet != nil {\n\t\tmatchSet.Clear()\n\t}\n\tdelete(idx.selectorsById, id)\n", Expect: "C07.alternate/own/"},
			{Name: "store/delete swapped against evaluation result", File: "felix/labelindex/label_inheritance_index.go",
				Old: "\tif nowMatches {\n\t\tidx.storeMatch(selId, labelId)\n\t} else {\n\t\tidx.deleteMatch(selId, labelId)\n\t}", New: "\tif !nowMatches {\n\t\tidx.storeMatch(selId, labelId)\n\t} else {\n\t\tidx.deleteMatch(selId, labelId)\n\t}", Expect: "C07.eval/start"},
			{Name: "non-matching result no longer stops the match", File: "felix/labelindex/label_inheritance_index.go",
				Old: "\tif nowMatches {\n\t\tidx.storeMatch(selId, labelId)\n\t} else {\n\t\tidx.deleteMatch(selId, labelId)\n\t}", New: "\tif nowMatches {\n\t\tidx.storeMatch(selId, labelId)\n\t}", Expect: "C07.eval/stop"},
			{Name: "profile label update without rescan of children", File: "felix/labelindex/label_inheritance_index.go",
				Old: "\tparent.labels = uniquelabels.Make(labels) // FIXME intern further upstream?\n\tidx.flushChildren(parentID)\n", New: "\tparent.labels = uniquelabels.Make(labels) // FIXME intern further upstream?\n", Expect: "C07.rescan/InheritIndex.UpdateParentLabels"},
			{Name: "endpoint deletion without flush", File: "felix/labelindex/label_inheritance_index.go",
				Old: "\tidx.onItemParentsUpdate(id, oldParents, nil)\n\tidx.dirtyItemIDs.Add(id)\n\tidx.flushUpdates()\n", New: "\tidx.onItemParentsUpdate(id, oldParents, nil)\n\tidx.dirtyItemIDs.Add(id)\n", Expect: "C07.rescan/InheritIndex.DeleteLabels"},
			{Name: "item removed from every old parent, still-current ones included (parent dropped while referenced)", File: "felix/labelindex/label_inheritance_index.go",
				Old: "\t\tif currentParentIDs.Contains(parent.id) {\n\t\t\t// Make sure we don't delete current parents from the index.\n\t\t\tcontinue\n\t\t}\n", New: "", Expect: "C07.parentreg/drop/InheritIndex.onItemParentsUpdate"},
			{Name: "current-parent set filled with pointers but queried with ids", File: "felix/labelindex/label_inheritance_index.go",
				Old: "\t\tcurrentParentIDs.Add(parentData.id)\n", New: "\t\tcurrentParentIDs.Add(parentData)\n", Expect: "C07.parentreg/drop/InheritIndex.onItemParentsUpdate"},
			{Name: "parent with labels but no children forgotten", File: "felix/labelindex/label_inheritance_index.go",
				Old: "\tif parent.itemIDs == nil && parent.labels.IsNil() {\n", New: "\tif parent.itemIDs == nil || parent.labels.IsNil() {\n", Expect: "C07.parentreg/delete/InheritIndex.discardParentIfEmpty"},
			{Name: "item references a private parent object instead of the registered one", File: "felix/labelindex/label_inheritance_index.go",
				Old: "\t\t\tparents[i] = idx.getOrCreateParent(pID)\n", New: "\t\t\tparents[i] = &parentData{id: pID}\n", Expect: "C07.parentreg/refs/InheritIndex.UpdateLabels"},
			{Name: "Or keeps MustBeAbsent if ANY operand imposes it (copy-paste from And)", File: "libcalico-go/lib/selector/parser/ast.go",
				Old: "\t\t\tr.MustBeAbsent = r.MustBeAbsent && opr.MustBeAbsent\n", New: "\t\t\tr.MustBeAbsent = r.MustBeAbsent || opr.MustBeAbsent\n", Expect: "C07.combine/OrNode/MustBeAbsent"},
			{Name: "Or keeps MustBePresent if ANY operand imposes it", File: "libcalico-go/lib/selector/parser/ast.go",
				Old: "\t\t\tr.MustBePresent = r.MustBePresent && opr.MustBePresent\n", New: "\t\t\tr.MustBePresent = r.MustBePresent || opr.MustBePresent\n", Expect: "C07.combine/OrNode/MustBePresent"},
			{Name: "Or keeps one operand's value list when the other operand does not limit the value", File: "libcalico-go/lib/selector/parser/ast.go",
				Old: "\t\t\t\tif r.MustHaveOneOfValues == nil || opr.MustHaveOneOfValues == nil {\n", New: "\t\t\t\tif r.MustHaveOneOfValues == nil && opr.MustHaveOneOfValues == nil {\n", Expect: "C07.combine/OrNode/MustHaveOneOfValues"},
			{Name: "Or leaves the first operand's restriction in place when the other operand has none for the label", File: "libcalico-go/lib/selector/parser/ast.go",
				Old: "\t\t\topr := opLR[ln]\n", New: "\t\t\topr, ok := opLR[ln]\n\t\t\tif !ok {\n\t\t\t\tcontinue\n\t\t\t}\n", Expect: "C07.combine/OrNode/MustBePresent"},
			{Name: "Or does not merge its second operand", File: "libcalico-go/lib/selector/parser/ast.go",
				Old: "\tlr := node.Operands[0].LabelRestrictions()\n\tfor _, op := range node.Operands[1:] {\n", New: "\tlr := node.Operands[0].LabelRestrictions()\n\tfor _, op := range node.Operands[2:] {\n", Expect: "C07.combine/OrNode/operands"},
			{Name: "And derives MustBeAbsent from an operand's MustBePresent (field mix-up)", File: "libcalico-go/lib/selector/parser/ast.go",
				Old: "\t\t\tbase.MustBeAbsent = base.MustBeAbsent || r.MustBeAbsent\n", New: "\t\t\tbase.MustBeAbsent = base.MustBeAbsent || r.MustBePresent\n", Expect: "C07.combine/AndNode/MustBeAbsent"},
			{Name: "a != 'b' claims the label must be present", File: "libcalico-go/lib/selector/parser/ast.go",
				Old: "func (node *LabelNeValueNode) LabelRestrictions() map[uniquestr.Handle]LabelRestriction {\n\treturn nil\n}", New: "func (node *LabelNeValueNode) LabelRestrictions() map[uniquestr.Handle]LabelRestriction {\n\treturn map[uniquestr.Handle]LabelRestriction{node.LabelName: {MustBePresent: true}}\n}", Expect: "C07.restrict/LabelNeValueNode"},
			{Name: "contains restricted to the exact value", File: "libcalico-go/lib/selector/parser/ast.go",
				Old: "func (node *LabelContainsValueNode) LabelRestrictions() map[uniquestr.Handle]LabelRestriction {\n\treturn map[uniquestr.Handle]LabelRestriction{\n\t\tnode.LabelName: {\n\t\t\tMustBePresent: true,\n", New: "func (node *LabelContainsValueNode) LabelRestrictions() map[uniquestr.Handle]LabelRestriction {\n\treturn map[uniquestr.Handle]LabelRestriction{\n\t\tnode.LabelName: {\n\t\t\tMustBePresent: true,\n\t\t\tMustHaveOneOfValues: []uniquestr.Handle{node.Value},\n", Expect: "C07.restrict/LabelContainsValueNode"},
			{Name: "restriction keyed by the value instead of the label name", File: "libcalico-go/lib/selector/parser/ast.go",
				Old: "\t\tnode.LabelName: {\n\t\t\tMustBePresent:       true,\n\t\t\tMustHaveOneOfValues: []uniquestr.Handle{node.Value},", New: "\t\tnode.Value: {\n\t\t\tMustBePresent:       true,\n\t\t\tMustHaveOneOfValues: []uniquestr.Handle{node.Value},", Expect: "C07.restrict/LabelEqValueNode"},
			{Name: "not-in evaluates true when absent but restriction copied from in", File: "libcalico-go/lib/selector/parser/ast.go",
				Old: "func (node *LabelNotInSetNode) LabelRestrictions() map[uniquestr.Handle]LabelRestriction {\n\treturn nil\n}", New: "func (node *LabelNotInSetNode) LabelRestrictions() map[uniquestr.Handle]LabelRestriction {\n\treturn map[uniquestr.Handle]LabelRestriction{node.LabelName: {MustBePresent: true, MustHaveOneOfValues: node.Value.SliceCopy()}}\n}", Expect: "C07.restrict/LabelNotInSetNode"},
			{Name: "all() claims a restriction", File: "libcalico-go/lib/selector/parser/ast.go",
				Old: "func (node *AllNode) LabelRestrictions() map[uniquestr.Handle]LabelRestriction {\n\treturn nil\n}", New: "func (node *AllNode) LabelRestrictions() map[uniquestr.Handle]LabelRestriction {\n\treturn map[uniquestr.Handle]LabelRestriction{uniquestr.Make(\"x\"): {MustBePresent: true}}\n}", Expect: "C07.restrict/AllNode"},
			{Name: "has() evaluates true when the label is absent", File: "libcalico-go/lib/selector/parser/ast.go",
				Old: "\t_, ok := labels.GetHandle(node.LabelName)\n\tif ok {\n\t\treturn true\n\t}\n\treturn false\n", New: "\t_, ok := labels.GetHandle(node.LabelName)\n\tif ok {\n\t\treturn true\n\t}\n\treturn true\n", Expect: "C07.restrict/HasNode"},
			{Name: "!(a == 'b') treated as 'a must be absent'", File: "libcalico-go/lib/selector/parser/ast.go",
				Old: "if hasNode, ok := node.Operand.(*HasNode); ok {", New: "if hasNode, ok := node.Operand.(*LabelEqValueNode); ok {", Expect: "C07.restrict/NotNode"},
			{Name: "And intersects against an operand's value list that is cast to the set type without being sorted (Or builds it in source order)", File: "libcalico-go/lib/selector/parser/ast.go",
				Old: "\tbSet := ConvertToStringSetInPlace(b)\n", New: "\tbSet := StringSet(b)\n", Expect: "C07.sortedset/create/intersectStringSlicesInPlace"},
			{Name: "normalising constructor returns two-element slices unsorted", File: "libcalico-go/lib/selector/parser/stringset.go",
				Old: "\tif len(s) <= 1 {\n", New: "\tif len(s) <= 2 {\n", Expect: "C07.sortedset/create/ConvertToStringSetInPlace"},
			{Name: "normalising constructor only de-duplicates adjacent values, no longer sorts", File: "libcalico-go/lib/selector/parser/stringset.go",
				Old: "\tsort.Slice(s, func(i, j int) bool {\n\t\treturn s[i].Value() < s[j].Value()\n\t})\n", New: "", Expect: "C07.sortedset/create/ConvertToStringSetInPlace"},
			{Name: "label present on endpoints AND profiles: endpoint-only index scan adopted, endpoints inheriting the label are never evaluated", File: "felix/labelindex/named_port_index.go",
				Old: "\t\t\t\t\"Label applies to both endpoints and parents, cannot do optimised scan.\")\n", New: "\t\t\t\t\"Label applies to both endpoints and parents, cannot do optimised scan.\")\n\t\t\tif epsToScan < bestEPStrategy.EstimatedItemsToScan() {\n\t\t\t\tbestEPStrategy = epStrat\n\t\t\t}\n", Expect: "C07.candidates/SelectorAndNamedPortIndex.iterEndpointCandidates/adopt(endpointKVIdx)"},
			{Name: "endpoint index strategy adopted without checking that no profile carries the label", File: "felix/labelindex/named_port_index.go",
				Old: "\t\tif epsToScan > 0 && parentsToScan == 0 {", New: "\t\tif epsToScan > 0 {", Expect: "C07.candidates/SelectorAndNamedPortIndex.iterEndpointCandidates/adopt(endpointKVIdx)"},
			{Name: "parent index strategy adopted without checking that no endpoint carries the label itself", File: "felix/labelindex/named_port_index.go",
				Old: "\t\t} else if epsToScan == 0 && parentsToScan > 0 {", New: "\t\t} else if parentsToScan > 0 {", Expect: "C07.candidates/SelectorAndNamedPortIndex.iterEndpointCandidates/adopt(parentKVIdx)"},
		},
	})
}

// ----------------------------------------------------------------- model --

type c07Model struct {
	c         *Ctx
	p         *Prog
	idxT      *types.Named
	started   *types.Var
	stopped   *types.Var
	matchFlds []*types.Var // the two match maps
	funcs     []*ssa.Function
	pd        map[*ssa.Function]map[*ssa.BasicBlock]map[*ssa.BasicBlock]bool
}

func (m *c07Model) postdom(fn *ssa.Function) map[*ssa.BasicBlock]map[*ssa.BasicBlock]bool {
	if pd, ok := m.pd[fn]; ok {
		return pd
	}
	pd := postDominators(fn)
	m.pd[fn] = pd
	return pd
}

func (m *c07Model) isMatchField(v *types.Var) bool {
	for _, f := range m.matchFlds {
		if f == v {
			return true
		}
	}
	return false
}

func (m *c07Model) otherMatchField(v *types.Var) *types.Var {
	for _, f := range m.matchFlds {
		if f != v {
			return f
		}
	}
	return nil
}

func c07IsSetMethod(f *types.Func, names ...string) bool {
	if f == nil || f.Pkg() == nil || !strings.HasSuffix(f.Pkg().Path(), "libcalico-go/lib/set") || recvTypeName(f) != "Typed" {
		return false
	}
	if len(names) == 0 {
		return true
	}
	for _, n := range names {
		if f.Name() == n {
			return true
		}
	}
	return false
}

var c07SetReadOnly = map[string]bool{"String": true, "Len": true, "Contains": true, "All": true, "Copy": true, "Slice": true, "Equals": true, "ContainsAll": true}

func c07IsSetCtor(v ssa.Value) bool {
	c, ok := v.(*ssa.Call)
	if !ok {
		return false
	}
	f := calleeOf(c.Common())
	return f != nil && f.Pkg() != nil && strings.HasSuffix(f.Pkg().Path(), "libcalico-go/lib/set") && (f.Name() == "New" || f.Name() == "NewSize") && recvTypeName(f) == ""
}

// c07SetRef resolves the receiver of a set method call to "the set stored at
// F[key]" for a struct field F of map type: a lookup of F (plain or comma-ok),
// possibly merged (phi) with a freshly constructed set that the same function
// stores at F[key].
type c07SetRef struct {
	Field *types.Var
	Key   string // canonical path of the key
	Fresh []ssa.Value
}

func c07ResolveSetRef(v ssa.Value) *c07SetRef {
	var ref c07SetRef
	ok := true
	seen := map[ssa.Value]bool{}
	note := func(f *types.Var, key string) {
		if f == nil {
			ok = false
			return
		}
		if ref.Field == nil {
			ref.Field, ref.Key = f, key
		} else if ref.Field != f || ref.Key != key {
			ok = false
		}
	}
	var walk func(v ssa.Value)
	walk = func(v ssa.Value) {
		if seen[v] {
			return
		}
		seen[v] = true
		switch x := v.(type) {
		case *ssa.Phi:
			for _, e := range x.Edges {
				walk(e)
			}
		case *ssa.Extract:
			if lk, isLk := x.Tuple.(*ssa.Lookup); isLk && x.Index == 0 {
				note(fieldVar(lk.X), path(lk.Index))
			} else {
				ok = false
			}
		case *ssa.Lookup:
			note(fieldVar(x.X), path(x.Index))
		case *ssa.Call:
			if c07IsSetCtor(x) {
				ref.Fresh = append(ref.Fresh, x)
			} else {
				ok = false
			}
		default:
			ok = false
		}
	}
	walk(v)
	if !ok {
		return nil
	}
	// fresh sets must be stored at the same F[key] in the same function
	for _, fr := range ref.Fresh {
		stored := false
		for _, r := range *fr.Referrers() {
			if mu, isMU := r.(*ssa.MapUpdate); isMU && mu.Value == fr {
				f, k := fieldVar(mu.Map), path(mu.Key)
				if f == nil {
					return nil
				}
				if ref.Field == nil {
					ref.Field, ref.Key = f, k
				}
				if f == ref.Field && k == ref.Key {
					stored = true
				}
			}
		}
		if !stored {
			return nil
		}
	}
	if ref.Field == nil {
		return nil
	}
	return &ref
}

// c07Callback is one invocation of OnMatchStarted / OnMatchStopped.
type c07Callback struct {
	Call  ssa.CallInstruction
	Fn    *ssa.Function
	Start bool
	Sel   string // path of arg 0
	Item  string // path of arg 1
}

func (m *c07Model) callbacks() []c07Callback {
	var out []c07Callback
	for _, f := range m.funcs {
		allInstrs(f, false, func(fn *ssa.Function, in ssa.Instruction) {
			ci, ok := in.(ssa.CallInstruction)
			if !ok {
				return
			}
			cc := ci.Common()
			if cc.IsInvoke() || cc.StaticCallee() != nil {
				return
			}
			fv := fieldVar(cc.Value)
			if fv != m.started && fv != m.stopped {
				return
			}
			if len(cc.Args) != 2 {
				return
			}
			out = append(out, c07Callback{ci, fn, fv == m.started, path(cc.Args[0]), path(cc.Args[1])})
		})
	}
	return out
}

func runC07(c *Ctx) {
	p := c.Load(c07IdxPkg, c07ParserPkg)
	c.Rule("C07.alternate", "E-GUARD/E-PAIR/E-OWN", "each OnMatchStarted/OnMatchStopped call is guarded by (non-)membership of the pair in a match map, paired with Add/Discard on that map and its mirror; match maps are mutated, created and dropped nowhere else", 16)
	c.Rule("C07.eval", "E-GUARD", "the start function is only called under EvaluateLabels()==true, and the stop function is called on the false edge of the same evaluation with the same ids", 2)
	c.Rule("C07.rescan", "E-ORDER", "every write to the item map, selector map or a field read by the items' GetHandle is post-dominated (selector map: accompanied) by a call reaching the start and stop functions", 6)
	c.Rule("C07.combine", "symbolic execution", "per Node type with an operand list and per LabelRestriction field: on every path of the loop merging an operand's restrictions into the accumulated ones, a disjunction (per Evaluate) keeps a restriction only if both entries impose it (value lists: both non-nil and computed from both), a conjunction only if one of them does; a disjunction merges every operand", 7)
	c.Rule("C07.parentreg", "E-GUARD/E-ORDER/E-FLOW", "a parent registry entry is deleted only when it has no children and no labels; an item is unregistered from / the registry entry dropped for an old parent only if that parent is not among the item's new parents (or after re-registration); an item's parent list holds registry objects only", 4)
	c.Rule("C07.restrict", "partial-eval", "per leaf Node type: LabelRestrictions literal is implied by Evaluate partially evaluated under label absent/present; NotNode derives MustBeAbsent only from always-true-when-present operands", 11)

	// Each family runs on its own (c01Isolated): an anchor lost by one of them breaks
	// the run but does not silence the families that do not depend on it.
	var m *c07Model
	c01Isolated(c, func() { m = c07BuildModel(c, p) })
	if m != nil {
		var starts, stops map[*ssa.Function]bool
		alternated := false
		c01Isolated(c, func() { starts, stops = c07Alternate(c, m); alternated = true })
		if alternated {
			c01Isolated(c, func() { c07Eval(c, m, starts, stops) })
			c01Isolated(c, func() { c07Rescan(c, m, starts, stops) })
		}
	}
	c01Isolated(c, func() { c07Restrict(c, p) })
	c01Isolated(c, func() { c07ParentReg(c, p, "C07.parentreg") })
	c01Isolated(c, func() { c07Combine(c, p) })

	c.Rule("C07.sortedset", "typestate / E-GUARD", "the parser's value-set type (the named slice type whose method binary-searches its receiver) is only created from a value of that type, from nil / at most one element, or from a plain slice that is sorted on every path reaching the conversion (explicit or implicit), elements appended on the way being taken from that sorted slice", 2)
	c01Isolated(c, func() { c07SortedSet(c, p) })

	// The candidate scan of SelectorAndNamedPortIndex decides which endpoints a newly added selector is
	// ever evaluated against: an endpoint the scan skips is never reported as matching although direct
	// evaluation of the selector on its effective (own + inherited) labels says it matches.  An endpoint
	// can satisfy a label restriction through its own label (endpoint index) or an inherited one (parent
	// index), so narrowing the scan to what ONE index offers is only sound where the other index has
	// nothing for the restriction - C04's candidate-adoption rule, a necessary condition of "the
	// label-restriction summaries used to prune candidates never exclude an item the selector actually
	// matches", armed here under C07's id.
	c.Rule("C07.candidates", "E-GUARD", "the scan strategy one label index (endpoint-own / parent) offers for a selector's label restriction is adopted as the candidate scan only where, on every path, the other index's strategy for the same restriction was tested to be empty (c04Candidates)", 2)
	// (c04Candidates only needs the program, its functions and the index type: reuse this run's
	// program instead of c04BuildModel's separate load and unrelated C04 anchors.)
	c01Isolated(c, func() {
		idxTN, _ := p.LookupObj(c07IdxPkg, "SelectorAndNamedPortIndex").(*types.TypeName)
		if idxTN == nil {
			c.Lost("type felix/labelindex.SelectorAndNamedPortIndex")
		}
		if _, isStruct := idxTN.Type().Underlying().(*types.Struct); !isStruct {
			c.Lost("felix/labelindex.SelectorAndNamedPortIndex is not a struct")
		}
		var idxFuncs []*ssa.Function
		for _, f := range c07FuncsWithBodies(p) {
			if top := topFn(f); top.Pkg != nil && top.Pkg.Pkg.Path() == calicoPrefix+c07IdxPkg {
				idxFuncs = append(idxFuncs, f)
			}
		}
		m04 := &c04Model{c: c, p: p, pd: map[*ssa.Function]map[*ssa.BasicBlock]map[*ssa.BasicBlock]bool{}, funcs: idxFuncs, idxT: idxTN}
		c.Alias("C04.candidates", "C07.candidates", func() { c04Candidates(c, m04, idxTN) })
	})
}

func c07BuildModel(c *Ctx, p *Prog) *c07Model {
	m := &c07Model{c: c, p: p, pd: map[*ssa.Function]map[*ssa.BasicBlock]map[*ssa.BasicBlock]bool{}}
	tn, _ := p.LookupObj(c07IdxPkg, "InheritIndex").(*types.TypeName)
	if tn == nil {
		c.Lost("type felix/labelindex.InheritIndex")
	}
	m.idxT = tn.Type().(*types.Named)
	m.started, _ = p.LookupObj(c07IdxPkg, "InheritIndex.OnMatchStarted").(*types.Var)
	m.stopped, _ = p.LookupObj(c07IdxPkg, "InheritIndex.OnMatchStopped").(*types.Var)
	if m.started == nil || m.stopped == nil {
		c.Lost("InheritIndex.OnMatchStarted / OnMatchStopped")
	}
	for _, n := range []string{"selIdsByLabelId", "labelIdsBySelId"} {
		fv, _ := p.LookupObj(c07IdxPkg, "InheritIndex."+n).(*types.Var)
		if fv == nil {
			c.Lost("InheritIndex.%s (match relation named by the property)", n)
		}
		mt, ok := fv.Type().Underlying().(*types.Map)
		if !ok || namedTypeName(mt.Elem()) != "Typed" {
			c.Lost("InheritIndex.%s is no longer a map of set.Typed", n)
		}
		m.matchFlds = append(m.matchFlds, fv)
	}
	for _, f := range c07FuncsWithBodies(p) {
		top := topFn(f)
		if top.Pkg != nil && top.Pkg.Pkg.Path() == calicoPrefix+c07IdxPkg {
			m.funcs = append(m.funcs, f)
		}
	}
	if len(m.funcs) == 0 {
		c.Lost("functions of felix/labelindex")
	}
	return m
}

// ------------------------------------------------------------- alternate --

func c07Alternate(c *Ctx, m *c07Model) (starts, stops map[*ssa.Function]bool) {
	p := m.p
	starts, stops = map[*ssa.Function]bool{}, map[*ssa.Function]bool{}
	cbs := m.callbacks()
	nStart, nStop := 0, 0
	// mutator calls accounted for by a validated callback
	accounted := map[ssa.Instruction]bool{}
	for _, cb := range cbs {
		name, op := "OnMatchStopped", "Discard"
		if cb.Start {
			name, op = "OnMatchStarted", "Add"
			nStart++
			starts[cb.Fn] = true
		} else {
			nStop++
			stops[cb.Fn] = true
		}
		suffix := name + "@" + fnName(cb.Fn)
		site := p.Pos(cb.Call.Pos())
		// (guard) find the guarding Contains calls
		type guardInfo struct {
			ref *c07SetRef
			arg string
		}
		var guards []guardInfo
		pairOK := func(ref *c07SetRef, arg string) bool {
			return m.isMatchField(ref.Field) &&
				((ref.Key == cb.Sel && arg == cb.Item) || (ref.Key == cb.Item && arg == cb.Sel)) && cb.Sel != cb.Item
		}
		for _, g := range callsIn(cb.Fn, false, func(f *types.Func) bool { return c07IsSetMethod(f, "Contains") }) {
			ref := c07ResolveSetRef(g.Args()[0])
			if ref == nil || !pairOK(ref, path(g.Args()[1])) {
				continue
			}
			gi := g.Instr
			if guardedCut(cb.Call, callCond(!cb.Start, func(cs CallSite) bool { return cs.Instr == gi })) {
				guards = append(guards, guardInfo{ref, path(g.Args()[1])})
			}
		}
		want := "membership"
		if cb.Start {
			want = "non-membership"
		}
		if len(guards) == 0 {
			c.Violate("C07.alternate/guard/"+suffix, site, "%s(%s,%s) in %s is reachable without a test of %s of the pair in %s[..] / %s[..] (two starts, or a stop without a start, become possible)",
				name, cb.Sel, cb.Item, fnName(cb.Fn), want, m.matchFlds[0].Name(), m.matchFlds[1].Name())
			c.Violate("C07.alternate/pair/"+suffix, site, "no guard set to pair with")
			c.Violate("C07.alternate/mirror/"+suffix, site, "no guard set to pair with")
			continue
		}
		g := guards[0]
		c.Ok("C07.alternate/guard/"+suffix, site, "guarded by %s of %s in %s[%s]", want, g.arg, g.ref.Field.Name(), g.ref.Key)
		// (pair)/(mirror): op on the guard set with the guard's element, and on the
		// other map with roles swapped, on the same path as the callback.
		pd := m.postdom(cb.Fn)
		samePath := func(in ssa.Instruction) bool {
			return instrDominates(in, cb.Call) || instrPostDominates(pd, in, cb.Call)
		}
		find := func(field *types.Var, key, arg string) ssa.Instruction {
			for _, a := range callsIn(cb.Fn, false, func(f *types.Func) bool { return c07IsSetMethod(f, op) }) {
				ref := c07ResolveSetRef(a.Args()[0])
				if ref == nil || ref.Field != field || ref.Key != key || path(a.Args()[1]) != arg {
					continue
				}
				if !samePath(a.Instr) {
					continue
				}
				// the update itself must be under the same membership test
				guarded := false
				for _, gc := range callsIn(cb.Fn, false, func(f *types.Func) bool { return c07IsSetMethod(f, "Contains") }) {
					r2 := c07ResolveSetRef(gc.Args()[0])
					if r2 == nil || r2.Field != g.ref.Field || r2.Key != g.ref.Key || path(gc.Args()[1]) != g.arg {
						continue
					}
					gi := gc.Instr
					if guardedCut(a.Instr, callCond(!cb.Start, func(cs CallSite) bool { return cs.Instr == gi })) {
						guarded = true
					}
				}
				if guarded {
					return a.Instr
				}
			}
			return nil
		}
		if in := find(g.ref.Field, g.ref.Key, g.arg); in != nil {
			accounted[in] = true
			c.Ok("C07.alternate/pair/"+suffix, site, "%s[%s].%s(%s) on the callback's path", g.ref.Field.Name(), g.ref.Key, op, g.arg)
		} else {
			c.Violate("C07.alternate/pair/"+suffix, site, "%s is invoked but %s[%s].%s(%s) does not happen on the same path in %s (the membership test no longer tracks the callbacks)",
				name, g.ref.Field.Name(), g.ref.Key, op, g.arg, fnName(cb.Fn))
		}
		other := m.otherMatchField(g.ref.Field)
		if in := find(other, g.arg, g.ref.Key); in != nil {
			accounted[in] = true
			c.Ok("C07.alternate/mirror/"+suffix, site, "%s[%s].%s(%s) on the callback's path", other.Name(), g.arg, op, g.ref.Key)
		} else {
			c.Violate("C07.alternate/mirror/"+suffix, site, "%s is invoked but the mirror update %s[%s].%s(%s) does not happen on the same path in %s",
				name, other.Name(), g.arg, op, g.ref.Key, fnName(cb.Fn))
		}
	}
	if nStart == 0 || nStop == 0 {
		c.Lost("no invocation of OnMatchStarted (%d) / OnMatchStopped (%d) through the InheritIndex fields", nStart, nStop)
	}

	// (own) every other mutation of the match maps or of the sets they hold.
	for _, f := range m.funcs {
		allInstrs(f, false, func(fn *ssa.Function, in ssa.Instruction) {
			site := p.Pos(in.Pos())
			switch x := in.(type) {
			case ssa.CallInstruction:
				cc := x.Common()
				if callee := calleeOf(cc); c07IsSetMethod(callee) && !c07SetReadOnly[callee.Name()] && len(cc.Args) > 0 {
					ref := c07ResolveSetRef(cc.Args[0])
					if ref == nil || !m.isMatchField(ref.Field) {
						return
					}
					key := fmt.Sprintf("C07.alternate/own/%s.%s@%s", ref.Field.Name(), callee.Name(), fnName(fn))
					c.Check(accounted[in], key, site,
						"mutation is the bookkeeping of a guarded callback",
						fmt.Sprintf("%s[%s].%s in %s changes the match relation without the guarded OnMatchStarted/OnMatchStopped callback", ref.Field.Name(), ref.Key, callee.Name(), fnName(fn)))
					return
				}
				if dc, ok := isBuiltinCall(in, "delete"); ok {
					fv := fieldVar(dc.Args[0])
					if !m.isMatchField(fv) {
						return
					}
					k := path(dc.Args[1])
					g := guardedCut(in, eqCond(true,
						func(v ssa.Value) bool {
							cs, ok := condCall(v)
							if !ok || !c07IsSetMethod(cs.Callee, "Len") {
								return false
							}
							ref := c07ResolveSetRef(cs.Args()[0])
							return ref != nil && ref.Field == fv && ref.Key == k
						},
						func(v ssa.Value) bool { cv, ok := constOf(v); return ok && cv.ExactString() == "0" }))
					c.Check(g, fmt.Sprintf("C07.alternate/drop/%s@%s", fv.Name(), fnName(fn)), site,
						"entry deleted only when its set is empty",
						fmt.Sprintf("delete(%s, %s) in %s is not guarded by %s[%s].Len() == 0: current matches are forgotten without OnMatchStopped", fv.Name(), k, fnName(fn), fv.Name(), k))
				}
			case *ssa.MapUpdate:
				fv := fieldVar(x.Map)
				if !m.isMatchField(fv) {
					return
				}
				k := path(x.Key)
				fresh := c07IsSetCtor(x.Value)
				miss := guardedCut(in, anyOf(
					eqCond(true,
						func(v ssa.Value) bool {
							lk, ok := v.(*ssa.Lookup)
							return ok && !lk.CommaOk && fieldVar(lk.X) == fv && path(lk.Index) == k
						}, isNilConst),
					func(cond ssa.Value, pol bool) bool {
						if pol {
							return false
						}
						ex, ok := cond.(*ssa.Extract)
						if !ok || ex.Index != 1 {
							return false
						}
						lk, ok := ex.Tuple.(*ssa.Lookup)
						return ok && lk.CommaOk && fieldVar(lk.X) == fv && path(lk.Index) == k
					}))
				c.Check(fresh && miss, fmt.Sprintf("C07.alternate/create/%s@%s", fv.Name(), fnName(fn)), site,
					"entry created with an empty set, only when missing",
					fmt.Sprintf("%s[%s] is assigned in %s but not (a fresh set.New(): %v, only when the entry is missing: %v): existing matches are overwritten without OnMatchStopped", fv.Name(), k, fnName(fn), fresh, miss))
			case *ssa.Store:
				fa, ok := x.Addr.(*ssa.FieldAddr)
				if !ok {
					return
				}
				fv := structField(fa.X.Type(), fa.Field)
				if !m.isMatchField(fv) {
					return
				}
				_, lit := fa.X.(*ssa.Alloc)
				_, mk := x.Val.(*ssa.MakeMap)
				c.Check(lit && mk, fmt.Sprintf("C07.alternate/init/%s@%s", fv.Name(), fnName(fn)), site,
					"match map assigned only in the constructor literal, empty",
					fmt.Sprintf("field %s is replaced in %s outside the constructor literal", fv.Name(), fnName(fn)))
			}
		})
	}
	return starts, stops
}

// ------------------------------------------------------------------ eval --

func c07IsEvaluate(f *types.Func) bool {
	return isFunc(f, c07ParserPkg, "Selector.EvaluateLabels") || isFunc(f, c07ParserPkg, "Selector.Evaluate")
}

func c07Eval(c *Ctx, m *c07Model, starts, stops map[*ssa.Function]bool) {
	p := m.p
	n := 0
	for _, f := range m.funcs {
		if starts[f] {
			continue
		}
		for _, cs := range callsIn(f, false, func(*types.Func) bool { return true }) {
			sf := calleeFn(cs.Common())
			if sf == nil || !starts[sf] {
				continue
			}
			n++
			site := p.Pos(cs.Instr.Pos())
			args := cs.Common().Args
			var evalCall ssa.Instruction
			g := guardedCut(cs.Instr, callCond(true, func(e CallSite) bool {
				if c07IsEvaluate(e.Callee) {
					evalCall = e.Instr
					return true
				}
				return false
			}))
			c.Check(g, "C07.eval/start/"+fnName(f), site,
				fnName(sf)+" only called when Selector.EvaluateLabels() returned true",
				fmt.Sprintf("%s calls %s on a path where Selector.EvaluateLabels() did not return true", fnName(f), fnName(sf)))
			// the stop side on the false edge of the same evaluation, same ids
			okStop := false
			if g && evalCall != nil {
				for _, ds := range callsIn(f, false, func(*types.Func) bool { return true }) {
					df := calleeFn(ds.Common())
					if df == nil || !stops[df] || len(ds.Common().Args) != len(args) {
						continue
					}
					same := true
					for i := 1; i < len(args); i++ {
						if path(args[i]) != path(ds.Common().Args[i]) {
							same = false
						}
					}
					if same && guardedCut(ds.Instr, callCond(false, func(e CallSite) bool { return e.Instr == evalCall })) &&
						c07EveryFalsePathCalls(evalCall, ds.Instr, m.postdom(f)) {
						okStop = true
					}
				}
			}
			c.Check(okStop, "C07.eval/stop/"+fnName(f), site,
				"the false edge of the same evaluation stops the match for the same ids",
				fmt.Sprintf("%s starts a match when EvaluateLabels() is true but does not call the stop function with the same ids when it is false (stale matches survive a label/selector change)", fnName(f)))
		}
	}
	if n == 0 {
		c.Lost("no call site of the match start function")
	}
}

// c07EveryFalsePathCalls: the false successor of the If testing evalCall's
// result leads to `call` on every returning path.
func c07EveryFalsePathCalls(evalCall, call ssa.Instruction, pd map[*ssa.BasicBlock]map[*ssa.BasicBlock]bool) bool {
	v, ok := evalCall.(ssa.Value)
	if !ok {
		return false
	}
	for _, r := range *v.Referrers() {
		cond := r
		pol := true
		for {
			u, isNot := cond.(*ssa.UnOp)
			if !isNot || u.Op != token.NOT {
				break
			}
			pol = !pol
			refs := *u.Referrers()
			if len(refs) != 1 {
				return false
			}
			cond = refs[0]
		}
		ifi, isIf := cond.(*ssa.If)
		if !isIf {
			continue
		}
		b := ifi.Block()
		falseSucc := b.Succs[1]
		if !pol {
			falseSucc = b.Succs[0]
		}
		if falseSucc == call.Block() || pd[falseSucc][call.Block()] {
			return true
		}
	}
	return false
}

// ---------------------------------------------------------------- rescan --

func c07Rescan(c *Ctx, m *c07Model, starts, stops map[*ssa.Function]bool) {
	p := m.p
	// The inputs of evaluation: the item map (elements implement parser.Labels),
	// the selector map, and the fields read by the items' GetHandle.
	labelsT, _ := p.LookupObj(c07ParserPkg, "Labels").(*types.TypeName)
	selT, _ := p.LookupObj(c07ParserPkg, "Selector").(*types.TypeName)
	if labelsT == nil || selT == nil {
		c.Lost("parser.Labels / parser.Selector")
	}
	labelsI := labelsT.Type().Underlying().(*types.Interface)
	var itemsFld, selsFld *types.Var
	var itemT types.Type
	st := m.idxT.Underlying().(*types.Struct)
	for i := 0; i < st.NumFields(); i++ {
		mt, ok := st.Field(i).Type().Underlying().(*types.Map)
		if !ok {
			continue
		}
		if types.Implements(mt.Elem(), labelsI) {
			if itemsFld != nil {
				c.Lost("more than one InheritIndex map of Labels implementations")
			}
			itemsFld, itemT = st.Field(i), mt.Elem()
		}
		if pt, ok := types.Unalias(mt.Elem()).(*types.Pointer); ok && types.Identical(types.Unalias(pt.Elem()), selT.Type()) {
			if selsFld != nil {
				c.Lost("more than one InheritIndex map of selectors")
			}
			selsFld = st.Field(i)
		}
	}
	if itemsFld == nil || selsFld == nil {
		c.Lost("InheritIndex item map (%v) / selector map (%v)", itemsFld, selsFld)
	}
	obj, _, _ := types.LookupFieldOrMethod(itemT, true, p.Pkg(c07IdxPkg).Types, "GetHandle")
	getFn, _ := obj.(*types.Func)
	getSSA := p.SSA.FuncValue(getFn)
	if getSSA == nil || getSSA.Blocks == nil {
		c.Lost("GetHandle of the InheritIndex item type")
	}
	// fields read by GetHandle (on any struct of this package)
	inputFields := map[*types.Var]bool{}
	for fn := range p.closure(getSSA) {
		if fn.Blocks == nil || fn.Pkg == nil || fn.Pkg.Pkg.Path() != calicoPrefix+c07IdxPkg {
			continue
		}
		allInstrs(fn, true, func(_ *ssa.Function, in ssa.Instruction) {
			switch x := in.(type) {
			case *ssa.FieldAddr:
				if addrIsRead(x) {
					inputFields[structField(x.X.Type(), x.Field)] = true
				}
			case *ssa.Field:
				inputFields[structField(x.X.Type(), x.Field)] = true
			}
		})
	}
	if len(inputFields) < 2 {
		c.Lost("fields read by %s.GetHandle (found %d)", namedTypeName(itemT), len(inputFields))
	}

	// which functions reach start / stop
	reachMemo := map[*ssa.Function][2]bool{}
	reaches := func(root *ssa.Function) (bool, bool) {
		if r, ok := reachMemo[root]; ok {
			return r[0], r[1]
		}
		var a, b bool
		for fn := range p.closure(root) {
			if starts[fn] {
				a = true
			}
			if stops[fn] {
				b = true
			}
		}
		reachMemo[root] = [2]bool{a, b}
		return a, b
	}
	callReach := func(ci ssa.CallInstruction) (bool, bool) {
		var a, b bool
		var roots []*ssa.Function
		if sf := calleeFn(ci.Common()); sf != nil {
			roots = append(roots, sf)
		}
		for _, arg := range ci.Common().Args {
			if mc, ok := arg.(*ssa.MakeClosure); ok {
				roots = append(roots, mc.Fn.(*ssa.Function))
			}
		}
		for _, r := range roots {
			x, y := reaches(r)
			a, b = a || x, b || y
		}
		return a, b
	}

	type write struct {
		in   ssa.Instruction
		what string
		kind string // "post" (needs start+stop after), "sel-set" (start+stop before or after), "sel-del" (stop before)
		key  string
	}
	for _, f := range m.funcs {
		if f.Parent() != nil || starts[f] || stops[f] {
			continue
		}
		var ws []write
		allInstrs(f, false, func(fn *ssa.Function, in ssa.Instruction) {
			switch x := in.(type) {
			case *ssa.MapUpdate:
				switch fieldVar(x.Map) {
				case itemsFld:
					ws = append(ws, write{in, itemsFld.Name() + "[..] = ..", "post", itemsFld.Name() + "/set"})
				case selsFld:
					ws = append(ws, write{in, selsFld.Name() + "[..] = ..", "sel-set", selsFld.Name() + "/set"})
				}
			case *ssa.Store:
				fa, ok := x.Addr.(*ssa.FieldAddr)
				if !ok {
					return
				}
				if _, fresh := fa.X.(*ssa.Alloc); fresh {
					return // initialising a new object (published by a map write)
				}
				fv := structField(fa.X.Type(), fa.Field)
				if inputFields[fv] && fv.Pkg() != nil && fv.Pkg().Path() == calicoPrefix+c07IdxPkg {
					ws = append(ws, write{in, namedTypeName(fa.X.Type()) + "." + fv.Name() + " = ..", "post", namedTypeName(fa.X.Type()) + "." + fv.Name() + "/set"})
				}
			default:
				if dc, ok := isBuiltinCall(in, "delete"); ok {
					switch fieldVar(dc.Args[0]) {
					case itemsFld:
						ws = append(ws, write{in, "delete(" + itemsFld.Name() + ", ..)", "post", itemsFld.Name() + "/delete"})
					case selsFld:
						ws = append(ws, write{in, "delete(" + selsFld.Name() + ", ..)", "sel-del", selsFld.Name() + "/delete"})
					}
				}
			}
		})
		if len(ws) == 0 {
			continue
		}
		pd := m.postdom(f)
		var calls []ssa.CallInstruction
		allInstrs(f, false, func(_ *ssa.Function, in ssa.Instruction) {
			if ci, ok := in.(ssa.CallInstruction); ok {
				calls = append(calls, ci)
			}
		})
		for _, w := range ws {
			ok := false
			for _, ci := range calls {
				a, b := callReach(ci)
				switch w.kind {
				case "post":
					if a && b && instrPostDominates(pd, ci, w.in) {
						ok = true
					}
				case "sel-set":
					if a && b && (instrPostDominates(pd, ci, w.in) || instrDominates(ci, w.in)) {
						ok = true
					}
				case "sel-del":
					if b && (instrReaches(ci, w.in) || instrPostDominates(pd, ci, w.in)) {
						ok = true
					}
				}
			}
			need := map[string]string{"post": "followed on every path by a call that re-evaluates (reaches both the start and the stop function)",
				"sel-set": "preceded or followed on every path by a call that re-evaluates the selector (reaches both the start and the stop function)",
				"sel-del": "preceded by a call that reaches the stop function"}[w.kind]
			c.Check(ok, fmt.Sprintf("C07.rescan/%s/%s", fnName(f), w.key), p.Pos(w.in.Pos()),
				w.what+" is "+need, fmt.Sprintf("%s in %s is not %s: the match relation goes stale", w.what, fnName(f), need))
		}
	}
}

// -------------------------------------------------------------- restrict --

func c07Restrict(c *Ctx, p *Prog) {
	pk := p.Pkg(c07ParserPkg)
	if pk == nil {
		c.Lost("package %s", c07ParserPkg)
	}
	nodeTN, _ := p.LookupObj(c07ParserPkg, "Node").(*types.TypeName)
	if nodeTN == nil {
		c.Lost("parser.Node")
	}
	nodeI, _ := nodeTN.Type().Underlying().(*types.Interface)
	if nodeI == nil {
		c.Lost("parser.Node is not an interface")
	}
	type impl struct {
		name string
		ptr  types.Type
		leaf bool
	}
	var impls []impl
	sc := pk.Types.Scope()
	for _, name := range sc.Names() {
		tn, ok := sc.Lookup(name).(*types.TypeName)
		if !ok || tn.IsAlias() {
			continue
		}
		named, ok := tn.Type().(*types.Named)
		if !ok {
			continue
		}
		if _, isI := named.Underlying().(*types.Interface); isI {
			continue
		}
		var t types.Type
		if types.Implements(named, nodeI) {
			t = named
		} else if types.Implements(types.NewPointer(named), nodeI) {
			t = types.NewPointer(named)
		} else {
			continue
		}
		leaf := true
		if st, ok := named.Underlying().(*types.Struct); ok {
			for i := 0; i < st.NumFields(); i++ {
				ft := st.Field(i).Type()
				if sl, ok := ft.Underlying().(*types.Slice); ok {
					ft = sl.Elem()
				}
				if types.Identical(ft, nodeTN.Type()) {
					leaf = false
				}
			}
		}
		impls = append(impls, impl{name, t, leaf})
	}
	sort.Slice(impls, func(i, j int) bool { return impls[i].name < impls[j].name })
	method := func(t types.Type, name string) *ssa.Function {
		obj, _, _ := types.LookupFieldOrMethod(t, true, pk.Types, name)
		f, _ := obj.(*types.Func)
		if f == nil {
			return nil
		}
		sf := p.SSA.FuncValue(f)
		if sf == nil || sf.Blocks == nil {
			return nil
		}
		return sf
	}
	summaries := map[string]c07EvalSummary{}
	keysOK := map[string]bool{}
	nLeaf := 0
	for _, im := range impls {
		if !im.leaf {
			continue
		}
		nLeaf++
		ev, lr := method(im.ptr, "Evaluate"), method(im.ptr, "LabelRestrictions")
		if ev == nil || lr == nil {
			c.Lost("%s.Evaluate / LabelRestrictions", im.name)
		}
		key := "C07.restrict/" + im.name
		site := p.Pos(lr.Pos())
		s := c07SummariseEvaluate(ev)
		if s.Problem != "" {
			c.Undecided(key, p.Pos(ev.Pos()), "cannot partially evaluate %s.Evaluate: %s", im.name, s.Problem)
			continue
		}
		summaries[im.name] = s
		entries, fromCalls, problem := c07SummariseRestrictions(lr)
		if problem != "" || len(fromCalls) > 0 {
			c.Undecided(key, site, "cannot summarise %s.LabelRestrictions: %s (maps from calls: %d)", im.name, problem, len(fromCalls))
			continue
		}
		var bad, und []string
		allKeyed := true
		for _, e := range entries {
			if e.KeyField == nil || e.KeyField != s.LabelField {
				allKeyed = false
			}
			if msg := c07EntrySound(s, e); strings.HasPrefix(msg, "undecided:") {
				und = append(und, msg)
			} else if msg != "" {
				bad = append(bad, msg)
			}
		}
		keysOK[im.name] = allKeyed
		lbl := "-"
		if s.LabelField != nil {
			lbl = "node." + s.LabelField.Name()
		}
		desc := fmt.Sprintf("Evaluate[label=%s]: absent→%s, present→%s; LabelRestrictions: %v", lbl, s.Absent, s.Present, entries)
		switch {
		case len(bad) > 0:
			c.Violate(key, site, "%s.LabelRestrictions can exclude an item that %s.Evaluate accepts: %s  (%s)", im.name, im.name, strings.Join(bad, "; "), desc)
		case len(und) > 0:
			c.Undecided(key, site, "%s (%s)", strings.Join(und, "; "), desc)
		default:
			c.Ok(key, site, "%s", desc)
		}
	}
	if nLeaf == 0 {
		c.Lost("no leaf implementations of parser.Node")
	}

	// NotNode: the only place MustBeAbsent may come from.
	c07RestrictNot(c, p, method, summaries, keysOK)
}

func c07RestrictNot(c *Ctx, p *Prog, method func(types.Type, string) *ssa.Function, summaries map[string]c07EvalSummary, keysOK map[string]bool) {
	tn, _ := p.LookupObj(c07ParserPkg, "NotNode").(*types.TypeName)
	if tn == nil {
		c.Lost("parser.NotNode")
	}
	ptr := types.NewPointer(tn.Type())
	ev, lr := method(ptr, "Evaluate"), method(ptr, "LabelRestrictions")
	if ev == nil || lr == nil {
		c.Lost("NotNode.Evaluate / LabelRestrictions")
	}
	key := "C07.restrict/NotNode"
	site := p.Pos(lr.Pos())
	// Evaluate must be exactly !Operand.Evaluate(labels)
	for _, r := range returnsOf(ev) {
		okNeg := false
		if u, ok := r.Results[0].(*ssa.UnOp); ok && u.Op == token.NOT {
			if call, ok := u.X.(*ssa.Call); ok && call.Common().IsInvoke() && call.Common().Method.Name() == "Evaluate" &&
				c07RecvField(ev, call.Common().Value) != nil && len(call.Common().Args) == 1 && call.Common().Args[0] == ev.Params[1] {
				okNeg = true
			}
		}
		if !okNeg {
			c.Undecided(key, p.Pos(ev.Pos()), "NotNode.Evaluate is not `!node.Operand.Evaluate(labels)`")
			return
		}
	}
	_, fromCalls, problem := c07SummariseRestrictions(lr)
	if problem != "" {
		c.Undecided(key, site, "cannot summarise NotNode.LabelRestrictions: %s", problem)
		return
	}
	var bad []string
	srcMaps := map[ssa.Value]string{} // map value -> operand type name
	for _, call := range fromCalls {
		cc := call.Common()
		f := calleeOf(cc)
		if f == nil || cc.IsInvoke() || f.Name() != "LabelRestrictions" || len(cc.Args) != 1 {
			c.Undecided(key, p.Pos(call.Pos()), "returned map comes from an unrecognised call")
			return
		}
		ex, ok := cc.Args[0].(*ssa.Extract)
		var ta *ssa.TypeAssert
		if ok && ex.Index == 0 {
			ta, _ = ex.Tuple.(*ssa.TypeAssert)
		}
		if ta == nil || !ta.CommaOk || c07RecvField(lr, ta.X) == nil {
			c.Undecided(key, p.Pos(call.Pos()), "restrictions are taken from something other than a type-asserted node.Operand")
			return
		}
		tname := namedTypeName(ta.AssertedType)
		srcMaps[call] = tname
		s, known := summaries[tname]
		if !known {
			bad = append(bad, fmt.Sprintf("operand type %s is not a summarised leaf", tname))
			continue
		}
		if !s.Present.isConst(true) {
			bad = append(bad, fmt.Sprintf("!%s is turned into MustBeAbsent, but %s.Evaluate returns %s (not constantly true) when the label is present, so a present label can still match the negation", tname, tname, s.Present))
		}
		if !keysOK[tname] {
			bad = append(bad, fmt.Sprintf("%s.LabelRestrictions is not keyed only by the label its Evaluate looks up", tname))
		}
		// the use of the asserted value must be under ok==true
		if !guardedCut(call, func(cond ssa.Value, pol bool) bool {
			e2, ok := cond.(*ssa.Extract)
			return ok && pol && e2.Index == 1 && e2.Tuple == ta
		}) {
			bad = append(bad, "operand restrictions used without the type assertion having succeeded")
		}
	}
	// every write into those maps: key ranges over the same map, value is {MustBeAbsent:true} only
	nUpd := 0
	allInstrs(lr, true, func(fn *ssa.Function, in ssa.Instruction) {
		mu, ok := in.(*ssa.MapUpdate)
		if !ok {
			return
		}
		tname, ours := srcMaps[mu.Map]
		if !ours {
			return
		}
		nUpd++
		// key = extract #1 of next(range(sameMap))
		keyOK := false
		if ex, ok := mu.Key.(*ssa.Extract); ok && ex.Index == 1 {
			if nx, ok := ex.Tuple.(*ssa.Next); ok {
				if rg, ok := nx.Iter.(*ssa.Range); ok && rg.X == mu.Map {
					keyOK = true
				}
			}
		}
		if !keyOK {
			bad = append(bad, "map key written is not a key of the operand's own restrictions")
		}
		litOK := false
		if ld, ok := mu.Value.(*ssa.UnOp); ok && ld.Op == token.MUL {
			if al, ok := ld.X.(*ssa.Alloc); ok {
				fs := literalFieldStores(al)
				litOK = c07ConstBoolStores(fs["MustBeAbsent"]) == "true" && len(fs["MustBePresent"]) == 0 && len(fs["MustHaveOneOfValues"]) == 0 && len(fs) == 1
			}
		}
		if !litOK {
			bad = append(bad, fmt.Sprintf("value written for !%s is not exactly LabelRestriction{MustBeAbsent: true}", tname))
		}
	})
	if len(fromCalls) > 0 && nUpd == 0 {
		bad = append(bad, "operand restrictions (MustBePresent) are returned unchanged for the negation")
	}
	c.Check(len(bad) == 0, key, site,
		fmt.Sprintf("NotNode.Evaluate = !Operand.Evaluate; MustBeAbsent derived only from operand types %v whose Evaluate is constantly true when the label is present", sortedVals(srcMaps)),
		"NotNode.LabelRestrictions can exclude an item that NotNode.Evaluate accepts: "+strings.Join(bad, "; "))
}

func sortedVals(m map[ssa.Value]string) []string {
	var out []string
	for _, v := range m {
		out = append(out, v)
	}
	sort.Strings(out)
	return out
}

// --------------------------------------------------------------- combine --

func c07Combine(c *Ctx, p *Prog) {
	pk := p.Pkg(c07ParserPkg)
	nodeTN, _ := p.LookupObj(c07ParserPkg, "Node").(*types.TypeName)
	lrTN, _ := p.LookupObj(c07ParserPkg, "LabelRestriction").(*types.TypeName)
	if pk == nil || nodeTN == nil || lrTN == nil {
		c.Lost("parser.Node / parser.LabelRestriction")
	}
	lrST, _ := lrTN.Type().Underlying().(*types.Struct)
	nodeI, _ := nodeTN.Type().Underlying().(*types.Interface)
	if lrST == nil || nodeI == nil {
		c.Lost("parser.LabelRestriction is not a struct / parser.Node is not an interface")
	}
	if lrST.NumFields() == 0 || lrST.NumFields() > 8 {
		c.Lost("parser.LabelRestriction has %d fields (the combination check enumerates 4^fields cases)", lrST.NumFields())
	}
	method := func(t types.Type, name string) *ssa.Function {
		obj, _, _ := types.LookupFieldOrMethod(t, true, pk.Types, name)
		f, _ := obj.(*types.Func)
		if f == nil {
			return nil
		}
		sf := p.SSA.FuncValue(f)
		if sf == nil || sf.Blocks == nil {
			return nil
		}
		return sf
	}
	// composite node types: a struct with a []Node field
	type comp struct {
		name string
		ptr  types.Type
		fld  *types.Var
	}
	var comps []comp
	sc := pk.Types.Scope()
	for _, name := range sc.Names() {
		tn, ok := sc.Lookup(name).(*types.TypeName)
		if !ok || tn.IsAlias() {
			continue
		}
		st, ok := tn.Type().Underlying().(*types.Struct)
		if !ok || !(types.Implements(tn.Type(), nodeI) || types.Implements(types.NewPointer(tn.Type()), nodeI)) {
			continue
		}
		for i := 0; i < st.NumFields(); i++ {
			if sl, ok := st.Field(i).Type().Underlying().(*types.Slice); ok && types.Identical(sl.Elem(), nodeTN.Type()) {
				comps = append(comps, comp{name, types.NewPointer(tn.Type()), st.Field(i)})
			}
		}
	}
	if len(comps) == 0 {
		c.Lost("no Node implementation with a []Node operand list")
	}
	for _, cm := range comps {
		ev, lr := method(cm.ptr, "Evaluate"), method(cm.ptr, "LabelRestrictions")
		if ev == nil || lr == nil {
			c.Lost("%s.Evaluate / LabelRestrictions", cm.name)
		}
		site := p.Pos(lr.Pos())
		keyOf := func(i int) string { return "C07.combine/" + cm.name + "/" + lrST.Field(i).Name() }
		allUndecided := func(format string, a ...any) {
			for i := 0; i < lrST.NumFields(); i++ {
				c.Undecided(keyOf(i), site, format, a...)
			}
		}
		// ---- disjunction or conjunction?  From Evaluate's short-circuit return.
		isOperandEval := func(cs CallSite) bool {
			cc := cs.Common()
			return cc.IsInvoke() && cc.Method.Name() == "Evaluate" && types.Identical(cc.Value.Type(), nodeTN.Type())
		}
		var shortTrue, shortFalse, otherTrue, otherFalse, odd int
		for _, r := range returnsOf(ev) {
			cv, ok := constOf(r.Results[0])
			if len(r.Results) != 1 || !ok || cv.Kind() != constant.Bool {
				odd++
				continue
			}
			b := constant.BoolVal(cv)
			switch {
			case b && guardedCut(r, callCond(true, isOperandEval)):
				shortTrue++
			case !b && guardedCut(r, callCond(false, isOperandEval)):
				shortFalse++
			case b:
				otherTrue++
			default:
				otherFalse++
			}
		}
		var disj bool
		switch {
		case odd == 0 && shortTrue > 0 && shortFalse == 0 && otherTrue == 0 && otherFalse > 0:
			disj = true
		case odd == 0 && shortFalse > 0 && shortTrue == 0 && otherFalse == 0 && otherTrue > 0:
			disj = false
		default:
			allUndecided("%s.Evaluate is neither `true as soon as one operand is true, else false` nor `false as soon as one operand is false, else true`", cm.name)
			continue
		}
		kind := map[bool]string{true: "disjunction", false: "conjunction"}[disj]
		// ---- the accumulated maps: whatever LabelRestrictions returns
		result := map[ssa.Value]bool{}
		bad := ""
		for _, ret := range returnsOf(lr) {
			for _, o := range origins(ret.Results[0], nil) {
				switch x := o.V.(type) {
				case *ssa.Const:
					if x.Value != nil {
						bad = "non-nil constant returned"
					}
				case *ssa.MakeMap:
					result[x] = true
				case *ssa.Call:
					if x.Common().IsInvoke() && x.Common().Method.Name() == "LabelRestrictions" {
						result[x] = true
					} else if c07ReturnsOperandMap(x, 0) {
						// an in-package helper that hands back an operand's restrictions / a fresh map
						result[x] = true
					} else {
						bad = "returned map comes from " + path(x)
					}
				default:
					bad = fmt.Sprintf("returned map has an origin that is not a map literal, nil or an operand's restrictions (%T)", o.V)
				}
			}
		}
		if bad != "" || len(result) == 0 {
			allUndecided("%s.LabelRestrictions: %s", cm.name, bad)
			continue
		}
		// ---- merge loops: in LabelRestrictions itself and in the in-package helpers
		// it hands the accumulated map to (their parameters classified from the call)
		perField := map[int][]string{}
		unsure := map[int][]string{}
		nLoops := 0
		hosts := c07CombHosts(lr, lrST, result, disj)
		for _, h := range hosts {
			h := h
			allInstrs(h.fn, false, func(_ *ssa.Function, in ssa.Instruction) {
				nx, ok := in.(*ssa.Next)
				if !ok || nx.IsString {
					return
				}
				rg, ok := nx.Iter.(*ssa.Range)
				if !ok {
					return
				}
				cb := c07NewComb(h.fn, lrST, result, disj, h.class)
				entry := cb.classifyMap(rg.X)
				if entry < 0 {
					return
				}
				for _, r := range *nx.Referrers() {
					if ex, ok := r.(*ssa.Extract); ok && ex.Index == 1 {
						cb.key = ex
					}
				}
				// does the body write the accumulated map (itself or through a helper it is handed to)?
				head := nx.Block()
				writes := false
				seen := map[*ssa.BasicBlock]bool{head: true}
				st := []*ssa.BasicBlock{head.Succs[0]}
				for len(st) > 0 {
					b := st[len(st)-1]
					st = st[:len(st)-1]
					if seen[b] {
						continue
					}
					seen[b] = true
					for _, bi := range b.Instrs {
						if mu, ok := bi.(*ssa.MapUpdate); ok && cb.classifyMap(mu.Map) == 0 {
							writes = true
						}
						if dc, ok := isBuiltinCall(bi, "delete"); ok && cb.classifyMap(dc.Args[0]) == 0 {
							writes = true
						}
						if call, ok := bi.(*ssa.Call); ok && cb.inPkgHelper(call) != nil && c07WritesVia(cb, call, 0) {
							writes = true
						}
					}
					st = append(st, b.Succs...)
				}
				if !writes {
					return
				}
				nLoops++
				if cb.key == nil {
					unsure[-1] = append(unsure[-1], "the merge loop does not bind the label (map key) it merges")
					return
				}
				for _, f := range cb.run(nx, entry) {
					if f.unsure {
						unsure[f.field] = append(unsure[f.field], f.text)
					} else {
						perField[f.field] = append(perField[f.field], f.text)
					}
				}
			})
		}
		if nLoops == 0 {
			allUndecided("%s.LabelRestrictions has no `for label, r := range <restrictions>` loop that writes the returned map", cm.name)
			continue
		}
		for i := 0; i < lrST.NumFields(); i++ {
			fname := lrST.Field(i).Name()
			switch {
			case len(perField[i]) > 0:
				why := "matches when ANY operand matches, so a restriction may only be kept if EVERY operand imposes it"
				if !disj {
					why = "may only carry restrictions that one of its operands imposes"
				}
				sort.Slice(perField[i], func(a, b int) bool { return len(perField[i][a]) < len(perField[i][b]) })
				first := perField[i][0]
				if n := len(perField[i]) - 1; n > 0 {
					first += fmt.Sprintf(" (and on %d more path(s))", n)
				}
				c.Violate(keyOf(i), site, "%s.LabelRestrictions over-restricts %s: %s. %s.Evaluate is a %s and %s; the summary excludes items the selector matches (with a contradictory restriction the selector is never indexed at all)",
					cm.name, fname, first, cm.name, kind, why)
			case len(unsure[i]) > 0 || len(unsure[-1]) > 0:
				c.Undecided(keyOf(i), site, "%s.LabelRestrictions (%s): %s", cm.name, kind, strings.Join(append(unsure[i], unsure[-1]...), "; "))
			default:
				c.Ok(keyOf(i), site, "%s is a %s; on every path of %d merge loop(s) %s is kept only when justified by %s", cm.name, kind, nLoops, fname,
					map[bool]string{true: "both entries", false: "one of the entries"}[disj])
			}
		}
		// ---- a disjunction must merge every operand
		if disj {
			key := "C07.combine/" + cm.name + "/operands"
			covered0, lowMax, nCalls, odd2 := false, int64(-1), 0, ""
			for _, oc := range c07OperandCalls(lr) {
				nCalls++
				ld, ok := oc.(*ssa.UnOp)
				var ia *ssa.IndexAddr
				if ok {
					ia, _ = ld.X.(*ssa.IndexAddr)
				}
				if ia == nil {
					odd2 = "an operand is not taken from the operand list by index/range"
					continue
				}
				switch base := ia.X.(type) {
				case *ssa.Slice:
					if fieldVar(base.X) != cm.fld {
						odd2 = "operands are ranged from something other than node." + cm.fld.Name()
						continue
					}
					low := int64(0)
					if base.Low != nil {
						cv, ok := constOf(base.Low)
						if !ok {
							odd2 = "operand sub-slice has a non-constant lower bound"
							continue
						}
						low, _ = constant.Int64Val(cv)
					}
					if base.High != nil {
						odd2 = "operand sub-slice has an upper bound"
					}
					if low > lowMax {
						lowMax = low
					}
				default:
					if fieldVar(ia.X) != cm.fld {
						odd2 = "operands are taken from something other than node." + cm.fld.Name()
						continue
					}
					if cv, ok := constOf(ia.Index); ok {
						if iv, _ := constant.Int64Val(cv); iv == 0 {
							covered0 = true
						}
					} else if lowMax < 0 {
						lowMax = 0 // ranged over the whole list
					}
				}
			}
			switch {
			case nCalls == 0:
				c.Undecided(key, site, "%s.LabelRestrictions never asks an operand for its restrictions", cm.name)
			case odd2 != "":
				c.Undecided(key, site, "%s.LabelRestrictions: %s", cm.name, odd2)
			default:
				good := lowMax == 0 || (lowMax == 1 && covered0)
				c.Check(good, key, site,
					fmt.Sprintf("restrictions of operand 0 (%v) and of operands[%d:] are merged", covered0, lowMax),
					fmt.Sprintf("%s.LabelRestrictions merges operand 0: %v and operands[%d:] only: an operand that is left out cannot veto a restriction, so the summary of the disjunction may exclude items that operand matches", cm.name, covered0, lowMax))
			}
		}
	}
}
