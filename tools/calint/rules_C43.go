package main

import (
	"fmt"
	"go/constant"
	"go/token"
	"go/types"
	"sort"
	"strings"

	"golang.org/x/tools/go/ssa"
)

func init() {
	register(&Property{
		ID:        "C43",
		Title:     "Cluster routes take the path their pool's encapsulation requires",
		Technique: "static analysis: value provenance of the SameSubnet flag (phi/const webs), cut-set guards on the no-encap/blackhole decisions, cut-set reachability of the node-address fallback, list/route-class pairing (go/ssa over felix/calc and felix/dataplane/linux)",
		DesignRef: "DESIGN.md §3 C43",
		Explanation: "Decides: (samesubnet) every store of RouteUpdate.SameSubnet is `poolFlag && nodeInOurSubnet(rt.DstNodeName,…)` where poolFlag becomes true only under Pool.CrossSubnet, nodeInOurSubnet answers true only through <our node's CIDR>.Contains(<named node's address>), and the pool's CrossSubnet flag tests every encap-mode field of the IP pool against encap.CrossSubnet; " +
			"(noencap) routeManager.noEncapRoute returns a target only under ippoolType==NO_ENCAP or SameSubnet, with a known DstNodeIp which is the gateway, type no-encap; updateRoutes asks the tunnel function only when noEncapRoute returned nil and hands the no-encap list to the same-subnet route class and the tunnel list to the tunnel class; " +
			"(localblock) routeIsLocalBlock can return true only for LOCAL_WORKLOAD routes of the manager's pool type that are not a local workload's own address and not a /32 (/128) route; blackhole routes are computed from the map filled only under routeIsLocalBlock; " +
			"(fallback) in every function of felix/calc that inspects a node's Spec.BGP and reaches resources.FindNodeAddress (route resolver, host-metadata passthru and its address helper), the InternalIP/ExternalIP fallback of each IP version is reachable for a node whose BGP spec is present but has no IPv4/IPv6 address (not cut off by `BGP == nil` or `BGP address != \"\"` edges), so the owning node's address (DstNodeIp, same-subnet test) is not lost for such nodes.",
		NotDecided: "Which CIDRs/trie entries the resolver walks for a destination, the order-independence of the resolver's recomputation (dirty-CIDR marking), the tunnel route functions of the vxlan/ipip managers (VTEP lookup), routetable's reconciliation.",
		Assumptions: []string{
			"go/types + go/ssa (x/tools v0.50.0) model of the current source, CGO_ENABLED=0 build",
			"ip.V4CIDR.ContainsV4 / V6CIDR.ContainsV6 are prefix membership",
			"proto.RouteUpdate.GetSameSubnet is the generated getter of field SameSubnet",
		},
		Run: runC43,
		Fixtures: []Fixture{
			{Name: "seeded C43-1 shape: the IPv6 re-evaluation trigger compares the IPv4 CIDRs", File: "felix/calc/l3_route_resolver.go",
				Old: "\t\tif oldNodeInfo.V6CIDR != myNewV6CIDR {\n", New: "\t\tif oldNodeInfo.V4CIDR != myNewV4CIDR {\n", Expect: "C43.twin/L3RouteResolver.onNodeUpdate"},
			{Name: "seeded C43-4 shape: route resolver takes the BGP branch whenever a BGP spec exists", File: "felix/calc/l3_route_resolver.go",
				Old: "\t\tif node.Spec.BGP != nil && (node.Spec.BGP.IPv4Address != \"\" || node.Spec.BGP.IPv6Address != \"\") {\n", New: "\t\tif node.Spec.BGP != nil {\n", Expect: "C43.fallback/L3RouteResolver.OnResourceUpdate"},
			{Name: "host-metadata address helper gives up when a BGP spec exists but holds no address", File: "felix/calc/dataplane_passthru.go",
				Old: "\t\t\t}).Warn(\"Ignoring Node BGP address: not a CIDR\")\n\t\t}\n\t}\n", New: "\t\t\t}).Warn(\"Ignoring Node BGP address: not a CIDR\")\n\t\t}\n\t\treturn \"\"\n\t}\n", Expect: "C43.fallback/extractNodeAddress"},
			{Name: "passthru only consults the address helper for nodes without a BGP spec", File: "felix/calc/dataplane_passthru.go",
				Old: "\tinfo := &HostInfo{\n\t\tlabels:  node.Labels,\n\t\tip4Addr: extractNodeAddress(node, 4),\n\t\tip6Addr: extractNodeAddress(node, 6),\n\t}\n",
				New: "\tinfo := &HostInfo{labels: node.Labels}\n\tif bgpSpec == nil {\n\t\tinfo.ip4Addr = extractNodeAddress(node, 4)\n\t\tinfo.ip6Addr = extractNodeAddress(node, 6)\n\t} else {\n\t\tinfo.ip4Addr, info.ip6Addr = bgpSpec.IPv4Address, bgpSpec.IPv6Address\n\t}\n", Expect: "C43.fallback/DataplanePassthru.processKindNode"},
			{Name: "same-subnet is pool flag OR node-in-subnet", File: "felix/calc/l3_route_resolver.go",
				Old: "rt.SameSubnet = poolAllowsCrossSubnet && c.nodeInOurSubnet(rt.DstNodeName, ipFamily)", New: "rt.SameSubnet = poolAllowsCrossSubnet || c.nodeInOurSubnet(rt.DstNodeName, ipFamily)", Expect: "C43.samesubnet/store"},
			{Name: "cross-subnet flag also set for always-encapsulated pools", File: "felix/calc/l3_route_resolver.go",
				Old: "\t\t\t\tif ri.Pools[0].CrossSubnet {\n", New: "\t\t\t\tif ri.Pools[0].CrossSubnet || ri.Pools[0].NATOutgoing {\n", Expect: "C43.samesubnet/store"},
			{Name: "subnet test inverted (their CIDR contains our address)", File: "felix/calc/l3_route_resolver.go",
				Old: "localNodeInfo.V4CIDR.ContainsV4(nodeInfo.V4Addr)", New: "nodeInfo.V4CIDR.ContainsV4(localNodeInfo.V4Addr)", Expect: "C43.samesubnet/nodeInOurSubnet"},
			{Name: "VXLAN cross-subnet pools not recognised", File: "felix/calc/l3_route_resolver.go",
				Old: "CrossSubnet: v1Pool.IPIPMode == encap.CrossSubnet || v1Pool.VXLANMode == encap.CrossSubnet,", New: "CrossSubnet: v1Pool.IPIPMode == encap.CrossSubnet,", Expect: "C43.samesubnet/pool-flag"},
			{Name: "direct route for encapsulated pool outside our subnet", File: "felix/dataplane/linux/route_mgr.go",
				Old: "\tif m.ippoolType != proto.IPPoolType_NO_ENCAP && !r.GetSameSubnet() {\n\t\treturn nil\n\t}\n", New: "", Expect: "C43.noencap/guard"},
			{Name: "tunnel route preferred over direct route", File: "felix/dataplane/linux/route_mgr.go",
				Old: "\t\tif noEncapRoute := m.noEncapRoute(cidr, r); noEncapRoute != nil {\n\t\t\t// We've got everything we need to program this route as a no-encap route.\n\t\t\tnoEncapRoutes = append(noEncapRoutes, *noEncapRoute)\n\t\t\tlogCtx.WithField(\"route\", r).Debug(\"Destination in same subnet, using no-encap route.\")\n\t\t} else if tunnelRoute := m.tunnelRouteFn(cidr, r); tunnelRoute != nil {",
				New: "\t\tif noEncapRoute := m.noEncapRoute(cidr, r); noEncapRoute != nil {\n\t\t\t// We've got everything we need to program this route as a no-encap route.\n\t\t\tnoEncapRoutes = append(noEncapRoutes, *noEncapRoute)\n\t\t\tlogCtx.WithField(\"route\", r).Debug(\"Destination in same subnet, using no-encap route.\")\n\t\t}\n\t\tif tunnelRoute := m.tunnelRouteFn(cidr, r); tunnelRoute != nil {", Expect: "C43.noencap/exclusive"},
			{Name: "blackhole may cover a local workload's own address", File: "felix/dataplane/linux/route_mgr.go",
				Old: "\t// Ignore routes that we know are from local workload endpoints.\n\tif msg.LocalWorkload {\n\t\treturn false\n\t}\n", New: "", Expect: "C43.localblock/guard/LocalWorkload"},
			{Name: "exact /32 routes treated as blocks", File: "felix/dataplane/linux/route_mgr.go",
				Old: "\treturn !strings.HasSuffix(msg.Dst, exactRoute)", New: "\treturn strings.HasSuffix(msg.Dst, exactRoute) || true", Expect: "C43.localblock/not-exact"},
		},
	})
	dplinuxFixtureFilter(registry["C43"])
}

type c43 struct {
	c *Ctx
	p *Prog
}

func runC43(c *Ctx) {
	p := c.Load(calcPkg, c44Pkg)
	x := &c43{c, p}
	c.Rule("C43.samesubnet", "E-FLOW/E-GUARD", "RouteUpdate.SameSubnet = poolFlag(true only under Pool.CrossSubnet) && nodeInOurSubnet(rt.DstNodeName); nodeInOurSubnet true only via ourCIDR.Contains(theirAddr); pool flag tests every encap.Mode field of the pool", 3)
	c.Rule("C43.noencap", "E-GUARD/E-FLOW", "noEncapRoute non-nil only under NO_ENCAP||SameSubnet with DstNodeIp as gateway; tunnel function consulted only if it returned nil; lists go to their route classes", 5)
	c.Rule("C43.localblock", "E-GUARD", "routeIsLocalBlock true only for LOCAL_WORKLOAD, matching pool type, not LocalWorkload, not /32|/128; localIPAMBlocks filled only under it and is the source of blackhole routes", 6)
	c.Rule("C43.fallback", "E-GUARD (reachability)", "felix/calc: wherever a node's host address is derived from Spec.BGP with the Spec.Addresses fallback (resources.FindNodeAddress, directly or through a helper), the fallback for each IP version stays reachable for a node whose BGP spec is present but carries no IPv4/IPv6 address: some fallback call is reachable without crossing an `BGP == nil` edge or a `BGP.IPv4Address/IPv6Address != \"\"` edge", 5)
	x.sameSubnet()
	x.noEncap()
	x.localBlock()
	x.fallback()
	// Shared disciplines implemented in other properties' files, armed here under C43's id:
	// the IPv4/IPv6 twin blocks of the route resolver (a v6 block testing v4 fields leaves IPv6 routes
	// with a stale same-subnet flag), and the shared route manager retracting what it held for a
	// destination before re-filing it (else a route whose pool changed encapsulation keeps its old path).
	c.Rule("C43.twin", "E-PAIR", "IPv4/IPv6 twin blocks in felix/calc (L3 route resolver and siblings) substitute every identifier that has a V6 twin (c01Twin)", 17)
	c.Alias("C01.twin", "C43.twin", func() { c01Twin(c, p) })
	c.Rule("C43.retract", "E-GUARD/E-ORDER", "the IPIP/VXLAN/no-encap route manager forgets the destination of a RouteUpdate/RouteRemove before re-filing it, keyed by Dst only (c28Retract)", 7)
	c.Alias("C28.retract", "C43.retract", func() { c28Retract(c, p) })
}

// c43Web walks phi edges from v and returns the non-phi leaves with the predecessor block of the edge they arrive on.
type c43Leaf struct {
	v    ssa.Value
	pred *ssa.BasicBlock // predecessor block of the phi edge the leaf arrives on
	to   *ssa.BasicBlock // block of that phi
}

func c43Leaves(v ssa.Value) []c43Leaf {
	var out []c43Leaf
	seen := map[ssa.Value]bool{}
	var walk func(v ssa.Value, pred, to *ssa.BasicBlock)
	walk = func(v ssa.Value, pred, to *ssa.BasicBlock) {
		if phi, ok := v.(*ssa.Phi); ok {
			if seen[v] {
				return
			}
			seen[v] = true
			for i, e := range phi.Edges {
				walk(e, phi.Block().Preds[i], phi.Block())
			}
			return
		}
		out = append(out, c43Leaf{v, pred, to})
	}
	walk(v, nil, nil)
	return out
}

func c43IsBoolConst(v ssa.Value, want bool) bool {
	cv, ok := constOf(v)
	return ok && cv.ExactString() == fmt.Sprint(want)
}

// c43Root strips field selections, loads, extracts and single-store local allocs.
func c43Root(v ssa.Value) ssa.Value {
	for i := 0; i < 12; i++ {
		switch y := v.(type) {
		case *ssa.Field:
			v = y.X
		case *ssa.FieldAddr:
			v = y.X
		case *ssa.Extract:
			v = y.Tuple
		case *ssa.Alloc:
			var st *ssa.Store
			n := 0
			for _, r := range *y.Referrers() {
				if s, ok := r.(*ssa.Store); ok && s.Addr == ssa.Value(y) {
					st = s
					n++
				}
			}
			if n != 1 {
				return v
			}
			v = st.Val
		case *ssa.UnOp:
			if y.Op != token.MUL {
				return v
			}
			if al, ok := y.X.(*ssa.Alloc); ok {
				var st *ssa.Store
				n := 0
				for _, r := range *al.Referrers() {
					if s, ok := r.(*ssa.Store); ok && s.Addr == ssa.Value(al) {
						st = s
						n++
					}
				}
				if n != 1 {
					return v
				}
				v = st.Val
			} else {
				v = y.X
			}
		default:
			return v
		}
	}
	return v
}

// blockGuarded: the edge/predecessor block is only reachable under pred.
func c43BlockGuarded(b *ssa.BasicBlock, pred EdgePred) bool {
	if b == nil || len(b.Instrs) == 0 {
		return false
	}
	return guardedCut(b.Instrs[0], pred)
}

// c43PhiAware lifts an edge predicate to conditions that are boolean phi webs
// (`d := a || b; if d {…}`, `d := false; if a { d = true }`): the condition being
// true is accepted if every way the web can become true is accepted by pred —
// a non-constant leaf must itself be accepted, a constant-true leaf must arrive
// over an If edge accepted by pred (or from a block only reachable under pred).
func c43PhiAware(pred EdgePred) EdgePred {
	return func(cond ssa.Value, pol bool) bool {
		if pred(cond, pol) {
			return true
		}
		phi, ok := cond.(*ssa.Phi)
		if !ok || !pol {
			return false
		}
		n := 0
		for _, l := range c43Leaves(phi) {
			if c43IsBoolConst(l.v, false) {
				continue
			}
			n++
			if c43IsBoolConst(l.v, true) {
				if l.pred == nil || !c43EdgeAccepted(l.pred, l.to, pred) {
					return false
				}
				continue
			}
			if !pred(l.v, true) {
				return false
			}
		}
		return n > 0
	}
}

// c43EdgeAccepted: the CFG edge pb->to is an If edge accepted by pred, or pb is
// reachable only under pred.
func c43EdgeAccepted(pb, to *ssa.BasicBlock, pred EdgePred) bool {
	if len(pb.Instrs) == 0 {
		return false
	}
	last := pb.Instrs[len(pb.Instrs)-1]
	if ifi, ok := last.(*ssa.If); ok && len(pb.Succs) == 2 && pb.Succs[0] != pb.Succs[1] {
		for idx, sb := range pb.Succs {
			if sb != to {
				continue
			}
			if cc, cp := stripNot(ifi.Cond, idx == 0); pred(cc, cp) {
				return true
			}
		}
	}
	return guardedCut(last, pred)
}

func (x *c43) sameSubnet() {
	c, p := x.c, x.p
	ssF, _ := p.LookupExt("felix/proto", "RouteUpdate.SameSubnet").(*types.Var)
	dnF, _ := p.LookupExt("felix/proto", "RouteUpdate.DstNodeName").(*types.Var)
	csF, _ := p.LookupObj(calcPkg, "Pool.CrossSubnet").(*types.Var)
	nios := p.Func(calcPkg, "L3RouteResolver.nodeInOurSubnet")
	if ssF == nil || dnF == nil || csF == nil || nios == nil {
		c.Lost("RouteUpdate.SameSubnet / DstNodeName / calc.Pool.CrossSubnet / nodeInOurSubnet")
	}
	underPoolFlag := func(cond ssa.Value, pol bool) bool { return pol && fieldVar(cond) == csF }
	// NB: flush() ranges over an iterator, so its body is a synthetic closure that
	// Prog.AllFuncs() skips: enumerate methods with their closures instead.
	resolverFuncs := withClosures(p.methodsOf(calcPkg, "L3RouteResolver"))
	if len(resolverFuncs) == 0 {
		c.Lost("methods of L3RouteResolver")
	}
	n := 0
	for _, f := range resolverFuncs {
		for _, st := range storesToField(f, false, "RouteUpdate", "SameSubnet") {
			if fieldVar(st.Addr) != ssF {
				continue
			}
			n++
			key := "C43.samesubnet/store/" + fnName(f)
			site := p.Pos(st.Pos())
			rt := st.Addr.(*ssa.FieldAddr).X
			bad := ""
			nCalls := 0
			for _, lf := range c43Leaves(st.Val) {
				if c43IsBoolConst(lf.v, false) {
					continue
				}
				call, ok := lf.v.(*ssa.Call)
				if !ok || calleeFn(call.Common()) != nios {
					bad = "it can take the value " + path(lf.v) + ", which is not nodeInOurSubnet(…)"
					continue
				}
				nCalls++
				if b := c44FieldLoad(call.Call.Args[1], dnF); b == nil || b != rt {
					bad = "nodeInOurSubnet is asked about " + path(call.Call.Args[1]) + ", not the route's DstNodeName"
				}
				// the call is reachable only when the pool flag is true; the flag is true only under Pool.CrossSubnet
				flagOK := guardedCut(call, func(cond ssa.Value, pol bool) bool {
					if !pol {
						return false
					}
					if underPoolFlag(cond, pol) {
						return true
					}
					leaves := c43Leaves(cond)
					if _, isPhi := cond.(*ssa.Phi); !isPhi {
						return false
					}
					for _, l := range leaves {
						if c43IsBoolConst(l.v, false) {
							continue
						}
						if !c43IsBoolConst(l.v, true) || !c43BlockGuarded(l.pred, underPoolFlag) {
							return false
						}
					}
					return true
				})
				if !flagOK {
					bad = "nodeInOurSubnet's answer is used without the pool's CrossSubnet flag being required"
				}
			}
			if nCalls == 0 && bad == "" {
				bad = "it never depends on nodeInOurSubnet"
			}
			c.Check(bad == "", key, site, "SameSubnet = (flag true only under Pool.CrossSubnet) && nodeInOurSubnet(rt.DstNodeName, …)",
				"RouteUpdate.SameSubnet is not `pool allows cross-subnet && owning node in our subnet`: "+bad)
		}
	}
	if n == 0 {
		c.Lost("no store to RouteUpdate.SameSubnet in felix/calc")
	}

	// nodeInOurSubnet: true only via ourCIDR.Contains(theirAddr)
	myName, _ := p.LookupObj(calcPkg, "L3RouteResolver.myNodeName").(*types.Var)
	if myName == nil || len(nios.Params) < 2 {
		c.Lost("L3RouteResolver.myNodeName / nodeInOurSubnet params")
	}
	bad := ""
	nContains := 0
	for _, r := range returnsOf(nios) {
		for _, lf := range c43Leaves(r.Results[0]) {
			if c43IsBoolConst(lf.v, false) {
				continue
			}
			call, ok := lf.v.(*ssa.Call)
			cal := (*types.Func)(nil)
			if ok {
				cal = calleeOf(call.Common())
			}
			if cal == nil || !strings.HasPrefix(cal.Name(), "Contains") {
				bad = "it can return " + path(lf.v) + ", which is not a CIDR containment test"
				continue
			}
			nContains++
			args := CallSite{Instr: call, Callee: cal}.Args()
			recvLk, _ := c43Root(args[0]).(*ssa.Lookup)
			argLk, _ := c43Root(args[1]).(*ssa.Lookup)
			if recvLk == nil || fieldVar(recvLk.Index) != myName {
				bad = cal.Name() + "'s receiver " + path(args[0]) + " is not the CIDR of our own node (nodeNameToNodeInfo[myNodeName])"
			} else if argLk == nil || c44Strip(argLk.Index) != ssa.Value(nios.Params[1]) {
				bad = cal.Name() + "'s argument " + path(args[1]) + " is not the address of the node named by the parameter"
			}
		}
	}
	if nContains == 0 && bad == "" {
		bad = "it never tests containment"
	}
	c.Check(bad == "", "C43.samesubnet/nodeInOurSubnet", p.Pos(nios.Pos()), fmt.Sprintf("true only via ourCIDR.Contains(theirAddr) (%d tests)", nContains), "nodeInOurSubnet: "+bad)

	// pool flag: every encap.Mode field of the pool is compared with encap.CrossSubnet
	pcs, _ := p.LookupObj(calcPkg, "l3rrPoolInfo.CrossSubnet").(*types.Var)
	xs, _ := p.LookupExt("libcalico-go/lib/backend/encap", "CrossSubnet").(*types.Const)
	pool, _ := p.LookupExt("libcalico-go/lib/backend/model", "IPPool").(*types.TypeName)
	if pcs == nil || xs == nil || pool == nil {
		c.Lost("l3rrPoolInfo.CrossSubnet / encap.CrossSubnet / model.IPPool")
	}
	var modeFields []string
	pst, _ := pool.Type().Underlying().(*types.Struct)
	for i := 0; i < pst.NumFields(); i++ {
		if qualTypeName(pst.Field(i).Type()) == "libcalico-go/lib/backend/encap.Mode" {
			modeFields = append(modeFields, pst.Field(i).Name())
		}
	}
	if len(modeFields) == 0 {
		c.Lost("model.IPPool has no encap.Mode field")
	}
	nst := 0
	for _, f := range resolverFuncs {
		for _, st := range storesToField(f, false, "l3rrPoolInfo", "CrossSubnet") {
			if fieldVar(st.Addr) != pcs {
				continue
			}
			nst++
			tested := map[string]bool{}
			other := ""
			var visit func(v ssa.Value)
			visit = func(v ssa.Value) {
				bo, ok := v.(*ssa.BinOp)
				if !ok || bo.Op != token.EQL {
					if !c43IsBoolConst(v, true) && !c43IsBoolConst(v, false) {
						other = path(v)
					}
					return
				}
				for _, pr := range [][2]ssa.Value{{bo.X, bo.Y}, {bo.Y, bo.X}} {
					if cv, ok := constOf(pr[1]); ok && cv.ExactString() == xs.Val().ExactString() {
						if fv := fieldVar(pr[0]); fv != nil {
							tested[fv.Name()] = true
						}
					}
				}
			}
			for _, lf := range c43Leaves(st.Val) {
				if c43IsBoolConst(lf.v, true) && lf.pred != nil {
					// `a || b`: the true edge comes from the block testing a
					if ifi, ok := lf.pred.Instrs[len(lf.pred.Instrs)-1].(*ssa.If); ok {
						cc, _ := stripNot(ifi.Cond, true)
						visit(cc)
						continue
					}
				}
				visit(lf.v)
			}
			miss := missing(modeFields, tested)
			why := ""
			if len(miss) > 0 {
				why = "encap mode field(s) " + strings.Join(miss, ",") + " of the pool are not compared with encap.CrossSubnet"
			} else if other != "" {
				why = "it also depends on " + other
			}
			sort.Strings(modeFields)
			c.Check(why == "", "C43.samesubnet/pool-flag/"+fnName(f), p.Pos(st.Pos()), "CrossSubnet flag = any of {"+strings.Join(modeFields, ",")+"} == encap.CrossSubnet",
				"the pool's CrossSubnet flag is not `some encap mode is CrossSubnet`: "+why+" — pools in that mode would never get direct routes inside the subnet")
		}
	}
	if nst == 0 {
		c.Lost("no store to l3rrPoolInfo.CrossSubnet")
	}
}

func (x *c43) noEncap() {
	c, p := x.c, x.p
	ne := p.Func(c44Pkg, "routeManager.noEncapRoute")
	upd := p.Func(c44Pkg, "routeManager.updateRoutes")
	ptF, _ := p.LookupObj(c44Pkg, "routeManager.ippoolType").(*types.Var)
	noEncapC, _ := p.LookupExt("felix/proto", "IPPoolType_NO_ENCAP").(*types.Const)
	ssF, _ := p.LookupExt("felix/proto", "RouteUpdate.SameSubnet").(*types.Var)
	ipF, _ := p.LookupExt("felix/proto", "RouteUpdate.DstNodeIp").(*types.Var)
	if ne == nil || upd == nil || ptF == nil || noEncapC == nil || ssF == nil || ipF == nil {
		c.Lost("routeManager.noEncapRoute/updateRoutes/ippoolType, proto.IPPoolType_NO_ENCAP, RouteUpdate.SameSubnet/DstNodeIp")
	}
	var rParam ssa.Value
	for _, prm := range ne.Params {
		if qualTypeName(prm.Type()) == "felix/proto.RouteUpdate" {
			rParam = prm
		}
	}
	if rParam == nil {
		c.Lost("noEncapRoute has no *proto.RouteUpdate parameter")
	}
	isNoEncapPool := eqCond(true, func(v ssa.Value) bool { return fieldVar(v) == ptF }, func(v ssa.Value) bool {
		cv, ok := constOf(v)
		return ok && cv.ExactString() == noEncapC.Val().ExactString()
	})
	sameSubnet := func(cond ssa.Value, pol bool) bool {
		if !pol {
			return false
		}
		if cs, ok := condCall(cond); ok && cs.Callee != nil && cs.Callee.Name() == "GetSameSubnet" && cs.Args()[0] == rParam {
			return true
		}
		return c44FieldLoad(cond, ssF) == rParam
	}
	hasIP := eqCond(false, func(v ssa.Value) bool { return c44FieldLoad(v, ipF) == rParam }, func(v ssa.Value) bool {
		cv, ok := constOf(v)
		return ok && cv.ExactString() == `""`
	})
	nret := 0
	for _, r := range returnsOf(ne) {
		if isNilConst(r.Results[0]) {
			continue
		}
		nret++
		site := p.Pos(r.Pos())
		c.Check(guardedCut(r, c43PhiAware(anyOf(isNoEncapPool, sameSubnet))), "C43.noencap/guard", site, "a direct route is returned only under ippoolType == NO_ENCAP or SameSubnet",
			"noEncapRoute can return a direct route although the pool is encapsulated and the owning node is not in our subnet")
		// gateway
		gwOK, typeOK := false, false
		if al, ok := r.Results[0].(*ssa.Alloc); ok {
			fs := literalFieldStores(al)
			if len(fs) == 0 {
				// `x := T{…}; return &x`: the literal is built in a temporary and copied
				for _, rr := range *al.Referrers() {
					if st, ok := rr.(*ssa.Store); ok && st.Addr == ssa.Value(al) {
						if u, ok := st.Val.(*ssa.UnOp); ok && u.Op == token.MUL {
							if tmp, ok := u.X.(*ssa.Alloc); ok {
								fs = literalFieldStores(tmp)
							}
						}
					}
				}
			}
			for _, v := range fs["GW"] {
				if call, ok := c44Strip(v).(*ssa.Call); ok && len(call.Call.Args) == 1 && c44FieldLoad(call.Call.Args[0], ipF) == rParam {
					gwOK = true
				}
			}
			tt, _ := p.LookupExt("felix/routetable", "TargetTypeNoEncap").(*types.Const)
			for _, v := range fs["Type"] {
				if cv, ok := constOf(v); ok && tt != nil && cv.ExactString() == tt.Val().ExactString() {
					typeOK = true
				}
			}
		}
		c.Check(gwOK && typeOK && guardedCut(r, hasIP), "C43.noencap/gateway", site, "gateway is the owning node's address (DstNodeIp, known), target type no-encap",
			fmt.Sprintf("the direct route's gateway is not the route's (non-empty) DstNodeIp or its type is not TargetTypeNoEncap (gw=%v type=%v)", gwOK, typeOK))
	}
	if nret == 0 {
		c.Lost("noEncapRoute never returns a target")
	}
	// updateRoutes: exclusivity and class pairing
	var neCall *ssa.Call
	var tunCalls []*ssa.Call
	tfF, _ := p.LookupObj(c44Pkg, "routeManager.tunnelRouteFn").(*types.Var)
	if tfF == nil {
		c.Lost("routeManager.tunnelRouteFn")
	}
	allInstrs(upd, false, func(_ *ssa.Function, in ssa.Instruction) {
		call, ok := in.(*ssa.Call)
		if !ok {
			return
		}
		if calleeFn(call.Common()) == ne {
			neCall = call
		} else if fieldVar(call.Call.Value) == tfF {
			tunCalls = append(tunCalls, call)
		}
	})
	if neCall == nil || len(tunCalls) == 0 {
		c.Lost("updateRoutes: calls of noEncapRoute / tunnelRouteFn")
	}
	excl := true
	for _, t := range tunCalls {
		if !guardedCut(t, eqCond(true, func(v ssa.Value) bool { return v == ssa.Value(neCall) }, isNilConst)) {
			excl = false
		}
	}
	c.Check(excl, "C43.noencap/exclusive", p.Pos(tunCalls[0].Pos()), "the tunnel route function is consulted only when noEncapRoute returned nil",
		"updateRoutes asks the tunnel route function although noEncapRoute returned a direct route: the destination would get a tunnel route where a direct one is required")
	// class pairing
	srcOf := func(list ssa.Value) map[ssa.Value]bool {
		out := map[ssa.Value]bool{}
		seen := map[ssa.Value]bool{}
		var walk func(v ssa.Value)
		walk = func(v ssa.Value) {
			if seen[v] {
				return
			}
			seen[v] = true
			switch y := v.(type) {
			case *ssa.Phi:
				for _, e := range y.Edges {
					walk(e)
				}
			case *ssa.Call:
				if b, ok := y.Call.Value.(*ssa.Builtin); ok && b.Name() == "append" {
					walk(y.Call.Args[0])
					// appended element: *ptr stored into the varargs array
					if sl, ok := y.Call.Args[1].(*ssa.Slice); ok {
						if al, ok := sl.X.(*ssa.Alloc); ok {
							for _, r := range *al.Referrers() {
								if ia, ok := r.(*ssa.IndexAddr); ok {
									for _, rr := range *ia.Referrers() {
										if st, ok := rr.(*ssa.Store); ok {
											if u, ok := st.Val.(*ssa.UnOp); ok && u.Op == token.MUL {
												out[u.X] = true
											}
										}
									}
								}
							}
						}
					}
				} else {
					out[v] = true
				}
			}
		}
		walk(list)
		return out
	}
	pairs := map[string]func(srcs map[ssa.Value]bool) bool{
		"routeClassSameSubnet": func(s map[ssa.Value]bool) bool { return len(s) == 1 && s[neCall] },
		"routeClassTunnel": func(s map[ssa.Value]bool) bool {
			if len(s) == 0 {
				return false
			}
			for v := range s {
				isTun := false
				for _, t := range tunCalls {
					if v == ssa.Value(t) {
						isTun = true
					}
				}
				if !isTun {
					return false
				}
			}
			return true
		},
	}
	found := map[string]bool{}
	for _, cs := range callsIn(upd, false, func(f *types.Func) bool { return f.Name() == "SetRoutes" }) {
		args := cs.Args()
		if len(args) < 4 {
			continue
		}
		cls := fieldVar(args[1])
		if cls == nil || pairs[cls.Name()] == nil {
			continue
		}
		found[cls.Name()] = true
		c.Check(pairs[cls.Name()](srcOf(args[3])), "C43.noencap/class/"+cls.Name(), p.Pos(cs.Instr.Pos()), "route list of "+cls.Name()+" holds exactly the targets of its own route function",
			"SetRoutes("+cls.Name()+", …) is given a list that is not built solely from the matching route function's results: direct and tunnel routes would be programmed on the wrong device")
	}
	for k := range pairs {
		if !found[k] {
			c.Lost("updateRoutes: no SetRoutes call for %s", k)
		}
	}
}

func (x *c43) localBlock() {
	c, p := x.c, x.p
	fn := p.Func(c44Pkg, "routeManager.routeIsLocalBlock")
	isType := p.Func(c44Pkg, "isType")
	ptF, _ := p.LookupObj(c44Pkg, "routeManager.ippoolType").(*types.Var)
	lw, _ := p.LookupExt("felix/proto", "RouteType_LOCAL_WORKLOAD").(*types.Const)
	iptF, _ := p.LookupExt("felix/proto", "RouteUpdate.IpPoolType").(*types.Var)
	lwF, _ := p.LookupExt("felix/proto", "RouteUpdate.LocalWorkload").(*types.Var)
	dstF, _ := p.LookupExt("felix/proto", "RouteUpdate.Dst").(*types.Var)
	blocksF, _ := p.LookupObj(c44Pkg, "routeManager.localIPAMBlocks").(*types.Var)
	if fn == nil || isType == nil || ptF == nil || lw == nil || iptF == nil || lwF == nil || dstF == nil || blocksF == nil {
		c.Lost("routeIsLocalBlock anchors")
	}
	msg := ssa.Value(fn.Params[len(fn.Params)-1])
	guards := []struct {
		name string
		pred EdgePred
	}{
		{"LOCAL_WORKLOAD", callCond(true, func(cs CallSite) bool {
			if calleeFn(cs.Common()) != isType || cs.Common().Args[0] != msg {
				return false
			}
			cv, ok := constOf(cs.Common().Args[1])
			return ok && cv.ExactString() == lw.Val().ExactString()
		})},
		{"pooltype", eqCond(true, func(v ssa.Value) bool { return c44FieldLoad(v, iptF) == msg }, func(v ssa.Value) bool { return fieldVar(v) == ptF })},
		{"LocalWorkload", func(cond ssa.Value, pol bool) bool { return !pol && c44FieldLoad(cond, lwF) == msg }},
	}
	var trueRets []*ssa.Return
	for _, r := range returnsOf(fn) {
		if !c43IsBoolConst(r.Results[0], false) {
			trueRets = append(trueRets, r)
		}
	}
	if len(trueRets) == 0 {
		c.Lost("routeIsLocalBlock never returns true")
	}
	for _, g := range guards {
		ok := true
		for _, r := range trueRets {
			if !guardedCut(r, g.pred) {
				ok = false
			}
		}
		c.Check(ok, "C43.localblock/guard/"+g.name, p.Pos(fn.Pos()), "every possibly-true return is guarded by "+g.name,
			"routeIsLocalBlock can return true without the "+g.name+" condition: a blackhole route could cover "+map[string]string{"LOCAL_WORKLOAD": "a block that is not local", "pooltype": "a block of another encapsulation's pool", "LocalWorkload": "a local workload's own address"}[g.name])
	}
	// not-exact: value is !HasSuffix(msg.Dst, {"/32","/128" under Version()==6})
	why := ""
	for _, r := range trueRets {
		u, ok := r.Results[0].(*ssa.UnOp)
		var call *ssa.Call
		if ok && u.Op == token.NOT {
			call, _ = u.X.(*ssa.Call)
		}
		if call == nil || calleeOf(call.Common()) == nil || calleeOf(call.Common()).Name() != "HasSuffix" || c44FieldLoad(call.Call.Args[0], dstF) != msg {
			why = "the result " + path(r.Results[0]) + " is not !strings.HasSuffix(msg.Dst, <exact-route suffix>)"
			continue
		}
		got := map[string]bool{}
		for _, lf := range c43Leaves(call.Call.Args[1]) {
			cv, ok := constOf(lf.v)
			if !ok {
				why = "suffix " + path(lf.v) + " is not constant"
				continue
			}
			s := strings.Trim(cv.ExactString(), `"`)
			got[s] = true
			is6 := c43BlockGuarded(lf.pred, eqCond(true, func(v ssa.Value) bool {
				cs, ok := condCall(v)
				return ok && cs.Callee != nil && cs.Callee.Name() == "Version"
			}, func(v ssa.Value) bool { return c42IsConstInt(v, 6) })) && lf.pred != nil && !lf.pred.Dominates(call.Block())
			if (s == "/128") != is6 {
				why = "suffix " + s + " is not selected by the destination's IP version"
			}
		}
		if !got["/32"] || !got["/128"] || len(got) != 2 {
			why = fmt.Sprintf("suffixes are %v, expected /32 and /128", sortedKeys(got))
		}
	}
	c.Check(why == "", "C43.localblock/not-exact", p.Pos(fn.Pos()), "true only if Dst is not a /32 (v4) or /128 (v6) route", "routeIsLocalBlock: "+why+": a blackhole could shadow a workload's own /32 or /128 route")
	// store guard and blackhole source
	n := 0
	for _, f := range withClosures(p.methodsOf(c44Pkg, "routeManager")) {
		allInstrs(f, false, func(_ *ssa.Function, in ssa.Instruction) {
			mu, ok := in.(*ssa.MapUpdate)
			if !ok || fieldVar(mu.Map) != blocksF {
				return
			}
			n++
			g := guardedCut(mu, callCond(true, func(cs CallSite) bool {
				return calleeFn(cs.Common()) == fn && len(cs.Common().Args) == 2 && cs.Common().Args[1] == mu.Value
			}))
			c.Check(g, "C43.localblock/store/"+fnName(f), p.Pos(mu.Pos()), "localIPAMBlocks filled only under routeIsLocalBlock(the stored route)",
				"a route is stored in localIPAMBlocks without routeIsLocalBlock(route) being true: it would get a blackhole route")
		})
	}
	if n == 0 {
		c.Lost("no store into localIPAMBlocks")
	}
	upd := p.Func(c44Pkg, "routeManager.updateRoutes")
	ok := false
	for _, cs := range callsIn(upd, false, func(f *types.Func) bool { return f.Name() == "SetRoutes" }) {
		args := cs.Args()
		if len(args) >= 4 {
			if cls := fieldVar(args[1]); cls != nil && cls.Name() == "routeClassBlackhole" {
				if call, isCall := args[3].(*ssa.Call); isCall && len(call.Call.Args) >= 1 && fieldVar(call.Call.Args[0]) == blocksF {
					ok = true
				}
			}
		}
	}
	c.Check(ok, "C43.localblock/blackhole-source", p.Pos(upd.Pos()), "blackhole routes are computed from localIPAMBlocks", "the blackhole route class is not fed from a function of localIPAMBlocks")
}

// ---------------------------------------------------------------- fallback --

// fallback: the owning node's address (RouteUpdate.DstNodeIp, and with it the
// same-subnet decision) comes from Spec.BGP.IPv4Address/IPv6Address when BGP
// supplies one and otherwise from the InternalIP/ExternalIP entries of
// Spec.Addresses.  "Spec.BGP != nil" does not mean "BGP supplies the address":
// IPAM writes tunnel addresses into Spec.BGP on clusters whose nodes have no BGP
// address.  Necessary condition, decided on every function of felix/calc that
// both inspects a *NodeBGPSpec and reaches resources.FindNodeAddress (directly
// or through ≤2 levels of helpers of the package): for each IP version some
// fallback call must be reachable on a path that is consistent with
// {BGP != nil, BGP.IPv4Address == "", BGP.IPv6Address == ""}, i.e. that crosses
// neither an edge establishing BGP == nil nor one establishing that a BGP
// address is non-empty.  Conditions the rule does not recognise cut nothing, so
// extracted predicates / boolean temporaries keep it silent.
func (x *c43) fallback() {
	c, p := x.c, x.p
	const apiPkg = "libcalico-go/lib/apis/internalapi"
	find, _ := p.LookupExt("libcalico-go/lib/resources", "FindNodeAddress").(*types.Func)
	v4F, _ := p.LookupExt(apiPkg, "NodeBGPSpec.IPv4Address").(*types.Var)
	v6F, _ := p.LookupExt(apiPkg, "NodeBGPSpec.IPv6Address").(*types.Var)
	if find == nil || v4F == nil || v6F == nil {
		c.Lost("resources.FindNodeAddress / internalapi.NodeBGPSpec.IPv4Address / IPv6Address")
	}
	isBGPPtr := func(t types.Type) bool {
		_, ok := t.Underlying().(*types.Pointer)
		return ok && qualTypeName(t) == apiPkg+".NodeBGPSpec"
	}
	isFind := func(g *types.Func) bool { return g == find }
	bgpNil := func(cond ssa.Value, pol bool) bool {
		v, isNil, ok := c21NilCmp(cond, pol)
		return ok && isNil && isBGPPtr(v.Type())
	}
	isBGPAddr := func(v ssa.Value) bool {
		ls := c43Leaves(v)
		if len(ls) == 0 {
			return false
		}
		for _, l := range ls {
			if fv := fieldVar(l.v); fv == nil || (fv != v4F && fv != v6F) {
				return false
			}
		}
		return true
	}
	addrSet := eqCond(false, isBGPAddr, func(v ssa.Value) bool {
		cv, ok := constOf(v)
		return ok && cv.ExactString() == `""`
	})
	cut := anyOf(bgpNil, addrSet)

	nFn := 0
	for _, f := range p.AllFuncs() {
		if f.Pkg == nil || f.Pkg.Pkg.Path() != calicoPrefix+calcPkg || f.Blocks == nil {
			continue
		}
		// fallback sites of f, grouped by the IP version they ask for
		groups := map[string][]*ssa.Call{}
		touchesBGP := false
		allInstrs(f, false, func(_ *ssa.Function, in ssa.Instruction) {
			if v, ok := in.(ssa.Value); ok && isBGPPtr(v.Type()) {
				touchesBGP = true
			}
			call, ok := in.(*ssa.Call)
			if !ok {
				return
			}
			direct := calleeOf(call.Common()) == find
			if !direct {
				sf := calleeFn(call.Common())
				if sf == nil || sf.Pkg != f.Pkg || !containsCall(sf, 2, isFind) {
					return
				}
			}
			var ints []string
			for _, a := range call.Common().Args {
				if cv, ok := constOf(a); ok && cv.Kind() == constant.Int {
					ints = append(ints, cv.ExactString())
				}
			}
			g := "any"
			if len(ints) == 1 {
				g = "v" + ints[0]
			}
			groups[g] = append(groups[g], call)
		})
		if len(groups) == 0 || !touchesBGP {
			continue
		}
		nFn++
		for _, g := range sortedKeys(groups) {
			reach := false
			for _, call := range groups[g] {
				if !guardedCut(call, cut) {
					reach = true
				}
			}
			what := "the Spec.Addresses fallback"
			if g != "any" {
				what = "the IP" + g + " Spec.Addresses fallback"
			}
			c.Check(reach, "C43.fallback/"+fnName(f)+"/"+g, p.Pos(groups[g][0].Pos()),
				what+" (FindNodeAddress InternalIP/ExternalIP) is reachable for a node whose BGP spec is set but holds no IPv4/IPv6 address",
				fnName(f)+": "+what+" (FindNodeAddress) can only be reached when Spec.BGP == nil or after a BGP address was found non-empty: a node whose BGP spec carries no IPv4Address/IPv6Address (only an AS number or the IPIP tunnel address IPAM writes there) never gets its InternalIP/ExternalIP, "+
					"so it is recorded without an address and the routes to its blocks are emitted with an empty DstNodeIp and SameSubnet=false (no direct route for unencapsulated / same-subnet pools)")
		}
	}
	if nFn < 2 {
		c.Lost("felix/calc: functions that inspect Spec.BGP and reach resources.FindNodeAddress (%d, expected the route resolver and the host-metadata passthru)", nFn)
	}
}
