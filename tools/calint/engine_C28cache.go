package main

// C28.cache: the typed caches that feed BIRD's side of the route-ownership
// decision must follow the datastore on the deletion path too.
//
// The BGPConfiguration that clusterRoutePolicyFromBGPConfig turns into BIRD's
// policy is not read from the generic key/value cache but from a field of the
// confd client that the syncer callback keeps up to date.  A deletion reaches
// the callback as an update whose KVPair.Value is nil (UpdateType ==
// UpdateTypeKVDeleted).  "Absent means default" (C28) therefore needs: wherever
// the callback can refresh that field from an update, it can also do so when
// the update is a deletion.  The check is a reachability analysis of the
// callback's CFG (and of the functions it calls) specialised to a deletion:
// every branch on `value == nil`, on the outcome of a type assertion of the
// value and on `UpdateType == <const>` is resolved, nil-ness is propagated into
// callee parameters, all other conditions stay open (both successors).  The
// store into the cached field must stay reachable.
//
// Everything is derived structurally: the cached fields are found by following
// the BGPConfiguration argument of clusterRoutePolicyFromBGPConfig back through
// struct fields, getters and parameters to fields of the client type; the
// callbacks are the functions that read KVPair.Value and can reach a store into
// such a field.

import (
	"go/constant"
	"go/token"
	"go/types"
	"sort"
	"strings"

	"golang.org/x/tools/go/ssa"
)

const (
	c28ModelPkg = "libcalico-go/lib/backend/model"
	c28BapiPkg  = "libcalico-go/lib/backend/api"
)

type c28Cache struct {
	c        *Ctx
	p        *Prog
	funcs    []*ssa.Function // functions of the confd backend package (with closures)
	inPkg    map[*ssa.Function]bool
	clientTN string     // name of the client struct type
	kvValue  *types.Var // model.KVPair.Value
	updType  *types.Var // api.Update.UpdateType
	deleted  constant.Value
}

// c28IsLoadOf: v reads struct field fv (load through a FieldAddr, or a Field of a struct value).
func c28IsLoadOf(v ssa.Value, fv *types.Var) bool {
	switch x := v.(type) {
	case *ssa.UnOp:
		if x.Op != token.MUL {
			return false
		}
		fa, ok := x.X.(*ssa.FieldAddr)
		return ok && structField(fa.X.Type(), fa.Field) == fv
	case *ssa.Field:
		return structField(x.X.Type(), x.Field) == fv
	}
	return false
}

// clientFields follows v backwards to the fields of the client type it is read from.
func (k *c28Cache) clientFields(v ssa.Value, depth int, seen map[ssa.Value]bool, out map[*types.Var]bool) {
	if depth == 0 || v == nil || seen[v] {
		return
	}
	seen[v] = true
	var loads []*ssa.FieldAddr
	stop := func(v ssa.Value) []ssa.Value {
		if u, ok := v.(*ssa.UnOp); ok && u.Op == token.MUL {
			if fa, isFA := u.X.(*ssa.FieldAddr); isFA {
				loads = append(loads, fa)
				return []ssa.Value{}
			}
		}
		return nil
	}
	os := origins(v, stop)
	for _, fa := range loads {
		fv := structField(fa.X.Type(), fa.Field)
		if fv == nil {
			continue
		}
		if namedTypeName(derefType(fa.X.Type())) == k.clientTN {
			out[fv] = true
			continue
		}
		// a field of some carrier struct: follow what is stored into it
		for _, f := range k.funcs {
			allInstrs(f, false, func(_ *ssa.Function, in ssa.Instruction) {
				if st, ok := in.(*ssa.Store); ok {
					if sfa, ok := st.Addr.(*ssa.FieldAddr); ok && structField(sfa.X.Type(), sfa.Field) == fv {
						k.clientFields(st.Val, depth-1, seen, out)
					}
				}
			})
		}
	}
	for _, o := range os {
		switch x := o.V.(type) {
		case *ssa.Call:
			fn := calleeFn(x.Common())
			if fn == nil || !k.inPkg[fn] {
				continue
			}
			for _, r := range returnsOf(fn) {
				for _, res := range r.Results {
					if types.Identical(res.Type(), v.Type()) {
						k.clientFields(res, depth-1, seen, out)
					}
				}
			}
		case *ssa.Parameter:
			fn := x.Parent()
			idx := -1
			for i, q := range fn.Params {
				if q == x {
					idx = i
				}
			}
			for _, caller := range k.funcs {
				allInstrs(caller, false, func(_ *ssa.Function, in ssa.Instruction) {
					ci, ok := in.(ssa.CallInstruction)
					if !ok || ci.Common().IsInvoke() || calleeFn(ci.Common()) != fn || idx >= len(ci.Common().Args) {
						return
					}
					k.clientFields(ci.Common().Args[idx], depth-1, seen, out)
				})
			}
		}
	}
}

// isNil: v is nil when the update being handled is a deletion.
func (k *c28Cache) isNil(v ssa.Value, env map[*ssa.Parameter]bool, seen map[ssa.Value]bool) bool {
	if v == nil || seen[v] {
		return false
	}
	seen[v] = true
	switch x := v.(type) {
	case *ssa.Const:
		return x.IsNil()
	case *ssa.Parameter:
		return env[x]
	case *ssa.Extract:
		if ta, ok := x.Tuple.(*ssa.TypeAssert); ok && ta.CommaOk && x.Index == 0 {
			// a failed assertion yields the zero value: nil for pointers and interfaces
			switch ta.AssertedType.Underlying().(type) {
			case *types.Pointer, *types.Interface, *types.Map, *types.Slice:
				return k.isNil(ta.X, env, seen)
			}
		}
	case *ssa.ChangeInterface:
		return k.isNil(x.X, env, seen)
	case *ssa.Phi:
		if len(x.Edges) == 0 {
			return false
		}
		for _, e := range x.Edges {
			if e == ssa.Value(x) {
				continue
			}
			if !k.isNil(e, env, seen) {
				return false
			}
		}
		return true
	}
	return c28IsLoadOf(v, k.kvValue)
}

// known resolves a branch condition under the deletion assumption.
func (k *c28Cache) known(cond ssa.Value, env map[*ssa.Parameter]bool) (val, ok bool) {
	cond, pol := stripNot(cond, true)
	switch x := cond.(type) {
	case *ssa.Const:
		if x.Value != nil && x.Value.Kind() == constant.Bool {
			return constant.BoolVal(x.Value) == pol, true
		}
	case *ssa.Extract:
		if ta, isTA := x.Tuple.(*ssa.TypeAssert); isTA && ta.CommaOk && x.Index == 1 {
			if k.isNil(ta.X, env, map[ssa.Value]bool{}) {
				return !pol, true // no type assertion of a nil interface succeeds
			}
		}
	case *ssa.BinOp:
		if x.Op != token.EQL && x.Op != token.NEQ {
			return false, false
		}
		eq := x.Op == token.EQL
		for _, pr := range [][2]ssa.Value{{x.X, x.Y}, {x.Y, x.X}} {
			a, b := pr[0], pr[1]
			if cb, isC := b.(*ssa.Const); isC {
				if cb.IsNil() && k.isNil(a, env, map[ssa.Value]bool{}) {
					return eq == pol, true
				}
				if c28IsLoadOf(a, k.updType) && cb.Value != nil && cb.Value.Kind() == constant.Int {
					same := constant.Compare(cb.Value, token.EQL, k.deleted)
					return (same == eq) == pol, true
				}
			}
		}
	}
	return false, false
}

func (k *c28Cache) isWrite(in ssa.Instruction, field *types.Var) bool {
	st, ok := in.(*ssa.Store)
	if !ok {
		return false
	}
	fa, ok := st.Addr.(*ssa.FieldAddr)
	if !ok || structField(fa.X.Type(), fa.Field) != field {
		return false
	}
	_, fresh := fa.X.(*ssa.Alloc) // initialisation of a new client literal is not an update
	return !fresh
}

// reaches: a store into field is reachable from fn's entry when the update is
// a deletion and the parameters in env are nil.
func (k *c28Cache) reaches(fn *ssa.Function, env map[*ssa.Parameter]bool, field *types.Var, memo map[string]bool, depth int) bool {
	if fn == nil || len(fn.Blocks) == 0 || depth == 0 {
		return false
	}
	var ks []string
	for pa, v := range env {
		if v {
			ks = append(ks, pa.Name())
		}
	}
	sort.Strings(ks)
	key := funcIDOfSSA(fn) + "|" + strings.Join(ks, ",")
	if v, ok := memo[key]; ok {
		return v
	}
	memo[key] = false // recursion: no new information
	seen := map[*ssa.BasicBlock]bool{}
	st := []*ssa.BasicBlock{fn.Blocks[0]}
	found := false
	for len(st) > 0 && !found {
		b := st[len(st)-1]
		st = st[:len(st)-1]
		if seen[b] || isPanicBlock(b) {
			continue
		}
		seen[b] = true
		for _, in := range b.Instrs {
			if k.isWrite(in, field) {
				found = true
				break
			}
			ci, ok := in.(ssa.CallInstruction)
			if !ok || ci.Common().IsInvoke() {
				continue
			}
			callee := calleeFn(ci.Common())
			if callee == nil || !k.inPkg[callee] || len(callee.Params) != len(ci.Common().Args) {
				continue
			}
			cenv := map[*ssa.Parameter]bool{}
			for i, a := range ci.Common().Args {
				if k.isNil(a, env, map[ssa.Value]bool{}) {
					cenv[callee.Params[i]] = true
				}
			}
			if k.reaches(callee, cenv, field, memo, depth-1) {
				found = true
				break
			}
		}
		if found {
			break
		}
		if ifi, ok := b.Instrs[len(b.Instrs)-1].(*ssa.If); ok && len(b.Succs) == 2 {
			if val, ok := k.known(ifi.Cond, env); ok {
				if val {
					st = append(st, b.Succs[0])
				} else {
					st = append(st, b.Succs[1])
				}
				continue
			}
		}
		st = append(st, b.Succs...)
	}
	memo[key] = found
	return found
}

func funcIDOfSSA(fn *ssa.Function) string {
	if fn.Parent() != nil {
		return funcIDOfSSA(fn.Parent()) + "$" + fn.Name()
	}
	return fn.String()
}

func c28CacheRule(c *Ctx, p *Prog, fromBGP, processIPPool *types.Func) {
	k := &c28Cache{c: c, p: p, inPkg: map[*ssa.Function]bool{}}
	k.funcs = c28PkgFuncs(c, p, c28ConfdPkg)
	for _, f := range k.funcs {
		k.inPkg[f] = true
	}
	k.clientTN = recvTypeName(processIPPool)
	if k.clientTN == "" {
		c.Lost("receiver type of %s.processIPPool", c28ConfdPkg)
	}
	k.kvValue, _ = p.LookupExt(c28ModelPkg, "KVPair.Value").(*types.Var)
	k.updType, _ = p.LookupExt(c28BapiPkg, "Update.UpdateType").(*types.Var)
	del, _ := p.LookupExt(c28BapiPkg, "UpdateTypeKVDeleted").(*types.Const)
	if k.kvValue == nil || k.updType == nil || del == nil {
		c.Lost("model.KVPair.Value / api.Update.UpdateType / api.UpdateTypeKVDeleted")
	}
	k.deleted = del.Val()

	// (1) the client fields BIRD's policy is computed from
	fields := map[*types.Var]bool{}
	nCalls := 0
	for _, f := range k.funcs {
		for _, cs := range callsIn(f, false, func(cf *types.Func) bool { return cf == fromBGP }) {
			nCalls++
			k.clientFields(cs.Common().Args[0], 5, map[ssa.Value]bool{}, fields)
		}
	}
	if nCalls == 0 {
		c.Lost("calls of clusterRoutePolicyFromBGPConfig in %s", c28ConfdPkg)
	}
	if len(fields) == 0 {
		c.Lost("the BGPConfiguration handed to clusterRoutePolicyFromBGPConfig is not read from a field of %s (cache layout changed)", k.clientTN)
	}
	var fl []*types.Var
	for fv := range fields {
		fl = append(fl, fv)
	}
	sort.Slice(fl, func(i, j int) bool { return fl[i].Name() < fl[j].Name() })

	for _, fv := range fl {
		// (2) who updates the field
		writers := map[*ssa.Function]bool{}
		for _, f := range k.funcs {
			allInstrs(f, false, func(fn *ssa.Function, in ssa.Instruction) {
				if k.isWrite(in, fv) {
					writers[fn] = true
				}
			})
		}
		if len(writers) == 0 {
			c.Lost("%s.%s is never updated after construction", k.clientTN, fv.Name())
		}
		// (3) the syncer callbacks: read KVPair.Value and can reach a writer
		var handlers []*ssa.Function
		for _, f := range k.funcs {
			readsValue := false
			allInstrs(f, false, func(_ *ssa.Function, in ssa.Instruction) {
				if v, ok := in.(ssa.Value); ok && c28IsLoadOf(v, k.kvValue) {
					readsValue = true
				}
			})
			if !readsValue {
				continue
			}
			can := writers[f]
			for g := range p.closure(f) {
				can = can || writers[g]
			}
			if can {
				handlers = append(handlers, f)
			}
		}
		if len(handlers) == 0 {
			c.Lost("no function of %s reads KVPair.Value and reaches the store into %s.%s", c28ConfdPkg, k.clientTN, fv.Name())
		}
		for _, h := range handlers {
			ok := k.reaches(h, map[*ssa.Parameter]bool{}, fv, map[string]bool{}, 5)
			c.Check(ok, "C28.cache/"+fnName(h)+"/"+fv.Name()+"/reset-on-delete", p.Pos(h.Pos()),
				"the store into "+k.clientTN+"."+fv.Name()+" stays reachable when the update is a deletion (value nil)",
				fnName(h)+" can refresh "+k.clientTN+"."+fv.Name()+" (the BGPConfiguration BIRD's cluster-route policy is computed from) only from an update that carries a value: for a deletion (KVPair.Value == nil, UpdateTypeKVDeleted) every path to the store is cut by a nil / type-assertion / update-type test, so the deleted resource's programClusterRoutes keeps being applied instead of the default - Felix and BIRD no longer agree on who programs the pools")
		}
	}
}
