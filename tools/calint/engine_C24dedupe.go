package main

import (
	"go/types"

	"golang.org/x/tools/go/ssa"
)

// C24.dedupe — an incoming update may only be dropped as "unchanged" by comparing
// it with what the live tree holds for that key now.
//
// publishBreadcrumb applies a batch of updates to the live tree one by one; an
// update judged a no-op (SerializedUpdate.WouldBeNoOp(previous)) is neither stored
// nor recorded as a delta.  That is only sound if `previous` is the entry the live
// tree holds at that moment — the tree the update would otherwise be applied to,
// which already contains the earlier updates of the same batch.  A snapshot (the
// last published Breadcrumb.KVs, a Clone taken earlier) lags behind inside a batch:
// a key going v1→v2→v1 within one breadcrumb would have its second update dropped
// and every client would keep v2.
//
// Decided by provenance: for every call of WouldBeNoOp in snapcache, every origin of
// the `previous` argument (through locals, phis, tuple extraction and the results of
// in-package helpers) is the result of BTreeG.Get on the Cache.kvs field; zero
// values are allowed (nothing found).
func (m *c24Model) dedupeRules() {
	c, p := m.c, m.p
	noop, _ := p.LookupExt(c24Proto, "SerializedUpdate.WouldBeNoOp").(*types.Func)
	if noop == nil {
		c.Lost("syncproto.SerializedUpdate.WouldBeNoOp")
	}
	n := 0
	for _, f := range p.AllFuncs() {
		if f.Pkg == nil || f.Pkg.Pkg.Path() != calicoPrefix+c24Snap {
			continue
		}
		allInstrs(f, false, func(_ *ssa.Function, in ssa.Instruction) {
			ci, ok := in.(ssa.CallInstruction)
			if !ok || calleeOf(ci.Common()) != noop {
				return
			}
			n++
			key := "C24.dedupe/live-tree/" + fnName(f)
			args := CallSite{Instr: ci}.Args()
			if len(args) != 2 {
				c.Undecided(key, p.Pos(in.Pos()), "WouldBeNoOp called with %d operands", len(args))
				return
			}
			bad, und := "", ""
			nLive := 0
			depth := map[*ssa.Function]bool{}
			through := func(x ssa.Value) []ssa.Value {
				call, ok := x.(*ssa.Call)
				if !ok {
					return nil
				}
				g := calleeFn(call.Common())
				if g == nil || g.Blocks == nil || g.Pkg != f.Pkg || depth[g] || call.Common().IsInvoke() {
					return nil
				}
				depth[g] = true
				out := []ssa.Value{}
				for _, r := range c25Returns(g) {
					out = append(out, r.Results...)
				}
				return out
			}
			for _, o := range origins(args[1], through) {
				switch o.Kind {
				case "const":
					continue
				case "alloc":
					if al, ok := o.V.(*ssa.Alloc); ok && c24NoStores(al) {
						continue // zero value
					}
				case "call":
					call := o.V.(*ssa.Call)
					cal := calleeOf(call.Common())
					if cal != nil && recvTypeName(cal) == "BTreeG" && cal.Name() == "Get" && len(call.Call.Args) > 0 {
						if fieldVar(call.Call.Args[0]) == m.cKvs {
							nLive++
							continue
						}
						bad = "the value an update is compared with to decide that it is a no-op comes from " + path(call.Call.Args[0]) + ".Get at " + p.Pos(call.Pos()) + ", not from the live tree (Cache." + m.cKvs.Name() + ") that the batch is being applied to"
						continue
					}
				}
				if und == "" {
					und = "the `previous` operand of WouldBeNoOp derives from " + path(o.V) + " (" + o.Kind + "), which is not a lookup in a tree"
				}
			}
			switch {
			case bad != "":
				c.Violate(key, p.Pos(in.Pos()), "%s: %s: a snapshot does not contain the earlier updates of the same batch, so a key that changes and changes back within one breadcrumb has its second update dropped (neither stored nor sent as a delta) and clients keep the intermediate value for ever", fnName(f), bad)
			case und != "" || nLive == 0:
				if und == "" {
					und = "the `previous` operand of WouldBeNoOp has no tree lookup among its origins"
				}
				c.Undecided(key, p.Pos(in.Pos()), "%s: %s", fnName(f), und)
			default:
				c.Ok(key, p.Pos(in.Pos()), "the update is compared with the entry looked up in the live tree (%d Get site(s) on Cache.%s)", nLive, m.cKvs.Name())
			}
		})
	}
	if n == 0 {
		c.Lost("snapcache never calls SerializedUpdate.WouldBeNoOp (the de-duplication of unchanged updates)")
	}
}

// c24NoStores: nothing is ever stored into the local (it holds its zero value).
func c24NoStores(al *ssa.Alloc) bool {
	refs := al.Referrers()
	if refs == nil {
		return true
	}
	for _, r := range *refs {
		switch x := r.(type) {
		case *ssa.Store:
			if x.Addr == ssa.Value(al) {
				return false
			}
		case *ssa.DebugRef, *ssa.UnOp:
		default:
			return false
		}
	}
	return true
}
