package main

import (
	"go/ast"
	"go/token"
	"go/types"
	"strings"

	"golang.org/x/tools/go/ssa"
)

// Value flow into the per-endpoint tier list (shared by C01.tierreset,
// C03.mirror/filter and C03.sortfeeds).
//
// The list an endpoint is sent is whatever reaches the []TierInfo argument of
// the PolicyResolverCallbacks.OnEndpointTierUpdate call.  Where that slice (and
// the TierInfo copies appended to it, and their OrderedPolicies) is *built* is
// found by a backward value-flow slice from that argument: through phis, local
// variables (also when captured by a closure), struct copies, append(), and the
// results of felix/calc functions it is obtained from (extract-method refactors:
// the slice, or one filtered tier, may be built in a helper and returned).
// Reads out of containers (map/slice elements, fields of heap objects) are
// leaves: they are inputs of the filter, not part of what it builds.
//
// "The endpoint being sent" is the first argument of the callback; it is mapped
// through the parameters of every callee the slice passes through, and through
// predicate helpers at guard-evaluation time.

type c03Append struct {
	Call *ssa.Call // the append(...) call
	Fn   *ssa.Function
	Elem string // bare name of the slice's element type
}

type c03TierFlow struct {
	p       *Prog
	Sinks   []CallSite
	Appends []c03Append
	Stores  map[*ssa.Store]bool // stores into local objects that reach the sink

	epLeaf  map[ssa.Value]bool
	entered map[*ssa.Function][]ssa.CallInstruction
	params  map[*ssa.Function][]*ssa.Parameter
	seen    map[ssa.Value]bool
	seenApp map[*ssa.Call]bool

	callerIdx map[*ssa.Function][]ssa.CallInstruction
}

func c03InCalc(f *ssa.Function) bool {
	f = topFn(f)
	return f != nil && f.Pkg != nil && strings.HasSuffix(f.Pkg.Pkg.Path(), "/"+calcPkg)
}

func c03IsTierSlice(t types.Type) bool {
	sl, ok := t.Underlying().(*types.Slice)
	return ok && qualTypeName(sl.Elem()) == "felix/calc.TierInfo"
}

// c03BuildTierFlow returns nil if there is no OnEndpointTierUpdate call with a
// []TierInfo argument in felix/calc.
func c03BuildTierFlow(p *Prog) *c03TierFlow {
	fl := &c03TierFlow{p: p, Stores: map[*ssa.Store]bool{}, epLeaf: map[ssa.Value]bool{},
		entered: map[*ssa.Function][]ssa.CallInstruction{}, params: map[*ssa.Function][]*ssa.Parameter{},
		seen: map[ssa.Value]bool{}, seenApp: map[*ssa.Call]bool{}}
	var tiers []ssa.Value
	for _, f := range c01SortedFuncs(p) {
		if !c03InCalc(f) {
			continue
		}
		allInstrs(f, false, func(fn *ssa.Function, in ssa.Instruction) {
			ci, ok := in.(ssa.CallInstruction)
			if !ok {
				return
			}
			cc := ci.Common()
			if !cc.IsInvoke() || cc.Method == nil || cc.Method.Name() != "OnEndpointTierUpdate" || len(cc.Args) == 0 {
				return
			}
			var tv ssa.Value
			for _, a := range cc.Args {
				if c03IsTierSlice(a.Type()) {
					tv = a
				}
			}
			if tv == nil {
				return
			}
			fl.Sinks = append(fl.Sinks, CallSite{ci, cc.Method, fn})
			tiers = append(tiers, tv)
			for _, o := range origins(cc.Args[0], c03ThroughCaptured) {
				fl.epLeaf[o.V] = true
			}
		})
	}
	if len(fl.Sinks) == 0 {
		return nil
	}
	for _, tv := range tiers {
		fl.val(tv)
	}
	return fl
}

// c03Binding: the value bound to free variable fv where its closure is created.
func c03Binding(fv *ssa.FreeVar) ssa.Value {
	cl := fv.Parent()
	if cl == nil || cl.Parent() == nil {
		return nil
	}
	idx := -1
	for i, q := range cl.FreeVars {
		if q == fv {
			idx = i
		}
	}
	var out ssa.Value
	allInstrs(cl.Parent(), false, func(_ *ssa.Function, in ssa.Instruction) {
		if mc, ok := in.(*ssa.MakeClosure); ok && mc.Fn == cl && idx >= 0 && idx < len(mc.Bindings) {
			out = mc.Bindings[idx]
		}
	})
	return out
}

// c03RootUp follows captured variables to the local they are in the outermost
// function that declares them.
func c03RootUp(root ssa.Value) ssa.Value {
	for i := 0; i < 8; i++ {
		fv, ok := root.(*ssa.FreeVar)
		if !ok {
			break
		}
		b := c03Binding(fv)
		if b == nil {
			break
		}
		root = b
	}
	return root
}

// c03ThroughCaptured (for origins): a load of a captured variable denotes the
// values stored into the variable where it is declared.
func c03ThroughCaptured(v ssa.Value) []ssa.Value {
	u, ok := v.(*ssa.UnOp)
	if !ok || u.Op != token.MUL {
		return nil
	}
	fv, ok := u.X.(*ssa.FreeVar)
	if !ok {
		return nil
	}
	al, ok := c03RootUp(fv).(*ssa.Alloc)
	if !ok {
		return nil
	}
	var out []ssa.Value
	for _, s := range c03StoresBelow(al) {
		if len(s.Path) == 0 {
			out = append(out, s.St.Val)
		}
	}
	return out
}

type c03SubStore struct {
	Path []int // field indices (-1: array element) below the root
	St   *ssa.Store
}

// c03StoresBelow lists every store into root or into a field / array element of
// it, also through closures that capture root.
func c03StoresBelow(root ssa.Value) []c03SubStore {
	var out []c03SubStore
	seen := map[ssa.Value]bool{}
	var walk func(cur ssa.Value, path []int)
	walk = func(cur ssa.Value, path []int) {
		if seen[cur] || cur.Referrers() == nil {
			return
		}
		seen[cur] = true
		ext := func(i int) []int { return append(append([]int{}, path...), i) }
		for _, r := range *cur.Referrers() {
			switch x := r.(type) {
			case *ssa.Store:
				if x.Addr == cur {
					out = append(out, c03SubStore{path, x})
				}
			case *ssa.FieldAddr:
				if x.X == cur {
					walk(x, ext(x.Field))
				}
			case *ssa.IndexAddr:
				if x.X == cur {
					walk(x, ext(-1))
				}
			case *ssa.MakeClosure:
				cl, _ := x.Fn.(*ssa.Function)
				for i, b := range x.Bindings {
					if b == cur && cl != nil && i < len(cl.FreeVars) {
						walk(cl.FreeVars[i], path)
					}
				}
			}
		}
	}
	walk(root, nil)
	return out
}

// c03AddrRoot splits an address into the variable it lies in and the path below.
func c03AddrRoot(a ssa.Value) (ssa.Value, []int) {
	var path []int
	for {
		switch x := a.(type) {
		case *ssa.FieldAddr:
			path = append([]int{x.Field}, path...)
			a = x.X
			continue
		case *ssa.IndexAddr:
			if _, isPtr := x.X.Type().Underlying().(*types.Pointer); isPtr {
				path = append([]int{-1}, path...)
				a = x.X
				continue
			}
		}
		return a, path
	}
}

func c03IsPrefix(a, b []int) bool {
	if len(a) > len(b) {
		return false
	}
	for i := range a {
		if a[i] != b[i] {
			return false
		}
	}
	return true
}

// load: what may be read at address a of a local variable.
func (fl *c03TierFlow) load(a ssa.Value) {
	root, path := c03AddrRoot(a)
	al, ok := c03RootUp(root).(*ssa.Alloc)
	if !ok {
		return // heap object / parameter pointee: an input, not something built here
	}
	for _, s := range c03StoresBelow(al) {
		if c03IsPrefix(s.Path, path) || c03IsPrefix(path, s.Path) {
			fl.Stores[s.St] = true
			fl.val(s.St.Val)
		}
	}
}

func (fl *c03TierFlow) enter(ci ssa.CallInstruction, g *ssa.Function) {
	for _, e := range fl.entered[g] {
		if e == ci {
			return
		}
	}
	fl.entered[g] = append(fl.entered[g], ci)
	args := ci.Common().Args
	for i, a := range args {
		if i < len(g.Params) && fl.IsEndpoint(a) {
			fl.epLeaf[g.Params[i]] = true
		}
	}
	for _, par := range fl.params[g] {
		fl.paramAt(par, ci)
	}
}

func (fl *c03TierFlow) paramAt(par *ssa.Parameter, ci ssa.CallInstruction) {
	for i, q := range par.Parent().Params {
		if q == par && i < len(ci.Common().Args) {
			fl.val(ci.Common().Args[i])
		}
	}
}

func (fl *c03TierFlow) callee(cc *ssa.CallCommon) *ssa.Function {
	g := calleeFn(cc)
	if g == nil || g.Blocks == nil || !c03InCalc(g) {
		return nil
	}
	return g
}

func (fl *c03TierFlow) val(v ssa.Value) {
	if v == nil || fl.seen[v] {
		return
	}
	fl.seen[v] = true
	switch x := v.(type) {
	case *ssa.Phi:
		for _, e := range x.Edges {
			fl.val(e)
		}
	case *ssa.ChangeType:
		fl.val(x.X)
	case *ssa.Convert:
		fl.val(x.X)
	case *ssa.MakeInterface:
		fl.val(x.X)
	case *ssa.ChangeInterface:
		fl.val(x.X)
	case *ssa.TypeAssert:
		fl.val(x.X)
	case *ssa.Slice:
		fl.val(x.X)
	case *ssa.Field:
		fl.val(x.X)
	case *ssa.Alloc:
		fl.load(x)
	case *ssa.FreeVar:
		fl.load(x)
	case *ssa.UnOp:
		if x.Op == token.MUL {
			fl.load(x.X)
		}
	case *ssa.Extract:
		if call, ok := x.Tuple.(*ssa.Call); ok {
			if g := fl.callee(call.Common()); g != nil {
				fl.enter(call, g)
				for _, r := range returnsOf(g) {
					if x.Index < len(r.Results) {
						fl.val(r.Results[x.Index])
					}
				}
			}
		}
	case *ssa.Call:
		cc := x.Common()
		if b, ok := cc.Value.(*ssa.Builtin); ok {
			if b.Name() == "append" && len(cc.Args) >= 1 {
				if !fl.seenApp[x] {
					fl.seenApp[x] = true
					elem := ""
					if sl, ok := cc.Args[0].Type().Underlying().(*types.Slice); ok {
						elem = namedTypeName(sl.Elem())
						if _, isPtr := types.Unalias(sl.Elem()).(*types.Pointer); isPtr {
							elem = "*" + elem
						}
					}
					fl.Appends = append(fl.Appends, c03Append{x, x.Parent(), elem})
				}
				for _, a := range cc.Args {
					fl.val(a)
				}
			}
			return
		}
		if g := fl.callee(cc); g != nil {
			fl.enter(x, g)
			for _, r := range returnsOf(g) {
				if len(r.Results) == 1 {
					fl.val(r.Results[0])
				}
			}
		}
	case *ssa.Parameter:
		// the actual arguments at every static call site in felix/calc (a helper or
		// local closure that is handed the value to append)
		g := x.Parent()
		for _, ci := range fl.callers()[g] {
			fl.enter(ci, g)
		}
		fl.params[g] = append(fl.params[g], x)
		for _, ci := range fl.entered[g] {
			fl.paramAt(x, ci)
		}
	}
}

// callers: static call sites of every function, in the functions of felix/calc.
func (fl *c03TierFlow) callers() map[*ssa.Function][]ssa.CallInstruction {
	if fl.callerIdx == nil {
		fl.callerIdx = map[*ssa.Function][]ssa.CallInstruction{}
		for _, f := range c01SortedFuncs(fl.p) {
			if !c03InCalc(f) {
				continue
			}
			for _, b := range f.Blocks {
				for _, in := range b.Instrs {
					if ci, ok := in.(ssa.CallInstruction); ok {
						if _, isGo := in.(*ssa.Go); isGo {
							continue
						}
						if g := calleeFn(ci.Common()); g != nil {
							fl.callerIdx[g] = append(fl.callerIdx[g], ci)
						}
					}
				}
			}
		}
	}
	return fl.callerIdx
}

// IsEndpoint: v denotes the endpoint the list is being built for (the first
// argument of the callback, possibly handed down through parameters).
func (fl *c03TierFlow) IsEndpoint(v ssa.Value) bool {
	os := origins(v, c03ThroughCaptured)
	if len(os) == 0 {
		return false
	}
	for _, o := range os {
		if !fl.epLeaf[o.V] {
			return false
		}
	}
	return true
}

// AppendsOf lists the append sites of the flow whose element type is one of elems.
func (fl *c03TierFlow) AppendsOf(elems ...string) []c03Append {
	var out []c03Append
	for _, a := range fl.Appends {
		for _, e := range elems {
			if a.Elem == e {
				out = append(out, a)
			}
		}
	}
	return out
}

// c03MatchTest: cs is `byEndpoint.Contains(e, …)` with isEp(e), or a call of a
// felix/calc predicate whose result can only be true if such a test on its own
// parameter (bound to an endpoint value at cs) returned true.
func c03MatchTest(cs CallSite, byEndpoint *types.Var, isEp func(ssa.Value) bool, depth int) bool {
	if cs.Callee != nil && cs.Callee.Name() == "Contains" && len(cs.Args()) == 3 && fieldVar(cs.Args()[0]) == byEndpoint {
		return isEp(cs.Args()[1])
	}
	g := calleeFn(cs.Common())
	if g == nil || g.Blocks == nil || depth >= 2 || !c03InCalc(g) || g.Signature.Results().Len() != 1 {
		return false
	}
	args := cs.Common().Args
	inner := func(v ssa.Value) bool {
		os := origins(v, nil)
		if len(os) == 0 {
			return false
		}
		for _, o := range os {
			par, ok := o.V.(*ssa.Parameter)
			if !ok {
				return false
			}
			hit := false
			for i, q := range g.Params {
				if q == par && i < len(args) && isEp(args[i]) {
					hit = true
				}
			}
			if !hit {
				return false
			}
		}
		return true
	}
	n := 0
	for _, r := range returnsOf(g) {
		for _, o := range origins(r.Results[0], nil) {
			if cv, ok := constOf(o.V); ok && cv.String() == "false" {
				continue
			}
			call, ok := o.V.(*ssa.Call)
			if !ok || !c03MatchTest(CallSite{call, calleeOf(call.Common()), g}, byEndpoint, inner, depth+1) {
				return false
			}
			n++
		}
	}
	return n > 0
}

// c03RangedFields: the struct fields that the innermost range statement
// enclosing pos (inside fn) iterates over: `range x.F` / `range x.F.M()`, a local
// variable assigned exactly once from such an expression, or a parameter of fn
// whose actual argument at every call site in the root packages is a read of a field.
func c03RangedFields(p *Prog, fn *ssa.Function, pos token.Pos) ([]*types.Var, *ast.RangeStmt) {
	f, rs := p.rangedField(pos)
	if f != nil || rs == nil {
		if f != nil {
			return []*types.Var{f}, rs
		}
		return nil, rs
	}
	path, pk := p.astPath(pos)
	id, ok := ast.Unparen(rs.X).(*ast.Ident)
	if !ok || pk == nil {
		return nil, rs
	}
	obj, _ := pk.TypesInfo.Uses[id].(*types.Var)
	if obj == nil {
		return nil, rs
	}
	// a parameter of the enclosing function
	for i, par := range fn.Params {
		if par.Object() != obj {
			continue
		}
		var out []*types.Var
		for _, g := range p.AllFuncs() {
			for _, b := range g.Blocks {
				for _, in := range b.Instrs {
					ci, ok := in.(ssa.CallInstruction)
					if !ok || calleeFn(ci.Common()) != fn {
						continue
					}
					if i >= len(ci.Common().Args) {
						return nil, rs
					}
					fv := fieldVar(ci.Common().Args[i])
					if fv == nil {
						return nil, rs
					}
					out = append(out, fv)
				}
			}
		}
		return out, rs
	}
	// a local assigned once
	var body ast.Node
	for _, n := range path {
		switch d := n.(type) {
		case *ast.FuncDecl:
			body = d
		case *ast.FuncLit:
			if body == nil {
				body = d
			}
		}
	}
	if body == nil {
		return nil, rs
	}
	var rhs []ast.Expr
	other := false
	ast.Inspect(body, func(n ast.Node) bool {
		switch s := n.(type) {
		case *ast.AssignStmt:
			for i, l := range s.Lhs {
				lid, ok := l.(*ast.Ident)
				if !ok || (pk.TypesInfo.Defs[lid] != obj && pk.TypesInfo.Uses[lid] != obj) {
					continue
				}
				if len(s.Lhs) == len(s.Rhs) && s.Tok != token.ADD_ASSIGN {
					rhs = append(rhs, s.Rhs[i])
				} else {
					other = true
				}
			}
		case *ast.ValueSpec:
			for i, nme := range s.Names {
				if pk.TypesInfo.Defs[nme] == obj && i < len(s.Values) {
					rhs = append(rhs, s.Values[i])
				}
			}
		case *ast.UnaryExpr:
			if s.Op == token.AND {
				if xid, ok := ast.Unparen(s.X).(*ast.Ident); ok && pk.TypesInfo.Uses[xid] == obj {
					other = true
				}
			}
		}
		return true
	})
	if other || len(rhs) != 1 {
		return nil, rs
	}
	x := ast.Unparen(rhs[0])
	if fv := selField(pk.TypesInfo, x); fv != nil {
		return []*types.Var{fv}, rs
	}
	if ce, ok := x.(*ast.CallExpr); ok {
		if se, ok := ast.Unparen(ce.Fun).(*ast.SelectorExpr); ok {
			if fv := selField(pk.TypesInfo, se.X); fv != nil {
				return []*types.Var{fv}, rs
			}
		}
	}
	return nil, rs
}
