package main

// C22 — each block has at most one confirmed owner.  Uses the pair-provenance
// model of engine_C19.go (c19Load / originCalls / c19Writes).

import (
	"fmt"
	"go/constant"
	"go/token"
	"go/types"
	"sort"
	"strings"

	"golang.org/x/tools/go/ssa"
)

func init() {
	register(&Property{
		ID:        "C22",
		Title:     "Each block has at most one confirmed owner",
		Technique: "static analysis: cut-set guard analysis, value provenance and dominance on go/ssa of libcalico-go/lib/ipam",
		DesignRef: "DESIGN.md §3 C22",
		Explanation: "Decides the structure of the two-phase claim and of affinity release: (twophase) every affinity created by the library is created in state pending; claimAffineBlock only receives an affinity obtained from getPendingAffinity or one just written back as pending; " +
			"StateConfirmed is only stored where the block's Affinity was compared equal to the claimant (or, for confirmAffinity, every call is under `block Create succeeded` or that comparison); the lost-race return (errBlockClaimConflict) is dominated by deleting the claimant's pending affinity; " +
			"(pending) getBlockFromAffinity hands a block back only if the affinity state is confirmed/legacy-empty or its own confirm write succeeded; a re-read affinity (queryAffinity) is returned as usable only under State == StateConfirmed; findOrClaimBlock only returns blocks vetted by getBlockFromAffinity; " +
			"(empty) in releaseBlockAffinity every write is behind `!RequireEmpty || empty()`, behind the RequiredBlockSequenceNumber comparison, and behind `Affinity == nil || affinityMatches` (except the deletion of the caller's stale affinity); every block deletion in the package is guarded by empty() " +
			"evaluated on the very pair that is deleted; every caller of releaseBlockAffinity passes RequireEmpty=true, its own bool parameter, or is the reviewed pool-wide release; reclaiming another host's block passes RequireEmpty=true and the sequence number read with the block; " +
			"(bound) in releaseBlockAffinity each compare-and-swap write of the block (deleteBlock, updateBlock) carries the revision of a read R of the block, and on every path to the write each of the three guards holds in a form evaluated on R itself (empty() of the block built from R's pair, Affinity / affinityMatches on it, its SequenceNumber): the revision is what keeps the checks true at the write, so a re-read between check and CAS must repeat the checks (value provenance is flow-sensitive for the local block variable); " +
			"(blockcas) the claim, re-confirm and release protocols all have the shape mark-affinity / CAS-the-block / finalise-affinity: on every path from the write that marks an affinity pending or pendingDeletion to the write that confirms it or the compare-and-delete that removes it, " +
			"a CAS write of the block is attempted (Client.Create of a BlockKey pair, updateBlock, deleteBlock, or a helper that does so on all of its paths); a confirm with no mark in its own function (confirmAffinity) is checked from the entry of each caller. " +
			"That block write is what makes a concurrent claimant/releaser that read the block earlier fail its own compare-and-swap.",
		NotDecided: "That the datastore's CAS makes the pending→confirmed writes linearise; routing components' treatment of pending affinities (felix/confd); KDD backend's two-step delete; numeric correctness of empty(); that the attempted block write of the blockcas clause succeeded (claimAffineBlock confirms after a Create that failed with AlreadyExists once it has re-read the block and found its own affinity).",
		Assumptions: []string{
			"go/types + go/ssa (x/tools v0.50.0) model of the current source, CGO_ENABLED=0 build",
			"Client.Create fails with AlreadyExists when the key exists; Update/DeleteKVP compare revisions (C19.cas)",
			"logrus Panic*/Fatal* do not return",
		},
		Run: runC22,
		Fixtures: []Fixture{
			{Name: "new affinity created already confirmed", File: "libcalico-go/lib/ipam/ipam_block_reader_writer.go",
				Old: "Value: &model.BlockAffinity{State: model.StatePending},", New: "Value: &model.BlockAffinity{State: model.StateConfirmed},", Expect: "C22.twophase/pending-create"},
			{Name: "claim with an affinity that was only read", File: "libcalico-go/lib/ipam/ipam.go",
				Old: "pa, err := c.blockReaderWriter.getPendingAffinity(ctx, affinityCfg, blockCIDR)", New: "pa, err := c.blockReaderWriter.queryAffinity(ctx, affinityCfg, blockCIDR, \"\")", Expect: "C22.twophase/claim-arg/ipamClient.AssignIP"},
			{Name: "confirm although the existing block belongs to someone else", File: "libcalico-go/lib/ipam/ipam_block_reader_writer.go",
				Old: "if b.Affinity != nil && *b.Affinity == affinityKeyStr {", New: "if b.Affinity != nil {", Expect: "C22.twophase/confirm-site/blockReaderWriter.claimAffineBlock"},
			{Name: "lost race keeps the pending affinity", File: "libcalico-go/lib/ipam/ipam_block_reader_writer.go",
				Old: "\t\t\tif err = rw.deleteAffinity(ctx, aff); err != nil {\n\t\t\t\t// Failed to clean up our claim to this block.\n\t\t\t\tlogCtx.WithError(err).Errorf(\"Error deleting block affinity\")\n\t\t\t}\n", New: "", Expect: "C22.twophase/lost-race"},
			{Name: "pending affinity used without confirmation", File: "libcalico-go/lib/ipam/ipam.go",
				Old: "if state != model.StateConfirmed && state != \"\" {", New: "if state == model.StatePendingDeletion {", Expect: "C22.pending/use/ipamClient.getBlockFromAffinity"},
			{Name: "failed confirm accepts any re-read affinity", File: "libcalico-go/lib/ipam/ipam_block_reader_writer.go",
				Old: "if err2 == nil && kvp.Value.(*model.BlockAffinity).State == model.StateConfirmed {", New: "if err2 == nil {", Expect: "C22.pending/reread/blockReaderWriter.confirmAffinity"},
			{Name: "RequireEmpty no longer stops the release", File: "libcalico-go/lib/ipam/ipam_block_reader_writer.go",
				Old: "if opts.RequireEmpty && !b.empty() {", New: "if opts.RequireEmpty && !b.empty() && b.Affinity == nil {", Expect: "C22.empty/require-empty"},
			{Name: "sequence number only checked one way", File: "libcalico-go/lib/ipam/ipam_block_reader_writer.go",
				Old: "*opts.RequiredBlockSequenceNumber != b.SequenceNumber {", New: "*opts.RequiredBlockSequenceNumber > b.SequenceNumber {", Expect: "C22.empty/sequence"},
			{Name: "release of a block owned by another host", File: "libcalico-go/lib/ipam/ipam_block_reader_writer.go",
				Old: "if b.Affinity != nil && !affinityMatches(affinityCfg, b.AllocationBlock) {", New: "if b.Affinity != nil && b.empty() && !affinityMatches(affinityCfg, b.AllocationBlock) {", Expect: "C22.empty/owner"},
			{Name: "non-empty unaffine block deleted", File: "libcalico-go/lib/ipam/ipam.go",
				Old: "if block.empty() && block.Affinity == nil {", New: "if block.Affinity == nil {", Expect: "C22.empty/delete-guard/ipamClient.releaseByHandle"},
			{Name: "reclaim of another host's block without RequireEmpty", File: "libcalico-go/lib/ipam/ipam_block_reader_writer.go",
				Old: "\t\t\t\tRequireEmpty: true,\n\t\t\t\t// Pass the sequence number", New: "\t\t\t\tRequireEmpty: false,\n\t\t\t\t// Pass the sequence number", Expect: "C22.empty/caller/blockReaderWriter.findUsableBlock"},
			{Name: "release re-reads the block after marking the affinity and decides/CASes on the fresh copy", File: "libcalico-go/lib/ipam/ipam_block_reader_writer.go",
				Old: "\tif b.empty() {\n\t\t// If the block is empty, we can delete it.", New: "\tobj, err = rw.queryBlock(ctx, blockCIDR, \"\")\n\tif err != nil {\n\t\treturn err\n\t}\n\tb = blockFromBackend(config, obj.Value.(*model.AllocationBlock))\n\tif b.empty() {\n\t\t// If the block is empty, we can delete it.", Expect: "C22.bound/require-empty/updateBlock"},
			{Name: "release deletes the block by the revision of a fresh read instead of the checked one", File: "libcalico-go/lib/ipam/ipam_block_reader_writer.go",
				Old: "\t\terr := rw.deleteBlock(ctx, obj)\n", New: "\t\tfresh, err := rw.queryBlock(ctx, blockCIDR, \"\")\n\t\tif err != nil {\n\t\t\treturn err\n\t\t}\n\t\terr = rw.deleteBlock(ctx, fresh)\n", Expect: "C22.bound/owner/deleteBlock"},
			{Name: "re-confirming a non-confirmed affinity no longer rewrites the block", File: "libcalico-go/lib/ipam/ipam.go",
				Old: "\t\tb, err = c.blockReaderWriter.updateBlock(ctx, b)\n\t\tif err != nil {\n\t\t\tlogCtx.WithError(err).Debug(\"Error writing block\")\n\t\t\treturn nil, err\n\t\t}\n", New: "", Expect: "C22.blockcas/confirm/ipamClient.getBlockFromAffinity"},
			{Name: "release keeps an empty block and only drops the affinity", File: "libcalico-go/lib/ipam/ipam_block_reader_writer.go",
				Old: "\tif b.empty() {\n\t\t// If the block is empty, we can delete it.", New: "\tif b.empty() && !opts.RequireEmpty {\n\t\tlogCtx.Debug(\"Block is empty - leave it in place for reuse\")\n\t} else if b.empty() {\n\t\t// If the block is empty, we can delete it.", Expect: "C22.blockcas/release/blockReaderWriter.releaseBlockAffinity"},
		},
	})
}

type c22Model struct {
	*c19Model
	stateField, affField, seqField, reqEmptyField, rsnField *types.Var
	pending, confirmed                                      constant.Value
	wrappers                                                map[*ssa.Function]string
	writes                                                  []c19Write
	fnClaim, fnQueryAff, fnGetPending, fnGetBlock, fnFind   *ssa.Function
	fnRelease, fnDeleteBlock, fnConfirm                     *ssa.Function
}

func c22Load(c *Ctx) *c22Model {
	m := &c22Model{c19Model: c19Load(c)}
	p := m.p
	fv := func(pkg, name string) *types.Var {
		var o types.Object
		if pkg == c19Pkg {
			o = p.LookupObj(pkg, name)
		} else {
			o = p.LookupExt(pkg, name)
		}
		v, _ := o.(*types.Var)
		if v == nil {
			c.Lost("field %s.%s", pkg, name)
		}
		return v
	}
	m.stateField = fv(c19ModelPkg, "BlockAffinity.State")
	m.affField = fv(c19ModelPkg, "AllocationBlock.Affinity")
	m.seqField = fv(c19ModelPkg, "AllocationBlock.SequenceNumber")
	m.reqEmptyField = fv(c19Pkg, "releaseAffinityOpts.RequireEmpty")
	m.rsnField = fv(c19Pkg, "releaseAffinityOpts.RequiredBlockSequenceNumber")
	cv := func(name string) constant.Value {
		k, _ := p.LookupExt(c19ModelPkg, name).(*types.Const)
		if k == nil {
			c.Lost("model.%s", name)
		}
		return k.Val()
	}
	m.pending, m.confirmed = cv("StatePending"), cv("StateConfirmed")
	fn := func(name string) *ssa.Function {
		f := p.Func(c19Pkg, name)
		if f == nil {
			c.Lost("%s.%s", c19Pkg, name)
		}
		return f
	}
	m.fnClaim = fn("blockReaderWriter.claimAffineBlock")
	m.fnQueryAff = fn("blockReaderWriter.queryAffinity")
	m.fnGetPending = fn("blockReaderWriter.getPendingAffinity")
	m.fnGetBlock = fn("ipamClient.getBlockFromAffinity")
	m.fnFind = fn("blockAssignState.findOrClaimBlock")
	m.fnRelease = fn("blockReaderWriter.releaseBlockAffinity")
	m.fnDeleteBlock = fn("blockReaderWriter.deleteBlock")
	m.fnConfirm = fn("blockReaderWriter.confirmAffinity")
	m.writes, m.wrappers = c19Writes(m.c19Model)
	return m
}

func c22IsConst(v ssa.Value, k constant.Value) bool {
	cv, ok := constOf(v)
	return ok && cv.Kind() == k.Kind() && constant.Compare(cv, token.EQL, k)
}

// stateStores: stores into BlockAffinity.State in fn.
func (m *c22Model) stateStores(fn *ssa.Function) []*ssa.Store {
	var out []*ssa.Store
	allInstrs(fn, false, func(_ *ssa.Function, in ssa.Instruction) {
		if st, ok := in.(*ssa.Store); ok && fieldVar(st.Addr) == m.stateField {
			if _, isFA := st.Addr.(*ssa.FieldAddr); isFA {
				out = append(out, st)
			}
		}
	})
	return out
}

// latestStateStore: the State store that dominates `at` and is dominated by every other such store.
func (m *c22Model) latestStateStore(at ssa.Instruction) *ssa.Store {
	var dom []*ssa.Store
	for _, st := range m.stateStores(at.Parent()) {
		if instrDominates(st, at) {
			dom = append(dom, st)
		}
	}
	for _, s := range dom {
		last := true
		for _, o := range dom {
			if o != s && !instrDominates(o, s) {
				last = false
			}
		}
		if last {
			return s
		}
	}
	return nil
}

// calleeIs: the call's static callee is fn.
func c22CallTo(in ssa.Instruction, fn *ssa.Function) bool {
	cl, ok := in.(*ssa.Call)
	return ok && calleeFn(cl.Common()) == fn
}

// literalKeyType: static key type of a pair literal passed to a call ("" if unknown).
func (m *c22Model) literalKeyType(arg ssa.Value) string {
	q := ""
	for _, o := range origins(arg, nil) {
		al, ok := o.V.(*ssa.Alloc)
		if !ok {
			return ""
		}
		fields, _ := c19FieldStores(al, 0)
		for _, kv := range fields[m.keyField.Name()] {
			if mi, ok := kv.(*ssa.MakeInterface); ok {
				q = qualTypeName(mi.X.Type())
			}
		}
	}
	return q
}

// matchGuard: the block's Affinity string was compared equal to something, or affinityMatches returned true.
func (m *c22Model) matchGuard() EdgePred {
	isAffStr := func(v ssa.Value) bool {
		b, ok := v.Type().Underlying().(*types.Basic)
		return ok && b.Kind() == types.String && fieldVar(v) == m.affField
	}
	return anyOf(
		eqCond(true, isAffStr, func(v ssa.Value) bool { return !isNilConst(v) }),
		callCond(true, func(cs CallSite) bool {
			return cs.Callee != nil && cs.Callee.Name() == "affinityMatches" && cs.Callee.Pkg() != nil && strings.HasSuffix(cs.Callee.Pkg().Path(), c19Pkg)
		}),
	)
}

// blockCreateOK: edge on which the error of Client.Create(<BlockKey literal>) is nil.
func (m *c22Model) blockCreateOK() EdgePred {
	return eqCond(true, func(v ssa.Value) bool {
		ex, ok := v.(*ssa.Extract)
		if !ok {
			return false
		}
		cl, ok := ex.Tuple.(*ssa.Call)
		if !ok || c19ClientCall(cl.Common(), "Create") == "" {
			return false
		}
		return m.literalKeyType(cl.Common().Args[1]) == c19ModelPkg+".BlockKey"
	}, isNilConst)
}

func runC22(c *Ctx) {
	m := c22Load(c)
	c.Rule("C22.twophase", "E-FLOW/E-GUARD/E-ORDER", "affinities are created pending; claimAffineBlock gets a pending affinity; StateConfirmed stored / confirmAffinity called only under block-create success or affinity match; lost race deletes the pending affinity", 9)
	c.Rule("C22.pending", "E-GUARD", "an affinity is used as ownership only under State==confirmed (or legacy \"\") or after the function's own successful confirm write; findOrClaimBlock returns only vetted blocks", 4)
	c.Rule("C22.empty", "E-GUARD/E-FLOW", "releaseBlockAffinity writes are behind RequireEmpty/empty(), the sequence-number comparison and the owner check; block deletes are guarded by empty() on the deleted pair; callers pass RequireEmpty correctly", 25)
	c.Rule("C22.bound", "E-FLOW/E-GUARD", "in releaseBlockAffinity the three release guards (RequireEmpty/empty(), owner match, required sequence number) that protect a compare-and-swap write of the block were evaluated on the very read of the block whose revision that write carries: a re-read between the checks and the CAS must repeat the checks on the new copy", 6)
	c.Rule("C22.blockcas", "E-ORDER", "between marking an affinity (pending / pendingDeletion write) and finalising it (confirm write / compare-and-delete of the affinity) every path attempts a CAS write of the block (Create of a BlockKey, updateBlock, deleteBlock); a confirm with no mark in the same function: every path from the function's entry (delegated to the call sites when the affinity is a parameter)", 5)
	c22TwoPhase(c, m)
	c22Pending(c, m)
	c22Empty(c, m)
	c22BlockCAS(c, m)
}

// ------------------------------------------------------------- C22.twophase --

func c22TwoPhase(c *Ctx, m *c22Model) {
	p := m.p
	// (T2) every affinity the library creates is created pending
	nCreate := 0
	for _, f := range m.funcs {
		for _, cs := range callsIn(f, false, func(fn *types.Func) bool { return fn.Name() == "Create" }) {
			if c19ClientCall(cs.Common(), "Create") == "" {
				continue
			}
			arg := cs.Common().Args[1]
			if m.literalKeyType(arg) != c19ModelPkg+".BlockAffinityKey" {
				continue
			}
			nCreate++
			ok, why := true, ""
			for _, o := range origins(arg, nil) {
				al, isAl := o.V.(*ssa.Alloc)
				if !isAl {
					ok, why = false, "not a literal"
					continue
				}
				fields, _ := c19FieldStores(al, 0)
				vals := fields["Value"]
				if len(vals) == 0 {
					ok, why = false, "no Value"
				}
				for _, v := range vals {
					mi, isMI := v.(*ssa.MakeInterface)
					if !isMI {
						ok, why = false, "Value is "+path(v)
						continue
					}
					sts := literalFieldStores(mi.X)[m.stateField.Name()]
					if len(sts) == 0 {
						ok, why = false, "State not set (empty state is read as confirmed)"
					}
					for _, s := range sts {
						if !c22IsConst(s, m.pending) {
							ok, why = false, "State is "+path(s)
						}
					}
				}
			}
			c.Check(ok, "C22.twophase/pending-create/"+fnName(f), p.Pos(cs.Instr.Pos()),
				"BlockAffinity is created with State: StatePending", "in "+fnName(f)+" a BlockAffinity is created but not in state pending: "+why)
		}
	}
	if nCreate == 0 {
		c.Lost("no Client.Create of a BlockAffinityKey literal")
	}

	// (T1) claimAffineBlock's affinity argument
	affIdx := -1
	for i, par := range m.fnClaim.Params {
		if m.isPairPtr(par.Type()) {
			affIdx = i
		}
	}
	if affIdx < 0 {
		c.Lost("claimAffineBlock has no pair parameter")
	}
	for _, ci := range m.callSites[m.fnClaim] {
		f := ci.Parent()
		key := "C22.twophase/claim-arg/" + fnName(f)
		site := p.Pos(ci.Pos())
		arg := ci.Common().Args[affIdx]
		var bad, good []string
		calls := m.originCalls(arg)
		if len(calls) == 0 {
			bad = append(bad, "affinity is "+path(arg)+", not the result of getPendingAffinity")
		}
		for k := range calls {
			cl := k.(*ssa.Call)
			switch {
			case calleeFn(cl.Common()) == m.fnGetPending:
				good = append(good, "getPendingAffinity")
			case m.wrappers[calleeFn(cl.Common())] == "Update":
				st := m.latestStateStore(cl)
				if st != nil && c22IsConst(st.Val, m.pending) {
					good = append(good, "affinity written back as pending")
				} else {
					bad = append(bad, "affinity comes from "+c19CalleeName(cl)+" at "+p.Pos(cl.Pos())+" which does not write State=pending")
				}
			default:
				bad = append(bad, "affinity comes from "+c19CalleeName(cl)+" at "+p.Pos(cl.Pos())+", which does not mark it pending")
			}
		}
		sort.Strings(bad)
		sort.Strings(good)
		c.Check(len(bad) == 0, key, site, "claimAffineBlock receives: "+strings.Join(good, ", "),
			"in "+fnName(f)+" claimAffineBlock is called with an affinity that was not (re)written as pending first: "+strings.Join(bad, "; "))
	}

	// (T3/T4) StateConfirmed stores and confirmAffinity call sites
	guard := anyOf(m.matchGuard(), m.blockCreateOK())
	nConf := 0
	for _, f := range m.funcs {
		for _, st := range m.stateStores(f) {
			if !c22IsConst(st.Val, m.confirmed) {
				continue
			}
			nConf++
			key := "C22.twophase/confirm-store/" + fnName(f)
			site := p.Pos(st.Pos())
			if guardedCut(st, guard) {
				c.Ok(key, site, "State=confirmed stored only after the block's Affinity compared equal to the claimant / the block Create succeeded")
				continue
			}
			// delegated: the pair is a parameter → every call site must be guarded
			isParam := false
			for _, o := range origins(st.Addr.(*ssa.FieldAddr).X, func(v ssa.Value) []ssa.Value {
				if fa, ok := v.(*ssa.FieldAddr); ok {
					return []ssa.Value{fa.X}
				}
				return nil
			}) {
				if o.Kind == "param" && o.V.Parent() == f && f.Parent() == nil {
					isParam = true
				} else {
					isParam = false
					break
				}
			}
			if !isParam || m.valueUse[f] || c19Exported(f) || len(m.callSites[f]) == 0 {
				c.Violate(key, site, "%s stores State=confirmed without the block's Affinity having been compared to the claimant and without a successful block Create", fnName(f))
				continue
			}
			c.Ok(key, site, "unconditional in %s; guarded at its %d call site(s)", fnName(f), len(m.callSites[f]))
			for _, ci := range m.callSites[f] {
				how := "unguarded"
				if guardedCut(ci, m.blockCreateOK()) {
					how = "after-create"
				} else if guardedCut(ci, m.matchGuard()) {
					how = "affinity-match"
				}
				c.Check(guardedCut(ci, guard), "C22.twophase/confirm-site/"+fnName(ci.Parent())+"/"+how, p.Pos(ci.Pos()),
					fnName(f)+" called only after the block Create succeeded or the existing block's Affinity equals the claimant",
					"in "+fnName(ci.Parent())+" "+fnName(f)+" can be reached without a successful block Create and without the block's Affinity matching the claimant: two hosts can both hold a confirmed affinity")
			}
		}
	}
	if nConf == 0 {
		c.Lost("no store of StateConfirmed")
	}

	// (T5) lost race: errBlockClaimConflict returned from the claiming function only after deleting the pending affinity
	nLost := 0
	for _, r := range returnsOf(m.fnClaim) {
		for _, res := range r.Results {
			if !c19IsError(res.Type()) {
				continue
			}
			mi, ok := res.(*ssa.MakeInterface)
			if !ok || namedTypeName(mi.X.Type()) != "errBlockClaimConflict" {
				continue
			}
			nLost++
			del := false
			allInstrs(m.fnClaim, false, func(_ *ssa.Function, in ssa.Instruction) {
				cl, ok := in.(*ssa.Call)
				if !ok || m.wrappers[calleeFn(cl.Common())] != "DeleteKVP" && c19ClientCall(cl.Common(), "DeleteKVP") == "" {
					return
				}
				if !instrDominates(cl, r) {
					return
				}
				for _, a := range cl.Common().Args {
					if par, ok := a.(*ssa.Parameter); ok && m.isPairPtr(par.Type()) && c19ParamIndex(par) == affIdx {
						del = true
					}
				}
			})
			c.Check(del, "C22.twophase/lost-race/"+fnName(m.fnClaim), p.Pos(r.Pos()),
				"the claim-conflict return is dominated by deleting the claimant's pending affinity",
				"claimAffineBlock returns errBlockClaimConflict without deleting its pending affinity: the loser keeps a pending claim on a block it does not own")
		}
	}
	if nLost == 0 {
		c.Lost("claimAffineBlock never returns errBlockClaimConflict")
	}
}

// -------------------------------------------------------------- C22.pending --

func (m *c22Model) stateEq(k constant.Value) EdgePred {
	return eqCond(true, func(v ssa.Value) bool { return fieldVar(v) == m.stateField }, func(v ssa.Value) bool { return c22IsConst(v, k) })
}

func c22Pending(c *Ctx, m *c22Model) {
	p := m.p
	// (P1) getBlockFromAffinity
	ownConfirmOK := eqCond(true, func(v ssa.Value) bool {
		ex, ok := v.(*ssa.Extract)
		if !ok {
			return false
		}
		cl, ok := ex.Tuple.(*ssa.Call)
		if !ok || m.wrappers[calleeFn(cl.Common())] != "Update" {
			return false
		}
		st := m.latestStateStore(cl)
		return st != nil && c22IsConst(st.Val, m.confirmed)
	}, isNilConst)
	usable := anyOf(m.stateEq(m.confirmed), m.stateEq(constant.MakeString("")), ownConfirmOK)
	n := 0
	for _, r := range returnsOf(m.fnGetBlock) {
		var pair, errv ssa.Value
		for _, res := range r.Results {
			if m.isPairPtr(res.Type()) {
				pair = res
			} else if c19IsError(res.Type()) {
				errv = res
			}
		}
		if pair == nil || errv == nil || !isNilConst(errv) || isNilConst(pair) {
			continue
		}
		viaClaim := false
		for k := range m.originCalls(pair) {
			if calleeFn(k.(*ssa.Call).Common()) == m.fnClaim {
				viaClaim = true
			}
		}
		if viaClaim {
			continue // claimAffineBlock confirms by itself (C22.twophase)
		}
		n++
		c.Check(guardedCut(r, usable), "C22.pending/use/"+fnName(m.fnGetBlock), p.Pos(r.Pos()),
			"block returned only if the affinity State is confirmed/\"\" or this call's own confirm write succeeded",
			"getBlockFromAffinity can return the block for an affinity that is neither confirmed nor confirmed by this call: a pending claim is used as ownership")
	}
	if n == 0 {
		c.Lost("getBlockFromAffinity has no successful return of a loaded block")
	}
	// (P2/P3) a re-read affinity is only returned as usable under State == confirmed
	nr := 0
	for _, f := range m.funcs {
		if f == m.fnQueryAff {
			continue
		}
		for _, r := range returnsOf(f) {
			var pair, errv ssa.Value
			for _, res := range r.Results {
				if m.isPairPtr(res.Type()) {
					pair = res
				} else if c19IsError(res.Type()) {
					errv = res
				}
			}
			if pair == nil || errv == nil || !isNilConst(errv) {
				continue
			}
			reread := false
			for k := range m.originCalls(pair) {
				if calleeFn(k.(*ssa.Call).Common()) == m.fnQueryAff {
					reread = true
				}
			}
			if !reread {
				continue
			}
			nr++
			c.Check(guardedCut(r, m.stateEq(m.confirmed)), "C22.pending/reread/"+fnName(f), p.Pos(r.Pos()),
				"an affinity that was merely read is returned as usable only under State == StateConfirmed",
				"in "+fnName(f)+" an affinity read from the datastore is returned as usable without checking State == StateConfirmed (it may be another process's pending / pendingDeletion claim)")
		}
	}
	if nr == 0 {
		c.Lost("no function returns a queryAffinity result")
	}
	// (P4) findOrClaimBlock returns only blocks vetted by getBlockFromAffinity
	var bad []string
	nret := 0
	for _, r := range returnsOf(m.fnFind) {
		for _, res := range r.Results {
			if !m.isPairPtr(res.Type()) || isNilConst(res) {
				continue
			}
			nret++
			calls := m.originCalls(res)
			if len(calls) == 0 {
				bad = append(bad, path(res)+" at "+p.Pos(r.Pos()))
			}
			for k := range calls {
				if calleeFn(k.(*ssa.Call).Common()) != m.fnGetBlock {
					bad = append(bad, c19CalleeName(k.(*ssa.Call))+" at "+p.Pos(r.Pos()))
				}
			}
		}
	}
	if nret == 0 {
		c.Lost("findOrClaimBlock returns no block")
	}
	sort.Strings(bad)
	c.Check(len(bad) == 0, "C22.pending/vetted/"+fnName(m.fnFind), p.Pos(m.fnFind.Pos()),
		fmt.Sprintf("all %d block return(s) come from getBlockFromAffinity", nret),
		"findOrClaimBlock returns a block that did not go through getBlockFromAffinity's state check: "+strings.Join(bad, "; "))
}

// ---------------------------------------------------------------- C22.empty --

func c22Empty(c *Ctx, m *c22Model) {
	p := m.p
	f := m.fnRelease
	c22Bound(c, m)
	isEmptyCall := func(cs CallSite) bool { return methodNamed(cs.Callee, "allocationBlock", "empty") }
	reqEmpty := anyOf(
		func(cond ssa.Value, pol bool) bool { return !pol && fieldVar(cond) == m.reqEmptyField },
		callCond(true, isEmptyCall),
	)
	seq := anyOf(
		eqCond(true, func(v ssa.Value) bool { return fieldVar(v) == m.rsnField }, isNilConst),
		eqCond(true, func(v ssa.Value) bool { return fieldVar(v) == m.rsnField && !isNilConst(v) }, func(v ssa.Value) bool { return fieldVar(v) == m.seqField }),
	)
	owner := anyOf(
		eqCond(true, func(v ssa.Value) bool {
			_, isPtr := v.Type().Underlying().(*types.Pointer)
			return isPtr && fieldVar(v) == m.affField
		}, isNilConst),
		m.matchGuard(),
	)
	stale := callCond(false, func(cs CallSite) bool { return cs.Callee != nil && cs.Callee.Name() == "affinityMatches" })
	nw := 0
	for _, w := range m.writes {
		if w.ci.Parent() != f {
			continue
		}
		nw++
		site := p.Pos(w.ci.Pos())
		isStale := false
		if guardedCut(w.ci, stale) {
			// cleanup of the caller's stale affinity row: must be a delete of the affinity that was read, nothing else
			arg := c19PairArg(m.c19Model, w)
			viaAff := false
			if arg != nil {
				for k := range m.originCalls(arg) {
					if calleeFn(k.(*ssa.Call).Common()) == m.fnQueryAff {
						viaAff = true
					}
				}
			}
			isStale = w.prim == "DeleteKVP" && viaAff
		}
		if isStale {
			c.Ok("C22.empty/stale-affinity/"+w.name, site, "under !affinityMatches only the caller's own (stale) affinity row is deleted")
		} else {
			c.Check(guardedCut(w.ci, reqEmpty), "C22.empty/require-empty/"+w.name, site,
				w.name+" is behind `!opts.RequireEmpty || b.empty()`",
				"in releaseBlockAffinity "+w.name+" is reachable with RequireEmpty set and a non-empty block: an owner gives up a block that still holds allocations")
			c.Check(guardedCut(w.ci, owner), "C22.empty/owner/"+w.name, site,
				w.name+" is behind `b.Affinity == nil || affinityMatches(caller, block)`",
				"in releaseBlockAffinity "+w.name+" is reachable although the block is affine to a different host: a non-owner releases the block")
		}
		seqName := w.name
		if isStale {
			seqName += "(stale)"
		}
		c.Check(guardedCut(w.ci, seq), "C22.empty/sequence/"+seqName, site,
			w.name+" is behind `RequiredBlockSequenceNumber == nil || *RequiredBlockSequenceNumber == b.SequenceNumber`",
			"in releaseBlockAffinity "+w.name+" is reachable although the block's SequenceNumber differs from the required one: a block modified since the caller inspected it is released")
	}
	if nw < 5 {
		c.Lost("releaseBlockAffinity: expected 5 datastore writes, found %d", nw)
	}

	// every block deletion is guarded by empty() evaluated on the pair being deleted
	nd := 0
	for _, ci := range m.callSites[m.fnDeleteBlock] {
		nd++
		fn := ci.Parent()
		argCalls := m.originCalls(ci.Common().Args[len(ci.Common().Args)-1])
		g := guardedCut(ci, callCond(true, func(cs CallSite) bool {
			if !isEmptyCall(cs) {
				return false
			}
			// receiver → blockFromBackend(cfg, pair.Value.(*AllocationBlock)) → pair
			for k := range m.originCalls(cs.Args()[0]) {
				for _, a := range k.(*ssa.Call).Common().Args {
					for k2 := range m.originCalls(a) {
						if argCalls[k2] {
							return true
						}
					}
				}
			}
			return false
		}))
		c.Check(g, "C22.empty/delete-guard/"+fnName(fn), p.Pos(ci.Pos()),
			"deleteBlock only under empty() == true computed from the pair that is deleted (CAS on its revision keeps the check valid)",
			"in "+fnName(fn)+" deleteBlock is reachable without empty() having returned true for the block read in the same pair: allocations are destroyed")
	}
	if nd == 0 {
		c.Lost("no call of deleteBlock")
	}

	// callers of releaseBlockAffinity
	optIdx := -1
	for i, par := range f.Params {
		if namedTypeName(par.Type()) == "releaseAffinityOpts" {
			optIdx = i
		}
	}
	if optIdx < 0 {
		c.Lost("releaseBlockAffinity has no releaseAffinityOpts parameter")
	}
	nc := 0
	for _, ci := range m.callSites[f] {
		nc++
		fn := ci.Parent()
		key := "C22.empty/caller/" + fnName(fn)
		site := p.Pos(ci.Pos())
		var req, rsn []ssa.Value
		lit := true
		for _, o := range origins(ci.Common().Args[optIdx], nil) {
			if _, isZero := o.V.(*ssa.Const); isZero {
				continue // releaseAffinityOpts{}: every field unset
			}
			al, ok := o.V.(*ssa.Alloc)
			if !ok {
				lit = false
				continue
			}
			fs, cp := c19FieldStores(al, 0)
			if len(cp) > 0 {
				lit = false
			}
			req = append(req, fs[m.reqEmptyField.Name()]...)
			rsn = append(rsn, fs[m.rsnField.Name()]...)
		}
		if !lit {
			c.Undecided(key, site, "releaseAffinityOpts passed to releaseBlockAffinity is not a literal")
			continue
		}
		kind := "unset"
		for _, v := range req {
			if cv, ok := constOf(v); ok {
				if constant.BoolVal(cv) {
					kind = "true"
				} else {
					kind = "false"
				}
			} else if par, ok := v.(*ssa.Parameter); ok && par.Parent() == fn {
				kind = "param " + par.Name()
			} else {
				kind = "computed " + path(v)
			}
		}
		// does the function release an affinity that is not derived from its own parameters (another host's)?
		foreign := fn == p.Func(c19Pkg, "blockReaderWriter.findUsableBlock")
		switch {
		case foreign:
			c.Check(kind == "true" && len(rsn) > 0, key, site,
				"reclaim of another host's block passes RequireEmpty=true and the sequence number read with the block",
				"findUsableBlock reclaims another host's block with RequireEmpty="+kind+fmt.Sprintf(" and %d sequence-number store(s): a block in use (or re-created since it was listed) can be taken from its owner", len(rsn)))
		case kind == "true" || strings.HasPrefix(kind, "param "):
			c.Ok(key, site, "RequireEmpty = %s", kind)
		case fnName(fn) == "ipamClient.ReleasePoolAffinities":
			c.Ok(key, site, "RequireEmpty = %s (reviewed: pool-wide release on pool deletion releases every affinity; non-empty blocks are kept, only made non-affine)", kind)
		default:
			c.Violate(key, site, "%s calls releaseBlockAffinity with RequireEmpty=%s: neither true nor the caller's own mustBeEmpty parameter", fnName(fn), kind)
		}
	}
	if nc == 0 {
		c.Lost("no caller of releaseBlockAffinity")
	}
}

// ---------------------------------------------------------------- C22.bound --

// c22DerivesFrom: v is computed from the result of one of the calls in reads — directly,
// or through (at most three levels of) calls that were handed such a value
// (blockFromBackend(cfg, pair.Value.(*AllocationBlock)), affinityMatches(cfg, b.AllocationBlock)).
// A datastore read that is not in reads is never crossed: what it returns is a different
// revision, whatever was passed to it.
func (m *c22Model) c22DerivesFrom(v ssa.Value, reads map[ssa.Instruction]bool, depth int) bool {
	for k := range c22OriginCalls(v) {
		if reads[k] {
			return true
		}
		call, ok := k.(*ssa.Call)
		if !ok || depth >= 3 || m.c22IsRead(call) {
			continue
		}
		for _, a := range call.Common().Args {
			if m.c22DerivesFrom(a, reads, depth+1) {
				return true
			}
		}
	}
	return false
}

// c22OriginCalls: like c19Model.originCalls, but flow-sensitive for local struct variables:
// a load of (a field of) a local variable leads only to the stores that reach the load
// (`b = f(read1) ... check(b) ... b = f(read2) ... use(b)`: the check sees read1 only).
func c22OriginCalls(v ssa.Value) map[ssa.Instruction]bool {
	out := map[ssa.Instruction]bool{}
	thr := func(x ssa.Value) []ssa.Value {
		switch y := x.(type) {
		case *ssa.IndexAddr:
			return []ssa.Value{y.X}
		case *ssa.UnOp:
			if al, ok := y.X.(*ssa.Alloc); ok && y.Op == token.MUL {
				if vals := c22ReachingStores(al, y, -1); len(vals) > 0 {
					return vals
				}
			}
		case *ssa.FieldAddr:
			if al, ok := y.X.(*ssa.Alloc); ok {
				if vals := c22ReachingStores(al, y, y.Field); len(vals) > 0 {
					return vals
				}
			}
			return []ssa.Value{y.X}
		case *ssa.Field:
			return []ssa.Value{y.X}
		case *ssa.Lookup:
			return []ssa.Value{y.X}
		}
		return nil
	}
	for _, o := range origins(v, thr) {
		if c, ok := o.V.(*ssa.Call); ok {
			out[c] = true
		}
	}
	return out
}

// c22ReachingStores: the values of the stores into local variable al (whole-variable stores, and
// stores into field `field` when field >= 0) that reach instruction `at` without being
// overwritten by another such store on the way.
func c22ReachingStores(al *ssa.Alloc, at ssa.Instruction, field int) []ssa.Value {
	def := func(in ssa.Instruction) (ssa.Value, bool) {
		st, ok := in.(*ssa.Store)
		if !ok {
			return nil, false
		}
		if st.Addr == al {
			return st.Val, true
		}
		if fa, ok := st.Addr.(*ssa.FieldAddr); ok && field >= 0 && fa.X == al && fa.Field == field {
			return st.Val, true
		}
		return nil, false
	}
	var vals []ssa.Value
	seen := map[*ssa.BasicBlock]bool{}
	var scan func(b *ssa.BasicBlock, from int)
	scan = func(b *ssa.BasicBlock, from int) {
		for i := from; i >= 0; i-- {
			if v, ok := def(b.Instrs[i]); ok {
				vals = append(vals, v)
				return
			}
		}
		for _, pb := range b.Preds {
			if !seen[pb] {
				seen[pb] = true
				scan(pb, len(pb.Instrs)-1)
			}
		}
	}
	blk := at.Block()
	idx := -1
	for i, in := range blk.Instrs {
		if in == at {
			idx = i
		}
	}
	scan(blk, idx-1)
	return vals
}

// c22IsRead: a call that returns a *KVPair / *KVPairList fetched from the datastore (Client.Get/List or
// an in-package function that returns what such a call returned).
func (m *c22Model) c22IsRead(call *ssa.Call) bool {
	if c19ClientCall(call.Common(), "Get", "List") != "" {
		return true
	}
	res := call.Common().Signature().Results()
	for i := 0; i < res.Len(); i++ {
		if m.carrying(res.At(i).Type()) {
			return true
		}
	}
	return false
}

// c22Bound: the revision handed to the block CAS in releaseBlockAffinity is what makes the
// emptiness, ownership and sequence-number checks still true at the moment of the write
// (any concurrent change of the block since that read fails the CAS).  That only works if
// the checks looked at the same read.  For each block write (a write whose pair does not
// come from the affinity read), each guard must hold in its *bound* form: the block value
// the guard inspected derives from the read call(s) the written pair originates from.
func c22Bound(c *Ctx, m *c22Model) {
	p := m.p
	f := m.fnRelease
	n := 0
	for _, w := range m.writes {
		if w.ci.Parent() != f {
			continue
		}
		arg := c19PairArg(m.c19Model, w)
		if arg == nil {
			continue
		}
		// follow the pair back through the package's own write wrappers (aff = updateAffinity(aff)) to reads
		reads := map[ssa.Instruction]bool{}
		isAff := false
		var walk func(v ssa.Value, depth int)
		walk = func(v ssa.Value, depth int) {
			for k := range m.originCalls(v) {
				call, _ := k.(*ssa.Call)
				if call == nil {
					continue
				}
				if calleeFn(call.Common()) == m.fnQueryAff {
					isAff = true
				}
				if sf := calleeFn(call.Common()); sf != nil && m.wrappers[sf] != "" && depth < 4 {
					for _, a := range call.Common().Args {
						if m.isPairPtr(a.Type()) {
							walk(a, depth+1)
						}
					}
					continue
				}
				reads[k] = true
			}
		}
		walk(arg, 0)
		if isAff {
			continue // the affinity row: its own revision chain, not the block's
		}
		site := p.Pos(w.ci.Pos())
		if len(reads) == 0 {
			c.Undecided("C22.bound/origin/"+w.name, site, "the pair written by %s in releaseBlockAffinity does not originate from a read call", w.name)
			continue
		}
		from := func(v ssa.Value) bool { return m.c22DerivesFrom(v, reads, 0) }
		// an argument that is the address of a local variable (pointer receiver / &b): what the variable holds at the call
		fromAt := func(v ssa.Value, at ssa.Instruction) bool {
			if al, ok := v.(*ssa.Alloc); ok {
				for _, sv := range c22ReachingStores(al, at, -1) {
					if from(sv) {
						return true
					}
				}
				return false
			}
			return from(v)
		}
		reqEmpty := anyOf(
			func(cond ssa.Value, pol bool) bool { return !pol && fieldVar(cond) == m.reqEmptyField },
			callCond(true, func(cs CallSite) bool {
				return methodNamed(cs.Callee, "allocationBlock", "empty") && fromAt(cs.Args()[0], cs.Instr)
			}),
		)
		seq := anyOf(
			eqCond(true, func(v ssa.Value) bool { return fieldVar(v) == m.rsnField }, isNilConst),
			eqCond(true, func(v ssa.Value) bool { return fieldVar(v) == m.rsnField && !isNilConst(v) }, func(v ssa.Value) bool { return fieldVar(v) == m.seqField && from(v) }),
		)
		isAffStr := func(v ssa.Value) bool {
			b, ok := v.Type().Underlying().(*types.Basic)
			return ok && b.Kind() == types.String && fieldVar(v) == m.affField && from(v)
		}
		owner := anyOf(
			eqCond(true, func(v ssa.Value) bool {
				_, isPtr := v.Type().Underlying().(*types.Pointer)
				return isPtr && fieldVar(v) == m.affField && from(v)
			}, isNilConst),
			eqCond(true, isAffStr, func(v ssa.Value) bool { return !isNilConst(v) }),
			callCond(true, func(cs CallSite) bool {
				if cs.Callee == nil || cs.Callee.Name() != "affinityMatches" || cs.Callee.Pkg() == nil || !strings.HasSuffix(cs.Callee.Pkg().Path(), c19Pkg) {
					return false
				}
				for _, a := range cs.Args() {
					if fromAt(a, cs.Instr) {
						return true
					}
				}
				return false
			}),
		)
		var rs []string
		for k := range reads {
			rs = append(rs, p.Pos(k.Pos()))
		}
		sort.Strings(rs)
		rd := strings.Join(rs, ", ")
		for _, g := range []struct {
			name string
			pred EdgePred
			ok   string
			bad  string
		}{
			{"require-empty", reqEmpty, "`!opts.RequireEmpty || b.empty()`", "a block that received an allocation after the emptiness check is released although the caller required it to be empty"},
			{"owner", owner, "`b.Affinity == nil || affinityMatches(caller, block)`", "a block that was reclaimed and confirmed by another host after the owner check is deleted / stripped of its affinity by the stale releaser"},
			{"sequence", seq, "`RequiredBlockSequenceNumber == nil || *RequiredBlockSequenceNumber == b.SequenceNumber`", "a block modified since the caller inspected it (sequence number moved on) is released"},
		} {
			n++
			c.Check(guardedCut(w.ci, g.pred), "C22.bound/"+g.name+"/"+w.name, site,
				fmt.Sprintf("%s guarding %s was evaluated on the block read at %s, the read whose revision the write carries", g.ok, w.name, rd),
				fmt.Sprintf("in releaseBlockAffinity %s writes the block pair read at %s, but on some path the guard %s was not evaluated on that read (the block was read again between the check and the compare-and-swap, or the CAS uses another copy): the revision no longer ties the check to the write — %s", w.name, rd, g.ok, g.bad))
		}
	}
	if n == 0 {
		c.Lost("releaseBlockAffinity: no compare-and-swap write of the block found")
	}
}

// ------------------------------------------------------------- C22.blockcas --

// c22StatePair: the pair whose Value.(*BlockAffinity).State a store writes (nil for
// a store into a BlockAffinity literal under construction).
func (m *c22Model) c22StatePair(st *ssa.Store) ssa.Value {
	fa, ok := st.Addr.(*ssa.FieldAddr)
	if !ok {
		return nil
	}
	x := fa.X
	for i := 0; i < 8 && x != nil; i++ {
		if m.isPairPtr(x.Type()) {
			return x
		}
		switch y := x.(type) {
		case *ssa.TypeAssert:
			x = y.X
		case *ssa.UnOp:
			if y.Op != token.MUL {
				return nil
			}
			x = y.X
		case *ssa.FieldAddr:
			x = y.X
		case *ssa.Field:
			x = y.X
		case *ssa.Extract:
			x = y.Tuple
		default:
			return nil
		}
	}
	return nil
}

// c22SamePair: two pair values denote the same datastore object: same SSA value,
// b is (derived from) the result of the write call `via` that wrote a, or their
// backward slices share a leaf.
func (m *c22Model) c22SamePair(a, b ssa.Value, via ssa.Instruction) bool {
	if a == b {
		return true
	}
	la := map[ssa.Value]bool{}
	for _, o := range origins(a, nil) {
		la[o.V] = true
	}
	for _, o := range origins(b, nil) {
		if la[o.V] {
			return true
		}
		if via != nil {
			if in, ok := o.V.(ssa.Instruction); ok && in == via {
				return true
			}
		}
	}
	return false
}

type c22AffWrite struct {
	ci    *ssa.Call
	pair  ssa.Value
	state ssa.Value // value of the latest State store (nil: none)
	name  string
}

type c22Final struct {
	at   *ssa.Call // the finalising call in its function
	pair ssa.Value
	kind string // confirm | release
	via  string // "" or the confirmer it delegates from
}

func c22BlockCAS(c *Ctx, m *c22Model) {
	p := m.p
	fnUpdBlock := p.Func(c19Pkg, "blockReaderWriter.updateBlock")
	if fnUpdBlock == nil {
		c.Lost("%s.blockReaderWriter.updateBlock", c19Pkg)
	}
	// --- block CAS attempts
	must := map[*ssa.Function]bool{}
	busy := map[*ssa.Function]bool{}
	var isBlockWrite func(in ssa.Instruction) bool
	var mustWrite func(g *ssa.Function) bool
	mustWrite = func(g *ssa.Function) bool {
		if v, ok := must[g]; ok {
			return v
		}
		if busy[g] || len(g.Blocks) == 0 {
			return false
		}
		busy[g] = true
		rets, _ := c19Forward([]c19Start{{g.Blocks[0], 0}}, isBlockWrite, nil, nil)
		delete(busy, g)
		must[g] = len(rets) == 0 && len(returnsOf(g)) > 0
		return must[g]
	}
	isBlockWrite = func(in ssa.Instruction) bool {
		cl, ok := in.(*ssa.Call)
		if !ok {
			return false
		}
		if c19ClientCall(cl.Common(), "Create") != "" {
			return m.literalKeyType(cl.Common().Args[1]) == c19ModelPkg+".BlockKey"
		}
		sf := calleeFn(cl.Common())
		if sf == nil {
			return false
		}
		if sf == fnUpdBlock || sf == m.fnDeleteBlock {
			return true
		}
		return m.inPkg(sf) && sf.Parent() == nil && mustWrite(sf)
	}
	// --- affinity state writes: Update of a pair whose BlockAffinity.State was stored before
	latestState := func(at *ssa.Call, pair ssa.Value) *ssa.Store {
		var dom []*ssa.Store
		for _, st := range m.stateStores(at.Parent()) {
			sp := m.c22StatePair(st)
			if sp == nil || !instrDominates(st, at) || !m.c22SamePair(sp, pair, nil) {
				continue
			}
			dom = append(dom, st)
		}
		for _, s := range dom {
			last := true
			for _, o := range dom {
				if o != s && !instrDominates(o, s) {
					last = false
				}
			}
			if last {
				return s
			}
		}
		return nil
	}
	affWrites := map[*ssa.Function][]c22AffWrite{}
	var finals []c22Final
	for _, w := range m.writes {
		cl, ok := w.ci.(*ssa.Call)
		if !ok || w.prim != "Update" {
			continue
		}
		pair := c19PairArg(m.c19Model, w)
		if pair == nil {
			continue
		}
		st := latestState(cl, pair)
		if st == nil {
			continue
		}
		f := cl.Parent()
		affWrites[f] = append(affWrites[f], c22AffWrite{cl, pair, st.Val, w.name})
		if c22IsConst(st.Val, m.confirmed) {
			finals = append(finals, c22Final{cl, pair, "confirm", ""})
		}
	}
	// the mark (non-confirmed state write of the same affinity) that most closely dominates `at`
	markFor := func(at *ssa.Call, pair ssa.Value) *c22AffWrite {
		var dom []*c22AffWrite
		ws := affWrites[at.Parent()]
		for i := range ws {
			w := &ws[i]
			if w.ci == at || c22IsConst(w.state, m.confirmed) || !instrDominates(w.ci, at) {
				continue
			}
			if m.c22SamePair(w.pair, pair, w.ci) {
				dom = append(dom, w)
			}
		}
		for _, s := range dom {
			last := true
			for _, o := range dom {
				if o != s && !instrDominates(o.ci, s.ci) {
					last = false
				}
			}
			if last {
				return s
			}
		}
		return nil
	}
	// compare-and-delete of an affinity that this function has marked
	for _, w := range m.writes {
		cl, ok := w.ci.(*ssa.Call)
		if !ok || w.prim != "DeleteKVP" {
			continue
		}
		pair := c19PairArg(m.c19Model, w)
		if pair == nil || markFor(cl, pair) == nil {
			continue
		}
		finals = append(finals, c22Final{cl, pair, "release", ""})
	}
	if len(finals) == 0 {
		c.Lost("no affinity confirm write / marked affinity delete found in %s", c19Pkg)
	}
	nConfirm, nRelease := 0, 0
	seen := map[*ssa.Call]bool{}
	for i := 0; i < len(finals); i++ {
		fin := finals[i]
		if seen[fin.at] {
			continue
		}
		seen[fin.at] = true
		g := fin.at.Parent()
		site := p.Pos(fin.at.Pos())
		key := "C22.blockcas/" + fin.kind + "/" + fnName(g)
		if fin.via != "" {
			how := "unguarded"
			if guardedCut(fin.at, m.blockCreateOK()) {
				how = "after-create"
			} else if guardedCut(fin.at, m.matchGuard()) {
				how = "affinity-match"
			}
			key += "/" + how
		}
		mark := markFor(fin.at, fin.pair)
		var start c19Start
		from := "the entry of " + fnName(g)
		if mark != nil {
			start = c19Start{mark.ci.Block(), instrIndex(mark.ci) + 1}
			from = fmt.Sprintf("the %s that writes the affinity with State=%s (%s)", mark.name, path(mark.state), p.Pos(mark.ci.Pos()))
		} else {
			start = c19Start{g.Blocks[0], 0}
		}
		_, hits := c19Forward([]c19Start{start}, isBlockWrite, nil, func(in ssa.Instruction) bool { return in == fin.at })
		what := c19CalleeName(fin.at)
		if fin.kind == "confirm" {
			nConfirm++
		} else {
			nRelease++
		}
		if len(hits) == 0 {
			c.Ok(key, site, "every path from %s to this %s (%s) attempts a CAS write of the block", from, what, fin.kind)
			continue
		}
		// delegate: a confirm on a parameter with no mark of its own is the callers' obligation
		if mark == nil && fin.kind == "confirm" && g.Parent() == nil && !m.valueUse[g] && !c19Exported(g) && len(m.callSites[g]) > 0 {
			idx := -1
			for _, o := range origins(fin.pair, nil) {
				par, ok := o.V.(*ssa.Parameter)
				if !ok || par.Parent() != g {
					idx = -1
					break
				}
				idx = c19ParamIndex(par)
			}
			if idx >= 0 {
				c.Ok(key, site, "%s confirms its parameter %s without touching the block; the obligation moves to its %d call site(s)", fnName(g), g.Params[idx].Name(), len(m.callSites[g]))
				for _, ci := range m.callSites[g] {
					if cl, ok := ci.(*ssa.Call); ok {
						finals = append(finals, c22Final{cl, cl.Common().Args[idx], "confirm", fnName(g)})
					} else {
						c.Violate(key+"/async", p.Pos(ci.Pos()), "%s is started with go/defer: its order relative to the block write cannot be established", fnName(g))
					}
				}
				continue
			}
		}
		if fin.kind == "confirm" {
			c.Violate(key, site, "in %s the affinity can be confirmed (%s) on a path from %s that never attempts a CAS write of the block: a concurrent release/claim that read the block earlier still succeeds in its compare-and-delete/update of the block after this confirm, leaving a confirmed affinity for a block that is gone or owned by someone else", fnName(g), what, from)
		} else {
			c.Violate(key, site, "in %s the affinity can be deleted (%s) on a path from %s that never attempts a CAS write of the block: the block keeps recording an owner whose claim has been removed, and concurrent users of the block are not invalidated", fnName(g), what, from)
		}
	}
	if nConfirm == 0 {
		c.Lost("no confirm write of an affinity recognised")
	}
	if nRelease == 0 {
		c.Lost("no marked (pendingDeletion) affinity delete recognised")
	}
}
