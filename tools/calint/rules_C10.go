package main

import (
	"fmt"
	"go/token"
	"go/types"
	"sort"
	"strings"

	"golang.org/x/tools/go/ssa"
)

func init() {
	register(&Property{
		ID:        "C10",
		Title:     "Workload traffic dispatch is exact and fails closed",
		Technique: "static analysis: builder-chain facts of generictables.Rule literals, argument-tuple resolution across call sites, value provenance and dominance (go/ssa over felix/rules), return-reachability in the nftables map/set replace operations and per-iteration path search over the member-tracker sweeps of the view-resetting methods (felix/nftables), sibling/pairing checks of the endpoint manager's interface-name reverse index (felix/dataplane/linux; shared with C44)",
		DesignRef: "DESIGN.md §3 C10",
		Explanation: "Decides structural clauses of interface dispatch in felix/rules/dispatch.go. (endrules) every generictables.Chain built by buildSingleDispatchChainTree/VMAP " +
			"(root and goto'd child) ends with the caller's end rules, and the dispatcher passes them through unchanged. (leaf) each per-interface rule matches and targets the same " +
			"interface name with the caller's prefix; the prefix rule's goto target is the name of the child chain built from the same bin key. (tuples) every resolved dispatch build " +
			"(chain name, endpoint prefix, matcher, action, end rules), followed through up to three levels of callers, is direction-consistent: from-prefixes go with from-dispatch chains " +
			"and InInterface, to-prefixes with to-dispatch chains and OutInterface, and the action is GoTo(EndpointChainName(prefix, name, r.maxNameLength)). (unknowndrop) builds with a workload " +
			"prefix get end rules that are exactly one unconditional IptablesFilterDenyAction rule; the endpoint-mark dispatch chains end in deny for workload-prefix/unknown marks. " +
			"(wildcardhep) builds with a host prefix get end rules that only goto the wildcard HEP's chain of the same prefix, only under defaultIfaceName != \"\". (vmap) nftables verdict-map " +
			"dispatch: the from/to map names, matchers and chain prefixes agree between the root rule, DispatchMappings and the map programmed by the endpoint manager. (sorted) the " +
			"adjacent-duplicate elimination runs on sorted names. (replace) the AddOrReplace* operations of felix/nftables (Maps.AddOrReplaceMap, through which the dispatch verdict maps are programmed, its tableLayer wrapper, " +
			"and the sibling IPSets.AddOrReplaceIPSet) run the stale-member pass over the desired view before every return — also when the new member set is empty — and that pass deletes every desired member the set built from the members argument does not contain. (mapview) a method of an nftables map/set plane (Maps, IPSets — derived from their field types) that resets the whole believed \"exists in the dataplane\" view of the metadata tracker (Maps.InvalidateMapsCache on a table recreate, the resync loaders) also, on every normally-returning path, visits every per-map member tracker and resets its Dataplane() side or drops the tracker, unless the map is back in the \"exists\" view — else the dispatch verdict map is re-created empty while its elements are believed programmed. " +
			"(wlindex) the endpoint manager renders the dispatch from activeWlEndpoints, whose membership is gated by the reverse index activeWlIfaceNameToID: the index entry is stored with every store into the set, deleted (for every non-nil endpoint) with every delete from the set, and the interface-rename block of resolveWorkloadEndpoints retires the OLD name from the index exactly as the removal function does (the last two are C44's index/cleanup families restricted to the index maps).",
		NotDecided: "Prefix-tree correctness over all name sets (that bins partition the names and wildcard matches are disjoint) is not proved; kernel matching semantics of 'prefix+'; " +
			"that static chains jump to the dispatch chains only for workload-prefixed interfaces (see C40); determinism of rule order; that the nftables transaction built from the desired/dataplane delta is applied (C15); chain reference counting of map members; per-key removals from the \"exists\" view (FinishMapUpdates) and the contents the resync reads back; that the endpoint passed to the removal function is the one stored under the id it deletes (C44.prefer); the shadowing decisions themselves (C44).",
		Assumptions: []string{
			"go/types + go/ssa (x/tools v0.50.0) model of the current source, CGO_ENABLED=0 build",
			"direction table of exported chain-name constants in rules_C10.go (from/to, prefix ↔ dispatch chain) transcribed from rule_defs.go",
			"logrus Panic*/Fatal* do not return",
		},
		Run: runC10,
		Fixtures: []Fixture{
			{Name: "child chain built without end rules", File: "felix/rules/dispatch.go",
				Old: "\t\t\tchildEndpointRules = append(childEndpointRules, endRules...)\n", New: "", Expect: "C10.endrules/DefaultRuleRenderer.buildSingleDispatchChainTree/child"},
			{Name: "vmap root chain built without end rules", File: "felix/rules/dispatch.go",
				Old: "\tlog.Debug(\"Adding end rules at end of root chain\")\n\trootRules = append(rootRules, endRules...)\n\n\trootChain := &generictables.Chain{\n\t\tName:  chainName,\n\t\tRules: rootRules,\n\t}\n\treturn nil, rootChain, rootRules",
				New: "\trootChain := &generictables.Chain{\n\t\tName:  chainName,\n\t\tRules: rootRules,\n\t}\n\treturn nil, rootChain, rootRules", Expect: "C10.endrules/DefaultRuleRenderer.buildSingleDispatchChainsVMAP/root"},
			{Name: "dispatcher drops end rules on the vmap path", File: "felix/rules/dispatch.go",
				Old: "\t\t\tchainName,\n\t\t\tendpointPfx,\n\t\t\tendRules,\n\t\t)", New: "\t\t\tchainName,\n\t\t\tendpointPfx,\n\t\t\tnil,\n\t\t)", Expect: "C10.endrules/DefaultRuleRenderer.buildSingleDispatchChains/pass-vmap"},
			{Name: "child leaf matches one name, targets another", File: "felix/rules/dispatch.go",
				Old: "\t\t\t\t\tMatch:  getMatchForEndpoint(name),\n\t\t\t\t\tAction: getActionForEndpoint(endpointPfx, name),", New: "\t\t\t\t\tMatch:  getMatchForEndpoint(name),\n\t\t\t\t\tAction: getActionForEndpoint(endpointPfx, ifaceNames[0]),", Expect: "C10.leaf/same-name"},
			{Name: "prefix rule goes to a chain that is not the child", File: "felix/rules/dispatch.go",
				Old: "\t\t\t\tName:  childChainName,\n", New: "\t\t\t\tName:  chainName + nextChar,\n", Expect: "C10.leaf/child-link"},
			{Name: "prefix rule matches the common prefix instead of the bin", File: "felix/rules/dispatch.go",
				Old: "\t\t\tifaceMatch := prefix + r.wildcard\n\t\t\t// Inject", New: "\t\t\tifaceMatch := commonPrefix + r.wildcard\n\t\t\t// Inject", Expect: "C10.leaf/child-prefix"},
			{Name: "to-workload dispatch matches on the input interface", File: "felix/rules/dispatch.go",
				Old: "\t\t\ttoEndpointPfx,\n\t\t\tfunc(name string) generictables.MatchCriteria { return r.NewMatch().OutInterface(name) },", New: "\t\t\ttoEndpointPfx,\n\t\t\tfunc(name string) generictables.MatchCriteria { return r.NewMatch().InInterface(name) },", Expect: "C10.tuples/"},
			{Name: "host forward dispatch swaps from/to prefixes", File: "felix/rules/dispatch.go",
				Old: "\t\t\tHostFromEndpointForwardPfx,\n\t\t\tHostToEndpointForwardPfx,\n\t\t\tChainDispatchFromHostEndPointForward,", New: "\t\t\tHostToEndpointForwardPfx,\n\t\t\tHostFromEndpointForwardPfx,\n\t\t\tChainDispatchFromHostEndPointForward,", Expect: "C10.tuples/DefaultRuleRenderer.hostDispatchChains"},
			{Name: "dispatch goto uses the iptables length limit", File: "felix/rules/dispatch.go",
				Old: "\t\t\tfromEndpointPfx,\n\t\t\tfunc(name string) generictables.MatchCriteria { return r.NewMatch().InInterface(name) },\n\t\t\tfunc(pfx, name string) generictables.Action {\n\t\t\t\treturn r.GoTo(EndpointChainName(pfx, name, r.maxNameLength))",
				New: "\t\t\tfromEndpointPfx,\n\t\t\tfunc(name string) generictables.MatchCriteria { return r.NewMatch().InInterface(name) },\n\t\t\tfunc(pfx, name string) generictables.Action {\n\t\t\t\treturn r.GoTo(EndpointChainName(pfx, name, 28))", Expect: "C10.tuples/"},
			{Name: "unknown workload interface returns instead of drop", File: "felix/rules/dispatch.go",
				Old: "\tendRules := []generictables.Rule{\n\t\t{\n\t\t\tMatch:   r.NewMatch(),\n\t\t\tAction:  r.IptablesFilterDenyAction(),\n\t\t\tComment: []string{\"Unknown interface\"},\n\t\t},\n\t}\n\treturn r.interfaceNameDispatchChains(",
				New: "\tendRules := []generictables.Rule{\n\t\t{\n\t\t\tMatch:   r.NewMatch(),\n\t\t\tAction:  r.Return(),\n\t\t\tComment: []string{\"Unknown interface\"},\n\t\t},\n\t}\n\treturn r.interfaceNameDispatchChains(", Expect: "C10.unknowndrop/DefaultRuleRenderer.WorkloadDispatchChains"},
			{Name: "to-workload dispatch gets no end rules", File: "felix/rules/dispatch.go",
				Old: "\t\tChainToWorkloadDispatch,\n\t\tendRules,\n\t\tendRules,\n\t)", New: "\t\tChainToWorkloadDispatch,\n\t\tendRules,\n\t\tnil,\n\t)", Expect: "C10.unknowndrop/DefaultRuleRenderer.WorkloadDispatchChains"},
			{Name: "unknown-interface drop only for tcp", File: "felix/rules/dispatch.go",
				Old: "\t// If workload endpoint is unknown, drop.\n\tendRules := []generictables.Rule{\n\t\t{\n\t\t\tMatch:   r.NewMatch(),", New: "\t// If workload endpoint is unknown, drop.\n\tendRules := []generictables.Rule{\n\t\t{\n\t\t\tMatch:   r.NewMatch().Protocol(\"tcp\"),", Expect: "C10.unknowndrop/DefaultRuleRenderer.WorkloadInterfaceAllowChains"},
			{Name: "from-endpoint-mark chain does not end in deny", File: "felix/rules/dispatch.go",
				Old: "\trootFromMarkRules = append(rootFromMarkRules, generictables.Rule{\n\t\tMatch:   r.NewMatch(),\n\t\tAction:  r.IptablesFilterDenyAction(),\n\t\tComment: []string{\"Unknown interface\"},\n\t})\n", New: "", Expect: "C10.unknowndrop/DefaultRuleRenderer.endpointMarkDispatchChains"},
			{Name: "wildcard HEP goto rendered without a wildcard HEP", File: "felix/rules/dispatch.go",
				Old: "\tif defaultIfaceName != \"\" {\n", New: "\tif defaultIfaceName != \"\" || applyOnForward {\n", Expect: "C10.wildcardhep/"},
			{Name: "wildcard HEP egress default goes to the ingress chain", File: "felix/rules/dispatch.go",
				Old: "\t\t\tAction: r.GoTo(EndpointChainName(HostToEndpointPfx, defaultIfaceName, r.maxNameLength)),\n\t\t})", New: "\t\t\tAction: r.GoTo(EndpointChainName(HostFromEndpointPfx, defaultIfaceName, r.maxNameLength)),\n\t\t})", Expect: "C10.wildcardhep/"},
			{Name: "vmap root rule looks up the to-map for from-dispatch", File: "felix/rules/dispatch.go",
				Old: "InInterfaceVMAP(NftablesFromWorkloadDispatchMap)", New: "InInterfaceVMAP(NftablesToWorkloadDispatchMap)", Expect: "C10.vmap/rule"},
			{Name: "from-map entries point at the to-endpoint chains", File: "felix/rules/dispatch.go",
				Old: "fromMappings[endpoint.Name] = []string{fmt.Sprintf(\"goto %s\", EndpointChainName(WorkloadFromEndpointPfx,", New: "fromMappings[endpoint.Name] = []string{fmt.Sprintf(\"goto %s\", EndpointChainName(WorkloadToEndpointPfx,", Expect: "C10.vmap/mappings"},
			{Name: "endpoint manager programs the maps crosswise", File: "felix/dataplane/linux/endpoint_mgr.go",
				Old: "Name: rules.NftablesFromWorkloadDispatchMap, Type: nftables.MapTypeInterfaceMatch}, fromMappings)", New: "Name: rules.NftablesFromWorkloadDispatchMap, Type: nftables.MapTypeInterfaceMatch}, toMappings)", Expect: "C10.vmap/programmed"},
			{Name: "replace with the empty set returns before removing stale members", File: "felix/nftables/maps.go",
				Old: "\tmemberTracker := s.getOrCreateMemberTracker(meta.Name)\n", New: "\tmemberTracker := s.getOrCreateMemberTracker(meta.Name)\n\tif canonMembers.Len() == 0 {\n\t\ts.updateDirtiness(meta.Name)\n\t\treturn\n\t}\n", Expect: "C10.replace/Maps.AddOrReplaceMap/every-path"},
			{Name: "stale map members tested against the desired set itself", File: "felix/nftables/maps.go",
				Old: "\t\tif canonMembers.Contains(k) {\n\t\t\tcanonMembers.Discard(k)\n\t\t} else {\n\t\t\t// Decref", New: "\t\tif desiredMembers.Contains(k) {\n\t\t\tcanonMembers.Discard(k)\n\t\t} else {\n\t\t\t// Decref", Expect: "C10.replace/Maps.AddOrReplaceMap/stale-deleted"},
			{Name: "set replace keeps members missing from the new set", File: "felix/nftables/ipsets.go",
				Old: "\t\tif canonMembers.Contains(k) {\n\t\t\tcanonMembers.Discard(k)\n\t\t} else {\n\t\t\tdesiredMembers.Delete(k)\n\t\t}\n", New: "\t\tif canonMembers.Contains(k) {\n\t\t\tcanonMembers.Discard(k)\n\t\t}\n", Expect: "C10.replace/IPSets.AddOrReplaceIPSet/stale-deleted"},
			{Name: "table layer drops a replace with no members", File: "felix/nftables/table_layer.go",
				Old: "\t// Call the underlying implementation.\n\tt.maps.AddOrReplaceMap(meta, members)\n", New: "\tif len(members) == 0 {\n\t\treturn\n\t}\n\tt.maps.AddOrReplaceMap(meta, members)\n", Expect: "C10.replace/tableLayer.AddOrReplaceMap/every-path"},
			{Name: "seeded C10-4 shape: cache invalidation keeps the member view of maps that are still wanted", File: "felix/nftables/maps.go",
				Old:    "\tfor name, members := range s.mapNameToMembers {\n\t\tmembers.Dataplane().DeleteAll()\n\t\ts.updateDirtiness(name)\n",
				New:    "\tfor name, members := range s.mapNameToMembers {\n\t\tif _, ok := s.mapNameToAllMetadata[name]; ok {\n\t\t\ts.mapsWithDirtyMembers.Add(name)\n\t\t\tcontinue\n\t\t}\n\t\tmembers.Dataplane().DeleteAll()\n\t\ts.updateDirtiness(name)\n",
				Expect: "C10.mapview/Maps.InvalidateMapsCache"},
			{Name: "cache invalidation returns early when maps are already dirty", File: "felix/nftables/maps.go",
				Old:    "\ts.mapNameToProgrammedMetadata.Dataplane().DeleteAll()\n\tfor name, members := range s.mapNameToMembers {\n\t\tmembers.Dataplane().DeleteAll()\n",
				New:    "\ts.mapNameToProgrammedMetadata.Dataplane().DeleteAll()\n\tif s.mapsWithDirtyMembers.Len() > 0 {\n\t\treturn\n\t}\n\tfor name, members := range s.mapNameToMembers {\n\t\tmembers.Dataplane().DeleteAll()\n",
				Expect: "C10.mapview/Maps.InvalidateMapsCache"},
			{Name: "map resync keeps the members of a wanted map that was not found in the dataplane", File: "felix/nftables/maps.go",
				Old: "\t\tmembers.Dataplane().DeleteAll()\n\t}\n\n\treturn nil\n", New: "\t\t_ = members\n\t}\n\n\treturn nil\n", Expect: "C10.mapview/Maps.LoadDataplaneState"},
			{Name: "set resync keeps the members of a wanted set that was not found in the dataplane", File: "felix/nftables/ipsets.go",
				Old: "\t\tmembers.Dataplane().DeleteAll()\n\t}\n\n\treturn nil\n", New: "\t\t_ = members\n\t}\n\n\treturn nil\n", Expect: "C10.mapview/IPSets.tryResync"},
			{Name: "seeded C10-3 shape: interface rename does not retire the old name from the reverse index", File: "felix/dataplane/linux/endpoint_mgr.go",
				Old: "\t\t\t\t\tm.linkAddrsMgr.RemoveLinkLocalAddress(oldWorkload.Name)\n\t\t\t\t\tdelete(m.activeWlIfaceNameToID, oldWorkload.Name)\n",
				New: "\t\t\t\t\tm.linkAddrsMgr.RemoveLinkLocalAddress(oldWorkload.Name)\n", Expect: "C10.wlindex/agree/delete(activeWlIfaceNameToID)"},
			{Name: "endpoint removal leaves its interface name in the reverse index", File: "felix/dataplane/linux/endpoint_mgr.go",
				Old: "\t\t\tm.linkAddrsMgr.RemoveLinkLocalAddress(oldWorkload.Name)\n\t\t\tdelete(m.activeWlIfaceNameToID, oldWorkload.Name)\n",
				New: "\t\t\tm.linkAddrsMgr.RemoveLinkLocalAddress(oldWorkload.Name)\n", Expect: "C10.wlindex/unindex/"},
			{Name: "active endpoint stored without its reverse-index entry", File: "felix/dataplane/linux/endpoint_mgr.go",
				Old: "\t\t\t\tm.activeWlEndpoints[id] = workload\n\t\t\t\tm.activeWlIfaceNameToID[workload.Name] = id\n", New: "\t\t\t\tm.activeWlEndpoints[id] = workload\n", Expect: "C10.wlindex/index/"},
			{Name: "names binned without sorting", File: "felix/rules/dispatch.go",
				Old: "\t// Otherwise we would reprogram the dispatch chain when there is no real change.\n\tsort.Strings(names)\n", New: "", Expect: "C10.sorted/DefaultRuleRenderer.sortAndDivideEndpointNamesToPrefixTree"},
		},
	})
}

// Direction table: endpoint-chain prefix constant -> direction and the dispatch
// chain that may hold rules for it.  All names are exported constants of
// felix/rules (rule_defs.go).
type c10Dir struct {
	Dir   string // "from" | "to"
	Chain string // exported constant naming the dispatch chain
	Class string // "workload" | "host" | "mark"
}

var c10DirTable = map[string]c10Dir{
	"WorkloadFromEndpointPfx":    {"from", "ChainFromWorkloadDispatch", "workload"},
	"WorkloadToEndpointPfx":      {"to", "ChainToWorkloadDispatch", "workload"},
	"WorkloadPfxSpecialAllow":    {"to", "ChainToWorkloadDispatch", "workload"},
	"HostFromEndpointPfx":        {"from", "ChainDispatchFromHostEndpoint", "host"},
	"HostToEndpointPfx":          {"to", "ChainDispatchToHostEndpoint", "host"},
	"HostFromEndpointForwardPfx": {"from", "ChainDispatchFromHostEndPointForward", "host"},
	"HostToEndpointForwardPfx":   {"to", "ChainDispatchToHostEndpointForward", "host"},
	"SetEndPointMarkPfx":         {"from", "ChainDispatchSetEndPointMark", "mark"},
}

type c10Model struct {
	c     *Ctx
	p     *Prog
	funcs []*ssa.Function // all functions of felix/rules (no closures)
	lits  map[*ssa.Function][]*c10Lit

	tree, vmap, disp *ssa.Function
	// roles: parameter index (in fn.Params, receiver = 0) per role, per function
	treeRoles, vmapRoles, dispRoles map[string]int
	pfxByValue                      map[string]string // "cali-fw-" -> WorkloadFromEndpointPfx
}

func (m *c10Model) litsOf(fn *ssa.Function) []*c10Lit {
	if l, ok := m.lits[fn]; ok {
		return l
	}
	l := c10RuleLits(fn)
	m.lits[fn] = l
	return l
}

func c10MustFunc(c *Ctx, p *Prog, pkg, name string) *ssa.Function {
	f := p.Func(pkg, name)
	if f == nil || f.Blocks == nil {
		c.Lost("%s.%s", pkg, name)
	}
	return f
}

func runC10(c *Ctx) {
	// The endpoint manager (a large package) is only needed for the two
	// C10.vmap/programmed obligations.  In a sensitivity-fixture variant whose
	// overlay does not touch that package those obligations are unchanged from
	// the base run, so the package is not loaded (and the floor adjusted).
	dpPkg := "felix/dataplane/linux"
	if c.Overlay != nil {
		touched := false
		for f := range c.Overlay {
			if strings.Contains(f, "/"+dpPkg+"/") {
				touched = true
			}
		}
		if !touched {
			dpPkg = ""
		}
	}
	// felix/nftables (C10.replace) is analysed in the base run and in variants
	// that touch it; a variant that touches only felix/nftables re-runs nothing else.
	nft := c.Overlay == nil
	for f := range c.Overlay {
		if strings.Contains(f, "/"+c10NftPkg+"/") {
			nft = true
		}
	}
	if c.Overlay != nil && nft {
		pn := c.Load(c10NftPkg)
		c10Replace(c, pn)
		c10MapView(c, pn)
		return
	}
	roots := []string{c10RulesPkg}
	if dpPkg != "" {
		roots = append(roots, dpPkg)
	}
	if nft {
		roots = append(roots, c10NftPkg)
	}
	p := c.Load(roots...)
	if nft {
		c10Replace(c, p)
		c10MapView(c, p)
	}
	if dpPkg != "" {
		c10WlIndex(c, p)
	}
	m := &c10Model{c: c, p: p, lits: map[*ssa.Function][]*c10Lit{}}
	for _, f := range p.AllFuncs() {
		if f.Pkg != nil && f.Pkg.Pkg.Path() == calicoPrefix+c10RulesPkg && f.Parent() == nil {
			m.funcs = append(m.funcs, f)
		}
	}
	m.tree = c10MustFunc(c, p, c10RulesPkg, "DefaultRuleRenderer.buildSingleDispatchChainTree")
	m.vmap = c10MustFunc(c, p, c10RulesPkg, "DefaultRuleRenderer.buildSingleDispatchChainsVMAP")
	m.disp = c10MustFunc(c, p, c10RulesPkg, "DefaultRuleRenderer.buildSingleDispatchChains")
	m.pfxByValue = map[string]string{}
	for name := range c10DirTable {
		m.pfxByValue[c10ConstStr(c, p, c10RulesPkg, name)] = name
		c10ConstStr(c, p, c10RulesPkg, c10DirTable[name].Chain)
	}

	c.Rule("C10.endrules", "E-FLOW", "every generictables.Chain literal in buildSingleDispatchChainTree/VMAP stores Rules = append(…, endRules-parameter...); the dispatcher passes its own end-rules parameter to both builders", 5)
	c.Rule("C10.leaf", "E-FLOW", "per-interface rules: Match=matchFn(n) and Action=actionFn(pfx-param, n) use the same n; the prefix rule's GoTo target is the Name of the child chain; its match is binKey+wildcard for the bin whose names fill the child", 4)
	c.Rule("C10.tuples", "E-CONST", "each live resolved dispatch build (through ≤3 caller levels): prefix constant, dispatch chain constant and matcher (In/OutInterface on the closure's parameter) agree in direction; action closure is GoTo(EndpointChainName(pfx,name,r.maxNameLength)) (Allow only for the special-allow prefix)", 12)
	c.Rule("C10.unknowndrop", "E-CONST", "builds with a workload prefix receive end rules that are exactly one unconditional IptablesFilterDenyAction rule; endpoint-mark dispatch root chains end in deny", 5)
	c.Rule("C10.wildcardhep", "E-CONST/E-GUARD", "builds with a host prefix receive end rules consisting only of GoTo(EndpointChainName(same prefix, defaultIface,…)) under defaultIface != \"\" (plus Return for OutInterface matches in the to direction)", 8)
	c.Rule("C10.vmap", "E-CONST/E-GUARD", "nftables verdict-map dispatch: root-rule matcher and map constant per prefix case, DispatchMappings entries keyed by the endpoint name whose chain they name, and the endpoint manager programs result #0/#1 under the from/to map names", map[bool]int{true: 7, false: 5}[dpPkg != ""])
	c.Rule("C10.sorted", "E-ORDER", "sort.Strings(x) dominates the loops over x that drop adjacent duplicates", 2)

	m.deriveRoles()
	m.checkEndRules()
	m.checkLeaf()
	m.checkTuples()
	m.checkMarkChains()
	m.checkVMAP(dpPkg)
	m.checkSorted()
}

// ------------------------------------------------------------------- roles --

func c10IsMatchFnType(t types.Type) bool {
	sig, ok := t.Underlying().(*types.Signature)
	return ok && sig.Params().Len() == 1 && sig.Results().Len() == 1 && c10IsMatchCriteria(sig.Results().At(0).Type())
}

func c10IsActionFnType(t types.Type) bool {
	sig, ok := t.Underlying().(*types.Signature)
	return ok && sig.Params().Len() == 2 && sig.Results().Len() == 1 && qualTypeName(sig.Results().At(0).Type()) == c10GTPkg+".Action"
}

func c10IsChainPtr(t types.Type) bool {
	_, ok := t.Underlying().(*types.Pointer)
	return ok && qualTypeName(t) == c10GTPkg+".Chain"
}

// chainLits lists the `&generictables.Chain{…}` allocations of fn.
func c10ChainLits(fn *ssa.Function) []*ssa.Alloc {
	var out []*ssa.Alloc
	allInstrs(fn, false, func(_ *ssa.Function, in ssa.Instruction) {
		if al, ok := in.(*ssa.Alloc); ok && c10IsChainPtr(al.Type()) {
			out = append(out, al)
		}
	})
	return out
}

func c10Returned(fn *ssa.Function, v ssa.Value) bool {
	for _, r := range returnsOf(fn) {
		for _, x := range r.Results {
			if x == v {
				return true
			}
		}
	}
	return false
}

func (m *c10Model) uniqueParam(fn *ssa.Function, what string, pred func(types.Type) bool) int {
	ps := c10ParamsOfType(fn, pred)
	if len(ps) != 1 {
		m.c.Lost("%s: expected exactly one parameter of type %s, found %d", fnName(fn), what, len(ps))
	}
	return c10ParamIndex(fn, ps[0])
}

func (m *c10Model) deriveRoles() {
	c := m.c
	// Tree: by type and by data flow.
	m.treeRoles = map[string]int{
		"matchFn":  m.uniqueParam(m.tree, "func(string) MatchCriteria", c10IsMatchFnType),
		"actionFn": m.uniqueParam(m.tree, "func(string,string) Action", c10IsActionFnType),
		"endRules": m.uniqueParam(m.tree, "[]generictables.Rule", c10IsRuleSlice),
	}
	m.vmapRoles = map[string]int{"endRules": m.uniqueParam(m.vmap, "[]generictables.Rule", c10IsRuleSlice)}
	for _, fn := range []*ssa.Function{m.tree, m.vmap} {
		roles := m.treeRoles
		if fn == m.vmap {
			roles = m.vmapRoles
		}
		found := false
		for _, al := range c10ChainLits(fn) {
			if !c10Returned(fn, al) {
				continue
			}
			for _, nv := range literalFieldStores(al)["Name"] {
				if i := c10ParamIndex(fn, nv); i >= 0 {
					roles["chainName"] = i
					found = true
				}
			}
		}
		if !found {
			c.Lost("%s: returned root Chain literal whose Name is a parameter", fnName(fn))
		}
	}
	// Tree pfx: first argument of every call of actionFn.
	actionFn := m.tree.Params[m.treeRoles["actionFn"]]
	pfx := -1
	allInstrs(m.tree, false, func(_ *ssa.Function, in ssa.Instruction) {
		if call, ok := in.(*ssa.Call); ok && call.Common().Value == actionFn && len(call.Common().Args) == 2 {
			if i := c10ParamIndex(m.tree, call.Common().Args[0]); i >= 0 && (pfx == -1 || pfx == i) {
				pfx = i
			} else {
				pfx = -2
			}
		}
	})
	if pfx < 0 {
		c.Lost("%s: prefix parameter (first argument of every actionFn call)", fnName(m.tree))
	}
	m.treeRoles["pfx"] = pfx
	// VMAP pfx: the string parameter compared against constants.
	vp := -1
	allInstrs(m.vmap, false, func(_ *ssa.Function, in ssa.Instruction) {
		if bo, ok := in.(*ssa.BinOp); ok && bo.Op == token.EQL {
			for _, pair := range [][2]ssa.Value{{bo.X, bo.Y}, {bo.Y, bo.X}} {
				if i := c10ParamIndex(m.vmap, pair[0]); i >= 0 {
					if _, isC := c10StrConst(pair[1]); isC {
						vp = i
					}
				}
			}
		}
	})
	if vp < 0 {
		c.Lost("%s: prefix parameter compared with constants", fnName(m.vmap))
	}
	m.vmapRoles["pfx"] = vp

	// Dispatcher: map roles through its calls of Tree and VMAP.
	m.dispRoles = map[string]int{}
	treeCalls := c10StaticCallers([]*ssa.Function{m.disp}, m.tree)
	vmapCalls := c10StaticCallers([]*ssa.Function{m.disp}, m.vmap)
	if len(treeCalls) == 0 || len(vmapCalls) == 0 {
		c.Lost("%s: calls of the tree (%d) and vmap (%d) builders", fnName(m.disp), len(treeCalls), len(vmapCalls))
	}
	for _, cs := range treeCalls {
		for role, idx := range m.treeRoles {
			a := cs.Common().Args[idx]
			i := c10ParamIndex(m.disp, a)
			key := "C10.endrules/" + fnName(m.disp) + "/pass-tree/" + role
			if role != "endRules" {
				if i < 0 {
					c.Lost("%s: tree builder role %s is not fed by a dispatcher parameter (%s)", fnName(m.disp), role, path(a))
				}
				m.dispRoles[role] = i
				continue
			}
			c.Check(i >= 0, key, m.p.Pos(cs.Instr.Pos()), "tree builder receives the dispatcher's end-rules parameter", "tree builder's end rules are "+path(a)+", not the dispatcher's parameter: chains built by the tree lose the caller's end rules")
			if i >= 0 {
				m.dispRoles[role] = i
			}
		}
	}
	if _, ok := m.dispRoles["endRules"]; !ok {
		m.dispRoles["endRules"] = m.uniqueParam(m.disp, "[]generictables.Rule", c10IsRuleSlice)
	}
	for _, cs := range vmapCalls {
		for role, idx := range m.vmapRoles {
			a := cs.Common().Args[idx]
			want := m.disp.Params[m.dispRoles[role]]
			key := "C10.endrules/" + fnName(m.disp) + "/pass-vmap/" + role
			if role == "endRules" {
				c.Check(a == want, key, m.p.Pos(cs.Instr.Pos()), "vmap builder receives the dispatcher's end-rules parameter", "vmap builder's end rules are "+path(a)+", not the dispatcher's parameter "+want.Name())
			} else if a != want {
				c.Violate(key, m.p.Pos(cs.Instr.Pos()), "vmap builder's %s is %s but the tree builder's is the parameter %s", role, path(a), want.Name())
			}
		}
	}
}

// ---------------------------------------------------------------- endrules --

func (m *c10Model) checkEndRules() {
	c := m.c
	for _, fn := range []*ssa.Function{m.tree, m.vmap} {
		roles := m.treeRoles
		if fn == m.vmap {
			roles = m.vmapRoles
		}
		end := fn.Params[roles["endRules"]]
		chains := c10ChainLits(fn)
		if len(chains) == 0 {
			c.Lost("%s: no generictables.Chain literal", fnName(fn))
		}
		for _, al := range chains {
			kind := "child"
			if c10Returned(fn, al) {
				kind = "root"
			}
			key := fmt.Sprintf("C10.endrules/%s/%s", fnName(fn), kind)
			site := m.p.Pos(al.Pos())
			rs := literalFieldStores(al)["Rules"]
			if len(rs) == 0 {
				c.Violate(key, site, "%s chain literal in %s has no Rules", kind, fnName(fn))
				continue
			}
			ok := true
			why := ""
			for _, rv := range rs {
				for _, o := range origins(rv, nil) {
					a := c10AppendArgs(o.V)
					if len(a) != 2 || a[1] != end {
						ok = false
						why = path(o.V)
					}
				}
			}
			c.Check(ok, key, site, kind+" chain's Rules = append(…, "+end.Name()+"...)",
				fmt.Sprintf("%s chain's Rules (%s) is not the result of appending the end-rules parameter %s: packets that match no interface rule fall off the chain instead of hitting the caller's end rules", kind, why, end.Name()))
		}
	}
}

// -------------------------------------------------------------------- leaf --

func (m *c10Model) checkLeaf() {
	c := m.c
	fn := m.tree
	matchFn := fn.Params[m.treeRoles["matchFn"]]
	actionFn := fn.Params[m.treeRoles["actionFn"]]
	pfx := fn.Params[m.treeRoles["pfx"]]
	lits := m.litsOf(fn)

	// which chain (root/child) holds a literal
	holder := map[*c10Lit]string{}
	childName := map[ssa.Value]*ssa.Alloc{} // Name value -> child chain literal
	childLits := map[*ssa.Alloc][]*c10Lit{}
	for _, al := range c10ChainLits(fn) {
		kind := "child"
		if c10Returned(fn, al) {
			kind = "root"
		}
		st := literalFieldStores(al)
		for _, rv := range st["Rules"] {
			in, _ := c10Contents(rv, lits)
			for _, l := range in {
				holder[l] = kind
				if kind == "child" {
					childLits[al] = append(childLits[al], l)
				}
			}
		}
		if kind == "child" {
			for _, nv := range st["Name"] {
				childName[nv] = al
			}
		}
	}

	nLeaf, nPrefix := 0, 0
	for _, l := range lits {
		act, okA := l.Action()
		mt, okM := l.Match()
		site := m.p.Pos(l.Pos())
		if !okA || !okM {
			c.Undecided("C10.leaf/shape/"+fnName(fn), site, "rule literal with several Match/Action stores")
			continue
		}
		switch {
		case act.Kind == "dyncall" && act.Call.Common().Value == actionFn:
			nLeaf++
			key := "C10.leaf/same-name/" + fnName(fn) + "/" + holder[l]
			if mt.Dyn == nil || mt.Dyn.Common().Value != matchFn || len(mt.Calls) > 0 {
				c.Violate(key, site, "per-interface rule's Match is %s, not a call of the matcher parameter %s", path(l.Fields["Match"][0]), matchFn.Name())
				continue
			}
			an, mn := act.Args[1], mt.Dyn.Common().Args[0]
			c.Check(an == mn && act.Args[0] == pfx, key, site,
				"Match and Action built from the same interface name "+path(mn)+" and prefix parameter",
				fmt.Sprintf("rule matches interface %s but its action is built for (%s, %s): a known interface is sent to another interface's chain", path(mn), path(act.Args[0]), path(an)))
		case act.Kind == "factory" && act.Name == "GoTo":
			nPrefix++
			site := m.p.Pos(l.Pos())
			target := act.Args[0]
			child := childName[target]
			c.Check(child != nil && holder[l] == "root", "C10.leaf/child-link/"+fnName(fn), site,
				"prefix rule's GoTo target is the Name of the child chain built in the same iteration",
				"prefix rule's GoTo target "+path(target)+" is not the Name of any child chain literal: packets with that prefix go to a missing or foreign chain")
			// match = matchFn(K + r.wildcard); child rules iterate prefixToNames[K]
			key := "C10.leaf/child-prefix/" + fnName(fn)
			if mt.Dyn == nil || mt.Dyn.Common().Value != matchFn {
				c.Violate(key, site, "prefix rule's Match is not a call of the matcher parameter")
				continue
			}
			bo, ok := mt.Dyn.Common().Args[0].(*ssa.BinOp)
			if !ok || bo.Op != token.ADD || fieldVar(bo.Y) == nil || fieldVar(bo.Y).Name() != "wildcard" {
				c.Violate(key, site, "prefix rule matches %s, not <bin key> + r.wildcard", path(mt.Dyn.Common().Args[0]))
				continue
			}
			if child == nil {
				continue
			}
			okBin := len(childLits[child]) > 0
			why := "child chain has no per-interface rule"
			for _, cl := range childLits[child] {
				ca, _ := cl.Action()
				if ca.Kind != "dyncall" {
					continue
				}
				// name = *(&S[i]) with S = prefixToNames[K]
				src := c10IndexedSlice(ca.Args[1])
				lk, isLk := src.(*ssa.Lookup)
				if !isLk || lk.Index != bo.X {
					okBin = false
					why = fmt.Sprintf("child rules iterate %s but the prefix rule matches %s+wildcard", path(src), path(bo.X))
				}
			}
			c.Check(okBin, key, site, "prefix rule matches binKey+wildcard and the child chain holds the names of bin[binKey]", why+": interfaces are sent to a child chain that does not contain them")
		}
	}
	if nLeaf < 2 || nPrefix < 1 {
		c.Lost("%s: expected ≥2 per-interface rule literals and ≥1 prefix rule, found %d/%d", fnName(fn), nLeaf, nPrefix)
	}
}

// c10IndexedSlice: for v = *(&S[i]) returns S.
func c10IndexedSlice(v ssa.Value) ssa.Value {
	if u, ok := v.(*ssa.UnOp); ok && u.Op == token.MUL {
		if ia, ok := u.X.(*ssa.IndexAddr); ok {
			return ia.X
		}
	}
	return nil
}

// ------------------------------------------------------------------ tuples --

// c10Build is one resolved call of the dispatcher.
type c10Build struct {
	site    CallSite             // the call of buildSingleDispatchChains
	chain   []CallSite           // caller chain used for resolution (outermost last)
	vals    map[string]ssa.Value // role -> resolved value (const, closure, or value in some caller)
	owner   map[string]*ssa.Function
	deadPfx bool
}

func (b *c10Build) outer() *ssa.Function {
	if len(b.chain) > 0 {
		return b.chain[len(b.chain)-1].Fn
	}
	return b.site.Fn
}

// resolve follows a value that is a parameter of fn to the argument at a call site.
func (m *c10Model) expand(b *c10Build, depth int) []*c10Build {
	// find a role whose value is a parameter of its owner
	var fn *ssa.Function
	for _, role := range []string{"pfx", "chainName", "endRules"} {
		if _, ok := b.vals[role].(*ssa.Parameter); ok {
			fn = b.owner[role]
			break
		}
	}
	if fn == nil || depth == 0 {
		return []*c10Build{b}
	}
	callers := c10StaticCallers(m.funcs, fn)
	if len(callers) == 0 {
		return []*c10Build{b}
	}
	var out []*c10Build
	for _, cs := range callers {
		nb := &c10Build{site: b.site, chain: append(append([]CallSite{}, b.chain...), cs), vals: map[string]ssa.Value{}, owner: map[string]*ssa.Function{}}
		for role, v := range b.vals {
			nb.vals[role], nb.owner[role] = v, b.owner[role]
			if par, ok := v.(*ssa.Parameter); ok && b.owner[role] == fn {
				nb.vals[role] = cs.Common().Args[c10ParamIndex(fn, par)]
				nb.owner[role] = cs.Fn
			}
		}
		out = append(out, m.expand(nb, depth-1)...)
	}
	return out
}

func (m *c10Model) builds() []*c10Build {
	var out []*c10Build
	for _, cs := range c10StaticCallers(m.funcs, m.disp) {
		b := &c10Build{site: cs, vals: map[string]ssa.Value{}, owner: map[string]*ssa.Function{}}
		for role, idx := range m.dispRoles {
			b.vals[role] = cs.Common().Args[idx]
			b.owner[role] = cs.Fn
		}
		out = append(out, m.expand(b, 3)...)
	}
	return out
}

func (m *c10Model) constName(v ssa.Value, table map[string][]string) (string, string, bool) {
	s, ok := c10StrConst(v)
	if !ok {
		return "", "", false
	}
	ns := table[s]
	sort.Strings(ns)
	return s, strings.Join(ns, "|"), true
}

func (m *c10Model) checkTuples() {
	c := m.c
	p := m.p
	names := c10ConstNames(p, c10RulesPkg)
	maxLen := p.LookupObj(c10RulesPkg, "DefaultRuleRenderer.maxNameLength")
	epcn := p.LookupObj(c10RulesPkg, "EndpointChainName")
	denyFn := p.LookupObj(c10RulesPkg, "DefaultRuleRenderer.IptablesFilterDenyAction")
	if maxLen == nil || epcn == nil || denyFn == nil {
		c.Lost("DefaultRuleRenderer.maxNameLength / EndpointChainName / IptablesFilterDenyAction")
	}
	builds := m.builds()
	if len(builds) == 0 {
		c.Lost("no call of %s", fnName(m.disp))
	}
	for _, b := range builds {
		site := p.Pos(b.site.Instr.Pos())
		if len(b.chain) > 0 {
			site = p.Pos(b.chain[len(b.chain)-1].Instr.Pos())
		}
		pfxVal, okP := c10StrConst(b.vals["pfx"])
		if !okP {
			c.Undecided("C10.tuples/"+fnName(b.outer())+"/unresolved", site, "endpoint prefix of a dispatch build does not resolve to a constant (%s)", path(b.vals["pfx"]))
			continue
		}
		if pfxVal == "" {
			// dead build: must be guarded by pfx != "" in the function that owns the call
			continue
		}
		pfxName, known := m.pfxByValue[pfxVal]
		key := fmt.Sprintf("C10.tuples/%s/%s", fnName(b.outer()), pfxName)
		if !known {
			c.Undecided("C10.tuples/"+fnName(b.outer())+"/"+pfxVal, site, "dispatch build with prefix %q that is not in the direction table of rules_C10.go", pfxVal)
			continue
		}
		row := c10DirTable[pfxName]
		var bad []string
		// chain name
		if cv, cn, ok := m.constName(b.vals["chainName"], names); !ok {
			bad = append(bad, "dispatch chain name is not a constant ("+path(b.vals["chainName"])+")")
		} else if cv != c10ConstStr(c, p, c10RulesPkg, row.Chain) {
			bad = append(bad, fmt.Sprintf("prefix %s is dispatched from chain %s (%q), expected %s", pfxName, cn, cv, row.Chain))
		}
		// matcher closure
		wantM := map[string]string{"from": "InInterface", "to": "OutInterface"}[row.Dir]
		if msg := c10CheckMatcherClosure(b.site.Common().Args[m.dispRoles["matchFn"]], wantM); msg != "" {
			bad = append(bad, fmt.Sprintf("%s-direction prefix %s: %s", row.Dir, pfxName, msg))
		}
		// action closure
		if msg := c10CheckActionClosure(b.site.Common().Args[m.dispRoles["actionFn"]], pfxName == "WorkloadPfxSpecialAllow", epcn.(*types.Func), maxLen.(*types.Var)); msg != "" {
			bad = append(bad, msg)
		}
		c.Check(len(bad) == 0, key, site,
			fmt.Sprintf("%s: chain %s, matcher %s, action closure consistent", row.Dir, row.Chain, wantM), strings.Join(bad, "; "))

		// end rules
		endV := b.vals["endRules"]
		endFn := b.owner["endRules"]
		switch row.Class {
		case "workload":
			k := fmt.Sprintf("C10.unknowndrop/%s/%s", fnName(b.outer()), pfxName)
			c.Check2(k, site, m.unknownDrop(endV, endFn, denyFn.(*types.Func)))
		case "host":
			k := fmt.Sprintf("C10.wildcardhep/%s/%s", fnName(b.outer()), pfxName)
			c.Check2(k, site, m.wildcardHEP(endV, endFn, pfxVal, row.Dir, epcn.(*types.Func)))
		}
	}
}

// Check2 records ok when msg is empty, a violation with msg otherwise.
func (c *Ctx) Check2(key, site, msg string) {
	if msg == "" {
		c.Ok(key, site, "holds")
	} else {
		c.Violate(key, site, "%s", msg)
	}
}

func c10ClosureFn(v ssa.Value) *ssa.Function {
	switch x := v.(type) {
	case *ssa.MakeClosure:
		f, _ := x.Fn.(*ssa.Function)
		return f
	case *ssa.Function:
		return x
	}
	return nil
}

// c10CheckMatcherClosure: closure returns NewMatch().<want>(param0) and nothing else.
func c10CheckMatcherClosure(v ssa.Value, want string) string {
	f := c10ClosureFn(v)
	if f == nil {
		return "matcher is not a function literal (" + path(v) + ")"
	}
	rets := returnsOf(f)
	if len(rets) == 0 {
		return "matcher closure never returns"
	}
	for _, r := range rets {
		mt := c10DecodeMatch(r.Results[0])
		if !mt.BaseNew || len(mt.Calls) != 1 {
			return fmt.Sprintf("matcher closure returns %v on %s, expected exactly NewMatch().%s(name)", mt.Names(), path(mt.Base), want)
		}
		if mt.Calls[0].Name != want {
			return fmt.Sprintf("matcher closure uses %s, expected %s", mt.Calls[0].Name, want)
		}
		if len(f.Params) != 1 || mt.Calls[0].Args[0] != f.Params[0] {
			return "matcher closure does not match on its name parameter"
		}
	}
	return ""
}

// c10CheckActionClosure: closure returns GoTo(EndpointChainName(p0, p1, r.maxNameLength)).
func c10CheckActionClosure(v ssa.Value, allowOK bool, epcn *types.Func, maxLen *types.Var) string {
	f := c10ClosureFn(v)
	if f == nil {
		return "action is not a function literal (" + path(v) + ")"
	}
	for _, r := range returnsOf(f) {
		a := c10DecodeAction(r.Results[0])
		if allowOK && a.Kind == "factory" && a.Name == "Allow" {
			continue
		}
		if a.Kind != "factory" || a.Name != "GoTo" {
			return "action closure returns " + a.String() + ", expected GoTo(EndpointChainName(pfx, name, r.maxNameLength))"
		}
		call, ok := a.Args[0].(*ssa.Call)
		if !ok || calleeOf(call.Common()) != epcn {
			return "action closure's GoTo target is " + path(a.Args[0]) + ", not EndpointChainName(…)"
		}
		args := call.Common().Args
		if len(f.Params) != 2 || args[0] != f.Params[0] || args[1] != f.Params[1] {
			return fmt.Sprintf("action closure names the chain of (%s, %s), not of its own (pfx, name) parameters", path(args[0]), path(args[1]))
		}
		if fieldVar(args[2]) != maxLen {
			return "action closure limits the chain name to " + path(args[2]) + ", not r.maxNameLength: long interface names get a different chain name than the one the endpoint chain is created with"
		}
	}
	return ""
}

// unknownDrop: v is exactly one literal rule, unconditional, IptablesFilterDenyAction.
func (m *c10Model) unknownDrop(v ssa.Value, fn *ssa.Function, deny *types.Func) string {
	lits, opaque := c10Contents(v, m.litsOf(fn))
	if len(lits) == 0 && len(opaque) == 1 {
		// end rules produced by a helper of the package: look at what the helper returns
		if call, ok := opaque[0].(*ssa.Call); ok {
			if sf := calleeFn(call.Common()); sf != nil && sf.Blocks != nil && sf != fn {
				rets := returnsOf(sf)
				if len(rets) == 1 && len(rets[0].Results) == 1 {
					return m.unknownDrop(rets[0].Results[0], sf, deny)
				}
			}
		}
	}
	if len(opaque) > 0 {
		return "end rules come from " + path(opaque[0]) + ", not from a rule literal in " + fnName(fn)
	}
	if len(lits) != 1 {
		return fmt.Sprintf("end rules for a workload prefix have %d rule literals, expected exactly one unconditional deny (unknown workload interfaces are not dropped)", len(lits))
	}
	return c10IsUncondDeny(lits[0], deny)
}

func c10IsUncondDeny(l *c10Lit, deny *types.Func) string {
	mt, ok := l.Match()
	if !ok || !mt.Unconditional() {
		return fmt.Sprintf("deny rule is conditional (match %v)", mt.Names())
	}
	a, ok := l.Action()
	if !ok || a.Kind != "method" || a.Call == nil || calleeOf(a.Call.Common()) != deny {
		return "rule action is " + a.String() + ", expected IptablesFilterDenyAction()"
	}
	return ""
}

// wildcardHEP: every literal in the end rules is GoTo(EndpointChainName(pfx, X, …)),
// unconditional and constructed only under X != "", or (to direction) a
// Return for an OutInterface match.
func (m *c10Model) wildcardHEP(v ssa.Value, fn *ssa.Function, pfxVal, dir string, epcn *types.Func) string {
	lits, opaque := c10Contents(v, m.litsOf(fn))
	if len(opaque) > 0 {
		return "end rules come from " + path(opaque[0]) + ", not from rule literals in " + fnName(fn)
	}
	nGoto := 0
	for _, l := range lits {
		mt, okM := l.Match()
		a, okA := l.Action()
		if !okM || !okA {
			return "rule literal with several Match/Action stores"
		}
		if a.Kind == "factory" && a.Name == "Return" && dir == "to" && len(mt.Calls) == 1 && mt.Calls[0].Name == "OutInterface" {
			continue
		}
		if a.Kind != "factory" || a.Name != "GoTo" {
			return "host dispatch end rule with action " + a.String() + " (only GoTo to the wildcard HEP chain is expected)"
		}
		if !mt.Unconditional() {
			return fmt.Sprintf("wildcard-HEP goto is conditional (%v)", mt.Names())
		}
		call, ok := a.Args[0].(*ssa.Call)
		if !ok || calleeOf(call.Common()) != epcn {
			return "wildcard-HEP goto target is " + path(a.Args[0]) + ", not EndpointChainName(…)"
		}
		args := call.Common().Args
		if s, ok := c10StrConst(args[0]); !ok || s != pfxVal {
			return fmt.Sprintf("end rule of the %q dispatch goes to the wildcard HEP's %s chain: unmatched host traffic is policed by the wrong chain", pfxVal, path(args[0]))
		}
		iface := args[1]
		if _, isParam := iface.(*ssa.Parameter); !isParam {
			return "wildcard-HEP goto names the chain of " + path(iface) + ", expected the default-interface parameter"
		}
		nonEmpty := eqCond(false, func(x ssa.Value) bool { return x == iface }, func(x ssa.Value) bool { s, ok := c10StrConst(x); return ok && s == "" })
		if !guardedCut(a.Call, nonEmpty) {
			return "wildcard-HEP goto is constructed on a path where " + path(iface) + " may be \"\": unmatched host traffic is sent to a wildcard host endpoint that is not configured"
		}
		nGoto++
	}
	if nGoto != 1 {
		return fmt.Sprintf("%d wildcard-HEP goto rules in the end rules, expected 1", nGoto)
	}
	return ""
}

// -------------------------------------------------------------- mark chains --

// The endpoint-mark dispatch (IPVS path): set-mark root chain drops packets
// from InInterface(workload prefix+wildcard) after the per-endpoint rules; the
// from-mark root chain ends with an unconditional deny.
func (m *c10Model) checkMarkChains() {
	c := m.c
	fn := c10MustFunc(c, m.p, c10RulesPkg, "DefaultRuleRenderer.endpointMarkDispatchChains")
	deny := m.p.LookupObj(c10RulesPkg, "DefaultRuleRenderer.IptablesFilterDenyAction").(*types.Func)
	lits := m.litsOf(fn)
	wlPfx := m.p.LookupObj(c10RulesPkg, "Config.WorkloadIfacePrefixes")
	if wlPfx == nil {
		c.Lost("Config.WorkloadIfacePrefixes")
	}
	var chains []*ssa.Alloc
	for _, al := range c10ChainLits(fn) {
		chains = append(chains, al)
	}
	if len(chains) != 2 {
		c.Lost("%s: expected 2 root chain literals, found %d", fnName(fn), len(chains))
	}
	nDeny := 0
	for _, al := range chains {
		st := literalFieldStores(al)
		if len(st["Rules"]) != 1 || len(st["Name"]) != 1 {
			c.Lost("%s: chain literal without Name/Rules", fnName(fn))
		}
		par, isPar := st["Name"][0].(*ssa.Parameter)
		if !isPar {
			c.Lost("%s: chain Name is not a parameter", fnName(fn))
		}
		in, _ := c10Contents(st["Rules"][0], lits)
		// The last literal (one that no other literal follows) must be terminal:
		var gotos, denies, others []*c10Lit
		for _, l := range in {
			a, _ := l.Action()
			switch {
			case a.Kind == "factory" && a.Name == "GoTo":
				gotos = append(gotos, l)
			case a.Kind == "method" && a.Call != nil && calleeOf(a.Call.Common()) == deny:
				denies = append(denies, l)
			default:
				others = append(others, l)
			}
		}
		site := m.p.Pos(al.Pos())
		key := fmt.Sprintf("C10.unknowndrop/%s/chain(%s)", fnName(fn), par.Name())
		if len(gotos) > 0 {
			// from-mark chain: mark → goto endpoint chain; must end in unconditional deny that follows every goto
			msg := ""
			var term *c10Lit
			for _, d := range denies {
				if c10IsUncondDeny(d, deny) == "" {
					term = d
				}
			}
			if term == nil {
				msg = "chain of per-mark GoTo rules has no unconditional IptablesFilterDenyAction rule: packets with an unknown endpoint mark fall through"
			} else {
				for _, g := range gotos {
					if before, dec := c10Before(g, term); !dec || !before {
						msg = "the unconditional deny is not placed after the per-mark GoTo rules"
					}
				}
			}
			nDeny++
			c.Check2(key, site, msg)
			continue
		}
		// set-mark chain: a deny for InInterface(prefix+wildcard) ranging over WorkloadIfacePrefixes, placed
		// before the unconditional "non-cali" mark rule.
		msg := "no IptablesFilterDenyAction rule for InInterface(workload prefix + wildcard): packets from unknown workload interfaces get the non-Calico endpoint mark"
		for _, d := range denies {
			mt, ok := d.Match()
			if !ok || len(mt.Calls) != 1 || mt.Calls[0].Name != "InInterface" || !mt.BaseNew {
				continue
			}
			bo, isAdd := mt.Calls[0].Args[0].(*ssa.BinOp)
			if !isAdd || bo.Op != token.ADD || fieldVar(bo.Y) == nil || fieldVar(bo.Y).Name() != "wildcard" {
				continue
			}
			src := c10IndexedSlice(bo.X)
			if src == nil || fieldVar(src) != wlPfx {
				continue
			}
			msg = ""
			for _, o := range others {
				omt, _ := o.Match()
				if omt.Unconditional() {
					if before, dec := c10Before(d, o); !dec || !before {
						msg = "the unknown-workload-interface deny is not placed before the unconditional non-Calico mark rule"
					}
				}
			}
		}
		nDeny++
		c.Check2(key, site, msg)
	}
	if nDeny != 2 {
		c.Lost("%s: mark chains", fnName(fn))
	}
}

// -------------------------------------------------------------------- vmap --

func (m *c10Model) checkVMAP(dpPkg string) {
	c := m.c
	p := m.p
	fromPfx := c10ConstStr(c, p, c10RulesPkg, "WorkloadFromEndpointPfx")
	toPfx := c10ConstStr(c, p, c10RulesPkg, "WorkloadToEndpointPfx")
	fromMap := c10ConstStr(c, p, c10RulesPkg, "NftablesFromWorkloadDispatchMap")
	toMap := c10ConstStr(c, p, c10RulesPkg, "NftablesToWorkloadDispatchMap")
	if fromMap == toMap {
		c.Violate("C10.vmap/rule/distinct-maps", "felix/rules/rule_defs.go", "from and to dispatch maps have the same name %q", fromMap)
	}
	want := map[string][2]string{ // matcher method -> (map, prefix)
		"InInterfaceVMAP":  {fromMap, fromPfx},
		"OutInterfaceVMAP": {toMap, toPfx},
	}
	// (1) root rules of the VMAP builder
	pfxParam := m.vmap.Params[m.vmapRoles["pfx"]]
	seen := map[string]bool{}
	for _, l := range m.litsOf(m.vmap) {
		mt, ok := l.Match()
		if !ok || len(mt.Calls) == 0 {
			continue
		}
		for _, mc := range mt.Calls {
			w, isV := want[mc.Name]
			if !isV {
				continue
			}
			seen[mc.Name] = true
			key := "C10.vmap/rule/" + mc.Name
			site := p.Pos(mc.Call.Pos())
			mapName, _ := c10StrConst(mc.Args[0])
			a, _ := l.Action()
			guard := guardedCut(mc.Call, eqCond(true, func(x ssa.Value) bool { return x == pfxParam }, func(x ssa.Value) bool { s, ok := c10StrConst(x); return ok && s == w[1] }))
			var bad []string
			if mapName != w[0] {
				bad = append(bad, fmt.Sprintf("%s looks up map %q, expected %q", mc.Name, mapName, w[0]))
			}
			if !guard {
				bad = append(bad, fmt.Sprintf("%s rule is not confined to the case endpointPfx == %q", mc.Name, w[1]))
			}
			if len(mt.Calls) != 1 || !mt.BaseNew {
				bad = append(bad, fmt.Sprintf("verdict-map rule has extra criteria %v", mt.Names()))
			}
			if a.Kind != "none" {
				bad = append(bad, "verdict-map rule has an action "+a.String())
			}
			c.Check(len(bad) == 0, key, site, fmt.Sprintf("%s(%q) only when endpointPfx == %q", mc.Name, w[0], w[1]), strings.Join(bad, "; "))
		}
	}
	for name := range want {
		if !seen[name] {
			c.Lost("%s: no %s rule", fnName(m.vmap), name)
		}
	}
	// the dispatcher uses the vmap builder only for the two workload prefixes
	dispPfx := m.disp.Params[m.dispRoles["pfx"]]
	for _, cs := range c10StaticCallers([]*ssa.Function{m.disp}, m.vmap) {
		g := guardedCut(cs.Instr, eqCond(true, func(x ssa.Value) bool { return x == dispPfx }, func(x ssa.Value) bool {
			s, ok := c10StrConst(x)
			return ok && (s == fromPfx || s == toPfx)
		}))
		c.Check(g, "C10.vmap/rule/dispatcher-guard", p.Pos(cs.Instr.Pos()), "vmap builder reachable only for the workload from/to prefixes", "vmap builder reachable for a prefix other than the workload from/to prefixes")
	}

	// (2) DispatchMappings: result #i is a map; every update m[K] = … goto EndpointChainName(P, K', …) has K == K' and P per result index
	dm := c10MustFunc(c, p, c10RulesPkg, "DefaultRuleRenderer.DispatchMappings")
	epcn := p.LookupObj(c10RulesPkg, "EndpointChainName").(*types.Func)
	maxLen := p.LookupObj(c10RulesPkg, "DefaultRuleRenderer.maxNameLength")
	rets := returnsOf(dm)
	if len(rets) != 1 || len(rets[0].Results) != 2 {
		c.Lost("DispatchMappings: single return of two maps")
	}
	for i, wantP := range []string{fromPfx, toPfx} {
		mv := rets[0].Results[i]
		key := fmt.Sprintf("C10.vmap/mappings/result%d", i)
		n := 0
		var bad []string
		allInstrs(dm, true, func(_ *ssa.Function, in ssa.Instruction) {
			mu, ok := in.(*ssa.MapUpdate)
			if !ok || mu.Map != mv {
				return
			}
			n++
			// find the EndpointChainName call feeding the value
			var ec *ssa.Call
			for _, o := range c10ValueCalls(mu.Value, 6) {
				if calleeOf(o.Common()) == epcn {
					ec = o
				}
			}
			if ec == nil {
				bad = append(bad, "map value is not built from EndpointChainName(…)")
				return
			}
			args := ec.Common().Args
			if s, ok := c10StrConst(args[0]); !ok || s != wantP {
				bad = append(bad, fmt.Sprintf("entries of result #%d name chains with prefix %s, expected %q", i, path(args[0]), wantP))
			}
			if path(args[1]) != path(mu.Key) {
				bad = append(bad, fmt.Sprintf("entry for interface %s names the chain of %s", path(mu.Key), path(args[1])))
			}
			if fieldVar(args[2]) != maxLen {
				bad = append(bad, "chain name limited to "+path(args[2])+", not r.maxNameLength")
			}
		})
		if n == 0 {
			c.Lost("DispatchMappings: no update of result map #%d", i)
		}
		c.Check(len(bad) == 0, key, p.Pos(dm.Pos()), fmt.Sprintf("result #%d maps each endpoint name to goto <%q chain of the same name>", i, wantP), strings.Join(bad, "; "))
	}

	if dpPkg == "" {
		return
	}
	// (3) endpoint manager: AddOrReplaceMap(MapMetadata{Name: N}, extract #i of DispatchMappings)
	dmObj := p.LookupObj(c10RulesPkg, "RuleRenderer.DispatchMappings")
	if dmObj == nil {
		c.Lost("RuleRenderer.DispatchMappings")
	}
	nProg := 0
	for _, f := range p.AllFuncs() {
		if f.Pkg == nil || f.Pkg.Pkg.Path() != calicoPrefix+dpPkg {
			continue
		}
		for _, cs := range callsIn(f, false, func(fn *types.Func) bool { return fn.Name() == "AddOrReplaceMap" }) {
			args := cs.Args()
			if len(args) != 3 {
				continue
			}
			ex, ok := args[2].(*ssa.Extract)
			if !ok {
				continue
			}
			src, ok := ex.Tuple.(*ssa.Call)
			if !ok || calleeOf(src.Common()) != dmObj {
				continue
			}
			nProg++
			wantMap := []string{fromMap, toMap}[ex.Index]
			got := ""
			if al := c10MetaAlloc(args[1]); al != nil {
				for _, nv := range literalFieldStores(al)["Name"] {
					got, _ = c10StrConst(nv)
				}
			}
			c.Check(got == wantMap, fmt.Sprintf("C10.vmap/programmed/%s/result%d", fnName(f), ex.Index), p.Pos(cs.Instr.Pos()),
				fmt.Sprintf("result #%d programmed as map %q", ex.Index, wantMap),
				fmt.Sprintf("DispatchMappings result #%d is programmed under map name %q, but the dispatch rule for that direction looks up %q", ex.Index, got, wantMap))
		}
	}
	if nProg < 2 {
		c.Lost("%s: AddOrReplaceMap calls fed by DispatchMappings (found %d)", dpPkg, nProg)
	}
}

// c10MetaAlloc: the Alloc behind a struct value loaded from a composite literal.
func c10MetaAlloc(v ssa.Value) *ssa.Alloc {
	if u, ok := v.(*ssa.UnOp); ok && u.Op == token.MUL {
		if al, ok := u.X.(*ssa.Alloc); ok {
			return al
		}
	}
	return nil
}

// c10ValueCalls collects the calls in the expression tree that builds v
// (through slice literals, varargs, interface boxing).
func c10ValueCalls(v ssa.Value, depth int) []*ssa.Call {
	var out []*ssa.Call
	seen := map[ssa.Value]bool{}
	var walk func(v ssa.Value, d int)
	walk = func(v ssa.Value, d int) {
		if v == nil || seen[v] || d == 0 {
			return
		}
		seen[v] = true
		switch x := v.(type) {
		case *ssa.Call:
			out = append(out, x)
			for _, a := range x.Common().Args {
				walk(a, d-1)
			}
		case *ssa.Slice:
			walk(x.X, d)
		case *ssa.MakeInterface:
			walk(x.X, d)
		case *ssa.Alloc:
			// array backing a slice literal / varargs: follow element stores
			if x.Referrers() == nil {
				return
			}
			for _, r := range *x.Referrers() {
				if ia, ok := r.(*ssa.IndexAddr); ok && ia.Referrers() != nil {
					for _, rr := range *ia.Referrers() {
						if st, ok := rr.(*ssa.Store); ok && st.Addr == ia {
							walk(st.Val, d-1)
						}
					}
				}
			}
		}
	}
	walk(v, depth)
	return out
}

// ------------------------------------------------------------------ sorted --

func (m *c10Model) checkSorted() {
	c := m.c
	for _, name := range []string{"DefaultRuleRenderer.sortAndDivideEndpointNamesToPrefixTree", "DefaultRuleRenderer.endpointMarkDispatchChains"} {
		fn := c10MustFunc(c, m.p, c10RulesPkg, name)
		// loops with adjacent-duplicate elimination: an IndexAddr load x[i] compared (==) with a phi
		// that carries the previous element.
		type loop struct {
			slice ssa.Value
			cmp   *ssa.BinOp
		}
		var loops []loop
		allInstrs(fn, false, func(_ *ssa.Function, in ssa.Instruction) {
			bo, ok := in.(*ssa.BinOp)
			if !ok || bo.Op != token.EQL {
				return
			}
			for _, pr := range [][2]ssa.Value{{bo.X, bo.Y}, {bo.Y, bo.X}} {
				s := c10IndexedSlice(pr[0])
				phi, isPhi := pr[1].(*ssa.Phi)
				if s == nil || !isPhi {
					continue
				}
				carries := false
				for _, e := range phi.Edges {
					if e == pr[0] {
						carries = true
					}
				}
				if carries {
					loops = append(loops, loop{s, bo})
				}
			}
		})
		if len(loops) == 0 {
			c.Lost("%s: no adjacent-duplicate elimination loop (x[i] == previous)", fnName(fn))
		}
		for _, lp := range loops {
			ok := false
			for _, cs := range callsIn(fn, false, func(f *types.Func) bool {
				return f.Pkg() != nil && ((f.Pkg().Path() == "sort" && f.Name() == "Strings") || (f.Pkg().Path() == "slices" && f.Name() == "Sort"))
			}) {
				if cs.Common().Args[0] == lp.slice && instrDominates(cs.Instr, lp.cmp) {
					ok = true
				}
			}
			c.Check(ok, "C10.sorted/"+fnName(fn), m.p.Pos(lp.cmp.Pos()),
				"duplicate elimination over "+path(lp.slice)+" is dominated by a sort of the same slice",
				"adjacent-duplicate elimination over "+path(lp.slice)+" without a dominating sort: with duplicate names a name equal to the common prefix forms a multi-name bin whose wildcard rule captures every other interface")
		}
	}
}

// ----------------------------------------------------------------- replace --

const (
	c10NftPkg = "felix/nftables"
	c10DTPkg  = "felix/deltatracker"
)

func c10IsDesiredSetMethod(f *types.Func, name string) bool {
	return f != nil && f.Pkg() != nil && f.Pkg().Path() == calicoPrefix+c10DTPkg && methodNamed(f, "DesiredSetView", name)
}

// c10ReachesReturn: a Return of fn reachable from its entry without crossing an
// If edge accepted by cut and without executing an instruction accepted by stop
// (nil if none).  Blocks that end in panic / log.Panic are not continued.
func c10ReachesReturn(fn *ssa.Function, cut EdgePred, stop func(ssa.Instruction) bool) *ssa.Return {
	if len(fn.Blocks) == 0 {
		return nil
	}
	seen := map[*ssa.BasicBlock]bool{}
	st := []*ssa.BasicBlock{fn.Blocks[0]}
	for len(st) > 0 {
		b := st[len(st)-1]
		st = st[:len(st)-1]
		if seen[b] {
			continue
		}
		seen[b] = true
		if isPanicBlock(b) {
			continue
		}
		stopped := false
		for _, in := range b.Instrs {
			if stop(in) {
				stopped = true
				break
			}
			if r, ok := in.(*ssa.Return); ok {
				return r
			}
		}
		if stopped {
			continue
		}
		if ifi, ok := b.Instrs[len(b.Instrs)-1].(*ssa.If); ok && len(b.Succs) == 2 && b.Succs[0] != b.Succs[1] {
			for k, s := range b.Succs {
				if c, pol := stripNot(ifi.Cond, k == 0); cut != nil && cut(c, pol) {
					continue
				}
				st = append(st, s)
			}
			continue
		}
		st = append(st, b.Succs...)
	}
	return nil
}

// c10DerivesFrom: v (a value of fn, or of a closure nested in it) is computed
// from parameter par: through loads of locals, closure bindings, conversions
// and calls that take a derived value as an argument.
func c10DerivesFrom(v ssa.Value, par *ssa.Parameter) bool {
	seen := map[ssa.Value]bool{}
	var walk func(v ssa.Value, d int) bool
	walk = func(v ssa.Value, d int) bool {
		if v == nil || d > 12 || seen[v] {
			return false
		}
		seen[v] = true
		switch x := v.(type) {
		case *ssa.Parameter:
			return x == par
		case *ssa.FreeVar:
			fn := x.Parent()
			idx := -1
			for i, fv := range fn.FreeVars {
				if fv == x {
					idx = i
				}
			}
			if fn.Parent() == nil || idx < 0 {
				return false
			}
			found := false
			allInstrs(fn.Parent(), false, func(_ *ssa.Function, in ssa.Instruction) {
				if mc, ok := in.(*ssa.MakeClosure); ok && mc.Fn == ssa.Value(fn) && idx < len(mc.Bindings) && walk(mc.Bindings[idx], d+1) {
					found = true
				}
			})
			return found
		case *ssa.Alloc:
			if x.Referrers() == nil {
				return false
			}
			for _, r := range *x.Referrers() {
				if st, ok := r.(*ssa.Store); ok && st.Addr == ssa.Value(x) && walk(st.Val, d+1) {
					return true
				}
			}
			return false
		case *ssa.UnOp:
			return walk(x.X, d+1)
		case *ssa.Phi:
			for _, e := range x.Edges {
				if walk(e, d+1) {
					return true
				}
			}
			return false
		case *ssa.MakeInterface:
			return walk(x.X, d+1)
		case *ssa.ChangeInterface:
			return walk(x.X, d+1)
		case *ssa.ChangeType:
			return walk(x.X, d+1)
		case *ssa.Convert:
			return walk(x.X, d+1)
		case *ssa.Extract:
			return walk(x.Tuple, d+1)
		case *ssa.Call:
			for _, a := range x.Common().Args {
				if walk(a, d+1) {
					return true
				}
			}
			return x.Common().IsInvoke() && walk(x.Common().Value, d+1)
		}
		return false
	}
	return walk(v, 0)
}

// c10Replace: "replace" operations of the nftables map / set trackers.  The
// workload dispatch verdict maps are programmed through Maps.AddOrReplaceMap
// (C10.vmap/programmed); an interface that is no longer a member must leave the
// map, otherwise its packets are still dispatched instead of dropped.
//
//	every-path:    every return of the operation is preceded by the removal of
//	               stale desired members (Desired().Iter(<callback>) or DeleteAll()).
//	stale-deleted: in that callback, unless the member is contained in the set
//	               built from the operation's members argument, it is Delete()d
//	               from the desired view before the callback returns.
func c10Replace(c *Ctx, p *Prog) {
	c.Rule("C10.replace", "E-ORDER/E-GUARD", "AddOrReplace* operations of felix/nftables make the desired member set equal to their argument on every path: every return is preceded by the stale-member pass over the desired view, and that pass deletes every member not contained in the new set (layers that only forward the members to another AddOrReplace* must do so on every path)", 5)
	var fns []*ssa.Function
	for _, f := range p.AllFuncs() {
		if f.Parent() == nil && f.Pkg != nil && f.Pkg.Pkg.Path() == calicoPrefix+c10NftPkg && f.Signature.Recv() != nil &&
			strings.HasPrefix(f.Name(), "AddOrReplace") && f.Blocks != nil {
			fns = append(fns, f)
		}
	}
	sort.Slice(fns, func(i, j int) bool { return fnName(fns[i]) < fnName(fns[j]) })
	haveMaps := false
	for _, f := range fns {
		if fnName(f) == "Maps.AddOrReplaceMap" {
			haveMaps = true
		}
	}
	if !haveMaps {
		c.Lost("%s.Maps.AddOrReplaceMap (found %d AddOrReplace* methods)", c10NftPkg, len(fns))
	}
	inPkg := func(f *ssa.Function) bool {
		return f != nil && f.Blocks != nil && f.Pkg != nil && f.Pkg.Pkg.Path() == calicoPrefix+c10NftPkg
	}
	isReplaceOp := func(f *types.Func) bool {
		return f != nil && strings.HasPrefix(f.Name(), "AddOrReplace") && f.Type().(*types.Signature).Recv() != nil
	}
	derivesAny := func(v ssa.Value, pars []*ssa.Parameter) bool {
		for _, pa := range pars {
			if c10DerivesFrom(v, pa) {
				return true
			}
		}
		return false
	}
	// isPass: in executes the stale-member pass: Iter/DeleteAll on a desired set
	// view, delegation of the members to another AddOrReplace* operation, or a
	// helper of the package that does one of these before each of its returns.
	var isPass func(fn *ssa.Function, pars []*ssa.Parameter, depth int) func(ssa.Instruction) bool
	isPass = func(fn *ssa.Function, pars []*ssa.Parameter, depth int) func(ssa.Instruction) bool {
		return func(in ssa.Instruction) bool {
			call, ok := in.(*ssa.Call)
			if !ok {
				return false
			}
			f := calleeOf(call.Common())
			if c10IsDesiredSetMethod(f, "Iter") || c10IsDesiredSetMethod(f, "DeleteAll") {
				return true
			}
			if isReplaceOp(f) {
				for _, a := range (CallSite{call, f, fn}).Args()[1:] {
					if derivesAny(a, pars) {
						return true
					}
				}
				return false
			}
			if h := calleeFn(call.Common()); inPkg(h) && depth < 2 && h != fn {
				return c10ReachesReturn(h, nil, isPass(h, c10ParamsFedBy(call, h, pars), depth+1)) == nil
			}
			return false
		}
	}
	type pass struct {
		it   *ssa.Call
		in   *ssa.Function
		pars []*ssa.Parameter
	}
	var collect func(fn *ssa.Function, pars []*ssa.Parameter, depth int) (passes []pass, delegates bool)
	collect = func(fn *ssa.Function, pars []*ssa.Parameter, depth int) (passes []pass, delegates bool) {
		allInstrs(fn, false, func(_ *ssa.Function, in ssa.Instruction) {
			call, ok := in.(*ssa.Call)
			if !ok {
				return
			}
			f := calleeOf(call.Common())
			switch {
			case c10IsDesiredSetMethod(f, "Iter"):
				passes = append(passes, pass{call, fn, pars})
			case isReplaceOp(f):
				if isPass(fn, pars, depth)(in) {
					delegates = true
				}
			default:
				if h := calleeFn(call.Common()); inPkg(h) && depth < 2 && h != fn {
					if hp := c10ParamsFedBy(call, h, pars); len(hp) > 0 {
						ps, d := collect(h, hp, depth+1)
						passes = append(passes, ps...)
						delegates = delegates || d
					}
				}
			}
		})
		return
	}
	for _, fn := range fns {
		name := fnName(fn)
		// the members argument: the last map/slice parameter
		var members *ssa.Parameter
		for _, pa := range fn.Params {
			switch pa.Type().Underlying().(type) {
			case *types.Map, *types.Slice:
				members = pa
			}
		}
		if members == nil {
			c.Lost("%s: no map/slice parameter holding the new members", name)
		}
		passes, delegates := collect(fn, []*ssa.Parameter{members}, 0)
		r := c10ReachesReturn(fn, nil, isPass(fn, []*ssa.Parameter{members}, 0))
		site := p.Pos(fn.Pos())
		if r != nil {
			site = p.Pos(r.Pos())
		}
		c.Check(r == nil, "C10.replace/"+name+"/every-path", site,
			"every return is preceded by the stale-member pass over the desired view (or by handing the members to the underlying AddOrReplace* operation)",
			name+" can return without having run the pass that removes no-longer-wanted members from the desired view (Desired().Iter(…Delete…) / DeleteAll()): members of the previous set stay programmed — a removed workload interface keeps its dispatch entry")
		if len(passes) == 0 && delegates {
			continue // pure delegation: the callee is checked as its own operation
		}
		if len(passes) == 0 {
			c.Violate("C10.replace/"+name+"/stale-deleted", p.Pos(fn.Pos()), "%s has no Desired().Iter(callback) pass that deletes the members missing from %s", name, members.Name())
			continue
		}
		for _, ps := range passes {
			it := ps.it
			args := it.Common().Args
			cb := c10ClosureFn(args[len(args)-1])
			if cb == nil || cb.Blocks == nil || len(cb.Params) != 1 {
				c.Undecided("C10.replace/"+name+"/stale-deleted", p.Pos(it.Pos()), "callback of the stale-member pass is not a function literal (%s)", path(args[len(args)-1]))
				continue
			}
			k := cb.Params[0]
			inNew := func(cond ssa.Value, pol bool) bool {
				if !pol {
					return false
				}
				if ex, ok := cond.(*ssa.Extract); ok && ex.Index == 1 {
					if lk, ok := ex.Tuple.(*ssa.Lookup); ok && lk.CommaOk && lk.Index == ssa.Value(k) {
						return derivesAny(lk.X, ps.pars)
					}
					return false
				}
				call, ok := cond.(*ssa.Call)
				if !ok {
					return false
				}
				f := calleeOf(call.Common())
				if f == nil || f.Name() != "Contains" {
					return false
				}
				a := (CallSite{call, f, cb}).Args()
				return len(a) == 2 && a[1] == ssa.Value(k) && derivesAny(a[0], ps.pars)
			}
			deletes := func(in ssa.Instruction) bool {
				call, ok := in.(*ssa.Call)
				if !ok || !c10IsDesiredSetMethod(calleeOf(call.Common()), "Delete") {
					return false
				}
				a := call.Common().Args
				return len(a) == 2 && a[1] == ssa.Value(k)
			}
			r := c10ReachesReturn(cb, inNew, deletes)
			site := p.Pos(it.Pos())
			if r != nil {
				site = p.Pos(r.Pos())
			}
			c.Check(r == nil, "C10.replace/"+name+"/stale-deleted", site,
				"a desired member is kept only if the set built from "+members.Name()+" contains it; otherwise it is deleted from the desired view",
				"the stale-member callback of "+name+" can return without Delete("+k.Name()+") on a path where "+k.Name()+" was not found in the set built from "+members.Name()+": a previously desired member that is absent from the new set stays desired")
		}
	}
}

// c10ParamsFedBy: the parameters of callee h that receive, at call, an argument
// derived from one of pars.
func c10ParamsFedBy(call *ssa.Call, h *ssa.Function, pars []*ssa.Parameter) []*ssa.Parameter {
	var out []*ssa.Parameter
	for i, a := range call.Common().Args {
		if i >= len(h.Params) {
			break
		}
		for _, pa := range pars {
			if c10DerivesFrom(a, pa) {
				out = append(out, h.Params[i])
				break
			}
		}
	}
	return out
}
