package main

import (
	"fmt"
	"go/token"
	"go/types"

	"golang.org/x/tools/go/ssa"
)

const c32Pkg = "goldmane/pkg/storage"

func init() {
	register(&Property{
		ID:        "C32",
		Title:     "Flow aggregation conserves counts and emits each window once",
		Technique: "static analysis: who-may-call/write, post-dominance pairing, cut-set guards, provenance of the emitted collection, must-do path cuts through package callees, twin comparison of switch arms with classes derived from the counter struct (go/ssa over goldmane/pkg/storage)",
		DesignRef: "DESIGN.md §3 C32",
		Explanation: "Decides on goldmane's BucketRing: (once) Sink.Receive is called only by EmitFlowCollections, for collections produced by maybeBuildFlowCollection, and is always followed by Complete() on the " +
			"same collection; maybeBuildFlowCollection returns a collection only where buckets[startIndex].pushed is false; pushed is set only by FlowCollection.Complete (for every bucket recorded in the " +
			"collection) and cleared only by AggregationBucket.Reset; every bucket whose flows are gathered into a collection is recorded in it; (count) BucketRing.AddFlow adds an accepted flow to exactly " +
			"one AggregationBucket, the one findBucket returned for flow.StartTime, on every non-rejecting path, and files it in the DiachronicFlow under that same bucket's window; findBucket returns a bucket " +
			"only under StartTime <= t < EndTime of that bucket; Reset replaces the per-bucket statistics and clears the pushed flag; " +
			"(expiry) the limit handed to DiachronicFlow.Rollover is read from the BucketRing (accessor call or field load, possibly through a captured variable) and no instruction that can run after that read in the rolling function - directly or through package callees - writes a BucketRing field the read depends on (the head index): the DiachronicFlows are pruned against the ring as it is after the recycle; " +
			"(conserve) the bookkeeping of an accepted flow is all-or-none: every accepting path of BucketRing.AddFlow calls DiachronicFlow.AddFlow, and the result-less callees have no normally-returning path (log.Fatal/Panic blocks excluded, package helpers looked through) that skips their store - AggregationBucket.AddFlow always inserts into its Flows set and calls statisticsIndex.AddFlow on its stats, statisticsIndex.AddFlow always adds to the index-wide statistics, DiachronicFlow.AddFlow always writes Windows; " +
			"(twin) with the classes and directions derived from the fields of the counter struct held by `statistics` (Allowed/Denied/Passed x In/Out), every region controlled by a test of a proto.Action value against a constant writes counters of one class only (the one sharing its stem with the constant where that is unambiguous), different arms write different classes and together all of them, the arms write the same (kind, direction, source) cells under non-contradictory tests of the same expression, and every store into a proto.StatisticsResult series is computed from the counter / series of the same name only, each counter reaching its series.",
		NotDecided: "The arithmetic itself: that List/Statistics sums equal the sums of accepted flows (DiachronicFlow window arithmetic, statisticsIndex), ring index arithmetic (indexSubtract/iterBuckets ranges), " +
			"and the treatment of flows that arrive for a window after it was emitted (AggregationBucket.AddFlow accepts them with a warning; they are counted in queries but never emitted). " +
			"Not decided either: that the key indices (BucketRing.indices) receive every new DiachronicFlow; whether the In/Out direction of a cell is the right one when all action arms agree on it (only disagreement between arms is reported); the per-policy / per-rule bookkeeping of statisticsIndex.AddFlow beyond the index-wide add.",
		Assumptions: []string{
			"go/types + go/ssa (x/tools v0.50.0) model of the current source, CGO_ENABLED=0 build",
			"logrus Panic*/Fatal* do not return",
			"the ring is driven from one goroutine (Complete is documented as synchronous with the bucket ring)",
		},
		Run: runC32,
		Fixtures: []Fixture{
			{Name: "collection handed to the sink but not completed", File: "goldmane/pkg/storage/bucket_ring.go",
				Old: "\t\t\tsink.Receive(c)\n\t\t\tc.Complete()\n", New: "\t\t\tsink.Receive(c)\n", Expect: "C32.once/complete"},
			{Name: "already pushed window rebuilt", File: "goldmane/pkg/storage/bucket_ring.go",
				Old: "Debug(\"Bucket has already been published, waiting for next bucket\")\n\t\treturn nil\n", New: "Debug(\"Bucket has already been published, waiting for next bucket\")\n", Expect: "C32.once/skip-pushed"},
			{Name: "Complete does not mark buckets", File: "goldmane/pkg/storage/utils.go",
				Old: "\t\tb.pushed = true\n", New: "\t\t_ = b\n", Expect: "C32.once/complete-all"},
			{Name: "gathered bucket not recorded in the collection", File: "goldmane/pkg/storage/bucket_ring.go",
				Old: "\t\tflows.buckets = append(flows.buckets, r.buckets[i])\n", New: "", Expect: "C32.once/recorded"},
			{Name: "second emission path on rollover", File: "goldmane/pkg/storage/bucket_ring.go",
				Old: "\tif sink != nil {\n\t\tr.EmitFlowCollections(sink)\n\t}\n", New: "\tif sink != nil {\n\t\tr.EmitFlowCollections(sink)\n\t\tsink.Receive(NewFlowCollection(startTime, endTime))\n\t}\n", Expect: "C32.once/receive-owner"},
			{Name: "expiry limit looked up once, before the head advances", File: "goldmane/pkg/storage/bucket_ring.go",
				Old: "\t// Send flows to the stream manager.\n\tr.flushToStreams()\n\n\t// Move the head index to the next bucket.\n\tr.headIndex = r.nextBucketIndex(r.headIndex)\n\n\t// Capture the flows from the bucket before we clear it.\n\tflows := set.New[*DiachronicFlow]()\n\tif r.buckets[r.headIndex].Flows != nil {\n\t\tfor d := range r.buckets[r.headIndex].Flows.All() {\n\t\t\tflows.Add(d)\n\t\t}\n\t}\n\n\t// Clear data from the bucket that is now the head. The start time of the new bucket\n\t// is the end time of the previous bucket.\n\tr.buckets[r.headIndex].Reset(startTime, endTime)\n\n\t// Update DiachronicFlows. We need to remove any windows from the DiachronicFlows that have expired.\n\t// Find the oldest bucket's start time and remove any data from the DiachronicFlows that is older than that.\n\tfor d := range flows.All() {\n\t\t// Rollover the DiachronicFlow. This will remove any expired data from it.\n\t\td.Rollover(r.BeginningOfHistory())",
				New: "\texpiry := r.BeginningOfHistory()\n\t// Send flows to the stream manager.\n\tr.flushToStreams()\n\n\t// Move the head index to the next bucket.\n\tr.headIndex = r.nextBucketIndex(r.headIndex)\n\n\t// Capture the flows from the bucket before we clear it.\n\tflows := set.New[*DiachronicFlow]()\n\tif r.buckets[r.headIndex].Flows != nil {\n\t\tfor d := range r.buckets[r.headIndex].Flows.All() {\n\t\t\tflows.Add(d)\n\t\t}\n\t}\n\n\t// Clear data from the bucket that is now the head. The start time of the new bucket\n\t// is the end time of the previous bucket.\n\tr.buckets[r.headIndex].Reset(startTime, endTime)\n\n\t// Update DiachronicFlows. We need to remove any windows from the DiachronicFlows that have expired.\n\t// Find the oldest bucket's start time and remove any data from the DiachronicFlows that is older than that.\n\tfor d := range flows.All() {\n\t\t// Rollover the DiachronicFlow. This will remove any expired data from it.\n\t\td.Rollover(expiry)", Expect: "C32.expiry/BucketRing.Rollover"},
			{Name: "windows pruned against the old head's end time captured before the advance", File: "goldmane/pkg/storage/bucket_ring.go",
				Old: "d.Rollover(r.BeginningOfHistory())", New: "d.Rollover(startTime)", Expect: "C32.expiry/BucketRing.Rollover"},
			{Name: "flow accepted but not added to its bucket", File: "goldmane/pkg/storage/bucket_ring.go",
				Old: "\tbucket.AddFlow(flow)\n}", New: "}", Expect: "C32.count/one-bucket"},
			{Name: "flow added to its bucket twice", File: "goldmane/pkg/storage/bucket_ring.go",
				Old: "\tbucket.AddFlow(flow)\n}", New: "\tbucket.AddFlow(flow)\n\tbucket.AddFlow(flow)\n}", Expect: "C32.count/one-bucket"},
			{Name: "diachronic window differs from the bucket's", File: "goldmane/pkg/storage/bucket_ring.go",
				Old: "AddFlow(flow, bucket.StartTime, bucket.EndTime)", New: "AddFlow(flow, flow.StartTime, flow.EndTime)", Expect: "C32.count/same-window"},
			{Name: "findBucket ignores the bucket's end", File: "goldmane/pkg/storage/bucket_ring.go",
				Old: "\tif t >= b.StartTime && t < b.EndTime {\n\t\treturn idx, b\n\t}", New: "\tif t >= b.StartTime {\n\t\treturn idx, b\n\t}", Expect: "C32.count/in-window"},
			{Name: "published bucket declines a flow the ring has already accepted (seed C32-3)", File: "goldmane/pkg/storage/bucket.go",
				Old: "Warn(\"Adding flow to already published bucket\")\n", New: "Warn(\"Adding flow to already published bucket\")\n\t\treturn\n", Expect: "C32.conserve/AggregationBucket.AddFlow/Flows"},
			{Name: "bucket membership recorded but statistics skipped for a published bucket", File: "goldmane/pkg/storage/bucket.go",
				Old: "\t// Track policy stats.\n\tb.stats.AddFlow(flow)\n", New: "\t// Track policy stats.\n\tif b.pushed {\n\t\treturn\n\t}\n\tb.stats.AddFlow(flow)\n", Expect: "C32.conserve/AggregationBucket.AddFlow/stats"},
			{Name: "late flow put into the bucket but not into the DiachronicFlow window", File: "goldmane/pkg/storage/bucket_ring.go",
				Old: "\tr.diachronics[*flow.Key].AddFlow(flow, bucket.StartTime, bucket.EndTime)\n", New: "\tif !bucket.pushed {\n\t\tr.diachronics[*flow.Key].AddFlow(flow, bucket.StartTime, bucket.EndTime)\n\t}\n", Expect: "C32.conserve/BucketRing.AddFlow/window"},
			{Name: "DiachronicFlow drops a flow for a window newer than all it has", File: "goldmane/pkg/storage/diachronic_flow.go",
				Old: "\t\t// This flow is for a new window that is after all existing windows.\n\t\td.appendWindow(flow, start, end)\n", New: "\t\t// This flow is for a new window that is after all existing windows.\n", Expect: "C32.conserve/DiachronicFlow.AddFlow/Windows"},
			{Name: "index-wide statistics skipped for flows without live connections", File: "goldmane/pkg/storage/stats.go",
				Old: "\ts.add(flow, flow.Key.Action())\n", New: "\tif flow.NumConnectionsLive == 0 {\n\t\treturn\n\t}\n\ts.add(flow, flow.Key.Action())\n", Expect: "C32.conserve/statisticsIndex.AddFlow/total"},
			{Name: "Pass arm increments a Denied counter (seed C32-4)", File: "goldmane/pkg/storage/stats.go",
				Old: "s.connections.PassedOut += flow.NumConnectionsLive", New: "s.connections.DeniedOut += flow.NumConnectionsLive", Expect: "C32.twin/statistics.add/Action_Pass/class"},
			{Name: "Deny arm adds packets to the byte counter", File: "goldmane/pkg/storage/stats.go",
				Old: "s.bytes.DeniedIn += flow.BytesIn", New: "s.bytes.DeniedIn += flow.PacketsIn", Expect: "C32.twin/statistics.add/Action_Deny/shape"},
			{Name: "Allow arm swaps the reporter direction of live connections", File: "goldmane/pkg/storage/stats.go",
				Old: "\t\tcase \"ingress\":\n\t\t\ts.connections.AllowedIn += flow.NumConnectionsLive\n\t\tcase \"egress\":\n\t\t\ts.connections.AllowedOut += flow.NumConnectionsLive", New: "\t\tcase \"egress\":\n\t\t\ts.connections.AllowedIn += flow.NumConnectionsLive\n\t\tcase \"ingress\":\n\t\t\ts.connections.AllowedOut += flow.NumConnectionsLive", Expect: "C32.twin/statistics.add/Action_Allow/shape"},
			{Name: "aggregated DeniedOut series summed from the DeniedIn counter", File: "goldmane/pkg/storage/bucket_ring.go",
				Old: "results[k].DeniedOut[0] += v.DeniedOut", New: "results[k].DeniedOut[0] += v.DeniedIn", Expect: "C32.twin/copy/DeniedOut"},
			{Name: "time series PassedIn appended to the AllowedIn series", File: "goldmane/pkg/storage/bucket_ring.go",
				Old: "results[k].PassedIn = append(results[k].PassedIn, v.PassedIn)", New: "results[k].PassedIn = append(results[k].AllowedIn, v.PassedIn)", Expect: "C32.twin/copy/PassedIn"},
			{Name: "reset keeps old statistics", File: "goldmane/pkg/storage/bucket.go",
				Old: "\tb.ready = false\n\tb.stats = newStatisticsIndex()\n", New: "\tb.ready = false\n", Expect: "C32.count/reset/stats"},
		},
	})
}

// c32BucketIndex: v accesses a field of r.buckets[idx]; returns idx.
func c32BucketIndex(v ssa.Value, fBuckets *types.Var) ssa.Value {
	for i := 0; i < 8 && v != nil; i++ {
		switch x := v.(type) {
		case *ssa.UnOp:
			if x.Op != token.MUL {
				return nil
			}
			v = x.X
		case *ssa.FieldAddr:
			v = x.X
		case *ssa.IndexAddr:
			if fieldVar(x.X) == fBuckets {
				return x.Index
			}
			return nil
		default:
			return nil
		}
	}
	return nil
}

// c32Writes: the package-local struct field written by in (field store, element
// store into a slice/array field, map update of a map field); nil otherwise.
func c32Writes(in ssa.Instruction) *types.Var {
	var addr ssa.Value
	switch x := in.(type) {
	case *ssa.Store:
		addr = x.Addr
	case *ssa.MapUpdate:
		return fieldVar(x.Map)
	default:
		return nil
	}
	if ia, ok := addr.(*ssa.IndexAddr); ok {
		return fieldVar(ia.X)
	}
	if fa, ok := addr.(*ssa.FieldAddr); ok {
		return fieldVar(fa)
	}
	return nil
}

// c32RingFields: the fields of BucketRing itself (its index state), by object.
func c32RingFields(ringT *types.TypeName) map[*types.Var]bool {
	out := map[*types.Var]bool{}
	if st, ok := ringT.Type().Underlying().(*types.Struct); ok {
		for i := 0; i < st.NumFields(); i++ {
			out[st.Field(i)] = true
		}
	}
	return out
}

type c32Read struct {
	at   ssa.Instruction
	rs   map[*types.Var]bool
	what string
}

// c32Expiry: a flow is retained exactly while its bucket is in the ring; when
// Rollover recycles a bucket, the windows of that bucket must leave the
// DiachronicFlows, which prune everything ending at or before the limit they are
// given.  The limit therefore has to describe the ring *after* the recycle.
// For every call DiachronicFlow.Rollover(limit): limit is the result of method
// calls on the BucketRing ("reads" of the ring, possibly through a variable
// captured by the closure the call is in), and no instruction that can execute
// after such a read - in the function holding the read, or, for a read inside a
// closure, after the closure is made in the enclosing function - writes a field
// of BucketRing itself (its index state: head index, bucket slice) that the read
// (the accessor with its callees, or the address chain of a direct load) depends
// on.  Bucket contents are deliberately not part of the read set: Reset of the new
// head after the read does not change the oldest bucket's start time, and moving
// the lookup between the advance and the Reset is behaviour-preserving.
// Capturing a pre-advance value on purpose (startTime) is fine as long as it is
// not what the DiachronicFlows are pruned against.
func c32Expiry(c *Ctx, p *Prog) {
	sink := c23Func(c, p, c32Pkg, "DiachronicFlow.Rollover")
	ringT, _ := p.LookupObj(c32Pkg, "BucketRing").(*types.TypeName)
	if ringT == nil {
		c.Lost("type BucketRing")
	}
	ringFields := c32RingFields(ringT)
	if len(ringFields) == 0 {
		c.Lost("BucketRing has no fields")
	}
	inRing := func(_ *Prog, v *types.Var) bool { return v != nil && ringFields[v] }
	// fields of the ring a function (with callees in the package) loads / writes
	readSet := func(f *ssa.Function) map[*types.Var]bool {
		out := map[*types.Var]bool{}
		for g := range p.closure(f) {
			allInstrs(g, false, func(_ *ssa.Function, in ssa.Instruction) {
				switch x := in.(type) {
				case *ssa.FieldAddr:
					if addrIsRead(x) {
						if fv := fieldVar(x); inRing(p, fv) {
							out[fv] = true
						}
					}
				case *ssa.Field:
					if fv := fieldVar(x); inRing(p, fv) {
						out[fv] = true
					}
				}
			})
		}
		return out
	}
	writeMemo := map[*ssa.Function]map[*types.Var]bool{}
	writeSet := func(f *ssa.Function) map[*types.Var]bool {
		if w, ok := writeMemo[f]; ok {
			return w
		}
		out := map[*types.Var]bool{}
		for g := range p.closure(f) {
			allInstrs(g, false, func(_ *ssa.Function, in ssa.Instruction) {
				if fv := c32Writes(in); inRing(p, fv) {
					out[fv] = true
				}
			})
		}
		writeMemo[f] = out
		return out
	}
	// what `in` may write: directly or through the functions it calls / closures it runs
	mayWrite := func(in ssa.Instruction, rs map[*types.Var]bool) *types.Var {
		if fv := c32Writes(in); fv != nil && rs[fv] {
			return fv
		}
		ci, ok := in.(ssa.CallInstruction)
		if !ok {
			return nil
		}
		var callees []*ssa.Function
		if g := calleeFn(ci.Common()); g != nil {
			callees = append(callees, g)
		} else if ci.Common().IsInvoke() {
			callees = append(callees, p.implsOf(ci.Common().Method)...)
		}
		for _, a := range ci.Common().Args {
			if mc, ok := a.(*ssa.MakeClosure); ok {
				callees = append(callees, mc.Fn.(*ssa.Function))
			}
		}
		for _, g := range callees {
			for fv := range writeSet(g) {
				if rs[fv] {
					return fv
				}
			}
		}
		return nil
	}
	// makeClosureOf: the instruction creating closure f in its parent
	makeClosureOf := func(f *ssa.Function) *ssa.MakeClosure {
		var out *ssa.MakeClosure
		if f.Parent() == nil {
			return nil
		}
		allInstrs(f.Parent(), false, func(_ *ssa.Function, in ssa.Instruction) {
			if mc, ok := in.(*ssa.MakeClosure); ok && mc.Fn == ssa.Value(f) {
				out = mc
			}
		})
		return out
	}
	// resolve the limit to ring reads, following captured variables outwards
	// chainFields: ring fields on the address chain of a direct load (r.buckets[r.headIndex].EndTime)
	var chainFields func(v ssa.Value, out map[*types.Var]bool, depth int)
	chainFields = func(v ssa.Value, out map[*types.Var]bool, depth int) {
		if depth > 12 || v == nil {
			return
		}
		switch x := v.(type) {
		case *ssa.FieldAddr:
			if fv := fieldVar(x); inRing(p, fv) {
				out[fv] = true
			}
			chainFields(x.X, out, depth+1)
		case *ssa.Field:
			if fv := fieldVar(x); inRing(p, fv) {
				out[fv] = true
			}
			chainFields(x.X, out, depth+1)
		case *ssa.IndexAddr:
			chainFields(x.X, out, depth+1)
			chainFields(x.Index, out, depth+1)
		case *ssa.Index:
			chainFields(x.X, out, depth+1)
			chainFields(x.Index, out, depth+1)
		case *ssa.UnOp:
			chainFields(x.X, out, depth+1)
		case *ssa.Call:
			if g := calleeFn(x.Common()); g != nil {
				for fv := range readSet(g) {
					out[fv] = true
				}
			}
			for _, a := range x.Call.Args {
				chainFields(a, out, depth+1)
			}
		}
	}
	// resolve the limit to ring reads, following captured variables outwards
	var resolve func(v ssa.Value, fn *ssa.Function, depth int) (reads []c32Read, other []string)
	resolve = func(v ssa.Value, fn *ssa.Function, depth int) (reads []c32Read, other []string) {
		for _, o := range origins(v, nil) {
			switch x := o.V.(type) {
			case *ssa.Call:
				g := calleeFn(x.Common())
				if g != nil && g.Signature.Recv() != nil && types.Identical(derefType(g.Signature.Recv().Type()), ringT.Type()) {
					if rs := readSet(g); len(rs) > 0 {
						reads = append(reads, c32Read{x, rs, fnName(g) + "()"})
						continue
					}
				}
				other = append(other, path(x))
			case *ssa.FieldAddr:
				rs := map[*types.Var]bool{}
				chainFields(x, rs, 0)
				if len(rs) == 0 {
					other = append(other, path(x))
					continue
				}
				reads = append(reads, c32Read{x, rs, path(x)})
			case *ssa.FreeVar:
				mc := makeClosureOf(fn)
				idx := -1
				for i, fv := range fn.FreeVars {
					if fv == x {
						idx = i
					}
				}
				if mc == nil || idx < 0 || idx >= len(mc.Bindings) || depth > 4 {
					other = append(other, path(x))
					continue
				}
				// the binding is the address of the captured variable: its stored values
				al, ok := mc.Bindings[idx].(*ssa.Alloc)
				if !ok || al.Referrers() == nil {
					other = append(other, path(x))
					continue
				}
				n := 0
				for _, r := range *al.Referrers() {
					if st, ok := r.(*ssa.Store); ok && st.Addr == ssa.Value(al) {
						n++
						r2, o2 := resolve(st.Val, fn.Parent(), depth+1)
						reads = append(reads, r2...)
						other = append(other, o2...)
					}
				}
				if n == 0 {
					other = append(other, path(x))
				}
			default:
				other = append(other, path(o.V))
			}
		}
		return
	}
	n := 0
	for _, f := range p.AllFuncs() {
		for _, cs := range callsIn(f, false, func(fn *types.Func) bool { return fn == sink.Object() }) {
			n++
			site := p.Pos(cs.Instr.Pos())
			key := "C32.expiry/" + fnName(topFn(f))
			if len(cs.Args()) < 2 {
				c.Lost("DiachronicFlow.Rollover has no limit argument")
			}
			reads, other := resolve(cs.Args()[1], f, 0)
			if len(other) > 0 || len(reads) == 0 {
				c.Undecided(key, site, "the limit given to DiachronicFlow.Rollover (%s) is not (only) read from the BucketRing: %v", path(cs.Args()[1]), other)
				continue
			}
			bad := ""
			for _, rd := range reads {
				rs := rd.rs
				// instructions that can run after the read: in its own function, and after each enclosing closure is made
				var from ssa.Instruction = rd.at
				for fn := rd.at.Parent(); fn != nil && bad == ""; fn = fn.Parent() {
					start := from
					allInstrs(fn, false, func(_ *ssa.Function, in ssa.Instruction) {
						if bad != "" || in == start {
							return
						}
						later := (in.Block() == start.Block() && instrIndex(in) > instrIndex(start)) || (in.Block() != start.Block() && instrReaches(start, in)) || (in.Block() == start.Block() && instrReaches(start, start))
						if !later {
							return
						}
						if fv := mayWrite(in, rs); fv != nil {
							bad = fmt.Sprintf("the limit is %s read at %s, but %s at %s, which can run after that read, writes BucketRing.%s it depends on: the DiachronicFlows are pruned against the ring as it was before that write (windows of the recycled bucket stay, or retained ones go)",
								rd.what, p.Pos(rd.at.Pos()), c32Describe(in), p.Pos(in.Pos()), fv.Name())
						}
					})
					mc := makeClosureOf(fn)
					if mc == nil {
						break
					}
					from = mc
				}
			}
			c.Check(bad == "", key, site, fmt.Sprintf("limit comes from %d ring read(s); nothing that runs after them writes what they depend on", len(reads)), bad)
		}
	}
	if n == 0 {
		c.Lost("no call of DiachronicFlow.Rollover")
	}
}

func c32Describe(in ssa.Instruction) string {
	if ci, ok := in.(ssa.CallInstruction); ok {
		if f := calleeOf(ci.Common()); f != nil {
			return "the call of " + f.Name()
		}
		return "a call"
	}
	return "the store"
}

func runC32(c *Ctx) {
	p := c.Load(c32Pkg)
	c.Rule("C32.once", "E-OWN/E-PAIR/E-GUARD/E-FLOW", "Sink.Receive only from EmitFlowCollections, for built collections, always completed; no collection for a pushed window; pushed set by Complete for all recorded buckets, cleared by Reset only", 8)
	c.Rule("C32.count", "E-PAIR/E-GUARD/E-FLOW", "an accepted flow goes into exactly the bucket findBucket chose and the same window of its DiachronicFlow; findBucket's bucket contains t; Reset renews statistics", 7)

	c.Rule("C32.conserve", "E-PAIR (must-do on every path, through package callees)", "once BucketRing.AddFlow has found a bucket, every path files the flow in its DiachronicFlow window AND the bucket's Flows set AND the bucket's statistics: the result-less callees (AggregationBucket.AddFlow, statisticsIndex.AddFlow, DiachronicFlow.AddFlow) have no normally-returning path that skips their store", 5)
	c.Rule("C32.twin", "E-TWIN across switch arms (classes derived from the counts struct)", "per-action fan-out of counters: each action arm writes counters of its own class only, arms write distinct classes covering all, and the arms are equal modulo the class (same kind/direction/source cells under non-contradictory tests); each counter is copied into the StatisticsResult series of the same name only", 14)
	c32Twin(c, p)
	c.Rule("C32.expiry", "E-ORDER/E-EFFECT", "the limit handed to DiachronicFlow.Rollover is read from the ring and no later instruction of the rolling function (or a callee) writes a field that read depends on: windows are pruned against the ring as it is after the recycle", 1)
	c32Expiry(c, p)

	fPushed := c23FieldObj(c, p, c32Pkg, "AggregationBucket.pushed")
	fBuckets := c23FieldObj(c, p, c32Pkg, "BucketRing.buckets")
	fColBuckets := c23FieldObj(c, p, c32Pkg, "FlowCollection.buckets")
	fFlows := c23FieldObj(c, p, c32Pkg, "AggregationBucket.Flows")
	emit := c23Func(c, p, c32Pkg, "BucketRing.EmitFlowCollections")
	build := c23Func(c, p, c32Pkg, "BucketRing.maybeBuildFlowCollection")
	complete := c23Func(c, p, c32Pkg, "FlowCollection.Complete")
	reset := c23Func(c, p, c32Pkg, "AggregationBucket.Reset")
	sinkRecv, _ := p.LookupObj(c32Pkg, "Sink.Receive").(*types.Func)
	if sinkRecv == nil {
		c.Lost("storage.Sink.Receive")
	}

	// ---- once: owner, completion, provenance
	nRecv := 0
	for _, f := range p.AllFuncs() {
		pd := postDominators(f)
		for _, cs := range callsIn(f, false, func(fn *types.Func) bool { return fn == sinkRecv }) {
			nRecv++
			site := p.Pos(cs.Instr.Pos())
			c.Check(f == emit, "C32.once/receive-owner/"+fnName(f), site, "Sink.Receive called from EmitFlowCollections", "Sink.Receive called from "+fnName(f)+": a window can reach the sink outside the pushed-flag protocol")
			col := cs.Args()[1]
			done := false
			for _, cc := range callsIn(f, false, func(fn *types.Func) bool { return isFunc(fn, c32Pkg, "FlowCollection.Complete") }) {
				if c23Same(cc.Args()[0], col) && instrPostDominates(pd, cc.Instr, cs.Instr) {
					done = true
				}
			}
			c.Check(done, "C32.once/complete/"+fnName(f), site, "Receive(c) is always followed by c.Complete()", "sink.Receive("+path(col)+") is not followed on every path by Complete() on the same collection: its buckets stay un-pushed and the window is emitted again")
			// provenance
			built, stray := 0, 0
			if ld, ok := col.(*ssa.UnOp); ok {
				if ia, ok := ld.X.(*ssa.IndexAddr); ok {
					for _, e := range c23Appended(ia.X, nil) {
						if call, ok := e.Elem.(*ssa.Call); ok && calleeFn(call.Common()) == build {
							built++
						} else {
							stray++
						}
					}
				}
			}
			c.Check(built > 0 && stray == 0, "C32.once/source/"+fnName(f), site, "collections given to the sink are results of maybeBuildFlowCollection", fmt.Sprintf("collection given to the sink (%s) is not (only) a result of maybeBuildFlowCollection (built=%d other=%d)", path(col), built, stray))
		}
	}
	if nRecv == 0 {
		c.Lost("no call of Sink.Receive")
	}
	// skip-pushed
	startIdx := build.Params[1]
	okSkip, nRet := true, 0
	for _, r := range returnsOf(build) {
		if isNilConst(r.Results[0]) {
			continue
		}
		nRet++
		g := guardedCut(r, func(cond ssa.Value, pol bool) bool {
			return !pol && fieldVar(cond) == fPushed && c32BucketIndex(cond, fBuckets) == ssa.Value(startIdx)
		})
		if !g {
			okSkip = false
		}
	}
	c.Check(okSkip && nRet > 0, "C32.once/skip-pushed", p.Pos(build.Pos()), "maybeBuildFlowCollection returns a collection only where buckets[startIndex].pushed is false",
		"maybeBuildFlowCollection can return a collection although buckets[startIndex].pushed is set: an already emitted window is emitted again")
	// writers of pushed
	nTrue := 0
	for _, f := range p.AllFuncs() {
		for _, st := range storesToField(f, false, "AggregationBucket", "pushed") {
			cv, isConst := constOf(st.Val)
			val := "non-constant"
			if isConst {
				val = cv.String()
			}
			ok := (val == "true" && f == complete) || (val == "false" && f == reset)
			c.Check(ok, "C32.once/pushed-writer/"+fnName(f), p.Pos(st.Pos()), "pushed="+val+" written by "+fnName(f), "pushed="+val+" written in "+fnName(f)+"; only FlowCollection.Complete (true) and AggregationBucket.Reset (false) may write it")
			if val == "true" && f == complete {
				// for every bucket of the receiver's collection
				fa := st.Addr.(*ssa.FieldAddr)
				fromCol := false
				if ld, ok := fa.X.(*ssa.UnOp); ok {
					if ia, ok := ld.X.(*ssa.IndexAddr); ok && fieldVar(ia.X) == fColBuckets && c39RootIs(ia.X, complete.Params[0]) {
						fromCol = true
					}
				}
				if fromCol {
					nTrue++
				}
			}
		}
	}
	c.Check(nTrue > 0, "C32.once/complete-all", p.Pos(complete.Pos()), "Complete sets pushed on every element of the collection's recorded buckets", "FlowCollection.Complete does not set pushed=true on the buckets recorded in the collection: emitted windows are emitted again on the next rollover")
	// recorded: in the closures of maybeBuildFlowCollection, every bucket index whose Flows are read is appended to .buckets
	nGather := 0
	for _, f := range withClosures([]*ssa.Function{build}) {
		var gathered []ssa.Value
		allInstrs(f, false, func(_ *ssa.Function, in ssa.Instruction) {
			if v, ok := in.(ssa.Value); ok {
				if fa, ok := v.(*ssa.FieldAddr); ok && fieldVar(fa) == fFlows {
					if idx := c32BucketIndex(fa, fBuckets); idx != nil {
						gathered = append(gathered, idx)
					}
				}
			}
		})
		for _, idx := range gathered {
			nGather++
			rec := false
			for _, st := range storesToField(f, false, "FlowCollection", "buckets") {
				for _, e := range c23Appended(st.Val, nil) {
					if i2 := c32BucketIndex(e.Elem, fBuckets); i2 != nil && c23Same(i2, idx) {
						rec = true
					}
				}
			}
			c.Check(rec, "C32.once/recorded/"+fnName(f), p.Pos(f.Pos()), "the bucket whose flows are gathered is appended to the collection's buckets",
				"flows of buckets["+path(idx)+"] are gathered into the collection but the bucket is not recorded in it: Complete() cannot mark it pushed and the window is emitted again")
		}
	}
	if nGather == 0 {
		c.Lost("maybeBuildFlowCollection does not read AggregationBucket.Flows of ring buckets")
	}

	// ---- count
	add := c23Func(c, p, c32Pkg, "BucketRing.AddFlow")
	flow := add.Params[1]
	var bucket ssa.Value
	for _, cs := range callsIn(add, false, func(fn *types.Func) bool { return isFunc(fn, c32Pkg, "BucketRing.findBucket") }) {
		t := cs.Args()[1]
		if fv := fieldVar(t); fv != nil && fv.Name() == "StartTime" && c39RootIs(t, flow) {
			for _, r := range *cs.Instr.(*ssa.Call).Referrers() {
				if ex, ok := r.(*ssa.Extract); ok && ex.Index == 1 {
					bucket = ex
				}
			}
		}
	}
	if bucket == nil {
		c.Violate("C32.count/one-bucket", p.Pos(add.Pos()), "BucketRing.AddFlow does not choose the bucket with findBucket(flow.StartTime)")
	} else {
		adds := callsIn(add, false, func(fn *types.Func) bool { return isFunc(fn, c32Pkg, "AggregationBucket.AddFlow") })
		ok := len(adds) == 1
		why := fmt.Sprintf("%d calls of AggregationBucket.AddFlow", len(adds))
		if ok {
			a := adds[0]
			if a.Args()[0] != bucket || a.Args()[1] != ssa.Value(flow) {
				ok, why = false, "AggregationBucket.AddFlow is not called on the bucket returned by findBucket with the flow"
			}
			isBucket := func(v ssa.Value) bool { return v == bucket }
			for _, r := range returnsOf(add) {
				if r.Block() == add.Recover || guardedCut(r, c23NilCond(true, isBucket)) {
					continue
				}
				if !instrDominates(a.Instr, r) {
					ok, why = false, "a path returns with the flow accepted (bucket != nil) but not added to the bucket"
				}
			}
			if instrReaches(a.Instr, a.Instr) {
				ok, why = false, "AggregationBucket.AddFlow is called in a loop"
			}
		}
		c.Check(ok, "C32.count/one-bucket", p.Pos(add.Pos()), "an accepted flow is added exactly once, to the bucket findBucket(flow.StartTime) returned", "BucketRing.AddFlow: "+why)
		nD := 0
		for _, cs := range callsIn(add, false, func(fn *types.Func) bool { return isFunc(fn, c32Pkg, "DiachronicFlow.AddFlow") }) {
			nD++
			a := cs.Args()
			s, e := fieldVar(a[2]), fieldVar(a[3])
			same := s != nil && e != nil && s.Name() == "StartTime" && e.Name() == "EndTime" && c39RootIs(a[2], bucket) && c39RootIs(a[3], bucket) && a[1] == ssa.Value(flow)
			c.Check(same, "C32.count/same-window", p.Pos(cs.Instr.Pos()), "the DiachronicFlow window is the chosen bucket's [StartTime, EndTime)", "DiachronicFlow.AddFlow is given "+path(a[2])+", "+path(a[3])+" instead of the chosen bucket's StartTime/EndTime: time-range queries and per-bucket statistics disagree")
		}
		if nD == 0 {
			c.Violate("C32.count/same-window", p.Pos(add.Pos()), "BucketRing.AddFlow no longer files the flow in its DiachronicFlow")
		}
	}
	c32Conserve(c, p, bucket)
	// findBucket
	fb := c23Func(c, p, c32Pkg, "BucketRing.findBucket")
	t := fb.Params[1]
	okWin, nB := true, 0
	for _, r := range returnsOf(fb) {
		b := r.Results[1]
		if isNilConst(b) {
			continue
		}
		nB++
		isT := func(v ssa.Value) bool { return v == ssa.Value(t) }
		fld := func(name string) func(ssa.Value) bool {
			return func(v ssa.Value) bool {
				fv := fieldVar(v)
				return fv != nil && fv.Name() == name && c39RootIs(v, b)
			}
		}
		lower := guardedCut(r, c23GreaterCond(true, isT, fld("StartTime")))
		upper := guardedCut(r, func(cond ssa.Value, pol bool) bool {
			hi, lo, strict, ok := c23Greater(cond, pol)
			return ok && strict && fld("EndTime")(hi) && isT(lo)
		})
		if !lower || !upper {
			okWin = false
		}
	}
	c.Check(okWin && nB > 0, "C32.count/in-window", p.Pos(fb.Pos()), fmt.Sprintf("all %d bucket-returning exits of findBucket are under b.StartTime <= t < b.EndTime", nB),
		"findBucket can return a bucket b without t >= b.StartTime && t < b.EndTime: a flow is counted in a bucket of another time range")
	// Reset
	for _, want := range []struct {
		fld string
		ok  func(ssa.Value) bool
	}{
		{"stats", func(v ssa.Value) bool {
			call, ok := v.(*ssa.Call)
			return ok && calleeOf(call.Common()) != nil && calleeOf(call.Common()).Name() == "newStatisticsIndex"
		}},
		{"pushed", func(v ssa.Value) bool { cv, ok := constOf(v); return ok && cv.String() == "false" }},
		{"StartTime", func(v ssa.Value) bool { return v == ssa.Value(reset.Params[1]) }},
		{"EndTime", func(v ssa.Value) bool { return v == ssa.Value(reset.Params[2]) }},
	} {
		ok := false
		for _, st := range storesToField(reset, false, "AggregationBucket", want.fld) {
			if want.ok(st.Val) && c23DominatesReturns(st) {
				ok = true
			}
		}
		c.Check(ok, "C32.count/reset/"+want.fld, p.Pos(reset.Pos()), "Reset renews "+want.fld+" on every path", "AggregationBucket.Reset does not renew "+want.fld+": a recycled bucket keeps state of the expired window")
	}
}
