package main

import (
	"fmt"
	"go/ast"
	"go/constant"
	"go/token"
	"go/types"
	"sort"
	"strings"

	"golang.org/x/tools/go/ssa"
)

const c18Pkg = "felix/deltatracker"

func init() {
	register(&Property{
		ID:        "C18",
		Title:     "Desired-versus-actual tracking always reports the exact difference",
		Level:     "other",
		Technique: "static analysis: exhaustive symbolic execution of the SSA of every tracker/view method over a two-key, symbolic-value abstract state (inductive-step check of the representation invariant and of each method's view-level effect); SSA origin/pairing checks for the batched iterators; AST/type scan for struct copies",
		DesignRef: "DESIGN.md §4 (C18 was listed as not applicable; these are the structural necessary conditions found on a second look)",
		Explanation: "DeltaTracker represents two maps (desired, dataplane) by three internal maps A=inDataplaneAndDesired, B=inDataplaneNotDesired, U=desiredUpdates and a counter. " +
			"The four views are desired = U over A, dataplane = A+B, pending updates = U, pending deletions = B; they equal the two maps and their exact difference iff the representation invariant holds: " +
			"(partition) A,B disjoint and U,B disjoint, three distinct map objects, none supplied by a caller; (pending) a key in both U and A has values that valuesEqual rejected; (len) desiredLen = |U u A|. " +
			"For every method of the ten tracker/view types the checker interprets the method's SSA (inlining in-package callees and closures) on every CFG path from every invariant-satisfying entry state of a two-key universe " +
			"(methods are generic in K,V and touch keys only through map operations, so two keys cover all pairwise interactions; an unexported, non-accessor method that is only called from other modelled methods is an internal helper without a view-level contract: it is interpreted where it is called, its map-typed parameters bound to the caller's abstract maps, and must be reached by at least one caller's execution), with valuesEqual, log-level tests and callback results forked every way, and decides at every exit: " +
			"the invariant again holds (C18.partition, C18.pending, C18.len), and the method had exactly its view-level effect (C18.effect): Set/Add, Delete, DeleteAll, ReplaceAllMap, ReplaceAllIter/ReplaceFromIter (success and mid-iteration error), Get/Contains, Iter (each entry of the view exactly once, with its value), " +
			"pending Iter (callback sees exactly the pending entries; IterActionUpdateDataplane moves exactly that key into the dataplane view with the pending value; any other result changes nothing), Len of every view; the other view is unchanged and the second key is untouched. " +
			"(C18.views) every view accessor returns the receiver itself; no composite literal or dereference copy of a tracker/view type outside New. (C18.noalias) no method returns an internal map or hands it to a callback or foreign function. " +
			"(C18.batched) the two IterBatched loops only clear/move keys that came from ranging the pending map, pair delete(U,k) with A[k]=v for the same index, and stop at the callback's applied count. " +
			"(C18.lockstep) the keys slice and the values slice of the batched update iterator are index-aligned wherever they are used as parallel (callback call, recording vs[i] under ks[i]): on every path they went through the same make/append/re-slice steps with equal counts and bounds. " +
			"(C18.apply) CachingMap's apply callbacks report IterActionUpdateDataplane only on paths where the dataplane write returned no error (or not-exists for deletes).",
		NotDecided: "Reachable-history equality as such (this is the inductive step over an abstract state, not a run of histories); behaviour when a callback re-enters the tracker during Iter/ReplaceAllIter or when a replace iterator yields the same key twice (both assumed away; a duplicate key would put the key in both A and B); " +
			"value aliasing after callers mutate stored values; index arithmetic of the IterBatched batching windows beyond the ks/vs alignment (that count equals len(ks), that the window skips exactly the erred item); that IterActionNoOpStopIteration actually stops (it does not: 'break' leaves the switch only - harmless for this property); behaviour of felix users of the tracker.",
		Assumptions: []string{
			"go/types + go/ssa (x/tools v0.50.0) model of the current source, CGO_ENABLED=0 build",
			"Go map semantics: range yields each present key once, deleting during range is allowed",
			"valuesEqual is a deterministic reflexive relation",
			"callbacks do not re-enter the tracker; a replace iterator yields each key at most once",
			"data independence: generic K,V are only used through map operations and valuesEqual",
		},
		Run: runC18,
		Fixtures: []Fixture{
			{Name: "desired Set forgets to clear the pending deletion", File: "felix/deltatracker/delta_tracker.go",
				Old: "\t\tc.inDataplaneAndDesired[k] = currentVal\n\t\tdelete(c.inDataplaneNotDesired, k)\n\t\tc.desiredLen++", New: "\t\tc.inDataplaneAndDesired[k] = currentVal\n\t\tc.desiredLen++", Expect: "C18.partition/DesiredView.Set"},
			{Name: "desired Set keeps a stale pending update when dataplane already agrees", File: "felix/deltatracker/delta_tracker.go",
				Old: "\t\tc.logCtx.Debug(\"Set: Key in dataplane already, ignoring.\")\n\t\tdelete(c.desiredUpdates, k)\n", New: "\t\tc.logCtx.Debug(\"Set: Key in dataplane already, ignoring.\")\n", Expect: "C18.effect/DesiredView.Set"},
			{Name: "desired Set counts a key twice", File: "felix/deltatracker/delta_tracker.go",
				Old: "\t\tif _, presentInDesired := c.desiredUpdates[k]; !presentInDesired {\n\t\t\t// New key, increment our count.\n\t\t\tc.desiredLen++\n\t\t}", New: "\t\tc.desiredLen++", Expect: "C18.len/DesiredView.Set"},
			{Name: "desired Delete does not decrement for keys only in the dataplane", File: "felix/deltatracker/delta_tracker.go",
				Old: "if presentInDesired || presentInDPDesired {", New: "if presentInDesired {", Expect: "C18.len/DesiredView.Delete"},
			{Name: "dataplane Set leaves the pending update after the dataplane caught up", File: "felix/deltatracker/delta_tracker.go",
				Old: "\t\t} else {\n\t\t\tdelete(c.desiredUpdates, k)\n\t\t}\n\t} else {\n\t\t// Dataplane key has no corresponding desired key, queue up a deletion.", New: "\t\t}\n\t} else {\n\t\t// Dataplane key has no corresponding desired key, queue up a deletion.", Expect: "C18.pending/DataplaneView.Set"},
			{Name: "dataplane Delete forgets the not-desired map", File: "felix/deltatracker/delta_tracker.go",
				Old: "\tdelete(c.inDataplaneAndDesired, k)\n\tdelete(c.inDataplaneNotDesired, k)\n\tif desired {", New: "\tdelete(c.inDataplaneAndDesired, k)\n\tif desired {", Expect: "C18.effect/DataplaneView.Delete"},
			{Name: "replace-all error path does not restore the seen keys", File: "felix/deltatracker/delta_tracker.go",
				Old: "\t\tmaps.Copy(oldInDPNotDesired, newInDPNotDesired)\n", New: "", Expect: "C18.effect/DataplaneView.ReplaceAllIter"},
			{Name: "replace-all drops vanished desired keys without queueing an update", File: "felix/deltatracker/delta_tracker.go",
				Old: "\t\tif desiredV, desired := c.asDesiredView().Get(k); desired {\n\t\t\t// We want this key, but it's missing, queue up an add.\n\t\t\tc.desiredUpdates[k] = desiredV\n\t\t} // else we don't want it, and it's gone; nothing to do.\n", New: "", Expect: "C18.len/DataplaneView.ReplaceAllIter"},
			{Name: "replace-all retains the caller's map objects in both fields", File: "felix/deltatracker/delta_tracker.go",
				Old: "\tc.inDataplaneNotDesired = newInDPNotDesired\n\tc.logCtx.WithFields", New: "\tc.inDataplaneNotDesired = newInDPDesired\n\tc.logCtx.WithFields", Expect: "C18.partition/DataplaneView.ReplaceAllIter"},
			{Name: "pending-updates Iter applies to the wrong dataplane map", File: "felix/deltatracker/delta_tracker.go",
				Old: "\t\t\tdelete(c.desiredUpdates, k)\n\t\t\tc.inDataplaneAndDesired[k] = v\n\t\tcase IterActionNoOpStopIteration:", New: "\t\t\tdelete(c.desiredUpdates, k)\n\t\t\tc.inDataplaneNotDesired[k] = v\n\t\tcase IterActionNoOpStopIteration:", Expect: "C18.len/PendingUpdatesView.Iter"},
			{Name: "pending-updates Iter treats NoOp as applied", File: "felix/deltatracker/delta_tracker.go",
				Old: "\t\tcase IterActionNoOp:\n\t\t\t// Ignore.\n\t\tcase IterActionUpdateDataplane:\n\t\t\tdelete(c.desiredUpdates, k)", New: "\t\tcase IterActionNoOp, IterActionUpdateDataplane:\n\t\t\tdelete(c.desiredUpdates, k)", Expect: "C18.effect/PendingUpdatesView.Iter"},
			{Name: "desired Iter reports overridden dataplane values too", File: "felix/deltatracker/delta_tracker.go",
				Old: "\t\tif _, ok := c.desiredUpdates[k]; ok {\n\t\t\tcontinue\n\t\t}\n", New: "", Expect: "C18.effect/DesiredView.Iter"},
			{Name: "dataplane Len ignores pending deletions", File: "felix/deltatracker/delta_tracker.go",
				Old: "return len(c.inDataplaneNotDesired) + len(c.inDataplaneAndDesired)", New: "return len(c.inDataplaneAndDesired)", Expect: "C18.effect/DataplaneView.Len"},
			{Name: "dataplane set view converts to the desired map view", File: "felix/deltatracker/delta_set.go",
				Old: "func (s *DataplaneSetView[K]) Add(k K) {\n\ts.asMapView().Set(k, struct{}{})", New: "func (s *DataplaneSetView[K]) Add(k K) {\n\t(*DesiredView[K, struct{}])(s).Set(k, struct{}{})", Expect: "C18.effect/DataplaneSetView.Add"},
			{Name: "view accessor returns a copy of the tracker", File: "felix/deltatracker/delta_tracker.go",
				Old: "func (c *DeltaTracker[K, V]) Desired() *DesiredView[K, V] {\n\treturn (*DesiredView[K, V])(c)", New: "func (c *DeltaTracker[K, V]) Desired() *DesiredView[K, V] {\n\tcp := *c\n\treturn (*DesiredView[K, V])(&cp)", Expect: "C18.views/DeltaTracker.Desired"},
			{Name: "replace-all-map retains the caller's map", File: "felix/deltatracker/delta_tracker.go",
				Old: "func (c *DataplaneView[K, V]) ReplaceAllMap(dpKVs map[K]V) {\n", New: "func (c *DataplaneView[K, V]) ReplaceAllMap(dpKVs map[K]V) {\n\tif len(c.desiredUpdates) == 0 && c.desiredLen == 0 && dpKVs != nil {\n\t\tc.inDataplaneNotDesired = dpKVs\n\t\tc.inDataplaneAndDesired = make(map[K]V)\n\t\treturn\n\t}\n", Expect: "C18.partition/DataplaneView.ReplaceAllMap"},
			{Name: "new accessor returns an internal map", File: "felix/deltatracker/delta_tracker.go",
				Old: "func (c *DataplaneView[K, V]) Iter(f func(k K, v V)) {\n", New: "func (c *DataplaneView[K, V]) Raw() map[K]V {\n\treturn c.inDataplaneNotDesired\n}\n\nfunc (c *DataplaneView[K, V]) Iter(f func(k K, v V)) {\n", Expect: "C18.noalias/DataplaneView.Raw"},
			{Name: "batched updates applied beyond the reported count", File: "felix/deltatracker/delta_tracker.go",
				Old: "\t\t\tapplied, err := applyFn(ks, vs)\n\t\t\tfor i := 0; i < applied; i++ {\n\t\t\t\tdelete(c.desiredUpdates, ks[i])", New: "\t\t\tapplied, err := applyFn(ks, vs)\n\t\t\tfor i := 0; i < len(ks); i++ {\n\t\t\t\tdelete(c.desiredUpdates, ks[i])", Expect: "C18.batched/PendingUpdatesView.IterBatched/bound"},
			{Name: "batched update clears the pending entry without recording it in the dataplane", File: "felix/deltatracker/delta_tracker.go",
				Old: "\t\t\tdelete(c.desiredUpdates, ks[i])\n\t\t\tc.inDataplaneAndDesired[ks[i]] = vs[i]\n\t\t}\n\n\t\tif err != nil {\n\t\t\tapplied++ // skip over the item that erred\n\t\t}\n\n\t\tks = ks[applied:]\n\t\tvs = vs[applied:]", New: "\t\t\tdelete(c.desiredUpdates, ks[i])\n\t\t}\n\n\t\tif err != nil {\n\t\t\tapplied++ // skip over the item that erred\n\t\t}\n\n\t\tks = ks[applied:]\n\t\tvs = vs[applied:]", Expect: "C18.batched/PendingUpdatesView.IterBatched/pair"},
			{Name: "batched deletions collect keys from the wrong map", File: "felix/deltatracker/delta_tracker.go",
				Old: "\tfor k := range c.inDataplaneNotDesired {\n\t\tks = append(ks, k)", New: "\tfor k := range c.inDataplaneAndDesired {\n\t\tks = append(ks, k)", Expect: "C18.batched/PendingDeletionsView.IterBatched/origin"},
			{Name: "full-batch reset empties the keys but keeps the previous batch's values", File: "felix/deltatracker/delta_tracker.go",
				Old: "\t\t\t\t\tks = ks[:0]\n\t\t\t\t\tvs = vs[:0]\n", New: "\t\t\t\t\tks = ks[:0]\n", Expect: "C18.lockstep/PendingUpdatesView.IterBatched/callback"},
			{Name: "tail loop skips the erred key but not its value", File: "felix/deltatracker/delta_tracker.go",
				Old: "\t\tks = ks[applied:]\n\t\tvs = vs[applied:]\n\t\tcount -= applied", New: "\t\tks = ks[applied:]\n\t\tif err == nil {\n\t\t\tvs = vs[applied:]\n\t\t} else {\n\t\t\tvs = vs[applied-1:]\n\t\t}\n\t\tcount -= applied", Expect: "C18.lockstep/PendingUpdatesView.IterBatched/apply#2"},
			{Name: "caching map records a failed update as applied", File: "felix/cachingmap/caching_map.go",
				Old: "\t\t\t\terrs = append(errs, err)\n\t\t\t\treturn deltatracker.IterActionNoOp\n\t\t\t}\n\t\t\treturn deltatracker.IterActionUpdateDataplane\n\t\t})\n\t}\n\n\tif len(errs) > 0 {\n\t\treturn errs\n\t}\n\treturn nil\n}\n\n// ApplyDeletionsOnly", New: "\t\t\t\terrs = append(errs, err)\n\t\t\t}\n\t\t\treturn deltatracker.IterActionUpdateDataplane\n\t\t})\n\t}\n\n\tif len(errs) > 0 {\n\t\treturn errs\n\t}\n\treturn nil\n}\n\n// ApplyDeletionsOnly", Expect: "C18.apply/ApplyUpdatesOnly"},
		},
	})
}

// ------------------------------------------------------------------ model --

type c18Names struct{ A, B, U, Len, Eq string }

type c18Method struct {
	typ   string
	name  string
	fn    *ssa.Function
	role  string // desired | dataplane | upd | del | tracker
	kind  string
	isSet bool
}

func (m c18Method) id() string { return m.typ + "." + m.name }

var c18Combos = [][3]bool{ // A, B, U membership of one key; all invariant-satisfying combinations
	{false, false, false},
	{false, false, true},
	{true, false, false},
	{true, false, true},
	{false, true, false},
}

func c18ComboName(c [3]bool) string {
	var p []string
	if c[0] {
		p = append(p, "A")
	}
	if c[1] {
		p = append(p, "B")
	}
	if c[2] {
		p = append(p, "U")
	}
	return "{" + strings.Join(p, ",") + "}"
}

const (
	c18SymA    = 10
	c18SymB    = 20
	c18SymU    = 30
	c18SymArg  = 40
	c18SymExtM = 50
	c18SymExtY = 60
)

func c18Entry(nm c18Names, combo [c18NKeys]int) *c18State {
	st := &c18State{fields: map[string]c18V{}, eq: map[[2]int]bool{}, nsym: 100}
	st.maps = make([]c18MapObj, 3)
	for k := 0; k < c18NKeys; k++ {
		cb := c18Combos[combo[k]]
		st.maps[0].present[k], st.maps[0].val[k] = cb[0], c18SymA+k
		st.maps[1].present[k], st.maps[1].val[k] = cb[1], c18SymB+k
		st.maps[2].present[k], st.maps[2].val[k] = cb[2], c18SymU+k
		if cb[0] && cb[2] {
			st.setEq(c18SymA+k, c18SymU+k, false)
		}
		st.extVal[k] = c18SymExtY + k
	}
	st.fields[nm.A] = c18V{k: c18Map, n: 0}
	st.fields[nm.B] = c18V{k: c18Map, n: 1}
	st.fields[nm.U] = c18V{k: c18Map, n: 2}
	st.fields[nm.Len] = c18V{k: c18Int, lin: map[string]int{"L0": 1}}
	st.fields[nm.Eq] = c18V{k: c18ValuesEq}
	return st
}

type c18KV struct {
	present bool
	val     int
}

type c18Views struct {
	ok              bool
	a, b, u         [c18NKeys]c18KV
	desired, dp     [c18NKeys]c18KV
	ida, idb, idu   int
	lenLin          map[string]int
	lenOK           bool
	fieldsAreMaps   bool
	distinct, noExt bool
}

func c18View(nm c18Names, st *c18State) c18Views {
	var v c18Views
	fa, fb, fu := st.fields[nm.A], st.fields[nm.B], st.fields[nm.U]
	v.fieldsAreMaps = fa.k == c18Map && fb.k == c18Map && fu.k == c18Map
	if !v.fieldsAreMaps {
		return v
	}
	v.ok = true
	v.ida, v.idb, v.idu = fa.n, fb.n, fu.n
	v.distinct = fa.n != fb.n && fa.n != fu.n && fb.n != fu.n
	v.noExt = !st.maps[fa.n].ext && !st.maps[fb.n].ext && !st.maps[fu.n].ext
	for k := 0; k < c18NKeys; k++ {
		v.a[k] = c18KV{st.maps[fa.n].present[k], st.maps[fa.n].val[k]}
		v.b[k] = c18KV{st.maps[fb.n].present[k], st.maps[fb.n].val[k]}
		v.u[k] = c18KV{st.maps[fu.n].present[k], st.maps[fu.n].val[k]}
		switch {
		case v.u[k].present:
			v.desired[k] = v.u[k]
		case v.a[k].present:
			v.desired[k] = v.a[k]
		}
		switch {
		case v.a[k].present:
			v.dp[k] = v.a[k]
		case v.b[k].present:
			v.dp[k] = v.b[k]
		}
	}
	if l := st.fields[nm.Len]; l.k == c18Int {
		v.lenLin, v.lenOK = l.lin, true
	}
	return v
}

func (kv c18KV) String() string {
	if !kv.present {
		return "absent"
	}
	return fmt.Sprintf("v%d", kv.val)
}

// c18Same: same presence and (unless presenceOnly) same symbol or values known equal.
func c18Same(st *c18State, x, y c18KV, presenceOnly bool) bool {
	if x.present != y.present {
		return false
	}
	if !x.present || presenceOnly {
		return true
	}
	eq, known := st.knownEq(x.val, y.val)
	return known && eq
}

func c18Exact(x, y c18KV) bool {
	return x.present == y.present && (!x.present || x.val == y.val)
}

// ------------------------------------------------------------------- run --

type c18Verdict struct {
	bad  map[string]string // rule -> first failure
	site string
}

func (v *c18Verdict) fail(rule, format string, a ...any) {
	if _, ok := v.bad[rule]; !ok {
		v.bad[rule] = fmt.Sprintf(format, a...)
	}
}

func runC18(c *Ctx) {
	roots := []string{c18Pkg, "felix/cachingmap"}
	if c.Tier == "thorough" {
		// the by-value/copy scan also covers every importer of the tracker package
		roots = append(roots, "felix/ipsets", "felix/nftables", "felix/routetable", "felix/linkaddrs", "felix/vxlanfdb", "felix/statusrep")
	}
	p := c.Load(roots...)
	pk := p.Pkg(c18Pkg)
	sp := p.SSAPkg(c18Pkg)
	if pk == nil || sp == nil {
		c.Lost("package %s not loaded", c18Pkg)
		return
	}

	c.Rule("C18.partition", "symexec", "after every tracker/view method, from every invariant-satisfying two-key entry state and on every path: inDataplaneAndDesired, inDataplaneNotDesired and desiredUpdates are three distinct tracker-owned map objects; no key is in both inDataplane* maps; no key is in both desiredUpdates and inDataplaneNotDesired", 19)
	c.Rule("C18.pending", "symexec", "after every mutating method, a key present in both desiredUpdates and inDataplaneAndDesired has values that valuesEqual reported different on that path", 19)
	c.Rule("C18.len", "symexec", "after every mutating method, desiredLen changed by exactly the change in |desiredUpdates u inDataplaneAndDesired|", 19)
	c.Rule("C18.effect", "symexec", "every method has exactly its view-level effect (desired = U over A, dataplane = A+B, pending updates = U, pending deletions = B): the addressed view changes as specified, the other view, the other key and (for readers) the whole state are unchanged; getters/Len/Iter report exactly the view", 40)
	c.Rule("C18.views", "symexec+AST", "view accessors return the receiver pointer itself (conversion, no copy); no composite literal or dereference copy of a tracker/view type outside the constructor (thorough tier: also in every felix importer of the package)", 16)
	c.Rule("C18.noalias", "symexec", "no method returns an internal map or passes internal state to a callback or foreign function", 54)
	c.Rule("C18.batched", "ssa", "IterBatched only clears/moves keys that were collected by ranging the pending map, pairs delete(desiredUpdates,k) with inDataplaneAndDesired[k]=v at the same index, and is bounded by the callback's applied count", 8)
	c.Rule("C18.lockstep", "E-PAIR", "parallel batch slices stay index-aligned: wherever IterBatched hands two slices to the callback, or records slice element ys[i] under key xs[i], the two slices were built by the same sequence of make/append/re-slice steps with equal lengths, counts and bounds on every path (lockstep bisimulation over the SSA def chains, loop phis coinductively)", 4)
	c.Rule("C18.apply", "guard", "CachingMap apply callbacks return IterActionUpdateDataplane only where the dataplane write's error is nil (or not-exists for deletes)", 2)

	// ---- anchors
	trackerTN, _ := pk.Types.Scope().Lookup("DeltaTracker").(*types.TypeName)
	if trackerTN == nil {
		c.Lost("type DeltaTracker not found")
		return
	}
	tst, _ := trackerTN.Type().Underlying().(*types.Struct)
	if tst == nil {
		c.Lost("DeltaTracker is not a struct")
		return
	}
	var nm c18Names
	var mapFields []string
	for i := 0; i < tst.NumFields(); i++ {
		f := tst.Field(i)
		switch t := f.Type().Underlying().(type) {
		case *types.Map:
			mapFields = append(mapFields, f.Name())
		case *types.Basic:
			if t.Kind() == types.Int {
				if nm.Len != "" {
					c.Lost("more than one int field in DeltaTracker")
				}
				nm.Len = f.Name()
			}
		case *types.Signature:
			if t.Params().Len() == 2 && t.Results().Len() == 1 {
				if nm.Eq != "" {
					c.Lost("more than one comparison field in DeltaTracker")
				}
				nm.Eq = f.Name()
			}
		}
	}
	nm.A, nm.B, nm.U = "inDataplaneAndDesired", "inDataplaneNotDesired", "desiredUpdates"
	sort.Strings(mapFields)
	if strings.Join(mapFields, ",") != "desiredUpdates,inDataplaneAndDesired,inDataplaneNotDesired" || nm.Len == "" || nm.Eq == "" {
		c.Lost("DeltaTracker state fields changed: maps=%v int=%q cmp=%q (the model knows exactly three maps, one counter, one comparison)", mapFields, nm.Len, nm.Eq)
		return
	}

	// tracker-shaped types: every named type with the tracker's underlying struct
	var trackerTypes []*types.TypeName
	for _, n := range pk.Types.Scope().Names() {
		tn, _ := pk.Types.Scope().Lookup(n).(*types.TypeName)
		if tn == nil || tn.IsAlias() {
			continue
		}
		if s, ok := tn.Type().Underlying().(*types.Struct); ok && s.NumFields() == tst.NumFields() && s.NumFields() > 0 && s.Field(0).Name() == tst.Field(0).Name() {
			trackerTypes = append(trackerTypes, tn)
		}
	}
	if len(trackerTypes) < 10 {
		c.Lost("expected the 10 tracker/view types, found %d", len(trackerTypes))
		return
	}
	isTrackerType := func(t types.Type) *types.TypeName {
		if pt, ok := t.(*types.Pointer); ok {
			t = pt.Elem()
		}
		if n, ok := t.(*types.Named); ok {
			for _, tt := range trackerTypes {
				if n.Origin().Obj() == tt {
					return tt
				}
			}
		}
		return nil
	}

	// roles: from the exported accessors of DeltaTracker / SetDeltaTracker
	role := map[string]string{"DeltaTracker": "tracker"}
	isSet := map[string]bool{}
	accRole := map[string]string{"Desired": "desired", "Dataplane": "dataplane", "PendingUpdates": "upd", "PendingDeletions": "del"}
	for _, root := range []string{"DeltaTracker", "SetDeltaTracker"} {
		for acc, r := range accRole {
			f, _ := p.LookupObj(c18Pkg, root+"."+acc).(*types.Func)
			if f == nil {
				c.Lost("accessor %s.%s not found", root, acc)
				continue
			}
			res := f.Type().(*types.Signature).Results()
			if res.Len() != 1 || isTrackerType(res.At(0).Type()) == nil {
				c.Lost("accessor %s.%s does not return a view type", root, acc)
				continue
			}
			vn := isTrackerType(res.At(0).Type()).Name()
			role[vn] = r
			if root == "SetDeltaTracker" {
				isSet[vn] = true
			}
		}
	}
	role["SetDeltaTracker"] = "tracker"
	isSet["SetDeltaTracker"] = true
	for _, tt := range trackerTypes {
		if role[tt.Name()] == "" {
			c.Undecided("C18.effect/"+tt.Name(), p.Pos(tt.Pos()), "tracker-shaped type %s is not returned by any view accessor: no view semantics known for its methods", tt.Name())
		}
	}

	// callback result constants (IterAction)
	resultVals := map[string][]int64{}
	var updateConst int64 = -1
	for _, n := range pk.Types.Scope().Names() {
		if cst, ok := pk.Types.Scope().Lookup(n).(*types.Const); ok {
			if nt, ok := cst.Type().(*types.Named); ok && cst.Val().Kind() == constant.Int {
				v, _ := constant.Int64Val(cst.Val())
				resultVals[nt.Obj().Name()] = append(resultVals[nt.Obj().Name()], v)
				if n == "IterActionUpdateDataplane" {
					updateConst = v
				}
			}
		}
	}
	if updateConst < 0 {
		c.Lost("constant IterActionUpdateDataplane not found")
		return
	}

	// ---- methods
	var methods []c18Method
	for _, tt := range trackerTypes {
		if role[tt.Name()] == "" {
			continue
		}
		for _, fn := range p.methodsOf(c18Pkg, tt.Name()) {
			m := c18Method{typ: tt.Name(), name: fn.Name(), fn: fn, role: role[tt.Name()], isSet: isSet[tt.Name()]}
			sig := fn.Signature
			switch {
			case sig.Params().Len() == 0 && sig.Results().Len() == 1 && isTrackerType(sig.Results().At(0).Type()) != nil:
				m.kind = "accessor"
			case m.role == "tracker":
				m.kind = "pure"
			default:
				switch fn.Name() {
				case "Set", "Add":
					m.kind = "set"
				case "Delete":
					m.kind = "del"
				case "DeleteAll":
					m.kind = "delall"
				case "Get":
					m.kind = "get"
				case "Contains":
					m.kind = "has"
				case "Iter":
					m.kind = "iter"
				case "Len":
					m.kind = "len"
				case "ReplaceAllMap":
					m.kind = "replacemap"
				case "ReplaceAllIter", "ReplaceFromIter":
					m.kind = "replaceiter"
				case "IterBatched":
					m.kind = "batched"
				default:
					m.kind = "pure"
				}
			}
			methods = append(methods, m)
		}
	}
	if len(methods) < 50 {
		c.Lost("expected >=50 tracker/view methods, found %d", len(methods))
		return
	}

	// Internal helpers: an unexported, non-accessor method that is only ever called
	// (statically) from the bodies of modelled methods is not part of the views' API;
	// it has no view-level contract of its own.  It is interpreted where it is called -
	// the executor inlines in-package callees, binding map-typed parameters to the
	// caller's abstract maps - and its effect is checked as part of each caller's.
	helpers := c18Helpers(p, sp, methods)
	inlined := map[*ssa.Function]bool{}
	for _, m := range methods {
		if helpers[m.fn] {
			continue
		}
		if m.kind == "batched" {
			c18Batched(c, p, m, nm)
			c18Lockstep(c, p, m)
			continue
		}
		c18RunMethod(c, p, sp, m, nm, resultVals, updateConst, inlined)
	}
	// fail closed: a helper that was excluded must have been interpreted in a caller
	for _, m := range methods {
		if helpers[m.fn] && !inlined[m.fn] {
			c.Undecided("C18.effect/"+m.id(), p.Pos(m.fn.Pos()), "unexported helper %s is called only from other methods but was never reached by the symbolic execution of any of them", m.id())
		}
	}

	c18Copies(c, p, trackerTypes)
	c18Apply(c, p)
}

// c18Helpers computes the set of internal helper methods among the tracker/view
// methods: unexported, not a view accessor, never used as a value, at least one static
// call site, and every call site lies in the body (closures included) of a modelled
// method that is not itself excluded for lack of callers (greatest fixed point, then
// restricted to helpers reachable from an API method).
func c18Helpers(p *Prog, sp *ssa.Package, methods []c18Method) map[*ssa.Function]bool {
	isMethod := map[*ssa.Function]bool{}
	for _, m := range methods {
		isMethod[m.fn] = true
	}
	origin := func(f *ssa.Function) *ssa.Function {
		if f != nil && f.Origin() != nil {
			return f.Origin()
		}
		return f
	}
	top := func(f *ssa.Function) *ssa.Function {
		for f.Parent() != nil {
			f = f.Parent()
		}
		return origin(f)
	}
	callers := map[*ssa.Function]map[*ssa.Function]bool{} // callee -> top-level callers
	asValue := map[*ssa.Function]bool{}
	// every body of the package: the (generic) methods themselves - they are not
	// runtime types' methods and so not enumerated by AllFuncs -, the package-level
	// functions, and all closures of both
	var roots []*ssa.Function
	seenRoot := map[*ssa.Function]bool{}
	addRoot := func(f *ssa.Function) {
		if f != nil && f.Blocks != nil && !seenRoot[f] {
			seenRoot[f] = true
			roots = append(roots, f)
		}
	}
	for _, m := range methods {
		addRoot(m.fn)
	}
	for _, mem := range sp.Members {
		if f, ok := mem.(*ssa.Function); ok {
			addRoot(f)
		}
	}
	for _, f := range p.AllFuncs() {
		if f.Blocks != nil && top(f).Pkg == sp {
			addRoot(top(f))
		}
	}
	sort.Slice(roots, func(i, j int) bool { return roots[i].Pos() < roots[j].Pos() })
	for _, f := range withClosures(roots) {
		allInstrs(f, false, func(_ *ssa.Function, in ssa.Instruction) {
			var calleeOp *ssa.Value
			if ci, ok := in.(ssa.CallInstruction); ok {
				cc := ci.Common()
				if sf := origin(cc.StaticCallee()); sf != nil && isMethod[sf] {
					if _, isCall := in.(*ssa.Call); !isCall {
						asValue[sf] = true // go / defer: not inlined by the executor
					}
					if callers[sf] == nil {
						callers[sf] = map[*ssa.Function]bool{}
					}
					callers[sf][top(f)] = true
				}
				calleeOp = &cc.Value
			}
			for _, op := range in.Operands(nil) {
				if op == nil || op == calleeOp {
					continue
				}
				if g, ok := (*op).(*ssa.Function); ok && isMethod[origin(g)] {
					asValue[origin(g)] = true
				}
			}
		})
	}
	cand := map[*ssa.Function]bool{}
	for _, m := range methods {
		o, _ := m.fn.Object().(*types.Func)
		if o == nil || o.Exported() || m.kind == "accessor" || asValue[m.fn] || len(callers[m.fn]) == 0 {
			continue
		}
		cand[m.fn] = true
	}
	for changed := true; changed; {
		changed = false
		for f := range cand {
			for g := range callers[f] {
				if !isMethod[g] {
					delete(cand, f)
					changed = true
					break
				}
			}
		}
	}
	// reachable from a method that is run stand-alone
	reach := map[*ssa.Function]bool{}
	var visit func(f *ssa.Function)
	visit = func(f *ssa.Function) {
		for h := range cand {
			if callers[h][f] && !reach[h] {
				reach[h] = true
				visit(h)
			}
		}
	}
	for _, m := range methods {
		if !cand[m.fn] {
			visit(m.fn)
		}
	}
	return reach
}

func c18Mutator(m c18Method) bool {
	switch m.kind {
	case "set", "del", "delall", "replacemap", "replaceiter":
		return true
	case "iter":
		return m.role == "upd" || m.role == "del"
	}
	return false
}

func c18RunMethod(c *Ctx, p *Prog, sp *ssa.Package, m c18Method, nm c18Names, resultVals map[string][]int64, updateConst int64, inlined map[*ssa.Function]bool) {
	site := p.Pos(m.fn.Pos())
	id := m.id()
	effectRule := "C18.effect/"
	if m.kind == "accessor" {
		effectRule = "C18.views/"
	}
	if (m.kind == "set" || m.kind == "del" || m.kind == "delall" || m.kind == "replacemap" || m.kind == "replaceiter") && m.role != "desired" && m.role != "dataplane" {
		c.Undecided(effectRule+id, site, "mutator %s on a %s view has no specified effect", m.name, m.role)
		return
	}

	// arguments from the signature
	recvStruct, _ := m.fn.Signature.Recv().Type().(*types.Pointer).Elem().Underlying().(*types.Struct)
	var keyT, valT types.Type
	for i := 0; i < recvStruct.NumFields(); i++ {
		if recvStruct.Field(i).Name() == nm.A {
			mt := recvStruct.Field(i).Type().Underlying().(*types.Map)
			keyT, valT = mt.Key(), mt.Elem()
		}
	}
	type argGen struct {
		fixed  *c18V
		extMap bool
	}
	var gens []argGen
	nKey := 0
	hasExt := false
	for _, prm := range m.fn.Params[1:] {
		t := prm.Type()
		switch {
		case types.Identical(t, keyT):
			gens = append(gens, argGen{fixed: &c18V{k: c18Key, n: 0}})
			nKey++
		case types.Identical(t, valT):
			gens = append(gens, argGen{fixed: &c18V{k: c18Val, n: c18SymArg}})
		default:
			switch t.Underlying().(type) {
			case *types.Signature:
				gens = append(gens, argGen{fixed: &c18V{k: c18Callback, s: prm.Name()}})
			case *types.Map:
				if !c18IsKeyedMap(t) || hasExt {
					c.Undecided(effectRule+id, site, "unmodelled map parameter %s", prm.Name())
					return
				}
				gens = append(gens, argGen{extMap: true})
				hasExt = true
			default:
				c.Undecided(effectRule+id, site, "unmodelled parameter %s of type %s", prm.Name(), t)
				return
			}
		}
	}
	if nKey > 1 {
		c.Undecided(effectRule+id, site, "more than one key parameter")
		return
	}

	x := &c18Exec{p: p, pkg: sp, resultVals: resultVals, problems: map[string]bool{}, escapes: map[string]bool{}, curTop: id, inlined: inlined}
	vd := &c18Verdict{bad: map[string]string{}, site: site}
	paths := 0
	extCombos := 1
	if hasExt {
		extCombos = 4
	}
	for c0 := range c18Combos {
		for c1 := range c18Combos {
			for ec := 0; ec < extCombos; ec++ {
				st := c18Entry(nm, [c18NKeys]int{c0, c1})
				args := []c18V{{k: c18Tracker}}
				extID := -1
				for _, g := range gens {
					if g.extMap {
						mo := c18MapObj{ext: true}
						for k := 0; k < c18NKeys; k++ {
							mo.present[k] = ec&(1<<k) != 0
							mo.val[k] = c18SymExtM + k
						}
						st.maps = append(st.maps, mo)
						extID = len(st.maps) - 1
						args = append(args, c18V{k: c18Map, n: extID})
					} else {
						args = append(args, *g.fixed)
					}
				}
				entry := st.clone()
				desc := fmt.Sprintf("entry k0 in %s, k1 in %s", c18ComboName(c18Combos[c0]), c18ComboName(c18Combos[c1]))
				if hasExt {
					desc += fmt.Sprintf(", argument map has k0:%v k1:%v", ec&1 != 0, ec&2 != 0)
				}
				outs := x.call(m.fn, args, nil, st, 0)
				for _, o := range outs {
					paths++
					c18CheckOutcome(vd, m, nm, entry, o, extID, updateConst, desc)
				}
			}
		}
	}

	if len(x.problems) > 0 {
		var ps []string
		for s := range x.problems {
			ps = append(ps, s)
		}
		sort.Strings(ps)
		c.Undecided(effectRule+id, site, "symbolic execution left the modelled subset: %s", strings.Join(ps, "; "))
		return
	}
	if paths == 0 {
		c.Undecided(effectRule+id, site, "no terminating path explored")
		return
	}
	if msg, und := vd.bad["undecided"]; und {
		c.Undecided(effectRule+id, site, "%s", msg)
		return
	}
	report := func(rule string) {
		key := rule + "/" + id
		if msg, bad := vd.bad[rule]; bad {
			c.Violate(key, site, "%s", msg)
		} else {
			c.Ok(key, site, "%d paths (%s)", paths, m.kind)
		}
	}
	if m.kind == "accessor" {
		report("C18.views")
	} else {
		report("C18.effect")
	}
	if c18Mutator(m) {
		report("C18.partition")
		report("C18.pending")
		report("C18.len")
	} else if msg, bad := vd.bad["C18.partition"]; bad {
		c.Violate("C18.partition/"+id, site, "%s", msg)
	}
	var esc []string
	for s := range x.escapes {
		esc = append(esc, s)
	}
	sort.Strings(esc)
	if msg, bad := vd.bad["C18.noalias"]; bad {
		esc = append(esc, msg)
	}
	if len(esc) > 0 {
		c.Violate("C18.noalias/"+id, site, "%s", strings.Join(esc, "; "))
	} else {
		c.Ok("C18.noalias/"+id, site, "no internal map or tracker pointer leaves %s", id)
	}
}

func c18CheckOutcome(vd *c18Verdict, m c18Method, nm c18Names, entry *c18State, o c18Out, extID int, updateConst int64, desc string) {
	st := o.st
	where := desc
	if len(st.trace) > 0 {
		where += "; path: " + strings.Join(st.trace, ", ")
	}
	v0 := c18View(nm, entry)
	v1 := c18View(nm, st)
	id := m.id()

	// ---- invariant
	if !v1.fieldsAreMaps {
		vd.fail("C18.partition", "%s leaves a map field holding a non-map (%s)", id, where)
		return
	}
	if !v1.distinct {
		vd.fail("C18.partition", "%s leaves two of the three map fields referring to the same map object (%s)", id, where)
	}
	if !v1.noExt {
		vd.fail("C18.partition", "%s retains a caller-supplied map as internal state (%s)", id, where)
	}
	for k := 0; k < c18NKeys; k++ {
		if v1.a[k].present && v1.b[k].present {
			vd.fail("C18.partition", "%s leaves k%d in both %s and %s (%s)", id, k, nm.A, nm.B, where)
		}
		if v1.u[k].present && v1.b[k].present {
			vd.fail("C18.partition", "%s leaves k%d in both %s and %s: desired key reported as pending deletion (%s)", id, k, nm.U, nm.B, where)
		}
		if v1.u[k].present && v1.a[k].present {
			if eq, known := st.knownEq(v1.u[k].val, v1.a[k].val); !known || eq {
				vd.fail("C18.pending", "%s leaves k%d in %s although the dataplane value is not known to differ (pending update reported for an in-sync key) (%s)", id, k, nm.U, where)
			}
		}
	}
	if !v1.lenOK {
		vd.fail("C18.len", "%s leaves %s non-linear (%s)", id, nm.Len, where)
	} else {
		want := map[string]int{"L0": 1}
		for k := 0; k < c18NKeys; k++ {
			if v1.desired[k].present {
				want[""]++
			}
			if v0.desired[k].present {
				want[""]--
			}
		}
		if !c18LinEq(want, v1.lenLin) {
			vd.fail("C18.len", "%s leaves %s = %s but the desired set changed such that it must be %s (%s)", id, nm.Len, c18LinString(v1.lenLin), c18LinString(want), where)
		}
	}
	if extID >= 0 {
		if st.maps[extID] != entry.maps[extID] {
			vd.fail("C18.noalias", "%s modifies the caller's map (%s)", id, where)
		}
	}
	if m.kind != "accessor" && c18Internal(o.ret) {
		vd.fail("C18.noalias", "%s returns internal state %s (%s)", id, o.ret, where)
	}

	// ---- effect
	rule := "C18.effect"
	if m.kind == "accessor" {
		rule = "C18.views"
	}
	po := m.isSet // presence-only comparison for the set variant
	unchangedKey := func(k int) bool {
		return c18Exact(v0.a[k], v1.a[k]) && c18Exact(v0.b[k], v1.b[k]) && c18Exact(v0.u[k], v1.u[k])
	}
	unchangedAll := func() bool {
		for k := 0; k < c18NKeys; k++ {
			if !unchangedKey(k) {
				return false
			}
		}
		return v0.ida == v1.ida && v0.idb == v1.idb && v0.idu == v1.idu && v1.lenOK && c18LinEq(v0.lenLin, v1.lenLin)
	}
	sameDesired := func(k int) {
		if !c18Same(st, v0.desired[k], v1.desired[k], po) {
			vd.fail(rule, "%s changes the desired view of k%d from %s to %s (%s)", id, k, v0.desired[k], v1.desired[k], where)
		}
	}
	sameDP := func(k int) {
		if !c18Same(st, v0.dp[k], v1.dp[k], po) {
			vd.fail(rule, "%s changes the dataplane view of k%d from %s to %s (%s)", id, k, v0.dp[k], v1.dp[k], where)
		}
	}
	wantDesired := func(k int, w c18KV) {
		if !c18Same(st, w, v1.desired[k], po) {
			vd.fail(rule, "%s leaves desired view of k%d = %s, want %s (%s)", id, k, v1.desired[k], w, where)
		}
	}
	wantDP := func(k int, w c18KV) {
		if !c18Same(st, w, v1.dp[k], po) {
			vd.fail(rule, "%s leaves dataplane view of k%d = %s, want %s (%s)", id, k, v1.dp[k], w, where)
		}
	}
	viewOf := func(v c18Views, k int) c18KV {
		switch m.role {
		case "desired":
			return v.desired[k]
		case "dataplane":
			return v.dp[k]
		case "upd":
			return v.u[k]
		case "del":
			return v.b[k]
		}
		return c18KV{}
	}
	arg := c18KV{true, c18SymArg}
	if m.isSet {
		arg = c18KV{true, -2}
	}

	switch m.kind {
	case "accessor":
		if o.ret.k != c18Tracker {
			vd.fail(rule, "%s does not return the receiver itself (returns %s): the view would not share state with the tracker", id, o.ret)
		}
		if !unchangedAll() {
			vd.fail(rule, "%s modifies tracker state (%s)", id, where)
		}
	case "pure":
		if !unchangedAll() {
			vd.fail("undecided", "%s modifies tracker state but the rule knows no view-level specification for a method of this name (%s)", id, where)
		}
	case "set":
		if m.role == "desired" {
			wantDesired(0, arg)
			sameDesired(1)
			sameDP(0)
			sameDP(1)
		} else {
			wantDP(0, arg)
			sameDP(1)
			sameDesired(0)
			sameDesired(1)
		}
		if !unchangedKey(1) {
			vd.fail(rule, "%s(k0) touches the state of k1 (%s)", id, where)
		}
	case "del":
		if m.role == "desired" {
			wantDesired(0, c18KV{})
			sameDesired(1)
			sameDP(0)
			sameDP(1)
		} else {
			wantDP(0, c18KV{})
			sameDP(1)
			sameDesired(0)
			sameDesired(1)
		}
		if !unchangedKey(1) {
			vd.fail(rule, "%s(k0) touches the state of k1 (%s)", id, where)
		}
	case "delall":
		for k := 0; k < c18NKeys; k++ {
			if m.role == "desired" {
				wantDesired(k, c18KV{})
				sameDP(k)
			} else {
				wantDP(k, c18KV{})
				sameDesired(k)
			}
		}
	case "replacemap":
		for k := 0; k < c18NKeys; k++ {
			wantDP(k, c18KV{entry.maps[extID].present[k], entry.maps[extID].val[k]})
			sameDesired(k)
		}
	case "replaceiter":
		failed := o.ret.k != c18Nil
		if failed != st.extErr {
			vd.fail(rule, "%s returns error=%v although the iterator's error=%v (%s)", id, failed, st.extErr, where)
		}
		for k := 0; k < c18NKeys; k++ {
			y := c18KV{true, st.extVal[k]}
			switch {
			case st.extYielded[k]:
				wantDP(k, y)
			case failed:
				sameDP(k)
			default:
				wantDP(k, c18KV{})
			}
			sameDesired(k)
		}
	case "get", "has":
		var okv, val c18V
		if m.kind == "get" {
			if o.ret.k != c18Tuple || len(o.ret.tup) != 2 {
				vd.fail(rule, "%s does not return (value, ok)", id)
				break
			}
			val, okv = o.ret.tup[0], o.ret.tup[1]
		} else {
			okv = o.ret
		}
		w := viewOf(v0, 0)
		if okv.k != c18Bool || okv.b != w.present {
			vd.fail(rule, "%s(k0) reports present=%s but the %s view has k0 %s (%s)", id, okv, m.role, w, where)
		} else if m.kind == "get" && w.present && !(val.k == c18Val && val.n == w.val) {
			vd.fail(rule, "%s(k0) returns %s but the %s view holds %s (%s)", id, val, m.role, w, where)
		}
		if !unchangedAll() {
			vd.fail(rule, "%s modifies tracker state (%s)", id, where)
		}
	case "len":
		var want map[string]int
		switch m.role {
		case "desired":
			want = map[string]int{"L0": 1}
		case "dataplane":
			want = map[string]int{fmt.Sprintf("len#%d", v0.ida): 1, fmt.Sprintf("len#%d", v0.idb): 1}
		case "upd":
			want = map[string]int{fmt.Sprintf("len#%d", v0.idu): 1}
		case "del":
			want = map[string]int{fmt.Sprintf("len#%d", v0.idb): 1}
		}
		if o.ret.k != c18Int || !c18LinEq(o.ret.lin, want) {
			vd.fail(rule, "%s returns %s, but the size of the %s view is %s (len#%d=%s len#%d=%s len#%d=%s L0=%s)", id, o.ret, m.role, c18LinString(want), v0.ida, nm.A, v0.idb, nm.B, v0.idu, nm.U, nm.Len)
		}
		if !unchangedAll() {
			vd.fail(rule, "%s modifies tracker state (%s)", id, where)
		}
	case "iter":
		for k := 0; k < c18NKeys; k++ {
			w := viewOf(v0, k)
			n := 0
			var ev c18Event
			for _, e := range st.events {
				if len(e.args) > 0 && e.args[0].k == c18Key && e.args[0].n == k {
					n++
					ev = e
				}
			}
			wantN := 0
			if w.present {
				wantN = 1
			}
			if n != wantN {
				vd.fail(rule, "%s calls the callback %d times for k%d but the %s view has k%d %s (%s)", id, n, k, m.role, k, w, where)
				continue
			}
			if n == 1 && len(ev.args) > 1 && !m.isSet && !(ev.args[1].k == c18Val && ev.args[1].n == w.val) {
				vd.fail(rule, "%s passes %s for k%d but the %s view holds %s (%s)", id, ev.args[1], k, m.role, w, where)
			}
			applied := false
			if n == 1 && ev.result.k == c18Int {
				if cv, ok := c18LinConst(ev.result.lin); ok && int64(cv) == updateConst {
					applied = true
				}
			}
			switch {
			case m.role == "upd" && applied:
				if v1.u[k].present || !c18Same(st, w, v1.dp[k], m.isSet) || v1.b[k].present {
					vd.fail(rule, "%s: callback returned IterActionUpdateDataplane for k%d but afterwards pending=%s dataplane=%s, want pending absent and dataplane=%s (%s)", id, k, v1.u[k], v1.dp[k], w, where)
				}
				sameDesired(k)
			case m.role == "del" && applied:
				if v1.dp[k].present {
					vd.fail(rule, "%s: callback returned IterActionUpdateDataplane for k%d but the key is still in the dataplane view (%s)", id, k, where)
				}
				sameDesired(k)
			default:
				if !unchangedKey(k) {
					vd.fail(rule, "%s changes the state of k%d although the callback did not return IterActionUpdateDataplane for it (%s)", id, k, where)
				}
			}
		}
	}
}

// ---------------------------------------------------------------- batched --

func c18FieldOfMapValue(v ssa.Value) string {
	u, ok := v.(*ssa.UnOp)
	if !ok || u.Op != token.MUL {
		return ""
	}
	fa, ok := u.X.(*ssa.FieldAddr)
	if !ok {
		return ""
	}
	if _, ok := fa.X.(*ssa.Parameter); !ok {
		return ""
	}
	return c18FieldName(fa)
}

// c18SliceElems collects the values ever appended to the slice lineage of v.
func c18SliceElems(v ssa.Value, seen map[ssa.Value]bool, out *[]ssa.Value, bad *[]string) {
	if seen[v] {
		return
	}
	seen[v] = true
	switch x := v.(type) {
	case *ssa.Phi:
		for _, e := range x.Edges {
			c18SliceElems(e, seen, out, bad)
		}
	case *ssa.Slice:
		c18SliceElems(x.X, seen, out, bad)
	case *ssa.MakeSlice:
	case *ssa.Const:
		if x.Value != nil {
			*bad = append(*bad, "slice of unmodelled constant origin")
		} // nil slice: holds no elements
	case *ssa.Call:
		if b, ok := x.Call.Value.(*ssa.Builtin); ok && b.Name() == "append" && len(x.Call.Args) == 2 {
			c18SliceElems(x.Call.Args[0], seen, out, bad)
			// second argument: slice of a fresh varargs array
			if sl, ok := x.Call.Args[1].(*ssa.Slice); ok {
				if al, ok := sl.X.(*ssa.Alloc); ok {
					for _, r := range *al.Referrers() {
						if ia, ok := r.(*ssa.IndexAddr); ok {
							for _, r2 := range *ia.Referrers() {
								if s, ok := r2.(*ssa.Store); ok && s.Addr == ia {
									*out = append(*out, s.Val)
								}
							}
						}
					}
					return
				}
			}
			*bad = append(*bad, "append of an unmodelled slice")
			return
		}
		*bad = append(*bad, "slice produced by a call")
	default:
		*bad = append(*bad, fmt.Sprintf("slice of unmodelled origin %T", v))
	}
}

type c18Elem struct {
	slice  ssa.Value // slice indexed
	index  ssa.Value
	direct ssa.Value
}

func c18ElemOf(v ssa.Value) c18Elem {
	if u, ok := v.(*ssa.UnOp); ok && u.Op == token.MUL {
		if ia, ok := u.X.(*ssa.IndexAddr); ok {
			return c18Elem{slice: ia.X, index: ia.Index}
		}
	}
	return c18Elem{direct: v}
}

func c18Batched(c *Ctx, p *Prog, m c18Method, nm c18Names) {
	id := m.id()
	site := p.Pos(m.fn.Pos())
	fn := m.fn
	var pendingField, targetField string
	switch m.role {
	case "upd":
		pendingField, targetField = nm.U, nm.A
	case "del":
		pendingField = nm.B
	default:
		c.Undecided("C18.batched/"+id+"/pair", site, "IterBatched on a %s view has no specified effect", m.role)
		return
	}
	if len(fn.AnonFuncs) > 0 {
		c.Undecided("C18.batched/"+id+"/pair", site, "closures in IterBatched are not modelled")
		return
	}
	var cbParam *ssa.Parameter
	for _, prm := range fn.Params[1:] {
		if _, ok := prm.Type().Underlying().(*types.Signature); ok {
			cbParam = prm
		}
	}
	if cbParam == nil {
		c.Lost("%s has no callback parameter", id)
		return
	}

	type op struct {
		in    ssa.Instruction
		del   bool
		field string
		key   ssa.Value
		val   ssa.Value
	}
	byBlock := map[*ssa.BasicBlock][]op{}
	var blocks []*ssa.BasicBlock
	var others, calls []string
	for _, b := range fn.Blocks {
		for _, in := range b.Instrs {
			switch x := in.(type) {
			case *ssa.MapUpdate:
				if c18IsKeyedMap(x.Map.Type()) {
					f := c18FieldOfMapValue(x.Map)
					if f == "" {
						others = append(others, "store into a map that is not a receiver field")
						continue
					}
					if len(byBlock[b]) == 0 {
						blocks = append(blocks, b)
					}
					byBlock[b] = append(byBlock[b], op{in: in, field: f, key: x.Key, val: x.Value})
				}
			case *ssa.Store:
				if fa, ok := x.Addr.(*ssa.FieldAddr); ok {
					if _, ok := fa.X.(*ssa.Parameter); ok {
						others = append(others, "store to field "+c18FieldName(fa))
					}
				}
			case *ssa.Call:
				if cc, ok := isBuiltinCall(in, "delete"); ok && c18IsKeyedMap(cc.Args[0].Type()) {
					f := c18FieldOfMapValue(cc.Args[0])
					if f == "" {
						others = append(others, "delete from a map that is not a receiver field")
						continue
					}
					if len(byBlock[b]) == 0 {
						blocks = append(blocks, b)
					}
					byBlock[b] = append(byBlock[b], op{in: in, del: true, field: f, key: cc.Args[1]})
				} else if x.Call.StaticCallee() != nil && x.Call.StaticCallee().Pkg != nil && x.Call.StaticCallee().Pkg.Pkg.Path() == fn.Pkg.Pkg.Path() {
					calls = append(calls, x.Call.StaticCallee().Name())
				} else if o := x.Call.StaticCallee(); o != nil && o.Origin() != nil && o.Origin().Pkg == fn.Pkg {
					calls = append(calls, o.Name())
				}
			}
		}
	}
	if len(calls) > 0 {
		c.Undecided("C18.batched/"+id+"/only", site, "%s delegates to in-package functions (%s): not modelled", id, strings.Join(calls, ", "))
		return
	}
	c.Check(len(others) == 0, "C18.batched/"+id+"/only", site,
		"only element deletes/stores on receiver map fields", fmt.Sprintf("%s also mutates tracker state by: %s", id, strings.Join(others, "; ")))
	if len(blocks) == 0 {
		c.Violate("C18.batched/"+id+"/pair", site, "%s never clears an applied key from %s", id, pendingField)
		return
	}

	var pairBad, boundBad, boundUndecided, originBad []string
	okBlocks := 0
	for _, b := range blocks {
		ops := byBlock[b]
		var dels, sets []op
		for _, o := range ops {
			switch {
			case o.del && o.field == pendingField:
				dels = append(dels, o)
			case !o.del && targetField != "" && o.field == targetField:
				sets = append(sets, o)
			default:
				verb := "store into"
				if o.del {
					verb = "delete from"
				}
				pairBad = append(pairBad, fmt.Sprintf("%s %s at %s", verb, o.field, p.Pos(o.in.Pos())))
			}
		}
		if len(dels) != 1 || (targetField != "" && len(sets) != 1) || (targetField == "" && len(sets) != 0) {
			pairBad = append(pairBad, fmt.Sprintf("block at %s has %d delete(%s,..) and %d %s[..]=.. (an applied key must be cleared from the pending map%s exactly once)", p.Pos(ops[0].in.Pos()), len(dels), pendingField, len(sets), targetField,
				map[bool]string{true: " and recorded in " + targetField, false: ""}[targetField != ""]))
			continue
		}
		dk := c18ElemOf(dels[0].key)
		var idx ssa.Value = dk.index
		if targetField != "" {
			sk := c18ElemOf(sets[0].key)
			sv := c18ElemOf(sets[0].val)
			sameKey := (dk.direct != nil && dk.direct == sk.direct) || (dk.slice != nil && dk.slice == sk.slice && dk.index == sk.index)
			if !sameKey {
				pairBad = append(pairBad, fmt.Sprintf("delete(%s,..) and %s[..]=.. at %s use different keys", pendingField, targetField, p.Pos(sets[0].in.Pos())))
				continue
			}
			if dk.slice != nil && (sv.slice == nil || sv.index != dk.index) {
				pairBad = append(pairBad, fmt.Sprintf("value stored at %s is not the value-slice element at the key's index", p.Pos(sets[0].in.Pos())))
				continue
			}
			// origin of values
			if sv.slice != nil {
				c18CheckOrigins(p, sv.slice, pendingField, 2, &originBad)
			}
		}
		if dk.slice == nil {
			pairBad = append(pairBad, fmt.Sprintf("key at %s is not an element of the batch slice", p.Pos(dels[0].in.Pos())))
			continue
		}
		c18CheckOrigins(p, dk.slice, pendingField, 1, &originBad)
		// bound: idx is a loop phi whose header tests idx < applied, applied = first result of the callback
		okBound, shape := false, false
		if ph, ok := idx.(*ssa.Phi); ok {
			if ifi, ok := ph.Block().Instrs[len(ph.Block().Instrs)-1].(*ssa.If); ok {
				if bo, ok := ifi.Cond.(*ssa.BinOp); ok && bo.Op == token.LSS && bo.X == ph && ifi.Block().Succs[0] == b {
					shape = true
					if ex, ok := bo.Y.(*ssa.Extract); ok && ex.Index == 0 {
						if call, ok := ex.Tuple.(*ssa.Call); ok && call.Call.Value == cbParam {
							okBound = true
						}
					}
				}
			}
		}
		if !shape {
			boundUndecided = append(boundUndecided, fmt.Sprintf("apply loop at %s is not of the form 'for i < bound'", p.Pos(dels[0].in.Pos())))
		} else if !okBound {
			boundBad = append(boundBad, fmt.Sprintf("loop at %s is not bounded by 'i < applied' with applied the callback's first result", p.Pos(dels[0].in.Pos())))
		}
		okBlocks++
	}
	c.Check(len(pairBad) == 0, "C18.batched/"+id+"/pair", site,
		fmt.Sprintf("%d apply loops clear %s%s for the same index", okBlocks, pendingField, map[bool]string{true: " and record " + targetField, false: ""}[targetField != ""]), strings.Join(pairBad, "; "))
	if len(boundBad) == 0 && len(boundUndecided) > 0 {
		c.Undecided("C18.batched/"+id+"/bound", site, "%s", strings.Join(boundUndecided, "; "))
	} else {
		c.Check(len(boundBad) == 0, "C18.batched/"+id+"/bound", site, "apply loops stop at the callback's applied count", strings.Join(boundBad, "; "))
	}
	c.Check(len(originBad) == 0, "C18.batched/"+id+"/origin", site, "batch slices only hold keys/values yielded by ranging "+pendingField, strings.Join(originBad, "; "))
}

// c18CheckOrigins: every element of the slice lineage is Extract #which of a
// Next over a Range of the receiver's field.
func c18CheckOrigins(p *Prog, sl ssa.Value, field string, which int, bad *[]string) {
	var elems []ssa.Value
	var probs []string
	c18SliceElems(sl, map[ssa.Value]bool{}, &elems, &probs)
	*bad = append(*bad, probs...)
	if len(elems) == 0 {
		*bad = append(*bad, "batch slice is never filled")
	}
	for _, e := range elems {
		ok := false
		if ex, isEx := e.(*ssa.Extract); isEx && ex.Index == which {
			if nx, isNx := ex.Tuple.(*ssa.Next); isNx {
				if rg, isRg := nx.Iter.(*ssa.Range); isRg && c18FieldOfMapValue(rg.X) == field {
					ok = true
				}
			}
		}
		if !ok {
			*bad = append(*bad, fmt.Sprintf("element appended at %s does not come from ranging %s", p.Pos(e.Pos()), field))
		}
	}
}

// ----------------------------------------------------------------- copies --

func c18Copies(c *Ctx, p *Prog, trackerTypes []*types.TypeName) {
	isTT := func(t types.Type) string {
		if n, ok := t.(*types.Named); ok {
			for _, tt := range trackerTypes {
				if n.Origin().Obj() == tt {
					return tt.Name()
				}
			}
		}
		return ""
	}
	type hit struct{ what, site string }
	perPkg := map[string][]hit{}
	var pkgs []string
	lits := 0
	for _, pk := range p.Roots {
		rel := strings.TrimPrefix(pk.PkgPath, calicoPrefix)
		pkgs = append(pkgs, rel)
		for _, f := range pk.Syntax {
			var stack []ast.Node
			ast.Inspect(f, func(n ast.Node) bool {
				if n == nil {
					stack = stack[:len(stack)-1]
					return true
				}
				stack = append(stack, n)
				switch x := n.(type) {
				case *ast.CompositeLit:
					if tv, ok := pk.TypesInfo.Types[x]; ok {
						if name := isTT(tv.Type); name != "" {
							lits++
							// allowed only inside the constructor New of the tracker package
							fd := c18EnclosingFunc(stack)
							if !(rel == c18Pkg && fd != nil && fd.Recv == nil && fd.Name.Name == "New") {
								perPkg[rel] = append(perPkg[rel], hit{"composite literal of " + name, p.Pos(x.Pos())})
							}
						}
					}
				case *ast.StarExpr:
					// value use of *ptr where ptr points to a tracker type (not a type expression)
					if tv, ok := pk.TypesInfo.Types[x]; ok && tv.IsValue() {
						if name := isTT(tv.Type); name != "" {
							perPkg[rel] = append(perPkg[rel], hit{"dereference copy of " + name, p.Pos(x.Pos())})
						}
					}
				}
				return true
			})
		}
		// struct-typed (non-pointer) variables, fields, params of tracker types
		for id, obj := range pk.TypesInfo.Defs {
			if v, ok := obj.(*types.Var); ok && v != nil {
				if name := isTT(v.Type()); name != "" {
					perPkg[rel] = append(perPkg[rel], hit{"by-value variable/field of " + name, p.Pos(id.Pos())})
				}
			}
		}
	}
	sort.Strings(pkgs)
	if lits == 0 {
		c.Lost("constructor literal of DeltaTracker not found")
	}
	for _, rel := range pkgs {
		hs := perPkg[rel]
		sort.Slice(hs, func(i, j int) bool { return hs[i].site < hs[j].site })
		if len(hs) > 0 {
			var ss []string
			for _, h := range hs {
				ss = append(ss, h.what+" at "+h.site)
			}
			c.Violate("C18.views/nocopy/"+rel, hs[0].site, "tracker state copied (forks desiredLen and the map fields on ReplaceAll): %s", strings.Join(ss, "; "))
		} else {
			c.Ok("C18.views/nocopy/"+rel, rel, "no literal, dereference or by-value use of a tracker/view type")
		}
	}
}

func c18EnclosingFunc(stack []ast.Node) *ast.FuncDecl {
	for i := len(stack) - 1; i >= 0; i-- {
		if fd, ok := stack[i].(*ast.FuncDecl); ok {
			return fd
		}
	}
	return nil
}

// ------------------------------------------------------------------ apply --

// c18Apply: in CachingMap.ApplyUpdatesOnly / ApplyDeletionsOnly, a closure that
// returns IterAction must return IterActionUpdateDataplane only where the error
// of the dataplane write is nil (or, for deletes, ErrIsNotExists).
func c18Apply(c *Ctx, p *Prog) {
	const cm = "felix/cachingmap"
	upd, _ := p.LookupObj(c18Pkg, "IterActionUpdateDataplane").(*types.Const)
	if upd == nil {
		c.Lost("IterActionUpdateDataplane not found")
		return
	}
	for _, spec := range []struct{ fn, write string }{{"ApplyUpdatesOnly", "Update"}, {"ApplyDeletionsOnly", "Delete"}} {
		fn := p.Func(cm, "CachingMap."+spec.fn)
		if fn == nil {
			c.Lost("CachingMap.%s not found", spec.fn)
			continue
		}
		key := "C18.apply/" + spec.fn
		found := 0
		var bad []string
		for _, cl := range fn.AnonFuncs {
			res := cl.Signature.Results()
			if res.Len() != 1 {
				continue
			}
			nt, ok := res.At(0).Type().(*types.Named)
			if !ok || nt.Obj() != upd.Type().(*types.Named).Obj() {
				continue
			}
			// the write call: invoke of method spec.write on the dataplane map interface
			var writes []*ssa.Call
			for _, b := range cl.Blocks {
				for _, in := range b.Instrs {
					if call, ok := in.(*ssa.Call); ok && call.Call.IsInvoke() && call.Call.Method.Name() == spec.write {
						writes = append(writes, call)
					}
				}
			}
			if len(writes) != 1 {
				bad = append(bad, fmt.Sprintf("closure at %s has %d dataplane %s calls", p.Pos(cl.Pos()), len(writes), spec.write))
				continue
			}
			w := writes[0]
			// the key (and value) written are the closure's own parameters
			for i, a := range w.Call.Args {
				if i >= len(cl.Params) || a != ssa.Value(cl.Params[i]) {
					bad = append(bad, fmt.Sprintf("dataplane %s at %s is not called with the callback's own arguments", spec.write, p.Pos(w.Pos())))
				}
			}
			for _, ret := range returnsOf(cl) {
				vals := c18ConstResults(ret.Results[0])
				isUpd := false
				for _, v := range vals {
					if v == nil {
						isUpd = true // unknown value: treat as possibly "applied"
					} else if constant.Compare(v.Value, token.EQL, upd.Val()) {
						isUpd = true
					}
				}
				if !isUpd {
					continue
				}
				found++
				okGuard := guardedCut(ret, func(cond ssa.Value, pol bool) bool {
					// err == nil (true edge) / err != nil (false edge)
					if bo, ok := cond.(*ssa.BinOp); ok && (bo.Op == token.EQL || bo.Op == token.NEQ) {
						var other ssa.Value
						switch {
						case isNilConst(bo.X):
							other = bo.Y
						case isNilConst(bo.Y):
							other = bo.X
						}
						if other == ssa.Value(w) {
							return pol == (bo.Op == token.EQL)
						}
					}
					// ErrIsNotExists(err) true edge
					if call, ok := cond.(*ssa.Call); ok && pol && call.Call.IsInvoke() && call.Call.Method.Name() == "ErrIsNotExists" && len(call.Call.Args) == 1 && call.Call.Args[0] == ssa.Value(w) {
						return spec.write == "Delete"
					}
					return false
				})
				if !okGuard {
					bad = append(bad, fmt.Sprintf("return of IterActionUpdateDataplane at %s is reachable when the dataplane %s failed", p.Pos(ret.Pos()), spec.write))
				}
			}
		}
		if found == 0 && len(bad) == 0 {
			c.Undecided(key, p.Pos(fn.Pos()), "no per-key apply callback returning IterActionUpdateDataplane found in %s", spec.fn)
			continue
		}
		c.Check(len(bad) == 0, key, p.Pos(fn.Pos()), fmt.Sprintf("%d returns of IterActionUpdateDataplane are guarded by a nil error of dpMap.%s", found, spec.write), strings.Join(bad, "; "))
	}
}

// c18ConstResults returns the constants a value may take (nil entry = unknown).
func c18ConstResults(v ssa.Value) []*ssa.Const {
	switch x := v.(type) {
	case *ssa.Const:
		return []*ssa.Const{x}
	case *ssa.Phi:
		var out []*ssa.Const
		for _, e := range x.Edges {
			out = append(out, c18ConstResults(e)...)
		}
		return out
	}
	return []*ssa.Const{nil}
}

// --------------------------------------------------------------- lockstep --

// c18Lockstep: the batched iterators keep keys and values in two parallel slices.  The
// callback is told "ks[i] goes with vs[i]", and the tracker afterwards records vs[i] as the
// dataplane value of ks[i]: both are only right while the two slices are index-aligned.
// Decided structurally: at every site that uses two slices as parallel (callback call with
// >=2 slice arguments; map store m[xs[i]] = ys[i]) the two SSA values must be related by a
// lockstep bisimulation: both fresh with the same length, both the append of the same
// number of elements to aligned slices, both re-slices of aligned slices with equal
// bounds, or phis whose incoming values are aligned edge by edge (assumed while checking:
// greatest fixpoint).  Re-slicing / appending / resetting only one of them, or with
// different bounds, on any path breaks the relation.
func c18Lockstep(c *Ctx, p *Prog, m c18Method) {
	fn := m.fn
	id := m.id()
	type siteT struct {
		kind string
		a, b ssa.Value
		in   ssa.Instruction
	}
	var sites []siteT
	isSlice := func(v ssa.Value) bool {
		_, ok := v.Type().Underlying().(*types.Slice)
		return ok
	}
	allInstrs(fn, true, func(f *ssa.Function, in ssa.Instruction) {
		switch x := in.(type) {
		case *ssa.Call:
			if _, isParam := x.Call.Value.(*ssa.Parameter); !isParam || x.Call.IsInvoke() {
				return
			}
			var sl []ssa.Value
			for _, a := range x.Call.Args {
				if isSlice(a) {
					sl = append(sl, a)
				}
			}
			for i := 1; i < len(sl); i++ {
				sites = append(sites, siteT{"callback", sl[0], sl[i], in})
			}
		case *ssa.MapUpdate:
			k, v := c18ElemOf(x.Key), c18ElemOf(x.Value)
			if k.slice != nil && v.slice != nil && k.slice != v.slice && isSlice(k.slice) && isSlice(v.slice) {
				sites = append(sites, siteT{"apply", k.slice, v.slice, in})
				if k.index != v.index {
					ls := &c18Ls{p: p}
					if !ls.eqVal(k.index, v.index) {
						c.Violate("C18.lockstep/"+id+"/apply", p.Pos(in.Pos()), "%s stores %s under key %s: different indices into the parallel slices", id, ls.show(x.Value), ls.show(x.Key))
					}
				}
			}
		}
	})
	for _, s := range sites {
		key := "C18.lockstep/" + id + "/" + s.kind
		ls := &c18Ls{p: p, assumed: map[[2]ssa.Value]bool{}}
		switch ls.aligned(s.a, s.b) {
		case c18LsYes:
			c.Ok(key, p.Pos(s.in.Pos()), "%s and %s are built in lockstep (%d value pairs related)", ls.show(s.a), ls.show(s.b), len(ls.assumed))
		case c18LsNo:
			c.Violate(key, p.Pos(s.in.Pos()), "%s uses %s and %s as parallel slices (element i of one belongs to element i of the other) but they are not transformed in lockstep: %s — after that path the keys and values are out of step, so a key is applied to the dataplane and recorded with another key's value", id, ls.show(s.a), ls.show(s.b), ls.why)
		default:
			c.Undecided(key, p.Pos(s.in.Pos()), "cannot relate %s and %s: %s", ls.show(s.a), ls.show(s.b), ls.why)
		}
	}
}

const (
	c18LsYes = iota
	c18LsNo
	c18LsUnknown
)

type c18Ls struct {
	p       *Prog
	assumed map[[2]ssa.Value]bool
	why     string
}

func (l *c18Ls) fail(res int, format string, a ...any) int {
	if l.why == "" {
		l.why = fmt.Sprintf(format, a...)
	}
	return res
}

func (l *c18Ls) show(v ssa.Value) string {
	switch x := v.(type) {
	case nil:
		return ""
	case *ssa.Phi:
		if x.Comment != "" {
			return x.Comment
		}
	case *ssa.Const:
		if x.Value == nil {
			return "nil"
		}
		return x.Value.ExactString()
	case *ssa.Slice:
		s := l.show(x.X) + "[" + l.show(x.Low) + ":" + l.show(x.High)
		if x.Max != nil {
			s += ":" + l.show(x.Max)
		}
		return s + "]"
	case *ssa.BinOp:
		return l.show(x.X) + x.Op.String() + l.show(x.Y)
	case *ssa.MakeSlice:
		return "make(" + l.show(x.Len) + ")"
	case *ssa.UnOp:
		if x.Op == token.MUL {
			return l.show(x.X)
		}
	case *ssa.IndexAddr:
		return l.show(x.X) + "[" + l.show(x.Index) + "]"
	case *ssa.Extract:
		return fmt.Sprintf("result %d of %s", x.Index, l.show(x.Tuple))
	case *ssa.Call:
		if b, ok := x.Call.Value.(*ssa.Builtin); ok {
			var as []string
			for _, a := range x.Call.Args {
				as = append(as, l.show(a))
			}
			return b.Name() + "(" + strings.Join(as, ",") + ")"
		}
		if prm, ok := x.Call.Value.(*ssa.Parameter); ok {
			return prm.Name() + "(..)"
		}
	case *ssa.Parameter:
		return x.Name()
	}
	return v.Name()
}

func (l *c18Ls) at(v ssa.Value) string {
	if in, ok := v.(ssa.Instruction); ok && in.Pos().IsValid() {
		return " (" + l.p.Pos(in.Pos()) + ")"
	}
	return ""
}

// aligned: do a and b always have the same length with element i of a belonging to
// element i of b?
func (l *c18Ls) aligned(a, b ssa.Value) int {
	if a == b {
		return c18LsYes
	}
	k := [2]ssa.Value{a, b}
	if l.assumed[k] {
		return c18LsYes
	}
	l.assumed[k] = true
	pa, aPhi := a.(*ssa.Phi)
	pb, bPhi := b.(*ssa.Phi)
	switch {
	case aPhi && bPhi && pa.Block() == pb.Block():
		for i := range pa.Edges {
			if r := l.aligned(pa.Edges[i], pb.Edges[i]); r != c18LsYes {
				return r
			}
		}
		return c18LsYes
	case aPhi && c18LsDefDominates(b, pa.Block()):
		// b is one value on every way into a's block: each incoming a must be aligned with it
		for _, e := range pa.Edges {
			if r := l.aligned(e, b); r != c18LsYes {
				return r
			}
		}
		return c18LsYes
	case bPhi && c18LsDefDominates(a, pb.Block()):
		for _, e := range pb.Edges {
			if r := l.aligned(a, e); r != c18LsYes {
				return r
			}
		}
		return c18LsYes
	case aPhi:
		for _, e := range pa.Edges {
			if r := l.aligned(e, b); r != c18LsYes {
				return r
			}
		}
		return c18LsYes
	}
	switch x := a.(type) {
	case *ssa.MakeSlice:
		y, ok := b.(*ssa.MakeSlice)
		if !ok {
			return l.mismatch(a, b)
		}
		if !l.eqVal(x.Len, y.Len) {
			return l.fail(c18LsNo, "%s%s and %s%s start with different lengths", l.show(a), l.at(a), l.show(b), l.at(b))
		}
		return c18LsYes
	case *ssa.Slice:
		y, ok := b.(*ssa.Slice)
		if !ok {
			return l.mismatch(a, b)
		}
		if !l.eqBound(x.Low, y.Low, nil, nil) {
			return l.fail(c18LsNo, "one side is re-sliced as %s%s where the other is re-sliced as %s%s (different low bounds)", l.show(a), l.at(a), l.show(b), l.at(b))
		}
		if !l.eqBound(x.High, y.High, x.X, y.X) {
			return l.fail(c18LsNo, "one side is re-sliced as %s%s where the other is re-sliced as %s%s (different high bounds)", l.show(a), l.at(a), l.show(b), l.at(b))
		}
		return l.aligned(x.X, y.X)
	case *ssa.Call:
		y, ok := b.(*ssa.Call)
		xa, xok := c18LsAppend(x)
		if !xok {
			return l.fail(c18LsUnknown, "%s%s is produced by a call that is not modelled", l.show(a), l.at(a))
		}
		if !ok {
			return l.mismatch(a, b)
		}
		ya, yok := c18LsAppend(y)
		if !yok {
			return l.fail(c18LsUnknown, "%s%s is produced by a call that is not modelled", l.show(b), l.at(b))
		}
		nx, okx := c18LsAppendCount(xa[1])
		ny, oky := c18LsAppendCount(ya[1])
		switch {
		case okx && oky && nx != ny:
			return l.fail(c18LsNo, "%d element(s) appended to one side%s, %d to the other%s", nx, l.at(a), ny, l.at(b))
		case !okx || !oky:
			if r := l.aligned(xa[1], ya[1]); r != c18LsYes { // append(xs, more...) / append(ys, more2...)
				return r
			}
		}
		return l.aligned(xa[0], ya[0])
	case *ssa.Const:
		if y, ok := b.(*ssa.Const); ok && x.Value == nil && y.Value == nil {
			return c18LsYes
		}
		return l.mismatch(a, b)
	}
	return l.fail(c18LsUnknown, "%s%s (%T) is not a make/append/re-slice/phi", l.show(a), l.at(a), a)
}

func (l *c18Ls) mismatch(a, b ssa.Value) int {
	switch b.(type) {
	case *ssa.MakeSlice, *ssa.Slice, *ssa.Const, *ssa.Phi:
	case *ssa.Call:
		if _, ok := c18LsAppend(b.(*ssa.Call)); !ok {
			return l.fail(c18LsUnknown, "%s%s is produced by a call that is not modelled", l.show(b), l.at(b))
		}
	default:
		return l.fail(c18LsUnknown, "%s%s (%T) is not a make/append/re-slice/phi", l.show(b), l.at(b), b)
	}
	return l.fail(c18LsNo, "on one path one side is %s%s while the other is %s%s: a step applied to one slice has no counterpart on the other", l.show(a), l.at(a), l.show(b), l.at(b))
}

// c18LsDefDominates: v is defined (once) before every entry into block blk.
func c18LsDefDominates(v ssa.Value, blk *ssa.BasicBlock) bool {
	switch x := v.(type) {
	case *ssa.Const, *ssa.Parameter:
		return true
	case ssa.Instruction:
		return x.Block() != nil && x.Block() != blk && x.Block().Dominates(blk)
	}
	return false
}

func c18LsAppend(c *ssa.Call) ([]ssa.Value, bool) {
	if b, ok := c.Call.Value.(*ssa.Builtin); ok && b.Name() == "append" && len(c.Call.Args) == 2 {
		return c.Call.Args, true
	}
	return nil, false
}

// c18LsAppendCount: number of elements of the variadic part of an append (slice of a fresh
// varargs array).
func c18LsAppendCount(v ssa.Value) (int64, bool) {
	sl, ok := v.(*ssa.Slice)
	if !ok || sl.Low != nil || sl.High != nil {
		return 0, false
	}
	al, ok := sl.X.(*ssa.Alloc)
	if !ok {
		return 0, false
	}
	pt, ok := al.Type().Underlying().(*types.Pointer)
	if !ok {
		return 0, false
	}
	arr, ok := pt.Elem().Underlying().(*types.Array)
	if !ok {
		return 0, false
	}
	return arr.Len(), true
}

// eqBound: slice bounds equal; nil low = 0, nil high = len(of the sliced value), which is
// equal on both sides exactly when the sliced values are aligned (checked by the caller).
func (l *c18Ls) eqBound(x, y ssa.Value, ofX, ofY ssa.Value) bool {
	if x == nil && y == nil {
		return true
	}
	isLenOf := func(v ssa.Value, of ssa.Value) bool {
		if call, ok := v.(*ssa.Call); ok && of != nil {
			if b, ok := call.Call.Value.(*ssa.Builtin); ok && b.Name() == "len" && len(call.Call.Args) == 1 {
				return call.Call.Args[0] == of
			}
		}
		return false
	}
	if x == nil || y == nil {
		if ofX == nil { // low bound: nil is 0
			nz := x
			if nz == nil {
				nz = y
			}
			cv, ok := constOf(nz)
			return ok && cv.ExactString() == "0"
		}
		return (x == nil && isLenOf(y, ofY)) || (y == nil && isLenOf(x, ofX))
	}
	return l.eqVal(x, y)
}

// eqVal: structural equality of two integer SSA values.
func (l *c18Ls) eqVal(x, y ssa.Value) bool {
	if x == y {
		return true
	}
	cx, okx := constOf(x)
	cy, oky := constOf(y)
	if okx || oky {
		return okx && oky && constant.Compare(cx, token.EQL, cy)
	}
	switch a := x.(type) {
	case *ssa.BinOp:
		b, ok := y.(*ssa.BinOp)
		return ok && a.Op == b.Op && l.eqVal(a.X, b.X) && l.eqVal(a.Y, b.Y)
	case *ssa.Convert:
		b, ok := y.(*ssa.Convert)
		return ok && types.Identical(a.Type(), b.Type()) && l.eqVal(a.X, b.X)
	case *ssa.Call:
		b, ok := y.(*ssa.Call)
		if !ok {
			return false
		}
		ba, ok1 := a.Call.Value.(*ssa.Builtin)
		bb, ok2 := b.Call.Value.(*ssa.Builtin)
		if ok1 && ok2 && ba.Name() == "len" && bb.Name() == "len" && l.assumed != nil {
			save := l.why
			r := l.aligned(a.Call.Args[0], b.Call.Args[0]) == c18LsYes
			if !r {
				l.why = save
			}
			return r
		}
	}
	return false
}
