package main

// engine_C10.go — "builder-chain facts" over SSA for generictables.Rule
// literals (shared by C10, C40, C37).
//
// A rule literal `generictables.Rule{Match: m, Action: a}` is, in go/ssa, a
// `local Rule (complit)` Alloc with FieldAddr+Store per field, whose loaded
// value is then stored whole into element i of a `new [N]Rule (varargs|
// slicelit)` array that is sliced and either used directly or appended.  This
// file recovers: the literals of a function, the MatchCriteria method chain of
// their Match (methods + SSA arguments), a classification of their Action, the
// literals that may be elements of a []Rule value, and the relative order of two
// literals inside the slice they are appended to.  Nothing here depends on
// local names, comments or positions.

import (
	"go/constant"
	"go/token"
	"go/types"
	"strings"

	"golang.org/x/tools/go/ssa"
)

const (
	c10RulesPkg = "felix/rules"
	c10GTPkg    = "felix/generictables"
)

// c10Lit is one generictables.Rule composite literal (or local Rule variable).
type c10Lit struct {
	Fn     *ssa.Function
	Base   ssa.Value              // *Rule: Alloc (complit / local var) or IndexAddr
	Fields map[string][]ssa.Value // values stored per field name
	Places []c10Place             // arrays the literal's value is copied into
}

type c10Place struct {
	Arr ssa.Value // *[N]Rule
	Idx int64
}

func (l *c10Lit) Pos() token.Pos {
	if l.Base.Pos().IsValid() {
		return l.Base.Pos()
	}
	for _, vs := range l.Fields {
		for _, v := range vs {
			if v.Pos().IsValid() {
				return v.Pos()
			}
		}
	}
	return l.Fn.Pos()
}

func c10IsRuleType(t types.Type) bool { return qualTypeName(t) == c10GTPkg+".Rule" }

func c10IsRulePtr(t types.Type) bool {
	p, ok := t.Underlying().(*types.Pointer)
	if !ok {
		return false
	}
	_, named := types.Unalias(p.Elem()).(*types.Named)
	return named && c10IsRuleType(p.Elem())
}

func c10IsRuleSlice(t types.Type) bool {
	s, ok := t.Underlying().(*types.Slice)
	return ok && c10IsRuleType(s.Elem())
}

// c10RuleLits lists the Rule literals of fn (not of its closures).
func c10RuleLits(fn *ssa.Function) []*c10Lit {
	byBase := map[ssa.Value]*c10Lit{}
	var order []*c10Lit
	get := func(base ssa.Value) *c10Lit {
		if l, ok := byBase[base]; ok {
			return l
		}
		l := &c10Lit{Fn: fn, Base: base, Fields: map[string][]ssa.Value{}}
		byBase[base] = l
		order = append(order, l)
		return l
	}
	for _, b := range fn.Blocks {
		for _, in := range b.Instrs {
			switch x := in.(type) {
			case *ssa.Alloc:
				if c10IsRulePtr(x.Type()) {
					get(x)
				}
			case *ssa.FieldAddr:
				if !c10IsRulePtr(x.X.Type()) {
					continue
				}
				l := get(x.X)
				name := fieldName(x.X.Type(), x.Field)
				if refs := x.Referrers(); refs != nil {
					for _, r := range *refs {
						if st, ok := r.(*ssa.Store); ok && st.Addr == x {
							l.Fields[name] = append(l.Fields[name], st.Val)
						}
					}
				}
			}
		}
	}
	// placements: *IndexAddr(arr,i) = load(base)
	for _, b := range fn.Blocks {
		for _, in := range b.Instrs {
			st, ok := in.(*ssa.Store)
			if !ok {
				continue
			}
			ia, ok := st.Addr.(*ssa.IndexAddr)
			if !ok || !c10IsRulePtr(ia.Type()) {
				continue
			}
			ld, ok := st.Val.(*ssa.UnOp)
			if !ok || ld.Op != token.MUL {
				continue
			}
			l, ok := byBase[ld.X]
			if !ok {
				continue
			}
			idx := int64(-1)
			if cv, ok := constOf(ia.Index); ok {
				if n, exact := constant.Int64Val(cv); exact {
					idx = n
				}
			}
			l.Places = append(l.Places, c10Place{Arr: ia.X, Idx: idx})
		}
	}
	// literals written in place: base is itself an IndexAddr
	for _, l := range order {
		if ia, ok := l.Base.(*ssa.IndexAddr); ok {
			idx := int64(-1)
			if cv, ok := constOf(ia.Index); ok {
				if n, exact := constant.Int64Val(cv); exact {
					idx = n
				}
			}
			l.Places = append(l.Places, c10Place{Arr: ia.X, Idx: idx})
		}
	}
	// struct copies between rule variables: *dst = *src (e.g. `rule := Rule{…}`
	// compiles to a complit temporary copied into the variable): dst inherits
	// src's field stores, src disappears.
	merged := map[*c10Lit]bool{}
	for _, b := range fn.Blocks {
		for _, in := range b.Instrs {
			st, ok := in.(*ssa.Store)
			if !ok {
				continue
			}
			dst, ok := byBase[st.Addr]
			if !ok {
				continue
			}
			ld, ok := st.Val.(*ssa.UnOp)
			if !ok || ld.Op != token.MUL {
				continue
			}
			src, ok := byBase[ld.X]
			if !ok || src == dst {
				continue
			}
			for f, vs := range src.Fields {
				dst.Fields[f] = append(append([]ssa.Value{}, vs...), dst.Fields[f]...)
			}
			merged[src] = true
		}
	}
	// drop Allocs that never had a field stored and are never placed (e.g. zero temporaries)
	var out []*c10Lit
	for _, l := range order {
		if (len(l.Fields) == 0 && len(l.Places) == 0) || (merged[l] && len(l.Places) == 0) {
			continue
		}
		out = append(out, l)
	}
	return out
}

// ------------------------------------------------------------ match chains --

type c10MatchCall struct {
	Name string
	Args []ssa.Value
	Call *ssa.Call
}

// c10Match is the decoded Match expression of a rule.
type c10Match struct {
	Calls   []c10MatchCall // MatchCriteria methods, innermost first
	Base    ssa.Value      // what the chain starts from (nil for an absent Match)
	BaseNew bool           // base is r.NewMatch() / iptables.Match() / nftables.Match()
	Dyn     *ssa.Call      // the whole match is the result of calling a func value (e.g. getMatchForEndpoint(x))
}

func (m c10Match) Names() []string {
	var out []string
	for _, c := range m.Calls {
		out = append(out, c.Name)
	}
	return out
}

func (m c10Match) Has(name string) *c10MatchCall {
	for i := range m.Calls {
		if m.Calls[i].Name == name {
			return &m.Calls[i]
		}
	}
	return nil
}

// Unconditional: no Match at all, or NewMatch() with no criteria.
func (m c10Match) Unconditional() bool {
	return m.Dyn == nil && len(m.Calls) == 0 && (m.Base == nil || m.BaseNew)
}

func c10IsMatchCriteria(t types.Type) bool { return qualTypeName(t) == c10GTPkg+".MatchCriteria" }

// c10DecodeMatch decodes v (the value stored into Rule.Match; nil = absent).
func c10DecodeMatch(v ssa.Value) c10Match {
	var m c10Match
	for v != nil {
		if mi, ok := v.(*ssa.MakeInterface); ok {
			v = mi.X
			continue
		}
		if ci, ok := v.(*ssa.ChangeInterface); ok {
			v = ci.X
			continue
		}
		call, ok := v.(*ssa.Call)
		if !ok {
			break
		}
		cc := call.Common()
		if cc.IsInvoke() && c10IsMatchCriteria(cc.Value.Type()) && c10IsMatchCriteria(call.Type()) {
			m.Calls = append([]c10MatchCall{{Name: cc.Method.Name(), Args: cc.Args, Call: call}}, m.Calls...)
			v = cc.Value
			continue
		}
		break
	}
	m.Base = v
	if isNilConst(v) {
		m.Base = nil
	}
	if call, ok := v.(*ssa.Call); ok {
		cc := call.Common()
		if f := calleeOf(cc); f != nil {
			if f.Name() == "Match" && f.Pkg() != nil && (strings.HasSuffix(f.Pkg().Path(), "felix/iptables") || strings.HasSuffix(f.Pkg().Path(), "felix/nftables")) {
				m.BaseNew = true
			}
		} else if fv := fieldVar(cc.Value); fv != nil && fv.Name() == "NewMatch" && c10IsMatchCriteria(call.Type()) {
			m.BaseNew = true
		} else if _, isBuiltin := cc.Value.(*ssa.Builtin); !isBuiltin {
			m.Dyn = call
		}
	}
	return m
}

// Match decodes the (single) Match of a literal; ok=false if the field is
// stored more than once (caller decides what to do with l.Fields["Match"]).
func (l *c10Lit) Match() (c10Match, bool) {
	vs := l.Fields["Match"]
	switch len(vs) {
	case 0:
		return c10Match{}, true
	case 1:
		return c10DecodeMatch(vs[0]), true
	}
	return c10Match{}, false
}

// ----------------------------------------------------------------- actions --

// c10Action classifies the value stored into Rule.Action.
type c10Action struct {
	// Kind: "factory" (ActionFactory method, Name=GoTo/Jump/Allow/Drop/…),
	// "method" (DefaultRuleRenderer method, e.g. IptablesFilterDenyAction),
	// "field" (renderer field, e.g. filterAllowAction), "param", "dyncall"
	// (call of a func value), "none", "other".
	Kind string
	Name string
	Args []ssa.Value
	V    ssa.Value
	Call *ssa.Call
}

func (a c10Action) String() string {
	if a.Kind == "none" {
		return "none"
	}
	return a.Kind + ":" + a.Name
}

func c10IsActionFactory(t types.Type) bool { return qualTypeName(t) == c10GTPkg+".ActionFactory" }

func c10DecodeAction(v ssa.Value) c10Action {
	if v == nil || isNilConst(v) {
		return c10Action{Kind: "none"}
	}
	for {
		if mi, ok := v.(*ssa.MakeInterface); ok {
			v = mi.X
			continue
		}
		if ci, ok := v.(*ssa.ChangeInterface); ok {
			v = ci.X
			continue
		}
		break
	}
	switch x := v.(type) {
	case *ssa.Call:
		cc := x.Common()
		if cc.IsInvoke() && c10IsActionFactory(cc.Value.Type()) {
			return c10Action{Kind: "factory", Name: cc.Method.Name(), Args: cc.Args, V: v, Call: x}
		}
		if f := calleeOf(cc); f != nil && !cc.IsInvoke() {
			args := cc.Args
			if sig, ok := f.Type().(*types.Signature); ok && sig.Recv() != nil && len(args) > 0 {
				args = args[1:]
			}
			return c10Action{Kind: "method", Name: f.Name(), Args: args, V: v, Call: x}
		}
		if _, isBuiltin := cc.Value.(*ssa.Builtin); !isBuiltin && !cc.IsInvoke() {
			return c10Action{Kind: "dyncall", Name: path(cc.Value), Args: cc.Args, V: v, Call: x}
		}
	case *ssa.Parameter:
		return c10Action{Kind: "param", Name: x.Name(), V: v}
	case *ssa.UnOp:
		if fv := fieldVar(v); fv != nil {
			return c10Action{Kind: "field", Name: fv.Name(), V: v}
		}
	}
	return c10Action{Kind: "other", Name: path(v), V: v}
}

func (l *c10Lit) Action() (c10Action, bool) {
	vs := l.Fields["Action"]
	switch len(vs) {
	case 0:
		return c10Action{Kind: "none"}, true
	case 1:
		return c10DecodeAction(vs[0]), true
	}
	return c10Action{Kind: "other", Name: "multiple stores"}, false
}

// ----------------------------------------------------------- slice contents --

// c10AppendArgs: if v is a call of builtin append, its operands.
func c10AppendArgs(v ssa.Value) []ssa.Value {
	call, ok := v.(*ssa.Call)
	if !ok {
		return nil
	}
	if b, ok := call.Common().Value.(*ssa.Builtin); ok && b.Name() == "append" {
		return call.Common().Args
	}
	return nil
}

// c10SliceSources returns the leaves of a []Rule value: backing arrays of
// literals, parameters, calls, nil.  Follows phi, append (both operands),
// slicing and local variables.
func c10SliceSources(v ssa.Value) []Origin {
	return origins(v, func(x ssa.Value) []ssa.Value {
		if a := c10AppendArgs(x); a != nil {
			return a
		}
		return nil
	})
}

// c10Contents splits the sources of a []Rule value into rule literals (looked
// up in lits by backing array) and opaque sources (params, calls, globals…).
func c10Contents(v ssa.Value, lits []*c10Lit) (in []*c10Lit, opaque []ssa.Value) {
	seen := map[*c10Lit]bool{}
	for _, o := range c10SliceSources(v) {
		if o.Kind == "const" && isNilConst(o.V) {
			continue
		}
		if al, ok := o.V.(*ssa.Alloc); ok {
			found := false
			for _, l := range lits {
				for _, pl := range l.Places {
					if pl.Arr == al && !seen[l] {
						seen[l] = true
						in = append(in, l)
					}
					if pl.Arr == al {
						found = true
					}
				}
			}
			if found || c10IsEmptyArray(al) {
				continue
			}
		}
		opaque = append(opaque, o.V)
	}
	return in, opaque
}

func c10IsEmptyArray(al *ssa.Alloc) bool {
	p, ok := al.Type().Underlying().(*types.Pointer)
	if !ok {
		return false
	}
	arr, ok := p.Elem().Underlying().(*types.Array)
	return ok && arr.Len() == 0
}

// c10AppendsOf returns the append calls that add the literal's backing array
// (arg 1), or nil if the literal's slice is used directly.
func c10AppendsOf(l *c10Lit) []*ssa.Call {
	var out []*ssa.Call
	for _, pl := range l.Places {
		refs := pl.Arr.Referrers()
		if refs == nil {
			continue
		}
		for _, r := range *refs {
			sl, ok := r.(*ssa.Slice)
			if !ok || sl.Referrers() == nil {
				continue
			}
			for _, rr := range *sl.Referrers() {
				if call, ok := rr.(*ssa.Call); ok {
					if a := c10AppendArgs(call); len(a) == 2 && a[1] == sl {
						out = append(out, call)
					}
				}
			}
		}
	}
	return out
}

// c10PrefixFlows: does value `from` flow into the *prefix operand* chain of
// append call `to` (i.e. are from's elements in front of to's added elements)?
func c10PrefixFlows(from ssa.Value, to *ssa.Call) bool {
	seen := map[ssa.Value]bool{}
	var walk func(v ssa.Value) bool
	walk = func(v ssa.Value) bool {
		if v == nil || seen[v] {
			return false
		}
		seen[v] = true
		if v == from {
			return true
		}
		switch x := v.(type) {
		case *ssa.Phi:
			for _, e := range x.Edges {
				if walk(e) {
					return true
				}
			}
		case *ssa.Slice:
			return walk(x.X)
		case *ssa.UnOp:
			if x.Op == token.MUL {
				if al, ok := x.X.(*ssa.Alloc); ok && al.Referrers() != nil {
					for _, r := range *al.Referrers() {
						if st, ok := r.(*ssa.Store); ok && st.Addr == al && walk(st.Val) {
							return true
						}
					}
				}
			}
		case *ssa.Call:
			if a := c10AppendArgs(x); len(a) >= 1 {
				return walk(a[0])
			}
		}
		return false
	}
	a := c10AppendArgs(to)
	if len(a) == 0 {
		return false
	}
	return walk(a[0])
}

// c10Before reports whether literal a is always placed in front of literal b in
// the slice both are added to.  decided=false when the two are not related by
// the append chain (different slices, or opposite orders possible in a loop).
func c10Before(a, b *c10Lit) (before, decided bool) {
	for _, pa := range a.Places {
		for _, pb := range b.Places {
			if pa.Arr == pb.Arr && pa.Idx >= 0 && pb.Idx >= 0 {
				return pa.Idx < pb.Idx, true
			}
		}
	}
	aa, bb := c10AppendsOf(a), c10AppendsOf(b)
	ab, ba := false, false
	for _, x := range aa {
		for _, y := range bb {
			if x == y {
				continue
			}
			if c10PrefixFlows(x, y) {
				ab = true
			}
			if c10PrefixFlows(y, x) {
				ba = true
			}
		}
	}
	// a literal whose slice is used directly as the initial value (no append)
	if len(aa) == 0 {
		for _, pa := range a.Places {
			if refs := pa.Arr.Referrers(); refs != nil {
				for _, r := range *refs {
					if sl, ok := r.(*ssa.Slice); ok {
						for _, y := range bb {
							if c10PrefixFlows(sl, y) {
								ab = true
							}
						}
					}
				}
			}
		}
	}
	if len(bb) == 0 {
		for _, pb := range b.Places {
			if refs := pb.Arr.Referrers(); refs != nil {
				for _, r := range *refs {
					if sl, ok := r.(*ssa.Slice); ok {
						for _, x := range aa {
							if c10PrefixFlows(sl, x) {
								ba = true
							}
						}
					}
				}
			}
		}
	}
	if ab == ba {
		return false, false
	}
	return ab, true
}

// ------------------------------------------------------------------ consts --

// c10ConstNames maps the string value of exported string constants of a root
// package to their names (several names may share a value).
func c10ConstNames(p *Prog, pkg string) map[string][]string {
	out := map[string][]string{}
	pk := p.Pkg(pkg)
	if pk == nil {
		return out
	}
	sc := pk.Types.Scope()
	for _, n := range sc.Names() {
		if k, ok := sc.Lookup(n).(*types.Const); ok && k.Exported() && k.Val().Kind() == constant.String {
			s := constant.StringVal(k.Val())
			out[s] = append(out[s], n)
		}
	}
	return out
}

// c10ConstStr returns the string value of a named constant in a root package.
func c10ConstStr(c *Ctx, p *Prog, pkg, name string) string {
	k, ok := p.LookupObj(pkg, name).(*types.Const)
	if !ok || k.Val().Kind() != constant.String {
		c.Lost("string constant %s.%s", pkg, name)
	}
	return constant.StringVal(k.Val())
}

// c10StrConst: v is an SSA string constant.
func c10StrConst(v ssa.Value) (string, bool) {
	cv, ok := constOf(v)
	if !ok || cv.Kind() != constant.String {
		return "", false
	}
	return constant.StringVal(cv), true
}

// c10ParamsOfType lists the parameters of fn whose type satisfies pred.
func c10ParamsOfType(fn *ssa.Function, pred func(types.Type) bool) []*ssa.Parameter {
	var out []*ssa.Parameter
	for _, p := range fn.Params {
		if pred(p.Type()) {
			out = append(out, p)
		}
	}
	return out
}

func c10ParamIndex(fn *ssa.Function, v ssa.Value) int {
	for i, p := range fn.Params {
		if p == v {
			return i
		}
	}
	return -1
}

// c10StaticCallers lists the static call sites of callee in the given functions.
func c10StaticCallers(fns []*ssa.Function, callee *ssa.Function) []CallSite {
	var out []CallSite
	for _, f := range fns {
		allInstrs(f, false, func(_ *ssa.Function, in ssa.Instruction) {
			ci, ok := in.(ssa.CallInstruction)
			if !ok {
				return
			}
			if calleeFn(ci.Common()) == callee {
				out = append(out, CallSite{Instr: ci, Callee: calleeOf(ci.Common()), Fn: f})
			}
		})
	}
	return out
}
