package main

// Helpers for C11 (BPF policy program builder).  The builder is a Go program
// that *emits* a BPF program through calls on *asm.Block; the rules reason
// about the Go control flow around those emission calls (dominance order =
// emission order on straight-line emitters) and about the constant operands
// passed to them.

import (
	"go/constant"
	"go/token"
	"go/types"
	"sort"
	"strings"

	"golang.org/x/tools/go/ssa"
)

const (
	c11PolPkg   = "felix/bpf/polprog"
	c11AsmPkg   = "felix/bpf/asm"
	c11StatePkg = "felix/bpf/state"
	c11RulesPkg = "felix/rules"
	c11ProtoPkg = "felix/proto"
)

type c11Model struct {
	c *Ctx
	p *Prog

	builderT *types.Named // polprog.Builder
	blockT   *types.Named // asm.Block
	ruleT    *types.Named // proto.Rule
	legT     *types.Named // polprog.matchLeg
	regT     *types.Named // asm.Reg

	labelFn   *ssa.Function // asm.Block.LabelNextInsn
	appendFns map[*ssa.Function]bool
	emits     map[*ssa.Function]bool // transitively appends an instruction or sets a label
	labels    map[*ssa.Function]bool // transitively sets a label
}

func c11NamedOf(c *Ctx, obj types.Object, what string) *types.Named {
	if obj == nil {
		c.Lost("%s", what)
	}
	n, _ := types.Unalias(obj.Type()).(*types.Named)
	if n == nil {
		c.Lost("%s is not a named type", what)
	}
	return n
}

func c11BuildModel(c *Ctx, p *Prog) *c11Model {
	m := &c11Model{c: c, p: p, appendFns: map[*ssa.Function]bool{}}
	m.builderT = c11NamedOf(c, p.LookupObj(c11PolPkg, "Builder"), "polprog.Builder")
	m.blockT = c11NamedOf(c, p.LookupObj(c11AsmPkg, "Block"), "asm.Block")
	m.regT = c11NamedOf(c, p.LookupObj(c11AsmPkg, "Reg"), "asm.Reg")
	m.legT = c11NamedOf(c, p.LookupObj(c11PolPkg, "matchLeg"), "polprog.matchLeg")
	m.ruleT = c11NamedOf(c, p.LookupExt(c11ProtoPkg, "Rule"), "proto.Rule")
	m.labelFn = p.Func(c11AsmPkg, "Block.LabelNextInsn")
	if m.labelFn == nil {
		c.Lost("asm.Block.LabelNextInsn")
	}
	// Base emitters: functions of package asm that append to Block.insns.
	insns := p.LookupObj(c11AsmPkg, "Block.insns")
	if insns == nil {
		c.Lost("asm.Block.insns")
	}
	var asmFns, allFns []*ssa.Function
	for _, f := range p.AllFuncs() {
		top := topFn(f)
		if top.Pkg == nil {
			continue
		}
		switch strings.TrimPrefix(top.Pkg.Pkg.Path(), calicoPrefix) {
		case c11AsmPkg:
			asmFns = append(asmFns, f)
			allFns = append(allFns, f)
		case c11PolPkg:
			allFns = append(allFns, f)
		}
	}
	for _, f := range asmFns {
		for _, st := range storesToField(f, false, "Block", "insns") {
			// b.insns = append(b.insns, x)
			for _, o := range origins(st.Val, nil) {
				if call, ok := o.V.(*ssa.Call); ok {
					if _, isApp := isBuiltinCall(call, "append"); isApp {
						m.appendFns[f] = true
					}
				}
			}
		}
	}
	if len(m.appendFns) == 0 {
		c.Lost("no function in package asm appends to Block.insns")
	}
	// Transitive closure over static calls (and closures).
	m.emits = map[*ssa.Function]bool{}
	m.labels = map[*ssa.Function]bool{m.labelFn: true}
	for f := range m.appendFns {
		m.emits[f] = true
	}
	m.emits[m.labelFn] = true
	for changed := true; changed; {
		changed = false
		for _, f := range allFns {
			allInstrs(f, true, func(_ *ssa.Function, in ssa.Instruction) {
				ci, ok := in.(ssa.CallInstruction)
				if !ok {
					return
				}
				sf := calleeFn(ci.Common())
				if sf == nil {
					return
				}
				if m.emits[sf] && !m.emits[f] {
					m.emits[f] = true
					changed = true
				}
				// (labels set by the assembler's own trampoline machinery are internal:
				// only polprog functions inherit "sets a label")
				if m.labels[sf] && !m.labels[f] && m.inPolFn(f) {
					m.labels[f] = true
					changed = true
				}
			})
		}
	}
	return m
}

func (m *c11Model) fn(pkg, name string) *ssa.Function {
	f := m.p.Func(pkg, name)
	if f == nil || f.Blocks == nil {
		m.c.Lost("%s.%s", pkg, name)
	}
	return f
}

// isBlockMethod: the call is a method call on *asm.Block.
func (m *c11Model) isBlockMethod(cs CallSite) bool {
	return cs.Callee != nil && recvTypeName(cs.Callee) == "Block" && cs.Callee.Pkg() != nil &&
		strings.TrimPrefix(cs.Callee.Pkg().Path(), calicoPrefix) == c11AsmPkg
}

// emission is one call in a builder function that emits instructions/labels:
// a call of an emitting *asm.Block method, or of a polprog function that
// transitively emits.
type c11Emission struct {
	cs    CallSite
	block bool   // direct asm.Block method call
	name  string // method / function name
}

// emissionsIn lists the emitting calls of fn (no closures) in block order.
func (m *c11Model) emissionsIn(fn *ssa.Function) []c11Emission {
	var out []c11Emission
	for _, b := range fn.Blocks {
		for _, in := range b.Instrs {
			ci, ok := in.(ssa.CallInstruction)
			if !ok {
				continue
			}
			sf := calleeFn(ci.Common())
			if sf == nil || !m.emits[sf] {
				continue
			}
			cs := CallSite{ci, calleeOf(ci.Common()), fn}
			out = append(out, c11Emission{cs: cs, block: m.isBlockMethod(cs), name: sf.Name()})
		}
	}
	return out
}

// argNamed returns the argument of the call that binds the callee parameter
// with the given name ("" if absent).  Receiver excluded from names.
func c11ArgByType(cs CallSite, want func(types.Type) bool) []ssa.Value {
	var out []ssa.Value
	sig := cs.Callee.Type().(*types.Signature)
	args := cs.Args()
	off := 0
	if sig.Recv() != nil {
		off = 1
	}
	for i := 0; i < sig.Params().Len() && i+off < len(args); i++ {
		if want(sig.Params().At(i).Type()) {
			out = append(out, args[i+off])
		}
	}
	return out
}

func c11IsNamed(n *types.Named) func(types.Type) bool {
	return func(t types.Type) bool { return types.Identical(types.Unalias(t), n) }
}

func c11IsBool(t types.Type) bool {
	b, ok := t.Underlying().(*types.Basic)
	return ok && b.Kind() == types.Bool
}

func c11IsString(t types.Type) bool {
	return types.Identical(types.Unalias(t), types.Typ[types.String])
}

// c11FieldSrc is one proto.Rule field access found on a backward slice.
type c11FieldSrc struct {
	Field string
	Base  ssa.Value // the *proto.Rule value the field was read from
	Acc   ssa.Value // the Field / FieldAddr / getter call that reads it
}

// ruleFieldsOf returns the proto.Rule fields a value is computed from (through
// loads, sub-field selection, type assertion, conversion, indexing, arithmetic,
// phi).  It does not look through calls.
func (m *c11Model) ruleFieldsOf(v ssa.Value) []c11FieldSrc {
	return c11FieldsOfType(v, m.ruleT)
}

// c11FieldsOfType returns the fields of the named struct type `typ` that v is
// computed from (same walk as ruleFieldsOf; Acc is the Field/FieldAddr
// instruction of each access).
func c11FieldsOfType(v ssa.Value, typ *types.Named) []c11FieldSrc {
	seen := map[ssa.Value]bool{}
	var out []c11FieldSrc
	isRule := func(t types.Type) bool {
		for {
			if p, ok := t.Underlying().(*types.Pointer); ok {
				t = p.Elem()
				continue
			}
			break
		}
		return types.Identical(types.Unalias(t), typ)
	}
	var walk func(v ssa.Value)
	walk = func(v ssa.Value) {
		if v == nil || seen[v] {
			return
		}
		seen[v] = true
		switch x := v.(type) {
		case *ssa.FieldAddr:
			if isRule(x.X.Type()) {
				out = append(out, c11FieldSrc{fieldName(x.X.Type(), x.Field), x.X, x})
				return
			}
			walk(x.X)
		case *ssa.Field:
			if isRule(x.X.Type()) {
				out = append(out, c11FieldSrc{fieldName(x.X.Type(), x.Field), x.X, x})
				return
			}
			walk(x.X)
		case *ssa.UnOp:
			if x.Op == token.MUL {
				if al, ok := x.X.(*ssa.Alloc); ok {
					for _, r := range *al.Referrers() {
						if st, ok := r.(*ssa.Store); ok && st.Addr == al {
							walk(st.Val)
						}
					}
					return
				}
			}
			walk(x.X)
		case *ssa.TypeAssert:
			walk(x.X)
		case *ssa.Extract:
			walk(x.Tuple)
		case *ssa.Convert:
			walk(x.X)
		case *ssa.ChangeType:
			walk(x.X)
		case *ssa.ChangeInterface:
			walk(x.X)
		case *ssa.MakeInterface:
			walk(x.X)
		case *ssa.Index:
			walk(x.X)
		case *ssa.IndexAddr:
			walk(x.X)
		case *ssa.Lookup:
			walk(x.X)
		case *ssa.Slice:
			walk(x.X)
		case *ssa.BinOp:
			walk(x.X)
			walk(x.Y)
		case *ssa.Phi:
			for _, e := range x.Edges {
				walk(e)
			}
		case *ssa.Call:
			// generated getters GetX() on *proto.Rule are field reads
			if f := calleeOf(x.Common()); f != nil && strings.HasPrefix(f.Name(), "Get") {
				if sig := f.Type().(*types.Signature); sig.Recv() != nil && isRule(sig.Recv().Type()) {
					args := CallSite{x, f, x.Parent()}.Args()
					out = append(out, c11FieldSrc{strings.TrimPrefix(f.Name(), "Get"), args[0], x})
				}
			}
		}
	}
	walk(v)
	sort.Slice(out, func(i, j int) bool { return out[i].Field < out[j].Field })
	return out
}

// c11Polarity / c11Direction classify a proto.Rule match field by its name.
func c11Polarity(field string) (negated bool, rest string) {
	if strings.HasPrefix(field, "Not") && len(field) > 3 && field[3] >= 'A' && field[3] <= 'Z' {
		return true, field[3:]
	}
	return false, field
}

func c11Direction(field string) string {
	_, rest := c11Polarity(field)
	switch {
	case strings.HasPrefix(rest, "Src"):
		return "src"
	case strings.HasPrefix(rest, "Dst"):
		return "dst"
	}
	return ""
}

// c11ConstString returns the constant string value of v (through conversions).
func c11ConstString(v ssa.Value) (string, bool) {
	cv, ok := constOf(v)
	if !ok || cv.Kind() != constant.String {
		return "", false
	}
	return constant.StringVal(cv), true
}

func c11ConstInt(v ssa.Value) (int64, bool) {
	cv, ok := constOf(v)
	if !ok || cv.Kind() != constant.Int {
		return 0, false
	}
	return constant.Int64Val(cv)
}

// c11PkgConst returns the value of a package-level constant of a root package.
func c11PkgConst(c *Ctx, p *Prog, pkg, name string) constant.Value {
	k, _ := p.LookupObj(pkg, name).(*types.Const)
	if k == nil {
		c.Lost("constant %s.%s", pkg, name)
	}
	return k.Val()
}

// c11GlobalOf returns the package-level variable v is a load of (nil otherwise).
func c11GlobalOf(v ssa.Value) *ssa.Global {
	for {
		switch x := v.(type) {
		case *ssa.UnOp:
			if x.Op == token.MUL {
				v = x.X
				continue
			}
		case *ssa.Global:
			return x
		}
		return nil
	}
}

// c11Mentions collects the struct fields (of the named receiver type) and
// package-level variables that occur anywhere in the operand tree of v.
func c11Mentions(v ssa.Value, out map[string]bool) {
	seen := map[ssa.Value]bool{}
	var walk func(v ssa.Value)
	walk = func(v ssa.Value) {
		if v == nil || seen[v] {
			return
		}
		seen[v] = true
		switch x := v.(type) {
		case *ssa.Global:
			out["var:"+x.Name()] = true
			return
		case *ssa.FieldAddr:
			out["field:"+fieldName(x.X.Type(), x.Field)] = true
			return
		case *ssa.Field:
			out["field:"+fieldName(x.X.Type(), x.Field)] = true
			return
		case *ssa.Const:
			return
		case *ssa.Call:
			return
		}
		if in, ok := v.(ssa.Instruction); ok {
			for _, op := range in.Operands(nil) {
				if op != nil && *op != nil {
					walk(*op)
				}
			}
		}
	}
	walk(v)
}

// ------------------------------------------------------ emission sequences --

// regOf returns the register number if v is a constant of type asm.Reg.
func (m *c11Model) regOf(v ssa.Value) (int64, bool) {
	if !types.Identical(types.Unalias(v.Type()), m.regT) {
		return 0, false
	}
	return c11ConstInt(v)
}

// isBlockCall: e is a direct call of the asm.Block method with that name.
func (e c11Emission) is(name string) bool { return e.block && e.name == name }

// labelConst returns the constant label of a direct LabelNextInsn emission.
func (e c11Emission) labelConst() (string, bool) {
	if !e.is("LabelNextInsn") {
		return "", false
	}
	return c11ConstString(e.cs.Args()[1])
}

// segmentOf returns the emissions that follow the labelling emission l up to
// (not including) the next emission that sets a label, in dominance order.
func (m *c11Model) segmentOf(ems []c11Emission, l c11Emission) []c11Emission {
	var out []c11Emission
	for _, x := range ems {
		if x.cs.Instr == l.cs.Instr || !instrDominates(l.cs.Instr, x.cs.Instr) {
			continue
		}
		cut := false
		for _, b := range ems {
			if b.cs.Instr == l.cs.Instr {
				continue
			}
			sf := calleeFn(b.cs.Common())
			if !m.labels[sf] {
				continue
			}
			if instrDominates(l.cs.Instr, b.cs.Instr) && (b.cs.Instr == x.cs.Instr || instrDominates(b.cs.Instr, x.cs.Instr)) {
				cut = true
				break
			}
		}
		if !cut {
			out = append(out, x)
		}
	}
	return out
}

// writesReg: the emission may change register r.  Direct asm.Block methods
// whose first parameter is the destination register write that register
// (Store* use the first register as the memory base and write none); a helper
// call clobbers R0-R5; a call of another emitting builder function may write
// anything.
func (m *c11Model) writesReg(e c11Emission, r int64) (writes bool, exact bool) {
	if !e.block {
		return true, false
	}
	if e.name == "Call" {
		return r <= 5, false
	}
	if strings.HasPrefix(e.name, "Store") || strings.HasPrefix(e.name, "Jump") {
		return false, false
	}
	sig := e.cs.Callee.Type().(*types.Signature)
	if sig.Params().Len() == 0 || !types.Identical(types.Unalias(sig.Params().At(0).Type()), m.regT) {
		return false, false
	}
	d, ok := m.regOf(e.cs.Args()[1])
	if !ok {
		return true, false // unknown destination register
	}
	return d == r, true
}

// regSourceAt returns the unique emission that defines register r at emission
// `at`: the closest dominating writer, provided no other writer lies on a path
// between it and `at`.  ok=false if there is none or it is ambiguous.
func (m *c11Model) regSourceAt(ems []c11Emission, at c11Emission, r int64) (c11Emission, bool) {
	var best *c11Emission
	for i := range ems {
		w := ems[i]
		if w.cs.Instr == at.cs.Instr {
			continue
		}
		if wr, _ := m.writesReg(w, r); !wr {
			continue
		}
		if !instrDominates(w.cs.Instr, at.cs.Instr) {
			continue
		}
		if best == nil || instrDominates(best.cs.Instr, w.cs.Instr) {
			best = &ems[i]
		}
	}
	if best == nil {
		return c11Emission{}, false
	}
	for _, w := range ems {
		if w.cs.Instr == best.cs.Instr || w.cs.Instr == at.cs.Instr {
			continue
		}
		if wr, _ := m.writesReg(w, r); !wr {
			continue
		}
		if instrReaches(best.cs.Instr, w.cs.Instr) && instrReaches(w.cs.Instr, at.cs.Instr) {
			return c11Emission{}, false
		}
	}
	if _, exact := m.writesReg(*best, r); !exact {
		return c11Emission{}, false
	}
	return *best, true
}

// polRcGlobal finds the package-level asm.FieldOffset variable of polprog whose
// Field string names state->pol_rc (the repository's own link to the C field).
func (m *c11Model) fieldOffsetGlobal(cField string) *ssa.Global {
	sp := m.p.SSAPkg(c11PolPkg)
	if sp == nil {
		m.c.Lost("SSA package polprog")
	}
	init := sp.Func("init")
	if init == nil {
		m.c.Lost("polprog.init")
	}
	var found *ssa.Global
	allInstrs(init, true, func(_ *ssa.Function, in ssa.Instruction) {
		st, ok := in.(*ssa.Store)
		if !ok {
			return
		}
		s, ok := c11ConstString(st.Val)
		if !ok || s != cField {
			return
		}
		fa, ok := st.Addr.(*ssa.FieldAddr)
		if !ok {
			return
		}
		if g, ok := fa.X.(*ssa.Global); ok {
			found = g
			return
		}
		// composite literal built in a local, then copied into the global
		if al, ok := fa.X.(*ssa.Alloc); ok {
			for _, r := range *al.Referrers() {
				ld, ok := r.(*ssa.UnOp)
				if !ok || ld.Op != token.MUL {
					continue
				}
				for _, rr := range *ld.Referrers() {
					if gs, ok := rr.(*ssa.Store); ok && gs.Val == ld {
						if g, ok := gs.Addr.(*ssa.Global); ok {
							found = g
						}
					}
				}
			}
		}
	})
	if found == nil {
		m.c.Lost("no asm.FieldOffset variable in polprog with Field %q", cField)
	}
	return found
}

// usesGlobal: some argument of the emission is a load of g.
func c11UsesGlobal(e c11Emission, g *ssa.Global) bool {
	for _, a := range e.cs.Args() {
		if c11GlobalOf(a) == g {
			return true
		}
	}
	return false
}

// immediatePreds lists the emissions from which `at` is reachable on some path
// that executes no other emission in between.
func c11ImmediatePreds(ems []c11Emission, at c11Emission) []c11Emission {
	isEm := map[ssa.Instruction]bool{}
	for _, e := range ems {
		isEm[e.cs.Instr] = true
	}
	var out []c11Emission
	for _, e := range ems {
		if e.cs.Instr == at.cs.Instr {
			continue
		}
		if c11PathAvoiding(e.cs.Instr, at.cs.Instr, func(in ssa.Instruction) bool { return isEm[in] }) {
			out = append(out, e)
		}
	}
	return out
}

// c11PathAvoiding: there is a CFG path from just after `from` to `to` on which
// no instruction satisfying blocker executes.  Two facts about `for i := range s`
// loops prune infeasible paths: a loop over a statically non-empty slice is
// entered at least once, and during the first iteration the index is 0 (so a
// branch on `i > 0` takes its false edge).
func c11PathAvoiding(from, to ssa.Instruction, blocker func(ssa.Instruction) bool) bool {
	type key struct {
		pred, b *ssa.BasicBlock
		zero    ssa.Value
	}
	type item struct {
		pred, b *ssa.BasicBlock
		start   int
		zero    ssa.Value // loop index value known to be 0 on this path (first iteration)
	}
	seen := map[key]bool{}
	st := []item{{nil, from.Block(), instrIndex(from) + 1, nil}}
	for len(st) > 0 {
		it := st[len(st)-1]
		st = st[:len(st)-1]
		blocked := false
		for _, in := range it.b.Instrs[it.start:] {
			if in == to {
				return true
			}
			if blocker(in) {
				blocked = true
				break
			}
		}
		if blocked || isPanicBlock(it.b) {
			continue
		}
		entry, inc, nonEmpty, isLoop := c11RangeLoop(it.b)
		for k, s := range it.b.Succs {
			if isLoop && nonEmpty && it.pred == entry && k == 1 {
				continue // first test of a non-empty range loop cannot exit
			}
			zero := it.zero
			if ifi, ok := it.b.Instrs[len(it.b.Instrs)-1].(*ssa.If); ok && zero != nil && len(it.b.Succs) == 2 {
				if cmp, ok := ifi.Cond.(*ssa.BinOp); ok && cmp.Op == token.GTR && cmp.X == zero {
					if c0, ok := c11ConstInt(cmp.Y); ok && c0 == 0 && k == 0 {
						continue // i > 0 is false in the first iteration
					}
				}
			}
			// entering / re-entering a range loop header
			if e2, inc2, _, isLoop2 := c11RangeLoop(s); isLoop2 {
				if it.b == e2 {
					zero = inc2
				} else if zero == inc2 {
					zero = nil
				}
			}
			_ = inc
			e := key{it.b, s, zero}
			if seen[e] {
				continue
			}
			seen[e] = true
			st = append(st, item{it.b, s, 0, zero})
		}
	}
	return false
}

// c11RangeLoop recognises the header of `for i := range s` (rangeindex loop):
// entry is the predecessor from outside the loop, inc the value of the index in
// the body (phi+1).  nonEmpty: s is make([]T, n) with n a positive constant on
// every path, so the body runs at least once.
func c11RangeLoop(h *ssa.BasicBlock) (entry *ssa.BasicBlock, incV ssa.Value, nonEmpty, ok bool) {
	if len(h.Instrs) == 0 || len(h.Succs) != 2 {
		return nil, nil, false, false
	}
	ifi, isIf := h.Instrs[len(h.Instrs)-1].(*ssa.If)
	if !isIf {
		return nil, nil, false, false
	}
	cmp, isCmp := ifi.Cond.(*ssa.BinOp)
	if !isCmp || cmp.Op != token.LSS {
		return nil, nil, false, false
	}
	inc, isInc := cmp.X.(*ssa.BinOp)
	if !isInc || inc.Op != token.ADD {
		return nil, nil, false, false
	}
	phi, isPhi := inc.X.(*ssa.Phi)
	if one, okc := c11ConstInt(inc.Y); !isPhi || !okc || one != 1 || phi.Block() != h {
		return nil, nil, false, false
	}
	for i, e := range phi.Edges {
		if v, isConst := c11ConstInt(e); isConst && v == -1 {
			if entry != nil {
				return nil, nil, false, false
			}
			entry = h.Preds[i]
		}
	}
	if entry == nil {
		return nil, nil, false, false
	}
	nonEmpty = func() bool {
		ln, isCall := cmp.Y.(*ssa.Call)
		if !isCall {
			return false
		}
		if _, isLen := isBuiltinCall(ln, "len"); !isLen {
			return false
		}
		os := origins(ln.Call.Args[0], nil)
		if len(os) == 0 {
			return false
		}
		for _, o := range os {
			ms, isMake := o.V.(*ssa.MakeSlice)
			if !isMake {
				return false
			}
			lens := origins(ms.Len, nil)
			if len(lens) == 0 {
				return false
			}
			for _, l := range lens {
				if v, isConst := c11ConstInt(l.V); !isConst || v <= 0 {
					return false
				}
			}
		}
		return true
	}()
	return entry, inc, nonEmpty, true
}

// c11Separates: every CFG path from a to c passes through b (same function,
// acyclic region assumed: computed by deleting b's block position).
func c11Separates(a, b, c ssa.Instruction) bool {
	if a.Block() == c.Block() && instrIndex(a) < instrIndex(c) {
		return b.Block() == a.Block() && instrIndex(a) < instrIndex(b) && instrIndex(b) < instrIndex(c)
	}
	if b.Block() == a.Block() {
		return instrIndex(b) > instrIndex(a)
	}
	if b.Block() == c.Block() {
		return instrIndex(b) < instrIndex(c)
	}
	// search from a's successors to c's block avoiding b's block
	seen := map[*ssa.BasicBlock]bool{b.Block(): true}
	st := append([]*ssa.BasicBlock{}, a.Block().Succs...)
	for len(st) > 0 {
		x := st[len(st)-1]
		st = st[:len(st)-1]
		if seen[x] {
			continue
		}
		seen[x] = true
		if x == c.Block() {
			return false
		}
		st = append(st, x.Succs...)
	}
	return true
}

// ------------------------------------------------------------ stage helpers --

// c11BoolFieldPred: an If edge on which the bool struct field fv (or an alias
// accepted by `alias`) has the value want.
func c11BoolFieldPred(fv *types.Var, want bool, alias func(ssa.Value) bool) EdgePred {
	return func(cond ssa.Value, pol bool) bool {
		if pol != want {
			return false
		}
		if _, isLoad := cond.(*ssa.UnOp); !isLoad {
			if _, isField := cond.(*ssa.Field); !isField {
				return false
			}
		}
		return fieldVar(cond) == fv || (alias != nil && alias(cond))
	}
}

// c11TriState: +1 if every path to `in` crosses an edge where pred(true) holds,
// -1 likewise for pred(false), 0 otherwise.
func c11TriState(in ssa.Instruction, mk func(want bool) EdgePred) int {
	switch {
	case guardedCut(in, mk(true)):
		return +1
	case guardedCut(in, mk(false)):
		return -1
	}
	return 0
}

// c11EdgeTriState: like c11TriState for the CFG edge pred->succ.
func c11EdgeTriState(pred, succ *ssa.BasicBlock, mk func(want bool) EdgePred) int {
	if ifi, ok := pred.Instrs[len(pred.Instrs)-1].(*ssa.If); ok && len(pred.Succs) == 2 && pred.Succs[0] != pred.Succs[1] {
		for k, s := range pred.Succs {
			if s != succ {
				continue
			}
			c, pol := stripNot(ifi.Cond, k == 0)
			if mk(true)(c, pol) {
				return +1
			}
			if mk(false)(c, pol) {
				return -1
			}
		}
	}
	return c11TriState(pred.Instrs[len(pred.Instrs)-1], mk)
}

// c11ValueCase is one possible value of an SSA value together with the CFG
// position that selects it (the instruction itself, or a phi edge).
type c11ValueCase struct {
	V          ssa.Value
	Pred, Succ *ssa.BasicBlock // phi edge; nil for the value at its use
}

// c11CasesOf splits v into its phi alternatives (one level; conversions skipped).
func c11CasesOf(v ssa.Value) []c11ValueCase {
	for {
		switch x := v.(type) {
		case *ssa.Convert:
			v = x.X
			continue
		case *ssa.ChangeType:
			v = x.X
			continue
		}
		break
	}
	if phi, ok := v.(*ssa.Phi); ok {
		var out []c11ValueCase
		for i, e := range phi.Edges {
			out = append(out, c11ValueCase{e, phi.Block().Preds[i], phi.Block()})
		}
		return out
	}
	return []c11ValueCase{{V: v}}
}

// fieldOffsetStrings maps every package-level asm.FieldOffset variable of
// polprog to its Field string (the repository's own link to the C field).
func (m *c11Model) fieldOffsetStrings() map[*ssa.Global]string {
	sp := m.p.SSAPkg(c11PolPkg)
	if sp == nil {
		m.c.Lost("SSA package polprog")
	}
	init := sp.Func("init")
	if init == nil {
		m.c.Lost("polprog.init")
	}
	out := map[*ssa.Global]string{}
	allInstrs(init, true, func(_ *ssa.Function, in ssa.Instruction) {
		st, ok := in.(*ssa.Store)
		if !ok {
			return
		}
		s, ok := c11ConstString(st.Val)
		if !ok {
			return
		}
		fa, ok := st.Addr.(*ssa.FieldAddr)
		if !ok || fieldName(fa.X.Type(), fa.Field) != "Field" || namedTypeName(fa.X.Type()) != "FieldOffset" {
			return
		}
		if g, ok := fa.X.(*ssa.Global); ok {
			out[g] = s
			return
		}
		if al, ok := fa.X.(*ssa.Alloc); ok {
			for _, r := range *al.Referrers() {
				ld, ok := r.(*ssa.UnOp)
				if !ok || ld.Op != token.MUL {
					continue
				}
				for _, rr := range *ld.Referrers() {
					if gs, ok := rr.(*ssa.Store); ok && gs.Val == ld {
						if g, ok := gs.Addr.(*ssa.Global); ok {
							out[g] = s
						}
					}
				}
			}
		}
	})
	if len(out) == 0 {
		m.c.Lost("no asm.FieldOffset variable with a Field string in polprog")
	}
	return out
}

// c11EqFacts lists what the conditions fixed on the edge pred->succ (succ may be
// nil: on entry to pred's end) say about `v == <string constant>`.
func c11EqFacts(pred, succ *ssa.BasicBlock, v ssa.Value) (isC []string, notC []string) {
	add := func(cond ssa.Value, pol bool) {
		cond, pol = stripNot(cond, pol)
		bo, ok := cond.(*ssa.BinOp)
		if !ok || (bo.Op != token.EQL && bo.Op != token.NEQ) {
			return
		}
		if bo.Op == token.NEQ {
			pol = !pol
		}
		var s string
		var isConst bool
		switch {
		case bo.X == v:
			s, isConst = c11ConstString(bo.Y)
		case bo.Y == v:
			s, isConst = c11ConstString(bo.X)
		}
		if !isConst {
			return
		}
		if pol {
			isC = append(isC, s)
		} else {
			notC = append(notC, s)
		}
	}
	if succ != nil {
		if ifi, ok := pred.Instrs[len(pred.Instrs)-1].(*ssa.If); ok && len(pred.Succs) == 2 && pred.Succs[0] != pred.Succs[1] {
			for k, s := range pred.Succs {
				if s == succ {
					add(ifi.Cond, k == 0)
				}
			}
		}
	}
	for _, g := range guardsOfBlock(pred) {
		add(g.Cond, g.True)
	}
	return
}
