package main

import (
	"fmt"
	"go/types"
	"sort"
	"strings"

	"golang.org/x/tools/go/ssa"
)

const (
	c25Pkg      = "libcalico-go/lib/backend/syncersv1/dedupebuffer"
	c25File     = "libcalico-go/lib/backend/syncersv1/dedupebuffer/dedupe_buffer.go"
	c25Type     = "DedupeBuffer"
	c25APIPkg   = "libcalico-go/lib/backend/api"
	c25ModelPkg = "libcalico-go/lib/backend/model"
)

func init() {
	register(&Property{
		ID:        "C25",
		Title:     "Reconnecting to Typha converges without stale or lost resources",
		Technique: "static analysis: inter-procedural must-hold lockset (Lock/defer Unlock, callee summaries, derived entry states), cut-set guard analysis, per-iteration path analysis and a forward slice-ownership dataflow (hand-off to the sink) on go/ssa of the dedupe buffer",
		DesignRef: "DESIGN.md §3 C25",
		Explanation: "Decides structural clauses of the DedupeBuffer: (lock) every access to a state field of the buffer through the receiver happens with d.lock held, on every path, " +
			"where helpers inherit the lock state of all their call sites and a function that unlocks/relocks splits its body; sync.Cond.Wait is only called with the lock held; " +
			"(resync) the not-seen set is only ever assigned nil or liveResourceKeys.Copy(); the restart handler empties both queue structures; OnUpdates discards each received key " +
			"from the not-seen set in the same iteration before queueing it; the resync finisher runs only under status==InSync && notSeen!=nil, is executed (not deferred) before the status " +
			"is put on the queue, ranges over the not-seen set and queues updates whose Value is nil; " +
			"(sink) in the dedupe buffer and in the Typha client, after a slice s has been handed to SyncerCallbacks.OnUpdates no path appends to a shorter alias of s's array (s[:0], s[:k]…), assigns, copies into or clears s[0:len(s)], " +
			"or hands a slice still covering those elements to the sink again (flow-sensitive may-alias facts same/tail/overlap per SSA value, through phis and local cells); " +
			"(restart) in the Typha client's restart loop OnTyphaConnectionRestarted() is invoked after WaitGroup.Wait() for the old connection and before every new connection is started; " +
			"(live) liveResourceKeys.Add is guarded by Value!=nil and Discard by Value==nil of the same dequeued element, one of them follows the removal from keyToPendingUpdate before " +
			"the loop iterates, the function returns or the lock can be released; UpdateType is recalculated on every path that queues a non-nil value, KVUpdated under " +
			"liveResourceKeys.Contains(key) and KVNew under its negation; a pending entry is dropped outright only under Value==nil && !liveResourceKeys.Contains(key).",
		NotDecided: "Convergence itself (the fixed-point argument over all interleavings); contents of sets at run time; that the sink processes batches in order; aliasing through list elements " +
			"(*list.Element values are not tracked by the lockset); that the finisher's not-seen set is nilled on every exit (not necessary for the downstream view: a stale set only produces " +
			"redundant deletions of keys that are not live).",
		Assumptions: []string{
			"go/types + go/ssa (x/tools v0.50.0) model of the current source, CGO_ENABLED=0 build, non-test files",
			"one DedupeBuffer per method activation: state is reached only through the method receiver (anything else is reported undecided)",
			"functions called through interfaces or function values (the sink, logrus, set.Set) do not touch the buffer's private mutex",
			"range-over-func bodies run synchronously inside the iterator call; logrus Panic*/Fatal* do not return",
		},
		Run: runC25,
		Fixtures: []Fixture{
			{Name: "Stop writes the stopped flag without taking the lock", File: c25File,
				Old: "\td.lock.Lock()\n\tdefer d.lock.Unlock()\n\td.stopped = true", New: "\td.stopped = true", Expect: "C25.lock/DedupeBuffer.Stop/stopped"},
			{Name: "sender loop calls the LockHeld helper without the lock", File: c25File,
				Old: "\td.lock.Lock()\n\tdefer d.lock.Unlock()\n\tfor !d.stopped {", New: "\tfor !d.stopped {", Expect: "C25.lock/DedupeBuffer.pullNextBatch/liveResourceKeys"},
			{Name: "dropLockAndSendBatch does not retake the lock", File: c25File,
				Old: "\td.lock.Unlock()\n\tdefer d.lock.Lock()\n", New: "\td.lock.Unlock()\n", Expect: "C25.lock/DedupeBuffer.sendNextBatchToSinkLockHeld/pendingUpdates"},
			{Name: "state touched while the lock is dropped for the send", File: c25File,
				Old: "\tdebug := log.IsLevelEnabled(log.DebugLevel)\n\tupdates := make([]api.Update, 0, len(buf))", New: "\tdebug := log.IsLevelEnabled(log.DebugLevel)\n\td.peakPendingUpdatesLen = 0\n\tupdates := make([]api.Update, 0, len(buf))", Expect: "C25.lock/DedupeBuffer.dropLockAndSendBatch/peakPendingUpdatesLen"},
			{Name: "not-seen set aliases the live set instead of copying it", File: c25File,
				Old: "d.liveKeysNotSeenSinceReconnect = d.liveResourceKeys.Copy()", New: "d.liveKeysNotSeenSinceReconnect = d.liveResourceKeys", Expect: "C25.resync/snapshot-copy"},
			{Name: "restart keeps the pending map", File: c25File,
				Old: "\tclear(d.keyToPendingUpdate)\n", New: "", Expect: "C25.resync/reset-queue/DedupeBuffer.OnTyphaConnectionRestarted/keyToPendingUpdate"},
			{Name: "restart keeps the pending list", File: c25File,
				Old: "\td.pendingUpdates = list.List{}\n", New: "", Expect: "C25.resync/reset-queue/DedupeBuffer.OnTyphaConnectionRestarted/pendingUpdates"},
			{Name: "keys re-sent after a reconnect are not marked as seen", File: c25File,
				Old: "\t\tif d.liveKeysNotSeenSinceReconnect != nil {\n\t\t\td.liveKeysNotSeenSinceReconnect.Discard(u.Key)\n\t\t}\n", New: "", Expect: "C25.resync/mark-seen"},
			{Name: "resync finished on any status", File: c25File,
				Old: "if status == api.InSync && d.liveKeysNotSeenSinceReconnect != nil {", New: "if d.liveKeysNotSeenSinceReconnect != nil {", Expect: "C25.resync/finish-guard/DedupeBuffer.OnStatusUpdated/insync"},
			{Name: "synthesized deletions deferred until after the in-sync is queued", File: c25File,
				Old: "\t\td.onInSyncAfterReconnection()\n", New: "\t\tdefer d.onInSyncAfterReconnection()\n", Expect: "C25.resync/finish-before-status"},
			{Name: "finisher deletes every live key", File: c25File,
				Old: "for key := range d.liveKeysNotSeenSinceReconnect.All() {", New: "for key := range d.liveResourceKeys.All() {", Expect: "C25.resync/synth-delete/DedupeBuffer.onInSyncAfterReconnection/range"},
			{Name: "synthesized update is not a deletion", File: c25File,
				Old: "\t\t\t\tValue: nil,\n", New: "\t\t\t\tValue: key,\n", Expect: "C25.resync/synth-delete/DedupeBuffer.onInSyncAfterReconnection/nil-value"},
			{Name: "client reconnects without announcing the restart", File: "typha/pkg/syncclient/sync_client.go",
				Old: "\t\t\t\trac.OnTyphaConnectionRestarted()\n", New: "\t\t\t\t_ = rac\n", Expect: "C25.restart/notify-before-reconnect"},
			{Name: "restart announced while the old connection may still deliver", File: "typha/pkg/syncclient/sync_client.go",
				Old: "\t\t\tconnectionFinishedWG.Wait()\n", New: "", Expect: "C25.restart/old-connection-finished"},
			{Name: "batch buffer rewound over the updates just handed to the sink", File: c25File,
				Old: "\t\t\t\tsink.OnUpdates(updates)\n\t\t\t\tupdates = updates[len(updates):]", New: "\t\t\t\tsink.OnUpdates(updates)\n\t\t\t\tupdates = updates[:0]", Expect: "C25.sink/DedupeBuffer.dropLockAndSendBatch/no-write-after-handoff"},
			{Name: "handed updates cleared to drop references", File: c25File,
				Old: "\t\t\t\tsink.OnUpdates(updates)\n\t\t\t\tupdates = updates[len(updates):]", New: "\t\t\t\tsink.OnUpdates(updates)\n\t\t\t\tclear(updates)\n\t\t\t\tupdates = updates[len(updates):]", Expect: "C25.sink/DedupeBuffer.dropLockAndSendBatch/no-write-after-handoff"},
			{Name: "updates sent before a status are sent again after it", File: c25File,
				Old: "\t\t\t\tsink.OnUpdates(updates)\n\t\t\t\tupdates = updates[len(updates):] // Re-slice to end so we don't share storage.\n", New: "\t\t\t\tsink.OnUpdates(updates)\n", Expect: "C25.sink/DedupeBuffer.dropLockAndSendBatch/no-redelivery"},
			{Name: "live set updated with inverted sense", File: c25File,
				Old: "if u.update.Value == nil {", New: "if u.update.Value != nil {", Expect: "C25.live/add-guard"},
			{Name: "sent keys are never added to the live set", File: c25File,
				Old: "\t\t\tif u.update.Value == nil {\n\t\t\t\td.liveResourceKeys.Discard(key)\n\t\t\t} else {\n\t\t\t\td.liveResourceKeys.Add(key)\n\t\t\t}", New: "\t\t\tif u.update.Value == nil {\n\t\t\t\td.liveResourceKeys.Discard(key)\n\t\t\t}", Expect: "C25.live/dequeue-paired"},
			{Name: "new/updated swapped", File: c25File,
				Old: "\t\t\tu.UpdateType = api.UpdateTypeKVUpdated\n\t\t} else {\n\t\t\tu.UpdateType = api.UpdateTypeKVNew\n", New: "\t\t\tu.UpdateType = api.UpdateTypeKVNew\n\t\t} else {\n\t\t\tu.UpdateType = api.UpdateTypeKVUpdated\n", Expect: "C25.live/type/DedupeBuffer.queueUpdate/KVUpdated"},
			{Name: "update type only recalculated for keys not already queued", File: c25File,
				Old: "\tif u.Value != nil {\n\t\t// A new KV or an update.", New: "\tif u.Value != nil && d.keyToPendingUpdate[key] == nil {\n\t\t// A new KV or an update.", Expect: "C25.live/type-recalc"},
			{Name: "pending deletion of a live key dropped outright", File: c25File,
				Old: "if u.Value == nil && !d.liveResourceKeys.Contains(key) {", New: "if u.Value == nil {", Expect: "C25.live/drop/DedupeBuffer.queueUpdate/delete/not-live"},
		},
	})
}

// c25Model holds the resolved anchors of the dedupe buffer.
type c25Model struct {
	c  *Ctx
	p  *Prog
	L  *c25Locks
	ip *c26IP

	live, unseen, pmap, plist *types.Var
	kvValue                   *types.Var // model.KVPair.Value
	updType                   *types.Var // api.Update.UpdateType
	inSync                    *types.Const
	kvNew, kvUpdated          *types.Const

	all                                      []*ssa.Function // every function of the package incl. closures
	fnQueue, fnDequeue, fnFinish, fnOnUpdate *ssa.Function
	fnRestart                                []*ssa.Function
}

func runC25(c *Ctx) {
	p := c.Load(c25Pkg)
	m := &c25Model{c: c, p: p}

	c.Rule("C25.lock", "E-LOCK", "every access to a guarded DedupeBuffer field (and every Cond.Wait) happens with d.lock held on every path; one obligation per function and field (floor: one per guarded field, each of which must have an access point)", 8)
	c.Rule("C25.resync", "E-FLOW/E-PAIR/E-GUARD/E-ORDER", "restart handler snapshots a copy of the live set and empties the queue; OnUpdates marks keys seen; the finisher runs under InSync&&notSeen!=nil before the status is queued and synthesizes deletions for the not-seen set", 10)
	c.Rule("C25.live", "E-GUARD/E-PAIR", "live-set bookkeeping at dequeue follows Value nil-ness; UpdateType recalculated from live-set membership; pending entries dropped only for deletions of non-live keys", 10)

	c.Rule("C25.restart", "E-ORDER", "the Typha client calls OnTyphaConnectionRestarted after the old connection's goroutines finished and before every reconnection", 2)

	c.Rule("C25.sink", "E-FLOW", "a slice handed to SyncerCallbacks.OnUpdates (the sink may keep it) is never written afterwards and its elements are not handed over twice: later appends go to nil, a fresh slice or s[len(s):]", 3)

	// Every family resolves what it needs and runs on its own: an anchor lost by one family
	// (exit 2) never silences the others.  The combined loss is raised at the end.
	var lost []string
	c23Guarded(&lost, m.lockRule)
	if m.L != nil {
		c23Guarded(&lost, m.resolve)
	}
	if m.ip != nil {
		for _, fam := range []func(){m.resyncSnapshot, m.resyncResetQueue, m.resyncMarkSeen, m.resyncFinish, m.resyncSynth,
			m.liveGuards, m.liveDequeueAndDrop, m.liveType, m.liveTypeRecalc} {
			c23Guarded(&lost, fam)
		}
	}
	nSink := 0
	c23Guarded(&lost, func() { nSink += c25SinkRule(c, p, c25Pkg) })
	c23Guarded(&lost, func() { nSink += c25RestartRules(c) })
	if nSink < 3 {
		lost = append(lost, fmt.Sprintf("expected >= 3 SyncerCallbacks.OnUpdates hand-offs in %s and %s, found %d", c25Pkg, c25ClientPkg, nSink))
	}
	if len(lost) > 0 {
		c.Lost("%s", strings.Join(lost, " | "))
	}
}

// ---------------------------------------------------------------- C25.sink --

// c25SinkRule: every call of api.SyncerCallbacks.OnUpdates(s) in pkg hands the
// slice over for good.  Felix's consumers queue the slice and read it later on
// another goroutine, so a write into s[0:len(s)] after the call silently
// replaces updates that downstream has not applied yet, and handing the same
// elements again delivers them twice.  Returns the number of hand-off sites.
func c25SinkRule(c *Ctx, p *Prog, pkg string) int {
	sinkArg := func(in ssa.Instruction) ssa.Value {
		ci, ok := in.(ssa.CallInstruction)
		if !ok {
			return nil
		}
		cc := ci.Common()
		if !cc.IsInvoke() || cc.Method.Name() != "OnUpdates" || len(cc.Args) != 1 {
			return nil
		}
		if cc.Method.Pkg() == nil || cc.Method.Pkg().Path() != calicoPrefix+c25APIPkg {
			return nil
		}
		if _, isSlice := cc.Args[0].Type().Underlying().(*types.Slice); !isSlice {
			return nil
		}
		return cc.Args[0]
	}
	n := 0
	for _, f := range p.AllFuncs() {
		if f.Pkg == nil || f.Pkg.Pkg.Path() != calicoPrefix+pkg || f.Blocks == nil {
			continue
		}
		sinks, issues, undecided := c25HandedFlow(f, sinkArg)
		if len(sinks) == 0 {
			continue
		}
		host := fnName(f)
		bySite := map[ssa.Instruction]bool{}
		for _, u := range undecided {
			bySite[u] = true
		}
		for _, s := range sinks {
			n++
			if bySite[s] {
				c.Undecided("C25.sink/"+host, p.Pos(s.Pos()), "the slice handed to OnUpdates in %s lives in a captured variable, field or global; its later uses are not modelled", host)
			}
		}
		for _, is := range issues {
			switch is.Kind {
			case "redeliver":
				c.Violate("C25.sink/"+host+"/no-redelivery", p.Pos(is.At.Pos()), "%s: %s (downstream would see already applied updates again, e.g. KVNew for a key it holds)", host, is.What)
			default:
				c.Violate("C25.sink/"+host+"/no-write-after-handoff", p.Pos(is.At.Pos()), "%s: %s; the sink may process the slice asynchronously, so updates it has not applied yet are replaced (stale values / lost deletions downstream)", host, is.What)
			}
		}
		if len(issues) == 0 {
			for _, s := range sinks {
				if !bySite[s] {
					c.Ok("C25.sink/"+host, p.Pos(s.Pos()), "after OnUpdates(s) no path appends into, stores to, copies into or clears s[0:len(s)], nor hands those elements over again")
				}
			}
		}
	}
	return n
}

// ---------------------------------------------------------------- C25.lock --

func (m *c25Model) lockRule() {
	c, p := m.c, m.p
	L, lost := c25Lockset(p, c25LockSpec{Pkg: c25Pkg, Type: c25Type, LockField: "lock",
		Unguarded: map[string]bool{"lock": true, "cond": true}})
	if lost != "" {
		c.Lost("%s", lost)
	}
	m.L = L
	// cond must really be write-once (constructor only), otherwise it is guarded state too.
	for _, f := range L.funcs {
		for _, st := range storesToField(f, false, c25Type, "cond") {
			fa := st.Addr.(*ssa.FieldAddr)
			if L.baseKind(fa.X, 0) != "fresh" {
				c.Violate("C25.lock/"+fnName(topFn(f))+"/cond", p.Pos(st.Pos()), "cond is assigned outside the constructor; it is treated as immutable, unguarded state")
			}
		}
	}
	for _, pr := range L.Problems {
		c.Undecided("C25.lock/engine", "-", "%s", pr)
	}
	type grp struct {
		fn    *ssa.Function
		field string
		n     int
		bad   []c25Access
	}
	groups := map[string]*grp{}
	for _, a := range L.Accesses {
		k := fnName(topFn(a.Fn)) + "/" + a.Field
		g := groups[k]
		if g == nil {
			g = &grp{fn: topFn(a.Fn), field: a.Field}
			groups[k] = g
		}
		g.n++
		if !a.Held {
			g.bad = append(g.bad, a)
		}
	}
	// Coverage: every guarded field of the struct has at least one access point.  (The number
	// of function × field groups changes when helpers are extracted or inlined; the set of
	// guarded fields does not, so the floor of the family is one instance per guarded field.)
	covered := map[string]bool{}
	for _, a := range L.Accesses {
		covered[a.Field] = true
	}
	if st, ok := L.named.Underlying().(*types.Struct); ok {
		var missing []string
		for i := 0; i < st.NumFields(); i++ {
			if n := st.Field(i).Name(); !L.spec.Unguarded[n] && !covered[n] {
				missing = append(missing, n)
			}
		}
		if len(missing) > 0 {
			c.Lost("no access point found for guarded field(s) %v of %s (lockset engine blind?)", missing, c25Type)
		}
	}
	for _, k := range sortedKeys(groups) {
		g := groups[k]
		if len(g.bad) == 0 {
			c.Ok("C25.lock/"+k, p.Pos(g.fn.Pos()), "%d access point(s) of %s in %s, lock held at each; %s", g.n, g.field, fnName(g.fn), L.EntryReason(g.fn))
			continue
		}
		var where []string
		for _, a := range g.bad {
			where = append(where, fmt.Sprintf("%s %s in %s", p.Pos(a.At.Pos()), a.Kind, fnName(a.Fn)))
		}
		sort.Strings(where)
		c.Violate("C25.lock/"+k, p.Pos(g.bad[0].At.Pos()), "%s.%s accessed without d.lock held on some path: %s; %s is %s",
			c25Type, g.field, strings.Join(c25Uniq(where), ", "), fnName(g.fn), L.EntryReason(g.fn))
	}
}

// ----------------------------------------------------------------- anchors --

func (m *c25Model) fieldOrLost(name string) *types.Var {
	v, _ := m.p.LookupObj(c25Pkg, c25Type+"."+name).(*types.Var)
	if v == nil {
		m.c.Lost("%s.%s", c25Type, name)
	}
	return v
}

func (m *c25Model) resolve() {
	c, p := m.c, m.p
	m.live = m.fieldOrLost("liveResourceKeys")
	m.unseen = m.fieldOrLost("liveKeysNotSeenSinceReconnect")
	// the two queue structures are identified by type
	tn, _ := p.LookupObj(c25Pkg, c25Type).(*types.TypeName)
	if tn == nil {
		c.Lost("%s", c25Type)
	}
	st := tn.Type().Underlying().(*types.Struct)
	for i := 0; i < st.NumFields(); i++ {
		f := st.Field(i)
		if qualTypeName(f.Type()) == "container/list.List" {
			if m.plist != nil {
				c.Lost("two list.List fields in %s", c25Type)
			}
			m.plist = f
		}
		if mp, ok := f.Type().Underlying().(*types.Map); ok && qualTypeName(mp.Elem()) == "container/list.Element" {
			if m.pmap != nil {
				c.Lost("two map[…]*list.Element fields in %s", c25Type)
			}
			m.pmap = f
		}
	}
	if m.plist == nil || m.pmap == nil {
		c.Lost("queue structures of %s (list.List field %v, map[Key]*list.Element field %v)", c25Type, m.plist, m.pmap)
	}
	m.kvValue, _ = p.LookupExt(c25ModelPkg, "KVPair.Value").(*types.Var)
	m.updType, _ = p.LookupExt(c25APIPkg, "Update.UpdateType").(*types.Var)
	m.inSync, _ = p.LookupExt(c25APIPkg, "InSync").(*types.Const)
	m.kvNew, _ = p.LookupExt(c25APIPkg, "UpdateTypeKVNew").(*types.Const)
	m.kvUpdated, _ = p.LookupExt(c25APIPkg, "UpdateTypeKVUpdated").(*types.Const)
	if m.kvValue == nil || m.updType == nil || m.inSync == nil || m.kvNew == nil || m.kvUpdated == nil {
		c.Lost("model.KVPair.Value / api.Update.UpdateType / api.InSync / api.UpdateTypeKV*")
	}
	m.all = m.L.funcs
	m.ip = c26NewIP(m.all)

}

// uniq: the one top-level function of the package satisfying pred.
func (m *c25Model) uniq(what string, pred func(f *ssa.Function) bool) *ssa.Function {
	var out []*ssa.Function
	seen := map[*ssa.Function]bool{}
	for _, f := range m.all {
		if pred(f) && !seen[topFn(f)] {
			seen[topFn(f)] = true
			out = append(out, topFn(f))
		}
	}
	if len(out) != 1 {
		var ns []string
		for _, f := range out {
			ns = append(ns, fnName(f))
		}
		m.c.Lost("%s: expected exactly one function, found %v", what, ns)
	}
	return out[0]
}

// The roles are located by what the functions do and resolved on first use, so a
// family only depends on the anchors it really needs.
func (m *c25Model) queueFn() *ssa.Function {
	if m.fnQueue == nil {
		m.fnQueue = m.uniq("enqueue function (inserts into "+m.pmap.Name()+")", func(f *ssa.Function) bool {
			for _, mu := range mapUpdatesOfField(f, false, c25Type, m.pmap.Name()) {
				if fieldVar(mu.Map) == m.pmap {
					return true
				}
			}
			return false
		})
	}
	return m.fnQueue
}

func (m *c25Model) dequeueFn() *ssa.Function {
	if m.fnDequeue == nil {
		m.fnDequeue = m.uniq("dequeue function (calls "+m.plist.Name()+".Front)", func(f *ssa.Function) bool {
			return len(m.callsOnField(f, m.plist, "Front")) > 0
		})
	}
	return m.fnDequeue
}

func (m *c25Model) restartFns() []*ssa.Function {
	if m.fnRestart == nil {
		seen := map[*ssa.Function]bool{}
		for _, f := range m.all {
			for _, s := range storesToField(f, false, c25Type, m.unseen.Name()) {
				if !isNilConst(s.Val) && !seen[topFn(f)] {
					seen[topFn(f)] = true
					m.fnRestart = append(m.fnRestart, topFn(f))
				}
			}
		}
		if len(m.fnRestart) == 0 {
			m.c.Lost("no function starts a resync (non-nil store to %s)", m.unseen.Name())
		}
	}
	return m.fnRestart
}

func (m *c25Model) finishFn() *ssa.Function {
	if m.fnFinish == nil {
		restart := map[*ssa.Function]bool{}
		for _, f := range m.restartFns() {
			restart[f] = true
		}
		m.fnFinish = m.uniq("resync finisher (stores nil to "+m.unseen.Name()+")", func(f *ssa.Function) bool {
			if restart[topFn(f)] {
				return false
			}
			for _, s := range storesToField(f, false, c25Type, m.unseen.Name()) {
				if isNilConst(s.Val) {
					return true
				}
			}
			return false
		})
	}
	return m.fnFinish
}

func (m *c25Model) onUpdateFn() *ssa.Function {
	if m.fnOnUpdate == nil {
		m.fnOnUpdate = m.p.Func(c25Pkg, c25Type+".OnUpdates")
		if m.fnOnUpdate == nil {
			m.c.Lost("%s.OnUpdates (api.SyncerCallbacks)", c25Type)
		}
	}
	return m.fnOnUpdate
}

func (m *c25Model) callsOnField(f *ssa.Function, fv *types.Var, name string) []CallSite {
	var out []CallSite
	for _, cs := range callsIn(f, false, func(fn *types.Func) bool { return fn.Name() == name }) {
		if c25CallOnField(cs, fv, name) {
			out = append(out, cs)
		}
	}
	return out
}

// callsTo lists the call sites (Call, Defer, Go) of target in f.
func (m *c25Model) callsTo(f, target *ssa.Function) []ssa.CallInstruction {
	var out []ssa.CallInstruction
	for _, b := range f.Blocks {
		for _, in := range b.Instrs {
			if ci, ok := in.(ssa.CallInstruction); ok && calleeFn(ci.Common()) == target {
				out = append(out, ci)
			}
		}
	}
	return out
}

// valueNil: edge on which a KVPair.Value hanging off `root` (any root if nil) is
// nil / non-nil.
func (m *c25Model) valueNil(wantNil bool, root ssa.Value) EdgePred {
	return c25NilCond(wantNil, func(v ssa.Value) bool {
		return fieldVar(v) == m.kvValue && (root == nil || c25CanonRoot(v) == root)
	})
}

func (m *c25Model) isInSyncConst(v ssa.Value) bool {
	cst, ok := v.(*ssa.Const)
	return ok && cst.Value != nil && cst.Value.ExactString() == m.inSync.Val().ExactString() && types.Identical(cst.Type(), m.inSync.Type())
}

func (m *c25Model) isStatusParam(v ssa.Value) bool {
	pa, ok := v.(*ssa.Parameter)
	return ok && types.Identical(pa.Type(), m.inSync.Type())
}

// -------------------------------------------------------------- C25.resync --

func (m *c25Model) resyncSnapshot() {
	c, p := m.c, m.p

	// (a) the not-seen set is only ever nil or a Copy() of the live set
	nStores := 0
	for _, f := range m.all {
		for _, st := range storesToField(f, false, c25Type, m.unseen.Name()) {
			if isNilConst(st.Val) {
				continue
			}
			nStores++
			key := "C25.resync/snapshot-copy/" + fnName(topFn(f))
			os := origins(st.Val, nil)
			ok := len(os) == 1 && os[0].Kind == "call"
			if ok {
				cs, _ := condCall(os[0].V)
				ok = c25CallOnField(cs, m.live, "Copy")
			}
			c.Check(ok, key, p.Pos(st.Pos()),
				m.unseen.Name()+" = "+m.live.Name()+".Copy()",
				fmt.Sprintf("%s is assigned %s, not a fresh %s.Copy(): marking keys as seen would mutate shared state / miss keys", m.unseen.Name(), path(st.Val), m.live.Name()))
		}
	}
	if nStores == 0 {
		c.Lost("no non-nil store to %s", m.unseen.Name())
	}

}

func (m *c25Model) resyncResetQueue() {
	c, p := m.c, m.p
	// (b) whoever starts a resync empties both queue structures before returning
	for _, f := range m.restartFns() {
		rets := c25Returns(f)
		var clearsMap, clearsList []ssa.Instruction
		allInstrs(f, false, func(_ *ssa.Function, in ssa.Instruction) {
			if cc, ok := isBuiltinCall(in, "clear"); ok && len(cc.Args) == 1 && fieldVar(cc.Args[0]) == m.pmap {
				clearsMap = append(clearsMap, in)
			}
			if st, ok := in.(*ssa.Store); ok {
				if fieldVar(st.Addr) == m.pmap {
					if _, isMake := st.Val.(*ssa.MakeMap); isMake {
						clearsMap = append(clearsMap, in)
					}
				}
				if fieldVar(st.Addr) == m.plist && isNilConst(st.Val) {
					clearsList = append(clearsList, in)
				}
			}
		})
		for _, cs := range m.callsOnField(f, m.plist, "Init") {
			clearsList = append(clearsList, cs.Instr)
		}
		domAll := func(cands []ssa.Instruction) bool {
			if len(rets) == 0 {
				return false
			}
			for _, r := range rets {
				ok := false
				for _, x := range cands {
					if instrDominates(x, r) {
						ok = true
					}
				}
				if !ok {
					return false
				}
			}
			return true
		}
		c.Check(domAll(clearsMap), "C25.resync/reset-queue/"+fnName(f)+"/"+m.pmap.Name(), p.Pos(f.Pos()),
			fnName(f)+" clears "+m.pmap.Name()+" on every returning path",
			fnName(f)+" starts a resync but does not clear "+m.pmap.Name()+" on every returning path (updates from the dead connection stay tracked)")
		c.Check(domAll(clearsList), "C25.resync/reset-queue/"+fnName(f)+"/"+m.plist.Name(), p.Pos(f.Pos()),
			fnName(f)+" resets "+m.plist.Name()+" on every returning path",
			fnName(f)+" starts a resync but does not reset "+m.plist.Name()+" on every returning path (updates from the dead connection are still delivered)")
	}

}

func (m *c25Model) resyncMarkSeen() {
	c, p := m.c, m.p
	// (c) OnUpdates marks every received key as seen before queueing it
	nQ := 0
	for _, f := range withClosures([]*ssa.Function{m.onUpdateFn()}) {
		for _, call := range m.callsTo(f, m.queueFn()) {
			nQ++
			key := "C25.resync/mark-seen/" + fnName(m.onUpdateFn())
			site := p.Pos(call.Pos())
			args := call.Common().Args
			if len(args) < 2 {
				c.Undecided(key, site, "enqueue call without key argument")
				continue
			}
			keyArg := args[1]
			from, ok := c25IterationStart(keyArg, call)
			if !ok {
				c.Undecided(key, site, "cannot find where the queued key %s is defined", path(keyArg))
				continue
			}
			kp := strings.Join(c25FieldChain(keyArg), ".")
			root := c25CanonRoot(keyArg)
			same := func(v ssa.Value) bool { return c25CanonRoot(v) == root && strings.Join(c25FieldChain(v), ".") == kp }
			hit := c25Reach(f, from,
				func(in ssa.Instruction) bool { return in == ssa.Instruction(call) },
				func(in ssa.Instruction) bool {
					if from != nil && in == from {
						return true // next iteration
					}
					ci, ok := in.(*ssa.Call)
					if !ok {
						return false
					}
					cs := CallSite{ci, calleeOf(ci.Common()), f}
					if c25CallOnField(cs, m.unseen, "Discard") && len(cs.Args()) == 2 && same(cs.Args()[1]) {
						return true
					}
					// an extracted helper that discards its key parameter on every path
					if sf := calleeFn(ci.Common()); sf != nil && sf != m.queueFn() && m.L.inPkg[sf] {
						for i, a := range ci.Call.Args {
							if same(a) && m.discardsParam(sf, i) {
								return true
							}
						}
					}
					return false
				},
				c25NilCond(true, func(v ssa.Value) bool { return c25FieldLoad(v, m.unseen) }))
			c.Check(hit == nil, key, site,
				"every path to the enqueue of "+path(keyArg)+" discards it from "+m.unseen.Name()+" (or the set is nil)",
				"a received update for "+path(keyArg)+" can be queued without being discarded from "+m.unseen.Name()+": the resource would be deleted at the end of the resync")
		}
	}
	if nQ == 0 {
		c.Lost("%s does not call %s", fnName(m.onUpdateFn()), fnName(m.queueFn()))
	}

}

func (m *c25Model) resyncFinish() {
	c, p := m.c, m.p
	// (d) the finisher runs only under status==InSync && notSeen!=nil, before the status is queued
	nCalls := 0
	for _, f := range m.all {
		calls := m.callsTo(f, m.finishFn())
		if len(calls) == 0 {
			continue
		}
		insync := eqCond(true, m.isStatusParam, m.isInSyncConst)
		notInsync := eqCond(false, m.isStatusParam, m.isInSyncConst)
		for _, call := range calls {
			nCalls++
			site := p.Pos(call.Pos())
			c.Check(guardedCut(call, insync), "C25.resync/finish-guard/"+fnName(f)+"/insync", site,
				"finisher called only under status == api.InSync",
				fnName(m.finishFn())+" can run for a status other than InSync: keys not yet re-sent would be deleted mid-resync")
			c.Check(guardedCut(call, c25NilCond(false, func(v ssa.Value) bool { return c25FieldLoad(v, m.unseen) })),
				"C25.resync/finish-guard/"+fnName(f)+"/resyncing", site,
				"finisher called only while a resync is in progress ("+m.unseen.Name()+" != nil)",
				fnName(m.finishFn())+" can run with "+m.unseen.Name()+" == nil")
		}
		// enqueue sites of the status in f
		var enq []ssa.Instruction
		fromStatus := func(v ssa.Value) bool {
			for _, o := range origins(v, nil) {
				if o.Kind == "param" && m.isStatusParam(o.V) {
					return true
				}
			}
			return false
		}
		allInstrs(f, false, func(_ *ssa.Function, in ssa.Instruction) {
			switch x := in.(type) {
			case *ssa.Call:
				cal := calleeOf(x.Common())
				if cal == nil || qualTypeName(c25RecvOf(cal)) != "container/list.List" || len(x.Call.Args) < 2 || fieldVar(x.Call.Args[0]) != m.plist {
					return
				}
				for _, a := range x.Call.Args[1:] {
					if fromStatus(a) {
						enq = append(enq, in)
						return
					}
				}
			case *ssa.Store:
				if fv := fieldVar(x.Addr); fv != nil && fv.Name() == "Value" && fromStatus(x.Val) {
					if fa, ok := x.Addr.(*ssa.FieldAddr); ok && qualTypeName(fa.X.Type()) == "container/list.Element" {
						enq = append(enq, in)
					}
				}
			}
		})
		if len(enq) == 0 {
			c.Lost("no site in %s puts the status on %s", fnName(f), m.plist.Name())
		}
		isFinishCall := func(in ssa.Instruction) bool {
			ci, ok := in.(*ssa.Call) // a deferred call does not run here
			return ok && calleeFn(ci.Common()) == m.finishFn()
		}
		for i, e := range enq {
			kind := "store"
			if ci, ok := e.(*ssa.Call); ok {
				kind = calleeOf(ci.Common()).Name()
			}
			key := fmt.Sprintf("C25.resync/finish-before-status/%s/%s", fnName(f), kind)
			_ = i
			early := c25Reach(f, nil, func(in ssa.Instruction) bool { return in == e }, isFinishCall,
				anyOf(notInsync, c25NilCond(true, func(v ssa.Value) bool { return c25FieldLoad(v, m.unseen) })))
			late := c25Reach(f, e, isFinishCall, nil, nil)
			switch {
			case early != nil:
				c.Violate(key, p.Pos(e.Pos()), "with status==InSync during a resync the status can be queued at %s before %s has run: downstream is told in-sync before the synthesized deletions", p.Pos(e.Pos()), fnName(m.finishFn()))
			case late != nil:
				c.Violate(key, p.Pos(e.Pos()), "%s can run after the status was queued at %s", fnName(m.finishFn()), p.Pos(e.Pos()))
			default:
				c.Ok(key, p.Pos(e.Pos()), "status queued only after %s ran (or status!=InSync, or no resync)", fnName(m.finishFn()))
			}
		}
	}
	if nCalls == 0 {
		c.Lost("%s is never called", fnName(m.finishFn()))
	}

}

func (m *c25Model) resyncSynth() {
	c, p := m.c, m.p
	// (e) the finisher synthesizes deletions for exactly the not-seen keys
	nSynth := 0
	for _, f := range withClosures([]*ssa.Function{m.finishFn()}) {
		for _, call := range m.callsTo(f, m.queueFn()) {
			nSynth++
			site := p.Pos(call.Pos())
			base := "C25.resync/synth-delete/" + fnName(m.finishFn())
			rf, rs := p.rangedField(call.Pos())
			rangedOK := rf == m.unseen
			keyIsRangeVar := false
			if rs != nil && len(call.Common().Args) >= 2 {
				// the key passed is the range variable (a yield parameter / Next extract)
				switch k := call.Common().Args[1].(type) {
				case *ssa.Parameter:
					keyIsRangeVar = f.Synthetic == "range-over-func yield" && len(f.Params) > 0 && f.Params[0] == k
				case *ssa.Extract:
					_, keyIsRangeVar = k.Tuple.(*ssa.Next)
				}
			}
			what := "<not a field>"
			if rf != nil {
				what = rf.Name()
			}
			c.Check(rangedOK && keyIsRangeVar, base+"/range", site,
				"deletions are queued for each key ranged from "+m.unseen.Name(),
				fmt.Sprintf("%s queues updates while ranging over %s (key is range variable: %v), not over %s", fnName(m.finishFn()), what, keyIsRangeVar, m.unseen.Name()))
			if len(call.Common().Args) < 3 {
				c.Undecided(base+"/nil-value", site, "enqueue call without update argument")
				continue
			}
			isNil, decided, why := m.updateValueIsNil(f, call.Common().Args[2])
			if !decided {
				c.Undecided(base+"/nil-value", site, "%s", why)
				continue
			}
			c.Check(isNil, base+"/nil-value", site, "synthesized update has Value == nil (a deletion)", "synthesized update carries a non-nil Value ("+why+"): it would not delete the resource downstream")
		}
	}
	if nSynth == 0 {
		c.Lost("%s does not call %s", fnName(m.finishFn()), fnName(m.queueFn()))
	}
}

func c25RecvOf(f *types.Func) types.Type {
	if sig, ok := f.Type().(*types.Signature); ok && sig.Recv() != nil {
		return sig.Recv().Type()
	}
	return types.Typ[types.Invalid]
}

// c25IterationStart finds the instruction after which the value `v` (a field
// chain) is fixed until `use`: the defining instruction of its root, or the only
// store into the local variable it hangs off.  (nil, true) = function entry.
func c25IterationStart(v ssa.Value, use ssa.Instruction) (ssa.Instruction, bool) {
	root := c25CanonRoot(v)
	switch r := root.(type) {
	case *ssa.Parameter, *ssa.FreeVar, *ssa.Global, *ssa.Const:
		return nil, true
	case *ssa.Alloc:
		var stores []*ssa.Store
		if refs := r.Referrers(); refs != nil {
			for _, x := range *refs {
				if st, ok := x.(*ssa.Store); ok && st.Addr == ssa.Value(r) {
					stores = append(stores, st)
				}
			}
		}
		if len(stores) == 1 && instrDominates(stores[0], use) {
			return stores[0], true
		}
		return nil, false
	}
	if in, ok := root.(ssa.Instruction); ok {
		return in, true
	}
	return nil, false
}

// updateValueIsNil decides whether the api.Update value `arg` (a load of a local
// composite literal) has KVPair.Value == nil.
func (m *c25Model) updateValueIsNil(f *ssa.Function, arg ssa.Value) (isNil, decided bool, why string) {
	ld, ok := arg.(*ssa.UnOp)
	if !ok {
		return false, false, "update argument " + path(arg) + " is not a local literal"
	}
	a, ok := ld.X.(*ssa.Alloc)
	if !ok {
		return false, false, "update argument " + path(arg) + " is not a local literal"
	}
	allocs := map[ssa.Value]bool{a: true}
	for changed := true; changed; {
		changed = false
		allInstrs(f, false, func(_ *ssa.Function, in ssa.Instruction) {
			st, ok := in.(*ssa.Store)
			if !ok || !allocs[c25Root(st.Addr)] {
				return
			}
			if l2, ok := st.Val.(*ssa.UnOp); ok {
				if b, ok := l2.X.(*ssa.Alloc); ok && !allocs[b] {
					allocs[b] = true
					changed = true
				}
			}
		})
	}
	isNil = true
	allInstrs(f, false, func(_ *ssa.Function, in ssa.Instruction) {
		st, ok := in.(*ssa.Store)
		if !ok || !allocs[c25Root(st.Addr)] || fieldVar(st.Addr) != m.kvValue {
			return
		}
		if !isNilConst(st.Val) {
			isNil = false
			why = "Value = " + path(st.Val)
		}
	})
	return isNil, true, why
}

// ---------------------------------------------------------------- C25.live --

func (m *c25Model) liveGuards() {
	c, p := m.c, m.p

	// (a) Add under Value != nil, Discard under Value == nil, of the same element.  The test may
	// sit in the function that updates the live set or — when that function is a helper — at every
	// one of its call sites; the element is followed through the parameter it was passed as.
	nAdd, nDisc := 0, 0
	elemNil := func(wantNil bool) func(c25Key) EdgePred {
		return func(k c25Key) EdgePred { return m.valueNil(wantNil, k.root) }
	}
	for _, f := range m.all {
		for _, cs := range m.callsOnField(f, m.live, "Add") {
			nAdd++
			elem := c25Key{root: c25CanonRoot(cs.Args()[1])}
			c.Check(c25GuardedKey(m.ip, cs.Instr, elem, elemNil(false)), "C25.live/add-guard/"+fnName(topFn(f)), p.Pos(cs.Instr.Pos()),
				m.live.Name()+".Add("+path(cs.Args()[1])+") only when the same element's Value != nil",
				m.live.Name()+".Add("+path(cs.Args()[1])+") is reachable without the element's Value being non-nil: a deleted key would be recorded as live")
		}
		for _, cs := range m.callsOnField(f, m.live, "Discard") {
			nDisc++
			elem := c25Key{root: c25CanonRoot(cs.Args()[1])}
			c.Check(c25GuardedKey(m.ip, cs.Instr, elem, elemNil(true)), "C25.live/discard-guard/"+fnName(topFn(f)), p.Pos(cs.Instr.Pos()),
				m.live.Name()+".Discard("+path(cs.Args()[1])+") only when the same element's Value == nil",
				m.live.Name()+".Discard("+path(cs.Args()[1])+") is reachable without the element's Value being nil: a key that downstream holds would be forgotten")
		}
	}
	if nAdd == 0 || nDisc == 0 {
		c.Lost("%s.Add (%d) / Discard (%d) sites", m.live.Name(), nAdd, nDisc)
	}
}

func (m *c25Model) liveDequeueAndDrop() {
	c, p := m.c, m.p
	// (b) removal from the pending map at dequeue is followed by the live-set update
	//     before the next iteration, the return, or any point where the lock may be released
	// (c) elsewhere a pending entry is dropped only for deletions of non-live keys
	nDeq, nDrop := 0, 0
	for _, f := range m.all {
		var dels []*ssa.Call
		allInstrs(f, false, func(_ *ssa.Function, in ssa.Instruction) {
			if cc, ok := isBuiltinCall(in, "delete"); ok && len(cc.Args) == 2 && fieldVar(cc.Args[0]) == m.pmap {
				if ci, ok := in.(*ssa.Call); ok {
					dels = append(dels, ci)
				}
			}
		})
		for _, del := range dels {
			kp := path(del.Call.Args[1])
			// a dequeue site: the key belongs to the element taken off the front of the list
			// (followed through helper parameters), or the delete sits in the dequeue function
			if topFn(f) == m.dequeueFn() || m.fromFront(del.Call.Args[1], 0) {
				nDeq++
				key0 := c25KeyOf(del.Call.Args[1])
				hit := c25ReachKey(m.ip, del, key0,
					func(in ssa.Instruction) bool { return m.L.Releases(in) },
					func(in ssa.Instruction, k c25Key) bool {
						ci, ok := in.(*ssa.Call)
						if !ok {
							return false
						}
						cs := CallSite{ci, calleeOf(ci.Common()), in.Parent()}
						if !(c25CallOnField(cs, m.live, "Add") || c25CallOnField(cs, m.live, "Discard")) {
							return false
						}
						return k.matches(cs.Args()[1]) || (in.Parent() == del.Parent() && path(cs.Args()[1]) == kp)
					})
				key := "C25.live/dequeue-paired/" + fnName(topFn(f))
				if hit == nil {
					c.Ok(key, p.Pos(del.Pos()), "after delete(%s, %s) every path updates %s for that key before iterating, returning or releasing the lock", m.pmap.Name(), kp, m.live.Name())
				} else {
					c.Violate(key, p.Pos(del.Pos()), "after delete(%s, %s) the path to %s (%T) does not Add/Discard %s in %s: a reconnect snapshot taken then would not match what is sent downstream",
						m.pmap.Name(), kp, p.Pos(hit.Pos()), hit, kp, m.live.Name())
				}
				continue
			}
			nDrop++
			m.dropGuards(f, del, "delete", del.Call.Args[1])
		}
		for _, cs := range m.callsOnField(f, m.plist, "Remove") {
			if len(cs.Args()) < 2 {
				continue
			}
			host := topFn(f)
			// classify the removed element by where it comes from: the front of the list (the
			// dequeue), a lookup in the pending map (an outright drop), or — in a helper — a
			// parameter, in which case each call site stands for the removal.
			var classify func(v ssa.Value, at ssa.Instruction, depth int)
			classify = func(v ssa.Value, at ssa.Instruction, depth int) {
				fromLookup, fromFront := false, false
				var keyV ssa.Value
				var params []*ssa.Parameter
				for _, o := range origins(v, nil) {
					switch x := o.V.(type) {
					case *ssa.Lookup:
						if fieldVar(x.X) == m.pmap {
							fromLookup = true
							keyV = x.Index
						}
					case *ssa.Call:
						fromFront = fromFront || c25CallOnField(CallSite{x, calleeOf(x.Common()), x.Parent()}, m.plist, "Front")
					case *ssa.Parameter:
						params = append(params, x)
					}
				}
				switch {
				case fromFront && !fromLookup && len(params) == 0:
					// the dequeue itself
					return
				case fromLookup && !fromFront && len(params) == 0:
					nDrop++
					m.dropGuards(host, at, "remove", keyV)
					return
				case len(params) == 1 && !fromLookup && !fromFront && depth < 4:
					if sites, ok := m.ip.helperSites(params[0].Parent()); ok {
						if args, ok := m.ip.paramArgs(params[0]); ok && len(args) == len(sites) {
							for i, s := range sites {
								classify(args[i], s, depth+1)
							}
							return
						}
					}
				}
				c.Undecided("C25.live/drop/"+fnName(host)+"/remove", p.Pos(at.Pos()), "cannot tell where the removed element %s comes from", path(v))
			}
			classify(cs.Args()[1], cs.Instr, 0)
		}
	}
	if nDeq == 0 {
		c.Lost("no delete(%s, …) of the dequeued element's key in %s or a helper it hands the element to", m.pmap.Name(), fnName(m.dequeueFn()))
	}
	if nDrop < 2 {
		c.Lost("expected the enqueue path to drop a pending entry (delete from %s and %s.Remove), found %d site(s)", m.pmap.Name(), m.plist.Name(), nDrop)
	}
}

func (m *c25Model) liveType() {
	c, p := m.c, m.p
	// (d) UpdateType recalculated from live-set membership
	nType := 0
	for _, f := range m.all {
		for _, st := range c25StoresToFieldVar(f, m.updType) {
			cv, isConst := constOf(st.Val)
			if !isConst {
				if topFn(f) == m.queueFn() {
					c.Undecided("C25.live/type/"+fnName(topFn(f))+"/dynamic", p.Pos(st.Pos()), "UpdateType assigned a non-constant %s", path(st.Val))
				}
				continue
			}
			var want bool
			var name string
			switch cv.ExactString() {
			case m.kvUpdated.Val().ExactString():
				want, name = true, "KVUpdated"
			case m.kvNew.Val().ExactString():
				want, name = false, "KVNew"
			default:
				continue
			}
			nType++
			ok := guardedCut(st, callCond(want, func(cs CallSite) bool {
				return c25CallOnField(cs, m.live, "Contains") && len(cs.Args()) == 2 && m.isQueueKey(f, cs.Args()[1])
			}))
			neg := ""
			if !want {
				neg = "!"
			}
			c.Check(ok, "C25.live/type/"+fnName(topFn(f))+"/"+name, p.Pos(st.Pos()),
				"UpdateType = "+name+" only under "+neg+m.live.Name()+".Contains(key)",
				"UpdateType = "+name+" is not guarded by "+neg+m.live.Name()+".Contains(key of the pending-map lookup): new/updated would not match what downstream holds")
		}
	}
	if nType < 2 {
		c.Lost("constant stores of KVNew/KVUpdated into api.Update.UpdateType: %d", nType)
	}

}

func (m *c25Model) liveTypeRecalc() {
	c, p := m.c, m.p
	// (e) every non-nil value that goes onto the queue has had its type recalculated
	nLoads := 0
	{
		f := m.queueFn()
		var bad ssa.Instruction
		for _, b := range f.Blocks {
			for _, in := range b.Instrs {
				ld, ok := in.(*ssa.UnOp)
				if !ok {
					continue
				}
				a, ok := ld.X.(*ssa.Alloc)
				if !ok || qualTypeName(ld.Type()) != c25APIPkg+".Update" || !c25ParamCopy(a) {
					continue
				}
				nLoads++
				hit := c25Reach(f, nil, func(x ssa.Instruction) bool { return x == in },
					func(x ssa.Instruction) bool {
						st, ok := x.(*ssa.Store)
						return ok && fieldVar(st.Addr) == m.updType && c25Root(st.Addr) == ssa.Value(a)
					},
					m.valueNil(true, c25CanonRoot(a)))
				if hit != nil && bad == nil {
					bad = in
				}
			}
		}
		if nLoads == 0 {
			c.Lost("%s does not copy its api.Update parameter onto the queue", fnName(f))
		}
		key := "C25.live/type-recalc/" + fnName(f)
		if bad == nil {
			c.Ok(key, p.Pos(f.Pos()), "all %d uses of the update as a whole are reached only after UpdateType was recalculated or with Value == nil", nLoads)
		} else {
			c.Violate(key, p.Pos(bad.Pos()), "the update is put on the queue at %s on a path where Value != nil and UpdateType was not recalculated from %s", p.Pos(bad.Pos()), m.live.Name())
		}
	}
}

// isQueueKey: v is the key with which f indexes the pending map.
func (m *c25Model) isQueueKey(f *ssa.Function, v ssa.Value) bool {
	kp := path(v)
	found := false
	any := false
	allInstrs(f, false, func(_ *ssa.Function, in ssa.Instruction) {
		switch x := in.(type) {
		case *ssa.Lookup:
			if fieldVar(x.X) == m.pmap {
				any = true
				found = found || path(x.Index) == kp
			}
		case *ssa.MapUpdate:
			if fieldVar(x.Map) == m.pmap {
				any = true
				found = found || path(x.Key) == kp
			}
		}
	})
	return found || !any
}

// dropGuards checks one "drop the pending entry outright" site; hostFn is the function the
// drop is written in (at may be a call site of it, standing for the drop in a caller).
func (m *c25Model) dropGuards(hostFn *ssa.Function, at ssa.Instruction, what string, keyV ssa.Value) {
	c, p := m.c, m.p
	base := "C25.live/drop/" + fnName(topFn(hostFn)) + "/" + what
	site := p.Pos(at.Pos())
	c.Check(m.ip.guarded(at, m.valueNil(true, nil)), base+"/value-nil", site,
		"pending entry dropped only for a deletion (Value == nil)",
		"a pending entry can be dropped for an update whose Value is not nil: the update is lost")
	kp := ""
	var key c25Key
	if keyV != nil {
		kp = path(keyV)
		key = c25KeyOf(keyV)
	}
	host := at.Parent()
	notLive := func(k c25Key) EdgePred {
		return callCond(false, func(cs CallSite) bool {
			if !c25CallOnField(cs, m.live, "Contains") || len(cs.Args()) != 2 {
				return false
			}
			return keyV == nil || k.matches(cs.Args()[1]) || (cs.Instr.Parent() == host && path(cs.Args()[1]) == kp)
		})
	}
	c.Check(c25GuardedKey(m.ip, at, key, notLive), base+"/not-live", site,
		"pending entry dropped only when !"+m.live.Name()+".Contains("+kp+")",
		"a pending entry can be dropped although downstream holds the key ("+m.live.Name()+".Contains not tested false): the deletion is never delivered and the resource stays stale")
}

// c25StoresToFieldVar lists stores whose address is field fv (any base).
func c25StoresToFieldVar(f *ssa.Function, fv *types.Var) []*ssa.Store {
	var out []*ssa.Store
	for _, b := range f.Blocks {
		for _, in := range b.Instrs {
			if st, ok := in.(*ssa.Store); ok {
				if _, isFA := st.Addr.(*ssa.FieldAddr); isFA && fieldVar(st.Addr) == fv {
					out = append(out, st)
				}
			}
		}
	}
	return out
}

// c25ParamCopy: a is the local copy of a parameter (address-taken parameter).
func c25ParamCopy(a *ssa.Alloc) bool {
	refs := a.Referrers()
	if refs == nil {
		return false
	}
	for _, r := range *refs {
		if st, ok := r.(*ssa.Store); ok && st.Addr == ssa.Value(a) {
			if _, ok := st.Val.(*ssa.Parameter); ok {
				return true
			}
		}
	}
	return false
}

// c25Returns lists the normal returns of fn (the synthetic recover block, which
// is only entered after a recovered panic, is excluded).
func c25Returns(fn *ssa.Function) []*ssa.Return {
	var out []*ssa.Return
	for _, r := range returnsOf(fn) {
		if fn.Recover != nil && r.Block() == fn.Recover {
			continue
		}
		out = append(out, r)
	}
	return out
}

// discardsParam: every returning path of g discards parameter #idx from the
// not-seen set, or establishes that the set is nil.
func (m *c25Model) discardsParam(g *ssa.Function, idx int) bool {
	if idx >= len(g.Params) || len(g.Blocks) == 0 {
		return false
	}
	pa := g.Params[idx]
	hit := c25Reach(g, nil,
		func(in ssa.Instruction) bool { _, ok := in.(*ssa.Return); return ok },
		func(in ssa.Instruction) bool {
			ci, ok := in.(*ssa.Call)
			if !ok {
				return false
			}
			cs := CallSite{ci, calleeOf(ci.Common()), g}
			return c25CallOnField(cs, m.unseen, "Discard") && len(cs.Args()) == 2 && cs.Args()[1] == ssa.Value(pa)
		},
		c25NilCond(true, func(v ssa.Value) bool { return c25FieldLoad(v, m.unseen) }))
	return hit == nil
}

// ---------------------------------------------------------- C25.restart --

const c25ClientPkg = "typha/pkg/syncclient"

// restartRules: the Typha client announces a restart to a restart-aware consumer
// after the previous connection's goroutines have finished and before it starts
// the next connection.
func c25RestartRules(c *Ctx) (nSinkSites int) {
	p := c.Load(c25ClientPkg)
	nSinkSites = c25SinkRule(c, p, c25ClientPkg)
	sp := p.SSAPkg(c25ClientPkg)
	if sp == nil {
		c.Lost("package %s", c25ClientPkg)
	}
	var tops []*ssa.Function
	for _, mem := range sp.Members {
		switch x := mem.(type) {
		case *ssa.Function:
			if x.Blocks != nil && x.Synthetic == "" {
				tops = append(tops, x)
			}
		case *ssa.Type:
			if nt, ok := x.Type().(*types.Named); ok {
				for i := 0; i < nt.NumMethods(); i++ {
					if f := p.SSA.FuncValue(nt.Method(i)); f != nil && f.Blocks != nil {
						tops = append(tops, f)
					}
				}
			}
		}
	}
	isRestartNotify := func(in ssa.Instruction) bool {
		ci, ok := in.(*ssa.Call)
		return ok && ci.Call.IsInvoke() && ci.Call.Method.Name() == "OnTyphaConnectionRestarted"
	}
	startsGoroutines := func(f *ssa.Function) bool {
		found := false
		allInstrs(f, false, func(_ *ssa.Function, in ssa.Instruction) {
			if _, ok := in.(*ssa.Go); ok {
				found = true
			}
		})
		return found
	}
	n := 0
	for _, f := range withClosures(tops) {
		var notifies []ssa.Instruction
		allInstrs(f, false, func(_ *ssa.Function, in ssa.Instruction) {
			if isRestartNotify(in) {
				notifies = append(notifies, in)
			}
		})
		// the restart loop is the function that asks whether the consumer is restart-aware
		isLoop := len(notifies) > 0
		allInstrs(f, false, func(_ *ssa.Function, in ssa.Instruction) {
			if ta, ok := in.(*ssa.TypeAssert); ok && namedTypeName(ta.AssertedType) == "RestartAwareCallbacks" {
				isLoop = true
			}
		})
		if !isLoop {
			continue
		}
		n++
		isConnStart := func(in ssa.Instruction) bool {
			ci, ok := in.(*ssa.Call)
			if !ok {
				return false
			}
			sf := calleeFn(ci.Common())
			return sf != nil && sf.Pkg == f.Pkg && sf.Blocks != nil && startsGoroutines(sf)
		}
		isWait := func(in ssa.Instruction) bool {
			ci, ok := in.(*ssa.Call)
			if !ok {
				return false
			}
			cal := calleeOf(ci.Common())
			return cal != nil && cal.Pkg() != nil && cal.Pkg().Path() == "sync" && recvTypeName(cal) == "WaitGroup" && cal.Name() == "Wait"
		}
		var starts []ssa.Instruction
		allInstrs(f, false, func(_ *ssa.Function, in ssa.Instruction) {
			if isConnStart(in) {
				starts = append(starts, in)
			}
		})
		if len(starts) == 0 {
			c.Lost("%s announces a restart but starts no connection", fnName(f))
		}
		froms := append([]ssa.Instruction{nil}, starts...)
		bad1, bad2 := "", ""
		for _, from := range froms {
			if h := c25Reach(f, from, isConnStart, isRestartNotify, nil); h != nil {
				bad1 = p.Pos(h.Pos())
			}
			if h := c25Reach(f, from, isRestartNotify, isWait, nil); h != nil {
				bad2 = p.Pos(h.Pos())
			}
		}
		c.Check(bad1 == "", "C25.restart/notify-before-reconnect/"+fnName(topFn(f)), p.Pos(f.Pos()),
			"every (re)connection started by the restart loop is preceded by OnTyphaConnectionRestarted()",
			"a new connection can be started at "+bad1+" without OnTyphaConnectionRestarted() having been called: the consumer would not reconcile against the new snapshot (stale resources survive)")
		c.Check(bad2 == "", "C25.restart/old-connection-finished/"+fnName(topFn(f)), p.Pos(f.Pos()),
			"OnTyphaConnectionRestarted() is called only after WaitGroup.Wait() for the previous connection",
			"OnTyphaConnectionRestarted() at "+bad2+" can be called while the previous connection's goroutines may still deliver updates: stale updates would be counted as seen in the new resync")
	}
	if n == 0 {
		c.Lost("no restart loop (RestartAwareCallbacks user) in %s", c25ClientPkg)
	}
	return nSinkSites
}
