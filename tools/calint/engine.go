package main

import (
	"fmt"
	"go/constant"
	"go/token"
	"go/types"
	"sort"
	"strings"

	"golang.org/x/tools/go/ssa"
)

// ------------------------------------------------------------------ calls --

// calleeOf returns the resolved callee object of a call: the static callee's
// object (following generic instantiation to its origin), or the interface
// method for invoke-mode calls.  nil for calls through function values.
func calleeOf(cc *ssa.CallCommon) *types.Func {
	if cc.IsInvoke() {
		return cc.Method
	}
	if sc := cc.StaticCallee(); sc != nil {
		if o := sc.Origin(); o != nil {
			sc = o
		}
		if f, ok := sc.Object().(*types.Func); ok {
			return f
		}
		return nil
	}
	return nil
}

// calleeFn returns the static callee SSA function (nil for dynamic calls).
func calleeFn(cc *ssa.CallCommon) *ssa.Function {
	if cc.IsInvoke() {
		return nil
	}
	return cc.StaticCallee()
}

// funcID renders a types.Func as pkgpath.Recv.Name (calico prefix stripped).
func funcID(f *types.Func) string {
	if f == nil {
		return "<dynamic>"
	}
	s := f.Name()
	if sig, ok := f.Type().(*types.Signature); ok && sig.Recv() != nil {
		t := sig.Recv().Type()
		if p, ok := t.(*types.Pointer); ok {
			t = p.Elem()
		}
		if n, ok := t.(*types.Named); ok {
			s = n.Obj().Name() + "." + s
		} else if _, ok := t.Underlying().(*types.Interface); ok {
			s = types.TypeString(t, func(*types.Package) string { return "" }) + "." + s
		}
	}
	if f.Pkg() != nil {
		s = strings.TrimPrefix(f.Pkg().Path(), calicoPrefix) + "." + s
	}
	return s
}

// isFunc reports whether f is pkg.name or pkg.Type.name (pkg calico-relative or full).
func isFunc(f *types.Func, pkg, name string) bool {
	if f == nil || f.Pkg() == nil {
		return false
	}
	pp := f.Pkg().Path()
	if pp != pkg && pp != calicoPrefix+pkg {
		return false
	}
	id := funcID(f)
	return strings.HasSuffix(id, "."+name) && (id == strings.TrimPrefix(pp, calicoPrefix)+"."+name)
}

// methodNamed reports whether f is a method with the given name whose receiver's
// named type (or interface) is recvType ("" = any receiver).
func methodNamed(f *types.Func, recvType, name string) bool {
	if f == nil || f.Name() != name {
		return false
	}
	sig, ok := f.Type().(*types.Signature)
	if !ok || sig.Recv() == nil {
		return false
	}
	if recvType == "" {
		return true
	}
	return recvTypeName(f) == recvType
}

func recvTypeName(f *types.Func) string {
	sig, ok := f.Type().(*types.Signature)
	if !ok || sig.Recv() == nil {
		return ""
	}
	return namedTypeName(sig.Recv().Type())
}

// namedTypeName returns the bare name of the (pointer-to-)named type, with the
// generic origin's name for instantiations; "" otherwise.
func namedTypeName(t types.Type) string {
	for {
		if p, ok := t.(*types.Pointer); ok {
			t = p.Elem()
			continue
		}
		break
	}
	if a, ok := t.(*types.Alias); ok {
		t = types.Unalias(a)
	}
	if n, ok := t.(*types.Named); ok {
		return n.Obj().Name()
	}
	return ""
}

// qualTypeName returns pkgpath.Name for a (pointer-to-)named type.
func qualTypeName(t types.Type) string {
	for {
		if p, ok := t.(*types.Pointer); ok {
			t = p.Elem()
			continue
		}
		break
	}
	t = types.Unalias(t)
	if n, ok := t.(*types.Named); ok {
		if n.Obj().Pkg() == nil {
			return n.Obj().Name()
		}
		return strings.TrimPrefix(n.Obj().Pkg().Path(), calicoPrefix) + "." + n.Obj().Name()
	}
	return t.String()
}

// CallSite is one call instruction with its resolved callee.
type CallSite struct {
	Instr  ssa.CallInstruction
	Callee *types.Func
	Fn     *ssa.Function // enclosing function
}

func (s CallSite) Common() *ssa.CallCommon { return s.Instr.Common() }

// Args returns the call's arguments with the receiver first for method calls
// (static or invoke), so Args()[0] is always the receiver for methods.
func (s CallSite) Args() []ssa.Value {
	cc := s.Instr.Common()
	if cc.IsInvoke() {
		return append([]ssa.Value{cc.Value}, cc.Args...)
	}
	return cc.Args
}

// callsIn lists the call sites in fn (optionally including nested closures)
// whose resolved callee satisfies match.
func callsIn(fn *ssa.Function, closures bool, match func(*types.Func) bool) []CallSite {
	var out []CallSite
	var walk func(f *ssa.Function)
	walk = func(f *ssa.Function) {
		for _, b := range f.Blocks {
			for _, in := range b.Instrs {
				if ci, ok := in.(ssa.CallInstruction); ok {
					callee := calleeOf(ci.Common())
					if callee != nil && match(callee) {
						out = append(out, CallSite{ci, callee, f})
					}
				}
			}
		}
		if closures {
			for _, af := range f.AnonFuncs {
				walk(af)
			}
		}
	}
	walk(fn)
	return out
}

// allInstrs iterates over every instruction of fn (and closures if asked).
func allInstrs(fn *ssa.Function, closures bool, visit func(f *ssa.Function, in ssa.Instruction)) {
	for _, b := range fn.Blocks {
		for _, in := range b.Instrs {
			visit(fn, in)
		}
	}
	if closures {
		for _, af := range fn.AnonFuncs {
			allInstrs(af, true, visit)
		}
	}
}

// --------------------------------------------------------------- dominance --

func instrIndex(in ssa.Instruction) int {
	for i, x := range in.Block().Instrs {
		if x == in {
			return i
		}
	}
	return -1
}

// instrDominates: a executes before b on every path from entry to b.
func instrDominates(a, b ssa.Instruction) bool {
	if a.Parent() != b.Parent() {
		return false
	}
	if a.Block() == b.Block() {
		return instrIndex(a) < instrIndex(b)
	}
	return a.Block().Dominates(b.Block())
}

// blockReach computes blocks reachable from b (following successors), not
// including b itself unless it lies on a cycle.
func blockReach(b *ssa.BasicBlock) map[*ssa.BasicBlock]bool {
	seen := map[*ssa.BasicBlock]bool{}
	var st []*ssa.BasicBlock
	st = append(st, b.Succs...)
	for len(st) > 0 {
		x := st[len(st)-1]
		st = st[:len(st)-1]
		if seen[x] {
			continue
		}
		seen[x] = true
		st = append(st, x.Succs...)
	}
	return seen
}

// instrReaches: there is a CFG path on which a executes and later b executes.
func instrReaches(a, b ssa.Instruction) bool {
	if a.Parent() != b.Parent() {
		return false
	}
	if a.Block() == b.Block() && instrIndex(a) < instrIndex(b) {
		return true
	}
	return blockReach(a.Block())[b.Block()]
}

// isPanicBlock: the block ends in panic, or calls a log.Panic*/Fatal* function
// (treated as non-returning).
func isPanicBlock(b *ssa.BasicBlock) bool {
	if len(b.Instrs) == 0 {
		return false
	}
	if _, ok := b.Instrs[len(b.Instrs)-1].(*ssa.Panic); ok {
		return true
	}
	for _, in := range b.Instrs {
		if ci, ok := in.(ssa.CallInstruction); ok {
			if f := calleeOf(ci.Common()); f != nil && isNoReturnName(f.Name()) {
				return true
			}
		}
	}
	return false
}

func isNoReturnName(n string) bool {
	return strings.HasPrefix(n, "Panic") || strings.HasPrefix(n, "Fatal") || n == "Exit"
}

// postDominators computes, for every block, the set of blocks that post-dominate
// it with respect to *normal* exits (Return); panic blocks are ignored (treated
// as if they did not exist), so "A then maybe panic" still counts as reaching B.
func postDominators(fn *ssa.Function) map[*ssa.BasicBlock]map[*ssa.BasicBlock]bool {
	blocks := fn.Blocks
	all := map[*ssa.BasicBlock]bool{}
	for _, b := range blocks {
		all[b] = true
	}
	pd := map[*ssa.BasicBlock]map[*ssa.BasicBlock]bool{}
	isExit := func(b *ssa.BasicBlock) bool {
		if len(b.Instrs) == 0 {
			return false
		}
		_, ok := b.Instrs[len(b.Instrs)-1].(*ssa.Return)
		return ok
	}
	for _, b := range blocks {
		if isExit(b) {
			pd[b] = map[*ssa.BasicBlock]bool{b: true}
		} else {
			m := map[*ssa.BasicBlock]bool{}
			for k := range all {
				m[k] = true
			}
			pd[b] = m
		}
	}
	changed := true
	for changed {
		changed = false
		for i := len(blocks) - 1; i >= 0; i-- {
			b := blocks[i]
			if isExit(b) {
				continue
			}
			var inter map[*ssa.BasicBlock]bool
			for _, s := range b.Succs {
				if isPanicBlock(s) && len(s.Succs) == 0 {
					continue
				}
				if inter == nil {
					inter = map[*ssa.BasicBlock]bool{}
					for k := range pd[s] {
						inter[k] = true
					}
				} else {
					for k := range inter {
						if !pd[s][k] {
							delete(inter, k)
						}
					}
				}
			}
			if inter == nil {
				inter = map[*ssa.BasicBlock]bool{} // only panic successors / no successors
				if isPanicBlock(b) || len(b.Succs) > 0 {
					// block that never returns normally: vacuously post-dominated by everything
					for k := range all {
						inter[k] = true
					}
				}
			}
			inter[b] = true
			if len(inter) != len(pd[b]) {
				pd[b] = inter
				changed = true
			}
		}
	}
	return pd
}

// instrPostDominates: on every normally-returning path from a, b executes later.
func instrPostDominates(pd map[*ssa.BasicBlock]map[*ssa.BasicBlock]bool, b, a ssa.Instruction) bool {
	if a.Parent() != b.Parent() {
		return false
	}
	if a.Block() == b.Block() {
		return instrIndex(b) > instrIndex(a)
	}
	return pd[a.Block()][b.Block()]
}

// ------------------------------------------------------------------ guards --

// Guard is a branch condition known to have a fixed truth value at a point.
type Guard struct {
	If   *ssa.If
	Cond ssa.Value // condition with leading negations stripped
	True bool      // the truth value Cond is known to have
}

func stripNot(v ssa.Value, pol bool) (ssa.Value, bool) {
	for {
		if u, ok := v.(*ssa.UnOp); ok && u.Op == token.NOT {
			v = u.X
			pol = !pol
			continue
		}
		return v, pol
	}
}

// guardsOfBlock returns every condition whose truth value is fixed on entry to b.
func guardsOfBlock(b *ssa.BasicBlock) []Guard {
	var out []Guard
	cur := b
	for cur != nil {
		d := cur.Idom()
		if d == nil {
			break
		}
		// Which edge of d leads (exclusively) to cur's dominator subtree?
		if ifi, ok := d.Instrs[len(d.Instrs)-1].(*ssa.If); ok && len(d.Succs) == 2 {
			for k, s := range d.Succs {
				other := d.Succs[1-k]
				if s == other {
					continue
				}
				if edgeDominates(d, s, cur) {
					c, pol := stripNot(ifi.Cond, k == 0)
					out = append(out, Guard{ifi, c, pol})
				}
			}
		}
		cur = d
	}
	return out
}

// edgeDominates: every path from entry to target passes through edge d->s.
// True iff s dominates target and every predecessor of s other than d is
// dominated by s (i.e. is a back edge into s).
func edgeDominates(d, s, target *ssa.BasicBlock) bool {
	if !s.Dominates(target) {
		return false
	}
	nd := 0
	for _, p := range s.Preds {
		if p == d {
			nd++
			continue
		}
		if !s.Dominates(p) {
			return false
		}
	}
	return nd == 1
}

func guardsOf(in ssa.Instruction) []Guard { return guardsOfBlock(in.Block()) }

// guardedBy reports whether in is control-dependent (by dominance) on a
// condition satisfying pred with the given truth value.
func guardedBy(in ssa.Instruction, want bool, pred func(ssa.Value) bool) bool {
	for _, g := range guardsOf(in) {
		if g.True == want && pred(g.Cond) {
			return true
		}
	}
	return false
}

// condCall returns the CallSite if v is the (first) result of a call.
func condCall(v ssa.Value) (CallSite, bool) {
	if ex, ok := v.(*ssa.Extract); ok {
		v = ex.Tuple
	}
	if c, ok := v.(*ssa.Call); ok {
		return CallSite{c, calleeOf(c.Common()), c.Parent()}, true
	}
	return CallSite{}, false
}

// ------------------------------------------------------------ access paths --

// path renders an SSA value as a canonical access path / expression, e.g.
// "buf.sentPolicies", "key.Name", "(*calc.X).foo(recv, k)".  Two values with the
// same path, with no intervening store, denote the same thing for our purposes.
func path(v ssa.Value) string { return pathN(v, 6) }

func pathN(v ssa.Value, depth int) string {
	if v == nil {
		return "<nil>"
	}
	if depth == 0 {
		return "…"
	}
	switch x := v.(type) {
	case *ssa.Parameter:
		return x.Name()
	case *ssa.FreeVar:
		return x.Name()
	case *ssa.Global:
		return x.Pkg.Pkg.Name() + "." + x.Name()
	case *ssa.Const:
		if x.Value == nil {
			return "nil"
		}
		return x.Value.ExactString()
	case *ssa.Function:
		return x.Name()
	case *ssa.FieldAddr:
		return pathN(x.X, depth) + "." + fieldName(x.X.Type(), x.Field)
	case *ssa.Field:
		return pathN(x.X, depth) + "." + fieldName(x.X.Type(), x.Field)
	case *ssa.UnOp:
		if x.Op == token.MUL {
			return pathN(x.X, depth)
		}
		return x.Op.String() + pathN(x.X, depth-1)
	case *ssa.IndexAddr:
		return pathN(x.X, depth) + "[" + pathN(x.Index, depth-1) + "]"
	case *ssa.Index:
		return pathN(x.X, depth) + "[" + pathN(x.Index, depth-1) + "]"
	case *ssa.Lookup:
		return pathN(x.X, depth) + "[" + pathN(x.Index, depth-1) + "]"
	case *ssa.Alloc:
		if x.Comment != "" {
			return x.Comment
		}
		return "alloc"
	case *ssa.Call:
		cc := x.Common()
		name := "<dyn>"
		if f := calleeOf(cc); f != nil {
			name = f.Name()
		} else if b, ok := cc.Value.(*ssa.Builtin); ok {
			name = b.Name()
		}
		var as []string
		args := cc.Args
		if cc.IsInvoke() {
			as = append(as, pathN(cc.Value, depth-1))
		}
		for _, a := range args {
			as = append(as, pathN(a, depth-1))
		}
		return name + "(" + strings.Join(as, ",") + ")"
	case *ssa.Extract:
		return pathN(x.Tuple, depth) + "#" + fmt.Sprint(x.Index)
	case *ssa.MakeInterface:
		return pathN(x.X, depth)
	case *ssa.ChangeType:
		return pathN(x.X, depth)
	case *ssa.Convert:
		return pathN(x.X, depth)
	case *ssa.ChangeInterface:
		return pathN(x.X, depth)
	case *ssa.TypeAssert:
		return pathN(x.X, depth) + ".(" + types.TypeString(x.AssertedType, func(p *types.Package) string { return p.Name() }) + ")"
	case *ssa.BinOp:
		return "(" + pathN(x.X, depth-1) + x.Op.String() + pathN(x.Y, depth-1) + ")"
	case *ssa.Phi:
		var es []string
		for _, e := range x.Edges {
			es = append(es, pathN(e, depth-1))
		}
		sort.Strings(es)
		return "phi(" + strings.Join(es, "|") + ")"
	case *ssa.Slice:
		return pathN(x.X, depth) + "[:]"
	case *ssa.MakeClosure:
		return "closure:" + x.Fn.Name()
	case *ssa.Next:
		return "next(" + pathN(x.Iter, depth-1) + ")"
	case *ssa.Range:
		return "range(" + pathN(x.X, depth-1) + ")"
	}
	return v.Name()
}

func fieldName(t types.Type, idx int) string {
	if p, ok := t.Underlying().(*types.Pointer); ok {
		t = p.Elem()
	}
	if st, ok := t.Underlying().(*types.Struct); ok && idx < st.NumFields() {
		return st.Field(idx).Name()
	}
	return fmt.Sprintf("f%d", idx)
}

// fieldOf returns (struct named type name, field name) if v is a field access
// (FieldAddr / Field / load of FieldAddr).
func fieldOf(v ssa.Value) (typ, field string, base ssa.Value, ok bool) {
	for {
		switch x := v.(type) {
		case *ssa.UnOp:
			if x.Op == token.MUL {
				v = x.X
				continue
			}
		case *ssa.FieldAddr:
			return namedTypeName(x.X.Type()), fieldName(x.X.Type(), x.Field), x.X, true
		case *ssa.Field:
			return namedTypeName(x.X.Type()), fieldName(x.X.Type(), x.Field), x.X, true
		}
		return "", "", nil, false
	}
}

// lastField returns the trailing field name of a value's access path ("" if the
// value is not a field access).  s.bpfSvcs -> "bpfSvcs".
func lastField(v ssa.Value) string {
	_, f, _, ok := fieldOf(v)
	if !ok {
		return ""
	}
	return f
}

// constOf returns the constant value of v if it is an SSA constant (through
// conversions).
func constOf(v ssa.Value) (constant.Value, bool) {
	for {
		switch x := v.(type) {
		case *ssa.Const:
			if x.Value == nil {
				return nil, false
			}
			return x.Value, true
		case *ssa.Convert:
			v = x.X
			continue
		case *ssa.ChangeType:
			v = x.X
			continue
		case *ssa.MakeInterface:
			v = x.X
			continue
		}
		return nil, false
	}
}

func isNilConst(v ssa.Value) bool {
	c, ok := v.(*ssa.Const)
	return ok && c.Value == nil
}

// ----------------------------------------------------------------- stores --

// storesTo lists Store instructions in fn (and closures) whose address is a
// FieldAddr of field `field` of a struct type named `typ`.
func storesToField(fn *ssa.Function, closures bool, typ, field string) []*ssa.Store {
	var out []*ssa.Store
	allInstrs(fn, closures, func(f *ssa.Function, in ssa.Instruction) {
		if st, ok := in.(*ssa.Store); ok {
			if fa, ok := st.Addr.(*ssa.FieldAddr); ok {
				if fieldName(fa.X.Type(), fa.Field) == field && (typ == "" || namedTypeName(fa.X.Type()) == typ) {
					out = append(out, st)
				}
			}
		}
	})
	return out
}

// mapUpdates lists MapUpdate instructions whose map operand is a load of the
// given field.
func mapUpdatesOfField(fn *ssa.Function, closures bool, typ, field string) []*ssa.MapUpdate {
	var out []*ssa.MapUpdate
	allInstrs(fn, closures, func(f *ssa.Function, in ssa.Instruction) {
		if mu, ok := in.(*ssa.MapUpdate); ok {
			t, fl, _, ok := fieldOf(mu.Map)
			if ok && fl == field && (typ == "" || t == typ) {
				out = append(out, mu)
			}
		}
	})
	return out
}

// isBuiltinCall reports whether in is a call of the named builtin (delete, append...).
func isBuiltinCall(in ssa.Instruction, name string) (*ssa.CallCommon, bool) {
	ci, ok := in.(ssa.CallInstruction)
	if !ok {
		return nil, false
	}
	if b, ok := ci.Common().Value.(*ssa.Builtin); ok && b.Name() == name {
		return ci.Common(), true
	}
	return nil, false
}

// ---------------------------------------------------------- backward slice --

// Origin is a leaf of a backward value slice.
type Origin struct {
	V    ssa.Value
	Kind string // call | param | const | global | alloc | freevar | other
}

// origins walks backwards from v through value-preserving instructions and
// returns the leaves.  through(v) may return additional operands to follow for
// instructions the default walker treats as leaves (e.g. pass-through helper
// calls); return nil to stop.
func origins(v ssa.Value, through func(ssa.Value) []ssa.Value) []Origin {
	seen := map[ssa.Value]bool{}
	var out []Origin
	var walk func(v ssa.Value)
	walk = func(v ssa.Value) {
		if v == nil || seen[v] {
			return
		}
		seen[v] = true
		if through != nil {
			if more := through(v); more != nil {
				for _, m := range more {
					walk(m)
				}
				return
			}
		}
		switch x := v.(type) {
		case *ssa.Phi:
			for _, e := range x.Edges {
				walk(e)
			}
		case *ssa.MakeInterface:
			walk(x.X)
		case *ssa.ChangeType:
			walk(x.X)
		case *ssa.ChangeInterface:
			walk(x.X)
		case *ssa.Convert:
			walk(x.X)
		case *ssa.TypeAssert:
			walk(x.X)
		case *ssa.Extract:
			walk(x.Tuple)
		case *ssa.Slice:
			walk(x.X)
		case *ssa.UnOp:
			if x.Op == token.MUL {
				// load: if from a local alloc, follow the stores
				if al, ok := x.X.(*ssa.Alloc); ok {
					n := 0
					for _, r := range *al.Referrers() {
						if st, ok := r.(*ssa.Store); ok && st.Addr == al {
							walk(st.Val)
							n++
						}
					}
					if n == 0 {
						out = append(out, Origin{al, "alloc"})
					}
					return
				}
				walk(x.X)
				return
			}
			out = append(out, Origin{v, "other"})
		case *ssa.Call:
			out = append(out, Origin{v, "call"})
		case *ssa.Parameter:
			out = append(out, Origin{v, "param"})
		case *ssa.FreeVar:
			out = append(out, Origin{v, "freevar"})
		case *ssa.Const:
			out = append(out, Origin{v, "const"})
		case *ssa.Global:
			out = append(out, Origin{v, "global"})
		case *ssa.Alloc:
			out = append(out, Origin{v, "alloc"})
		default:
			out = append(out, Origin{v, "other"})
		}
	}
	walk(v)
	return out
}

// literalFieldStores: for an Alloc (or the address value of a composite literal)
// returns the values stored into each field by name (last store wins is not
// modelled: all stores are returned).
func literalFieldStores(addr ssa.Value) map[string][]ssa.Value {
	out := map[string][]ssa.Value{}
	refs := addr.Referrers()
	if refs == nil {
		return out
	}
	for _, r := range *refs {
		if fa, ok := r.(*ssa.FieldAddr); ok && fa.X == addr {
			name := fieldName(fa.X.Type(), fa.Field)
			for _, rr := range *fa.Referrers() {
				if st, ok := rr.(*ssa.Store); ok && st.Addr == fa {
					out[name] = append(out[name], st.Val)
				}
			}
		}
	}
	return out
}

// -------------------------------------------------------------- summaries --

// containsCall reports whether fn, or any function it statically calls within
// `depth` levels (bodies available only for root packages), contains a call
// whose callee satisfies match.  Closures defined in fn are included.
func containsCall(fn *ssa.Function, depth int, match func(*types.Func) bool) bool {
	seen := map[*ssa.Function]bool{}
	var rec func(f *ssa.Function, d int) bool
	rec = func(f *ssa.Function, d int) bool {
		if f == nil || seen[f] || f.Blocks == nil {
			return false
		}
		seen[f] = true
		found := false
		allInstrs(f, true, func(g *ssa.Function, in ssa.Instruction) {
			if found {
				return
			}
			if ci, ok := in.(ssa.CallInstruction); ok {
				if c := calleeOf(ci.Common()); c != nil && match(c) {
					found = true
					return
				}
				if d > 0 {
					if sf := calleeFn(ci.Common()); sf != nil && rec(sf, d-1) {
						found = true
					}
				}
			}
		})
		return found
	}
	return rec(fn, depth)
}

// reachableFuncs returns the functions reachable from roots by static calls,
// closures, and (if impls != nil) interface calls resolved by impls.
func reachableFuncs(roots []*ssa.Function, impls func(*types.Func) []*ssa.Function) map[*ssa.Function]bool {
	seen := map[*ssa.Function]bool{}
	var st []*ssa.Function
	st = append(st, roots...)
	for len(st) > 0 {
		f := st[len(st)-1]
		st = st[:len(st)-1]
		if f == nil || seen[f] {
			continue
		}
		seen[f] = true
		if f.Blocks == nil {
			continue
		}
		for _, b := range f.Blocks {
			for _, in := range b.Instrs {
				switch x := in.(type) {
				case ssa.CallInstruction:
					cc := x.Common()
					if sf := calleeFn(cc); sf != nil {
						st = append(st, sf)
					} else if cc.IsInvoke() && impls != nil {
						st = append(st, impls(cc.Method)...)
					}
					for _, a := range cc.Args {
						if mc, ok := a.(*ssa.MakeClosure); ok {
							st = append(st, mc.Fn.(*ssa.Function))
						}
						if fv, ok := a.(*ssa.Function); ok {
							st = append(st, fv)
						}
					}
				case *ssa.MakeClosure:
					st = append(st, x.Fn.(*ssa.Function))
				}
			}
		}
	}
	return seen
}

// fnName is a short stable name for an SSA function: Type.Method or Func, with
// $N for closures.
func fnName(f *ssa.Function) string {
	if f == nil {
		return "?"
	}
	if f.Parent() != nil {
		return fnName(f.Parent()) + "$" + strings.TrimPrefix(f.Name(), f.Parent().Name()+"$")
	}
	if o, ok := f.Object().(*types.Func); ok {
		id := funcID(o)
		if i := strings.LastIndex(id, "/"); i >= 0 {
			id = id[i+1:]
		}
		if i := strings.Index(id, "."); i >= 0 {
			id = id[i+1:]
		}
		return id
	}
	return f.Name()
}

// returnsOf lists the Return instructions of fn.
func returnsOf(fn *ssa.Function) []*ssa.Return {
	var out []*ssa.Return
	for _, b := range fn.Blocks {
		if len(b.Instrs) == 0 {
			continue
		}
		if r, ok := b.Instrs[len(b.Instrs)-1].(*ssa.Return); ok {
			out = append(out, r)
		}
	}
	return out
}

// fieldVar returns the struct field object accessed by v (FieldAddr, Field, or a
// load of a FieldAddr); nil otherwise.
func fieldVar(v ssa.Value) *types.Var {
	for {
		switch x := v.(type) {
		case *ssa.UnOp:
			if x.Op == token.MUL {
				v = x.X
				continue
			}
		case *ssa.FieldAddr:
			return structField(x.X.Type(), x.Field)
		case *ssa.Field:
			return structField(x.X.Type(), x.Field)
		}
		return nil
	}
}

func structField(t types.Type, idx int) *types.Var {
	if p, ok := t.Underlying().(*types.Pointer); ok {
		t = p.Elem()
	}
	if st, ok := t.Underlying().(*types.Struct); ok && idx < st.NumFields() {
		return st.Field(idx)
	}
	return nil
}

// methodsOf returns the SSA functions of all methods declared on the named type
// (pointer and value receivers) in a root package.
func (p *Prog) methodsOf(pkgPath, typeName string) []*ssa.Function {
	pk := p.Pkg(pkgPath)
	if pk == nil {
		return nil
	}
	tn, _ := pk.Types.Scope().Lookup(typeName).(*types.TypeName)
	if tn == nil {
		return nil
	}
	named, _ := tn.Type().(*types.Named)
	if named == nil {
		return nil
	}
	var out []*ssa.Function
	for i := 0; i < named.NumMethods(); i++ {
		if f := p.SSA.FuncValue(named.Method(i)); f != nil && f.Blocks != nil {
			out = append(out, f)
		}
	}
	sort.Slice(out, func(i, j int) bool { return out[i].Pos() < out[j].Pos() })
	return out
}

// withClosures expands a list of functions with all nested anonymous functions.
func withClosures(fns []*ssa.Function) []*ssa.Function {
	var out []*ssa.Function
	var add func(f *ssa.Function)
	add = func(f *ssa.Function) {
		out = append(out, f)
		for _, a := range f.AnonFuncs {
			add(a)
		}
	}
	for _, f := range fns {
		add(f)
	}
	return out
}

// topFn returns the outermost enclosing function of f.
func topFn(f *ssa.Function) *ssa.Function {
	for f.Parent() != nil {
		f = f.Parent()
	}
	return f
}
