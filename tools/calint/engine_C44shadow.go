package main

// engine_C44shadow.go — C44.shadow: the bookkeeping of endpoints that share an
// interface name (activeWlEndpoints / shadowedWlEndpoints / pendingWlEpUpdates).
//
//	pending    pendingWlEpUpdates[k] holds what the datastore last said about k
//	           (nil = removed).  Whenever the manager itself re-queues a copy it
//	           remembered (a value read from activeWlEndpoints or
//	           shadowedWlEndpoints: promotion of a shadowed endpoint, "re-evaluate
//	           this endpoint" requests), the datastore's word is newer: the store
//	           must be unreachable when k already has a pending entry.  Decided as
//	           a cut: within one iteration of the innermost enclosing loop every
//	           path to the store crosses the edge `k ∉ pendingWlEpUpdates` — for k
//	           itself or, when k is a local variable chosen among candidates, for
//	           every candidate assigned to it.  (F22A: the promotion scan re-queued
//	           a shadowed endpoint over its own pending remove/update.)
//
//	exclusive  activeWlEndpoints and shadowedWlEndpoints are disjoint: every store
//	           activeWlEndpoints[id]=… is paired on every path with
//	           delete(shadowedWlEndpoints, id); every store shadowedWlEndpoints[k]=…
//	           is paired with k leaving the active set (delete / the active-workload
//	           removal function), or is made where k is established not to be
//	           active.  (F22B: an endpoint that became active through its own update
//	           kept a stale shadow copy that was promoted later.)
//
// Sites are found by what they do (MapUpdate/delete on the three map fields of
// endpointManager, resolved through go/types), in every method of the manager
// and its closures; helpers are followed for the paired action.

import (
	"fmt"
	"go/types"

	"golang.org/x/tools/go/ssa"
)

// c44LoopHeader: the header of the innermost natural loop containing b (a
// dominator h of b with a back edge p->h such that b reaches p without passing
// through h), or the function entry.
func c44LoopHeader(b *ssa.BasicBlock) *ssa.BasicBlock {
	reaches := func(from, to, avoid *ssa.BasicBlock) bool {
		seen := map[*ssa.BasicBlock]bool{}
		st := []*ssa.BasicBlock{from}
		for len(st) > 0 {
			x := st[len(st)-1]
			st = st[:len(st)-1]
			if x == to {
				return true
			}
			if seen[x] || (x == avoid && x != from) {
				continue
			}
			seen[x] = true
			st = append(st, x.Succs...)
		}
		return false
	}
	for h := b; h != nil; h = h.Idom() {
		for _, p := range h.Preds {
			if h.Dominates(p) && (b == h || reaches(b, p, h)) {
				return h
			}
		}
	}
	return b.Parent().Blocks[0]
}

// c44CutFrom: every path from start to target's block crosses an If edge
// accepted by pred (start = the header of the loop the target sits in: the
// fact must be established in the same iteration).
func c44CutFrom(start *ssa.BasicBlock, target ssa.Instruction, pred EdgePred) bool {
	tb := target.Block()
	seen := map[*ssa.BasicBlock]bool{}
	st := []*ssa.BasicBlock{start}
	for len(st) > 0 {
		b := st[len(st)-1]
		st = st[:len(st)-1]
		if seen[b] {
			continue
		}
		seen[b] = true
		if b == tb {
			return false
		}
		if isPanicBlock(b) {
			continue
		}
		if ifi, ok := b.Instrs[len(b.Instrs)-1].(*ssa.If); ok && len(b.Succs) == 2 {
			for k, s := range b.Succs {
				c, pol := stripNot(ifi.Cond, k == 0)
				if b.Succs[0] != b.Succs[1] && pred(c, pol) {
					continue
				}
				st = append(st, s)
			}
			continue
		}
		st = append(st, b.Succs...)
	}
	return true
}

// c44CutOrDo: every path from the function entry to target crosses an If edge
// accepted by pred or executes one of the instructions in do.
func c44CutOrDo(target ssa.Instruction, pred EdgePred, do map[ssa.Instruction]bool) bool {
	fn := target.Parent()
	tb := target.Block()
	seen := map[*ssa.BasicBlock]bool{}
	st := []*ssa.BasicBlock{fn.Blocks[0]}
	for len(st) > 0 {
		b := st[len(st)-1]
		st = st[:len(st)-1]
		if seen[b] {
			continue
		}
		seen[b] = true
		done := false
		for _, in := range b.Instrs {
			if in == target {
				break
			}
			if do[in] {
				done = true
				break
			}
		}
		if done {
			continue
		}
		if b == tb {
			return false
		}
		if isPanicBlock(b) {
			continue
		}
		if ifi, ok := b.Instrs[len(b.Instrs)-1].(*ssa.If); ok && len(b.Succs) == 2 {
			for k, s := range b.Succs {
				c, pol := stripNot(ifi.Cond, k == 0)
				if b.Succs[0] != b.Succs[1] && pred(c, pol) {
					continue
				}
				st = append(st, s)
			}
			continue
		}
		st = append(st, b.Succs...)
	}
	return true
}

// notPending builds the edge predicate "key k has no entry in pendingWlEpUpdates".
func (x *c44) notPending(k ssa.Value) EdgePred {
	return func(cond ssa.Value, pol bool) bool {
		if pol {
			return false
		}
		f, tested := x.hasTest(cond)
		if f != x.fPending || tested == nil {
			return false
		}
		return c44Ident(tested) == k || path(c44Strip(tested)) == path(c44Strip(k))
	}
}

// c44LocalStores: the non-zero-value assignments to the local variable al.
func c44LocalStores(al *ssa.Alloc) []*ssa.Store {
	var out []*ssa.Store
	if al.Referrers() == nil {
		return nil
	}
	for _, r := range *al.Referrers() {
		st, ok := r.(*ssa.Store)
		if !ok || st.Addr != ssa.Value(al) {
			continue
		}
		if _, isConst := st.Val.(*ssa.Const); isConst {
			continue // zero value initialisation
		}
		out = append(out, st)
	}
	return out
}

func (x *c44) shadowPending() int {
	c, p := x.c, x.p
	n := 0
	for _, f := range x.mgrFuncs() {
		allInstrs(f, false, func(_ *ssa.Function, in ssa.Instruction) {
			mu, ok := in.(*ssa.MapUpdate)
			if !ok || x.mgrField(mu.Map) != x.fPending {
				return
			}
			role := x.wlRole(c44Strip(mu.Value))
			if role != "active" && role != "shadowed" {
				return // what the datastore said (message field / nil): the fresh value
			}
			n++
			key := fmt.Sprintf("C44.shadow/pending/%s/%s", fnName(f), role)
			site := p.Pos(mu.Pos())
			k := c44Ident(mu.Key)
			if c44CutFrom(c44LoopHeader(mu.Block()), mu, x.notPending(k)) {
				c.Ok(key, site, "the remembered %s copy is queued only where %s has no pending entry", role, path(mu.Key))
				return
			}
			// k is a local variable holding the chosen candidate: every
			// candidate must have been chosen where it has no pending entry.
			if al, isLocal := k.(*ssa.Alloc); isLocal {
				stores := c44LocalStores(al)
				bad := ""
				for _, st := range stores {
					cand := c44Ident(st.Val)
					if !c44CutFrom(c44LoopHeader(st.Block()), st, x.notPending(cand)) {
						bad = fmt.Sprintf("candidate %s is chosen at %s without a test that it has no entry in pendingWlEpUpdates", path(st.Val), p.Pos(st.Pos()))
					}
				}
				if len(stores) > 0 && bad == "" {
					c.Ok(key, site, "every one of the %d candidate(s) for %s is chosen only where it has no pending entry", len(stores), al.Comment)
					return
				}
				if bad != "" {
					c.Violate(key, site, "pendingWlEpUpdates[%s] = <%s copy>: %s — an update or remove of that endpoint queued in the same batch is overwritten by the older remembered copy (a removed endpoint is programmed again, or an update is reverted; which one wins depends on map iteration order)", path(mu.Key), role, bad)
					return
				}
			}
			c.Violate(key, site, "pendingWlEpUpdates[%s] = <%s copy> is reachable although %s may already have a pending entry: the datastore's newer update/remove of that endpoint is overwritten by the remembered copy", path(mu.Key), role, path(mu.Key))
		})
	}
	return n
}

// removesKey: instruction in removes key (identity k) from map field fld of the
// manager: a builtin delete, or a static call of a function with a body that
// does so on every path for the parameter k is passed as (depth-limited).
func (x *c44) removesKey(in ssa.Instruction, fld *types.Var, k ssa.Value, depth int) bool {
	if cc, ok := isBuiltinCall(in, "delete"); ok {
		return len(cc.Args) == 2 && x.mgrField(cc.Args[0]) == fld && c44Ident(cc.Args[1]) == k
	}
	ci, ok := in.(ssa.CallInstruction)
	if !ok || depth <= 0 {
		return false
	}
	sf := calleeFn(ci.Common())
	if sf == nil || sf.Blocks == nil {
		return false
	}
	for j, a := range ci.Common().Args {
		if j >= len(sf.Params) || c44Ident(a) != k {
			continue
		}
		pk := ssa.Value(sf.Params[j])
		pd := postDominators(sf)
		entry := sf.Blocks[0].Instrs[0]
		found := false
		allInstrs(sf, false, func(_ *ssa.Function, in2 ssa.Instruction) {
			if found || in2.Parent() != sf {
				return
			}
			if x.removesKey(in2, fld, pk, depth-1) && (in2 == entry || instrPostDominates(pd, in2, entry)) {
				found = true
			}
		})
		if found {
			return true
		}
	}
	return false
}

// notIn builds the edge predicate "key k is not in map field fld" (presence
// test false, or the looked-up value compared with nil).
func (x *c44) notIn(fld *types.Var, k ssa.Value) EdgePred {
	return func(cond ssa.Value, pol bool) bool {
		if f, tested := x.hasTest(cond); f == fld && tested != nil {
			return !pol && c44Ident(tested) == k
		}
		if y, isNil, ok := c21NilCmp(cond, pol); ok && isNil {
			if lk, isLk := c44Strip(y).(*ssa.Lookup); isLk && !lk.CommaOk && x.mgrField(lk.X) == fld && c44Ident(lk.Index) == k {
				return true
			}
		}
		return false
	}
}

func (x *c44) shadowExclusive() int {
	c, p := x.c, x.p
	n := 0
	for _, f := range x.mgrFuncs() {
		pd := postDominators(f)
		allInstrs(f, false, func(_ *ssa.Function, in ssa.Instruction) {
			mu, ok := in.(*ssa.MapUpdate)
			if !ok {
				return
			}
			var other *types.Var
			var key, okText, badText string
			switch x.mgrField(mu.Map) {
			case x.fActive:
				other = x.fShadowed
				key = "C44.shadow/exclusive/active/" + fnName(f)
				okText = "an endpoint entering activeWlEndpoints leaves shadowedWlEndpoints on every path"
				badText = "activeWlEndpoints[" + path(mu.Key) + "] is stored without delete(shadowedWlEndpoints, " + path(mu.Key) + ") on every path: an endpoint that was shadowed and becomes active through its own update (e.g. its interface name changed) keeps a stale shadow copy, which is promoted later — the endpoint is moved back to an interface name / data it no longer has"
			case x.fShadowed:
				other = x.fActive
				key = "C44.shadow/exclusive/shadowed/" + fnName(f) + "/" + x.idRole(mu.Key)
				okText = "an endpoint entering shadowedWlEndpoints is removed from the active set on every path (or is established not to be active)"
				badText = "shadowedWlEndpoints[" + path(mu.Key) + "] is stored while " + path(mu.Key) + " may still be in activeWlEndpoints and it is not removed from there: the endpoint is active (old interface name, old state) and shadowed at once; its old interface keeps state nobody claims"
			default:
				return
			}
			n++
			k := c44Ident(mu.Key)
			// the instructions of this function that take k out of the other map
			removers := map[ssa.Instruction]bool{}
			paired := false
			allInstrs(f, false, func(_ *ssa.Function, in2 ssa.Instruction) {
				if in2.Parent() != mu.Parent() || in2 == ssa.Instruction(mu) || !x.removesKey(in2, other, k, 2) {
					return
				}
				removers[in2] = true
				if instrPostDominates(pd, in2, mu) {
					paired = true // removed afterwards on every path
				}
			})
			// … or, before the store, every path either removes k or crosses an
			// edge establishing that k is not in the other map.
			if !paired && c44CutOrDo(mu, x.notIn(other, k), removers) {
				paired = true
			}
			c.Check(paired, key, p.Pos(mu.Pos()), okText, badText)
		})
	}
	return n
}

func (x *c44) shadow() {
	np := x.shadowPending()
	if np == 0 {
		x.c.Lost("no re-queue of a remembered endpoint copy (activeWlEndpoints/shadowedWlEndpoints value stored into pendingWlEpUpdates) found")
	}
	ne := x.shadowExclusive()
	if ne == 0 {
		x.c.Lost("no store into activeWlEndpoints / shadowedWlEndpoints found")
	}
}
