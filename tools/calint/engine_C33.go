package main

// E-DET (DESIGN §1.3): determinism lint over a set of functions (normally the
// call closure of a property's roots inside the loaded root packages).
//
//   arch      - identifiers whose value or behaviour depends on the CPU/OS the
//               process runs on: binary.NativeEndian, package unsafe, runtime.GOARCH/
//               GOOS/NumCPU/GOMAXPROCS, bits.UintSize, strconv.IntSize, x/sys/cpu;
//   process   - identifiers whose value differs from process to process or node to
//               node: hash/maphash, math/rand(/v2), crypto/rand, time.Now/Since/Until,
//               os.Hostname/Getpid/Getenv/...;
//   maporder  - a `range` over a map (or over maps.Keys/Values/All, reflect
//               MapKeys/MapRange) whose body has an effect that depends on the
//               iteration order.  Order-insensitive bodies are enumerated:
//               idempotent - stores to variables declared in the loop, assignment of
//               a constant / loop-independent value to an outer variable, return of
//               loop-independent values; commutative - delete/clear, store into an
//               element indexed by the range key itself, integer ++/--/op= on outer
//               variables, append to an outer slice that is sorted later in the same
//               function, calls accepted by the rule's AllowCall.  Commutative
//               effects become order-sensitive when the loop has an early exit
//               (break/return: which iterations run depends on the order).
//               Everything else is reported.
//
// Use: rep := detLint(p, detClosure(p, roots...), detOpts{AllowCall: ...}); one
// obligation per rep.Funcs entry and category (detDescribe).  Used by C33, C45;
// meant for C17 as well.
//
// The lint works on the AST with go/types resolution (constants such as
// runtime.GOARCH do not survive into SSA).  Expression-level calls (`v := f(k)`)
// are assumed not to have order-sensitive effects; statement-level calls are
// reported unless allowed.

import (
	"fmt"
	"go/ast"
	"go/token"
	"go/types"
	"sort"
	"strings"

	"golang.org/x/tools/go/ssa"
)

type detFinding struct {
	Cat  string // arch | process | maporder
	Pos  token.Pos
	What string
}

type detOpts struct {
	// AllowCall: statement-level calls inside a map range that have no
	// order-sensitive effect (logging, set insertion...).
	AllowCall func(f *types.Func) bool
}

type detReport struct {
	PerFn     map[*ssa.Function][]detFinding // keyed by top-level function
	Funcs     []*ssa.Function                // top-level functions examined (sorted)
	MapRanges map[*ssa.Function]int          // map ranges examined per function
	Idents    int
}

// detForbidden classifies an object as architecture- or process-dependent.
func detForbidden(obj types.Object) (cat, why string) {
	if obj == nil || obj.Pkg() == nil {
		return "", ""
	}
	if _, isPkgName := obj.(*types.PkgName); isPkgName {
		return "", ""
	}
	n := obj.Name()
	in := func(names ...string) bool {
		for _, x := range names {
			if x == n {
				return true
			}
		}
		return false
	}
	// only package-level objects and methods of package-level types
	switch obj.Pkg().Path() {
	case "encoding/binary":
		if in("NativeEndian") {
			return "arch", "binary.NativeEndian (byte order of the host CPU)"
		}
	case "unsafe":
		return "arch", "unsafe." + n + " (memory reinterpretation: layout and byte order of the host)"
	case "runtime":
		if in("GOARCH", "GOOS", "NumCPU", "GOMAXPROCS") {
			return "arch", "runtime." + n
		}
	case "math/bits":
		if in("UintSize") {
			return "arch", "bits.UintSize"
		}
	case "strconv":
		if in("IntSize") {
			return "arch", "strconv.IntSize"
		}
	case "golang.org/x/sys/cpu":
		return "arch", "x/sys/cpu." + n
	case "hash/maphash":
		return "process", "hash/maphash." + n + " (per-process random seed)"
	case "math/rand", "math/rand/v2", "crypto/rand":
		return "process", obj.Pkg().Path() + "." + n + " (random)"
	case "time":
		if in("Now", "Since", "Until") && obj.Parent() == obj.Pkg().Scope() {
			return "process", "time." + n + " (wall clock)"
		}
	case "os":
		if in("Hostname", "Getpid", "Getppid", "Getenv", "LookupEnv", "Environ", "Getuid", "Getwd", "Executable") && obj.Parent() == obj.Pkg().Scope() {
			return "process", "os." + n + " (node/process-local)"
		}
	case "reflect":
		if in("MapKeys", "MapRange") {
			return "maporder", "reflect." + n + " (unordered map iteration)"
		}
	}
	return "", ""
}

// detLint examines the given functions (closures are examined as part of their
// enclosing top-level function).
func detLint(p *Prog, fns map[*ssa.Function]bool, o detOpts) *detReport {
	rep := &detReport{PerFn: map[*ssa.Function][]detFinding{}, MapRanges: map[*ssa.Function]int{}}
	tops := map[*ssa.Function]bool{}
	for f := range fns {
		if f == nil {
			continue
		}
		t := topFn(f)
		if org := t.Origin(); org != nil {
			t = org
		}
		if t.Synthetic != "" || t.Syntax() == nil || t.Pkg == nil || p.ssaPkgs[t.Pkg.Pkg.Path()] == nil {
			continue
		}
		tops[t] = true
	}
	for t := range tops {
		rep.Funcs = append(rep.Funcs, t)
	}
	sort.Slice(rep.Funcs, func(i, j int) bool { return rep.Funcs[i].Pos() < rep.Funcs[j].Pos() })
	for _, t := range rep.Funcs {
		pk := p.byPath[t.Pkg.Pkg.Path()]
		if pk == nil {
			continue
		}
		info := pk.TypesInfo
		node := t.Syntax()
		rep.PerFn[t] = nil
		ast.Inspect(node, func(n ast.Node) bool {
			switch x := n.(type) {
			case *ast.Ident:
				rep.Idents++
				if cat, why := detForbidden(info.Uses[x]); cat != "" {
					rep.PerFn[t] = append(rep.PerFn[t], detFinding{cat, x.Pos(), why})
				}
			case *ast.RangeStmt:
				if what := detUnorderedRange(info, x); what != "" {
					rep.MapRanges[t]++
					for _, eff := range detRangeEffects(info, node, x, o) {
						rep.PerFn[t] = append(rep.PerFn[t], detFinding{"maporder", eff.pos,
							fmt.Sprintf("range over %s: %s", what, eff.what)})
					}
				}
			case *ast.CallExpr:
				// maps.Keys/Values/All used other than as a range operand or a Sorted argument
				if f := calleeObjAST(info, x); f != nil && f.Pkg() != nil && f.Pkg().Path() == "maps" &&
					(f.Name() == "Keys" || f.Name() == "Values" || f.Name() == "All") {
					if !detIterConsumedInOrder(info, node, x) {
						rep.MapRanges[t]++
						rep.PerFn[t] = append(rep.PerFn[t], detFinding{"maporder", x.Pos(),
							"maps." + f.Name() + " sequence consumed without sorting (slices.Sorted*) or an order-checked range"})
					}
				}
			}
			return true
		})
	}
	return rep
}

// detUnorderedRange: describes the operand if the range iterates in unspecified order.
func detUnorderedRange(info *types.Info, rs *ast.RangeStmt) string {
	tv, ok := info.Types[rs.X]
	if !ok {
		return ""
	}
	if _, isMap := tv.Type.Underlying().(*types.Map); isMap {
		return "map " + types.ExprString(rs.X)
	}
	if ce, ok := ast.Unparen(rs.X).(*ast.CallExpr); ok {
		if f := calleeObjAST(info, ce); f != nil && f.Pkg() != nil && f.Pkg().Path() == "maps" &&
			(f.Name() == "Keys" || f.Name() == "Values" || f.Name() == "All") {
			return "maps." + f.Name() + "(...)"
		}
	}
	return ""
}

// detIterConsumedInOrder: the maps.Keys/Values/All call is the operand of a
// range statement (checked there) or the argument of slices.Sorted*.
func detIterConsumedInOrder(info *types.Info, root ast.Node, call *ast.CallExpr) bool {
	ok := false
	ast.Inspect(root, func(n ast.Node) bool {
		switch x := n.(type) {
		case *ast.RangeStmt:
			if ast.Unparen(x.X) == ast.Expr(call) {
				ok = true
			}
		case *ast.CallExpr:
			if f := calleeObjAST(info, x); f != nil && f.Pkg() != nil && f.Pkg().Path() == "slices" && strings.HasPrefix(f.Name(), "Sorted") {
				for _, a := range x.Args {
					if ast.Unparen(a) == ast.Expr(call) {
						ok = true
					}
				}
			}
		}
		return !ok
	})
	return ok
}

type detEffect struct {
	pos  token.Pos
	what string
}

func detRangeEffects(info *types.Info, fnNode ast.Node, rs *ast.RangeStmt, o detOpts) []detEffect {
	loop := map[types.Object]bool{}
	ast.Inspect(rs, func(n ast.Node) bool {
		if id, ok := n.(*ast.Ident); ok {
			if obj := info.Defs[id]; obj != nil {
				loop[obj] = true
			}
		}
		return true
	})
	// `for k = range m` with pre-declared k: treat the assigned variables as loop variables too
	for _, e := range []ast.Expr{rs.Key, rs.Value} {
		if id, ok := e.(*ast.Ident); ok && rs.Tok == token.ASSIGN {
			if obj := info.Uses[id]; obj != nil {
				loop[obj] = true
			}
		}
	}
	refsLoop := func(e ast.Node) bool {
		found := false
		if e == nil {
			return false
		}
		ast.Inspect(e, func(n ast.Node) bool {
			if id, ok := n.(*ast.Ident); ok && loop[info.Uses[id]] {
				found = true
			}
			return !found
		})
		return found
	}
	isInt := func(e ast.Expr) bool {
		if tv, ok := info.Types[e]; ok {
			if b, ok := tv.Type.Underlying().(*types.Basic); ok {
				return b.Info()&types.IsInteger != 0
			}
		}
		return false
	}
	isConst := func(e ast.Expr) bool {
		if tv, ok := info.Types[e]; ok {
			return tv.Value != nil || tv.IsNil()
		}
		return false
	}
	// object denoted by an lvalue/argument expression (variable or field)
	objOf := func(e ast.Expr) types.Object {
		switch x := ast.Unparen(e).(type) {
		case *ast.Ident:
			if o := info.Uses[x]; o != nil {
				return o
			}
			return info.Defs[x]
		case *ast.SelectorExpr:
			return info.Uses[x.Sel]
		}
		return nil
	}
	sortedLater := func(obj types.Object) bool {
		if obj == nil {
			return false
		}
		found := false
		ast.Inspect(fnNode, func(n ast.Node) bool {
			ce, ok := n.(*ast.CallExpr)
			if !ok || ce.Pos() < rs.End() || len(ce.Args) == 0 {
				return true
			}
			f := calleeObjAST(info, ce)
			if f == nil || f.Pkg() == nil {
				return true
			}
			pp, n2 := f.Pkg().Path(), f.Name()
			if (pp == "sort" && (n2 == "Strings" || n2 == "Ints" || n2 == "Float64s" || n2 == "Slice" || n2 == "SliceStable" || n2 == "Sort" || n2 == "Stable")) ||
				(pp == "slices" && (n2 == "Sort" || n2 == "SortFunc" || n2 == "SortStableFunc")) {
				if objOf(ce.Args[0]) == obj {
					found = true
				}
			}
			return !found
		})
		return found
	}
	var out, comm []detEffect
	add := func(pos token.Pos, f string, a ...any) { out = append(out, detEffect{pos, fmt.Sprintf(f, a...)}) }
	commute := func(pos token.Pos, f string, a ...any) { comm = append(comm, detEffect{pos, fmt.Sprintf(f, a...)}) }
	var keyObj types.Object
	if id, ok := rs.Key.(*ast.Ident); ok {
		if keyObj = info.Defs[id]; keyObj == nil {
			keyObj = info.Uses[id]
		}
	}
	// isKey: the expression is the range key itself (unique per iteration), possibly converted
	isKey := func(e ast.Expr) bool {
		e = ast.Unparen(e)
		if ce, ok := e.(*ast.CallExpr); ok && len(ce.Args) == 1 {
			if tv, ok := info.Types[ce.Fun]; ok && tv.IsType() {
				e = ast.Unparen(ce.Args[0])
			}
		}
		id, ok := e.(*ast.Ident)
		return ok && keyObj != nil && info.Uses[id] == keyObj
	}
	isLoopLocal := func(e ast.Expr) bool {
		for {
			switch x := ast.Unparen(e).(type) {
			case *ast.Ident:
				return loop[info.Uses[x]]
			case *ast.SelectorExpr:
				e = x.X
				continue
			case *ast.IndexExpr:
				e = x.X
				continue
			case *ast.StarExpr:
				e = x.X
				continue
			}
			return false
		}
	}
	exitPos := token.NoPos
	breakDepth := 0

	var stmt func(s ast.Stmt)
	stmts := func(l []ast.Stmt) {
		for _, s := range l {
			stmt(s)
		}
	}
	lhs := func(s *ast.AssignStmt, i int, l ast.Expr) {
		l = ast.Unparen(l)
		if id, ok := l.(*ast.Ident); ok && id.Name == "_" {
			return
		}
		if ix, ok := l.(*ast.IndexExpr); ok {
			if refsLoop(ix.X) {
				return // element of a container of this iteration
			}
			if isKey(ix.Index) {
				commute(l.Pos(), "per-key store into %s", types.ExprString(l))
				return
			}
			add(l.Pos(), "store into %s whose index is not the range key (iterations may collide: last writer wins)", types.ExprString(l))
			return
		}
		// peel field selectors / derefs down to the base variable
		base := l
		for {
			switch x := base.(type) {
			case *ast.SelectorExpr:
				if _, isField := info.Selections[x]; isField {
					base = ast.Unparen(x.X)
					continue
				}
			case *ast.StarExpr:
				base = ast.Unparen(x.X)
				continue
			case *ast.IndexExpr:
				if isKey(x.Index) {
					commute(l.Pos(), "per-key store into %s", types.ExprString(l))
					return
				}
				base = ast.Unparen(x.X)
				continue
			}
			break
		}
		if id, ok := base.(*ast.Ident); ok {
			if obj := info.Uses[id]; obj != nil && loop[obj] {
				return // variable of this iteration
			}
			if info.Defs[id] != nil {
				return
			}
		}
		// outer variable
		switch s.Tok {
		case token.ADD_ASSIGN, token.SUB_ASSIGN, token.MUL_ASSIGN, token.OR_ASSIGN, token.AND_ASSIGN, token.XOR_ASSIGN:
			if isInt(l) {
				commute(l.Pos(), "integer accumulation into %s", types.ExprString(l))
				return
			}
			add(l.Pos(), "%s %s on a non-integer outer variable (order-dependent accumulation)", types.ExprString(l), s.Tok)
			return
		case token.ASSIGN, token.DEFINE:
			var r ast.Expr
			if len(s.Rhs) == len(s.Lhs) {
				r = s.Rhs[i]
			}
			if r != nil && isConst(r) {
				return
			}
			if ce, ok := ast.Unparen(r).(*ast.CallExpr); r != nil && ok {
				if id, ok := ast.Unparen(ce.Fun).(*ast.Ident); ok && id.Name == "append" && info.Uses[id] == types.Universe.Lookup("append") {
					if sortedLater(objOf(l)) {
						commute(l.Pos(), "append to %s (sorted later)", types.ExprString(l))
						return
					}
					add(l.Pos(), "append to outer slice %s, which is not sorted afterwards in this function", types.ExprString(l))
					return
				}
			}
			if r != nil && !refsLoop(r) {
				return // loop-independent value: every iteration stores the same thing
			}
			add(l.Pos(), "assignment of a loop-dependent value to outer variable %s (last writer wins)", types.ExprString(l))
			return
		default:
			add(l.Pos(), "%s %s on an outer variable", types.ExprString(l), s.Tok)
		}
	}
	stmt = func(s ast.Stmt) {
		switch x := s.(type) {
		case nil:
		case *ast.BlockStmt:
			stmts(x.List)
		case *ast.ExprStmt:
			ce, ok := ast.Unparen(x.X).(*ast.CallExpr)
			if !ok {
				return
			}
			if id, ok := ast.Unparen(ce.Fun).(*ast.Ident); ok {
				if b, ok := info.Uses[id].(*types.Builtin); ok {
					switch b.Name() {
					case "delete", "clear":
						commute(x.Pos(), "%s(...)", b.Name())
						return
					case "print", "println", "panic":
						return
					}
				}
			}
			if f := calleeObjAST(info, ce); f != nil && o.AllowCall != nil && o.AllowCall(f) {
				commute(x.Pos(), "call %s", types.ExprString(ce.Fun))
				return
			}
			add(x.Pos(), "statement-level call %s with unknown (possibly order-sensitive) effect", types.ExprString(ce.Fun))
		case *ast.AssignStmt:
			for i, l := range x.Lhs {
				lhs(x, i, l)
			}
		case *ast.IncDecStmt:
			if isInt(x.X) {
				if !isLoopLocal(x.X) {
					commute(x.Pos(), "integer %s of %s", x.Tok, types.ExprString(x.X))
				}
				return
			}
			add(x.Pos(), "%s on a non-integer", x.Tok)
		case *ast.IfStmt:
			stmt(x.Init)
			stmt(x.Body)
			stmt(x.Else)
		case *ast.SwitchStmt:
			stmt(x.Init)
			breakDepth++
			stmt(x.Body)
			breakDepth--
		case *ast.TypeSwitchStmt:
			stmt(x.Init)
			breakDepth++
			stmt(x.Body)
			breakDepth--
		case *ast.SelectStmt:
			breakDepth++
			stmt(x.Body)
			breakDepth--
		case *ast.CommClause:
			stmts(x.Body)
		case *ast.CaseClause:
			stmts(x.Body)
		case *ast.ForStmt:
			stmt(x.Init)
			stmt(x.Post)
			breakDepth++
			stmt(x.Body)
			breakDepth--
		case *ast.RangeStmt:
			breakDepth++
			stmt(x.Body)
			breakDepth--
		case *ast.LabeledStmt:
			stmt(x.Stmt)
		case *ast.DeclStmt, *ast.EmptyStmt:
		case *ast.BranchStmt:
			if x.Tok == token.GOTO {
				add(x.Pos(), "goto out of the loop")
			}
			if x.Tok == token.BREAK && (breakDepth == 0 || x.Label != nil) {
				exitPos = x.Pos()
			}
		case *ast.ReturnStmt:
			exitPos = x.Pos()
			for _, r := range x.Results {
				if refsLoop(r) {
					add(x.Pos(), "return of a loop-dependent value (first match in iteration order wins)")
					return
				}
			}
		default:
			add(s.Pos(), "%T inside the loop", s)
		}
	}
	stmt(rs.Body)
	if exitPos.IsValid() {
		// which iterations run before the exit depends on the map order
		for _, e := range comm {
			out = append(out, detEffect{e.pos, e.what + " in a loop with an early exit (the set of iterations executed depends on map order)"})
		}
	}
	return out
}

// detClosure: the functions with bodies in the root packages reachable from roots.
func detClosure(p *Prog, roots ...*ssa.Function) map[*ssa.Function]bool {
	out := map[*ssa.Function]bool{}
	for f := range p.closure(roots...) {
		if f != nil && f.Blocks != nil {
			out[f] = true
		}
	}
	return out
}

func detDescribe(p *Prog, fs []detFinding, cat string) (n int, text string) {
	var parts []string
	for _, f := range fs {
		if f.Cat == cat {
			n++
			parts = append(parts, fmt.Sprintf("%s at %s", f.What, p.Pos(f.Pos)))
		}
	}
	return n, strings.Join(parts, "; ")
}

// ------------------------------------------------ symbolic integer ranges --
//
// symRange: interval abstract interpretation of an SSA int value with bounds
// that are affine in one symbol M (a struct field that is immutable after
// construction, e.g. the Maglev table size): lo, hi = a*M + b.  Comparisons hold
// "for every M >= MinM".  Sound (never narrower than the concrete set of values,
// assuming a 64-bit int), deliberately small:
//   const, load of the M field through the function's receiver, + - % *,
//   conversions from unsigned types narrower than int, phi (one-step inductive
//   invariant [base.lo, +inf)), and results of static calls with a body (join
//   over the callee's returns; when the use is guarded by `err == nil` for the
//   call's error result only the returns whose error may be nil are joined).
// Everything else is top.

type symBound struct {
	Inf  bool
	A, B int64 // A*M + B
}

type symRange struct{ Lo, Hi symBound }

var symTop = symRange{symBound{Inf: true}, symBound{Inf: true}}

func symConst(b int64) symBound { return symBound{B: b} }

func (b symBound) String() string {
	switch {
	case b.Inf:
		return "inf"
	case b.A == 0:
		return fmt.Sprintf("%d", b.B)
	}
	s := "m"
	if b.A != 1 {
		s = fmt.Sprintf("%d*m", b.A)
	}
	if b.B > 0 {
		return fmt.Sprintf("%s+%d", s, b.B)
	} else if b.B < 0 {
		return fmt.Sprintf("%s%d", s, b.B)
	}
	return s
}

func (r symRange) String() string {
	lo, hi := r.Lo.String(), r.Hi.String()
	if r.Lo.Inf {
		lo = "-inf"
	}
	if r.Hi.Inf {
		hi = "+inf"
	}
	return "[" + lo + ", " + hi + "]"
}

type symEval struct {
	M    *types.Var // the symbol
	MinM int64      // comparisons hold for every M >= MinM
	// per-evaluation state
	assume map[*ssa.Phi]symRange
	depth  int
}

// le: x <= y for every M >= MinM (finite bounds only).
func (e *symEval) le(x, y symBound) bool {
	if x.Inf || y.Inf {
		return false
	}
	da, db := x.A-y.A, x.B-y.B
	return da <= 0 && da*e.MinM+db <= 0
}

func (e *symEval) loGE(r symRange, b symBound) bool { return !r.Lo.Inf && e.le(b, r.Lo) }
func (e *symEval) hiLE(r symRange, b symBound) bool { return !r.Hi.Inf && e.le(r.Hi, b) }

func (e *symEval) within(r, outer symRange) bool {
	return (outer.Lo.Inf || e.loGE(r, outer.Lo)) && (outer.Hi.Inf || e.hiLE(r, outer.Hi))
}

func (e *symEval) join(x, y symRange) symRange {
	var out symRange
	switch {
	case x.Lo.Inf || y.Lo.Inf:
		out.Lo = symBound{Inf: true}
	case e.le(x.Lo, y.Lo):
		out.Lo = x.Lo
	case e.le(y.Lo, x.Lo):
		out.Lo = y.Lo
	default:
		out.Lo = symBound{Inf: true}
	}
	switch {
	case x.Hi.Inf || y.Hi.Inf:
		out.Hi = symBound{Inf: true}
	case e.le(x.Hi, y.Hi):
		out.Hi = y.Hi
	case e.le(y.Hi, x.Hi):
		out.Hi = x.Hi
	default:
		out.Hi = symBound{Inf: true}
	}
	return out
}

func symAdd(x, y symBound) symBound {
	if x.Inf || y.Inf {
		return symBound{Inf: true}
	}
	return symBound{A: x.A + y.A, B: x.B + y.B}
}

func symNeg(x symBound) symBound {
	if x.Inf {
		return x
	}
	return symBound{A: -x.A, B: -x.B}
}

// errNilGuard: edge predicate "the error result of call is nil on this edge".
func symErrNilGuard(call *ssa.Call, idx int) EdgePred {
	isErr := func(v ssa.Value) bool {
		ex, ok := v.(*ssa.Extract)
		return ok && ex.Tuple == ssa.Value(call) && ex.Index == idx
	}
	return eqCond(true, isErr, isNilConst)
}

// Range evaluates v as used by instruction `at` (guards of `at` select the
// successful returns of calls whose results flow into v).
func (e *symEval) Range(v ssa.Value, at ssa.Instruction) symRange {
	if e.assume == nil {
		e.assume = map[*ssa.Phi]symRange{}
	}
	e.depth++
	defer func() { e.depth-- }()
	if e.depth > 40 {
		return symTop
	}
	switch x := v.(type) {
	case *ssa.Const:
		if cv, ok := constOf(x); ok {
			if s := cv.String(); len(s) < 18 {
				var n int64
				if _, err := fmt.Sscanf(s, "%d", &n); err == nil && fmt.Sprintf("%d", n) == s {
					return symRange{symConst(n), symConst(n)}
				}
			}
		}
		return symTop
	case *ssa.UnOp:
		if x.Op == token.MUL {
			if fa, ok := x.X.(*ssa.FieldAddr); ok && fieldVar(fa) == e.M {
				fn := x.Parent()
				if fn != nil && len(fn.Params) > 0 && fa.X == ssa.Value(fn.Params[0]) && fn.Signature.Recv() != nil {
					return symRange{symBound{A: 1}, symBound{A: 1}}
				}
			}
			return e.typeRange(x.Type())
		}
		if x.Op == token.SUB {
			r := e.Range(x.X, x)
			return symRange{symNeg(r.Hi), symNeg(r.Lo)}
		}
		return symTop
	case *ssa.Convert:
		from, _ := x.X.Type().Underlying().(*types.Basic)
		to, _ := x.Type().Underlying().(*types.Basic)
		if from == nil || to == nil || to.Info()&types.IsInteger == 0 || from.Info()&types.IsInteger == 0 {
			return symTop
		}
		inner := e.Range(x.X, x)
		if inner.Lo.Inf || inner.Hi.Inf {
			if sr := e.typeRange(x.X.Type()); !sr.Lo.Inf {
				inner = sr // narrow source type
			}
		}
		if tr := e.typeRange(x.Type()); !tr.Lo.Inf {
			// narrow target: value-preserving only when the source range fits
			if e.within(inner, tr) {
				return inner
			}
			return tr
		}
		// 64-bit target
		srcUnsigned := from.Info()&types.IsUnsigned != 0
		dstUnsigned := to.Info()&types.IsUnsigned != 0
		switch {
		case srcUnsigned && !dstUnsigned && inner.Hi.Inf:
			return symTop // may wrap to a negative value
		case !srcUnsigned && dstUnsigned && !e.loGE(inner, symConst(0)):
			return symRange{symConst(0), symBound{Inf: true}}
		}
		return inner
	case *ssa.BinOp:
		switch x.Op {
		case token.ADD:
			a, b := e.Range(x.X, x), e.Range(x.Y, x)
			return symRange{symAdd(a.Lo, b.Lo), symAdd(a.Hi, b.Hi)}
		case token.SUB:
			a, b := e.Range(x.X, x), e.Range(x.Y, x)
			return symRange{symAdd(a.Lo, symNeg(b.Hi)), symAdd(a.Hi, symNeg(b.Lo))}
		case token.MUL:
			a, b := e.Range(x.X, x), e.Range(x.Y, x)
			if e.loGE(a, symConst(0)) && e.loGE(b, symConst(0)) {
				return symRange{symConst(0), symBound{Inf: true}}
			}
			return symTop
		case token.REM:
			a, k := e.Range(x.X, x), e.Range(x.Y, x)
			if !e.loGE(k, symConst(1)) || k.Hi.Inf {
				return symTop // divisor not provably positive and bounded
			}
			top := symAdd(k.Hi, symConst(-1))
			if e.loGE(a, symConst(0)) {
				return symRange{symConst(0), top}
			}
			return symRange{symNeg(top), top}
		}
		return symTop
	case *ssa.Phi:
		if r, ok := e.assume[x]; ok {
			return r
		}
		// candidate invariant: [lo of the edges that do not depend on the phi, +inf)
		e.assume[x] = symTop
		base, first := symTop, true
		for _, ed := range x.Edges {
			if symDependsOn(ed, x) {
				continue
			}
			r := e.Range(ed, x)
			if first {
				base, first = r, false
			} else {
				base = e.join(base, r)
			}
		}
		delete(e.assume, x)
		if first {
			return symTop
		}
		dep := false
		for _, ed := range x.Edges {
			if symDependsOn(ed, x) {
				dep = true
			}
		}
		if !dep {
			return base
		}
		cand := symRange{base.Lo, symBound{Inf: true}}
		e.assume[x] = cand
		ok := true
		for _, ed := range x.Edges {
			if !e.within(e.Range(ed, x), cand) {
				ok = false
			}
		}
		delete(e.assume, x)
		if ok {
			return cand
		}
		return symTop
	case *ssa.Extract:
		call, ok := x.Tuple.(*ssa.Call)
		if !ok {
			return symTop
		}
		return e.callResult(call, x.Index, at)
	case *ssa.Call:
		return e.callResult(x, 0, at)
	}
	return symTop
}

func symDependsOn(v ssa.Value, phi *ssa.Phi) bool {
	seen := map[ssa.Value]bool{}
	var walk func(v ssa.Value) bool
	walk = func(v ssa.Value) bool {
		if v == ssa.Value(phi) {
			return true
		}
		if seen[v] {
			return false
		}
		seen[v] = true
		switch x := v.(type) {
		case *ssa.BinOp:
			return walk(x.X) || walk(x.Y)
		case *ssa.UnOp:
			return walk(x.X)
		case *ssa.Convert:
			return walk(x.X)
		case *ssa.Phi:
			for _, ed := range x.Edges {
				if walk(ed) {
					return true
				}
			}
		}
		return false
	}
	return walk(v)
}

// typeRange: the value range of a narrow integer type (64-bit int assumed).
func (e *symEval) typeRange(t types.Type) symRange {
	b, _ := t.Underlying().(*types.Basic)
	if b == nil {
		return symTop
	}
	switch b.Kind() {
	case types.Uint8:
		return symRange{symConst(0), symConst(1<<8 - 1)}
	case types.Uint16:
		return symRange{symConst(0), symConst(1<<16 - 1)}
	case types.Uint32:
		return symRange{symConst(0), symConst(1<<32 - 1)}
	case types.Int8:
		return symRange{symConst(-1 << 7), symConst(1<<7 - 1)}
	case types.Int16:
		return symRange{symConst(-1 << 15), symConst(1<<15 - 1)}
	case types.Int32:
		return symRange{symConst(-1 << 31), symConst(1<<31 - 1)}
	}
	return symTop
}

func (e *symEval) callResult(call *ssa.Call, idx int, at ssa.Instruction) symRange {
	g := calleeFn(call.Common())
	if g == nil || len(g.Blocks) == 0 {
		return symTop
	}
	res := g.Signature.Results()
	if idx >= res.Len() {
		return symTop
	}
	// a callee that is a method may read M through its receiver: only the same receiver is the same M
	if g.Signature.Recv() != nil {
		caller := call.Parent()
		if caller == nil || len(caller.Params) == 0 || len(call.Call.Args) == 0 || call.Call.Args[0] != ssa.Value(caller.Params[0]) {
			sub := &symEval{M: nil, MinM: e.MinM, depth: e.depth}
			return sub.callResultOf(g, call, idx, at)
		}
	}
	return e.callResultOf(g, call, idx, at)
}

func (e *symEval) callResultOf(g *ssa.Function, call *ssa.Call, idx int, at ssa.Instruction) symRange {
	res := g.Signature.Results()
	errIdx := -1
	if last := res.Len() - 1; last >= 0 && last != idx && qualTypeName(res.At(last).Type()) == "error" {
		errIdx = last
	}
	onlySuccess := errIdx >= 0 && at != nil && at.Parent() == call.Parent() && guardedCut(at, symErrNilGuard(call, errIdx))
	out, first := symTop, true
	for _, r := range returnsOf(g) {
		if g.Recover != nil && r.Block() == g.Recover {
			continue
		}
		if len(r.Results) != res.Len() {
			return symTop
		}
		if onlySuccess {
			ev := r.Results[errIdx]
			if !isNilConst(ev) && guardedCut(r, eqCond(false, func(v ssa.Value) bool { return v == ev }, isNilConst)) {
				continue // this return always carries a non-nil error
			}
		}
		rv := r.Results[idx]
		// results of functions with defers go through result allocs: not modelled
		rr := e.Range(rv, r)
		if first {
			out, first = rr, false
		} else {
			out = e.join(out, rr)
		}
	}
	if first {
		return symTop
	}
	return out
}
