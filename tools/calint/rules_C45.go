package main

import (
	"fmt"
	"go/token"
	"go/types"
	"strings"

	"golang.org/x/tools/go/ssa"
)

const (
	c45Pkg     = "lib/datastructures/hashring"
	c45File    = "lib/datastructures/hashring/hashring.go"
	c45MgrFile = "felix/dataplane/linux/proxy_neigh_mgr.go"
)

func init() {
	register(&Property{
		ID:        "C45",
		Title:     "Every node elects the same owner for a load-balancer address",
		Technique: "static analysis: interprocedural protocol-state analysis (finite abstract state per API call, disjunctive sets, computed summaries of in-package helpers, obligations evaluated under every calling context) for the sorted-flag invariant, the binary search and the sweep (E-PAIR/E-GUARD), comparator field closure (E-FIELDS), insert guards lifted through helper results and call sites, determinism lint (E-DET) on go/ssa + go/ast of lib/datastructures/hashring; mutation/dirty pairing with a before/after size-bracket exemption and size-derived-branch ownership (E-PAIR/E-OWN) on proxyNeighManager in felix/dataplane/linux",
		DesignRef: "DESIGN.md §3 C45",
		Explanation: "History-independence clauses of hashring.Ring, decided per API call (exported function of the package) across whatever helpers the code is split into: (sorted) the class invariant `sorted ⇒ entries sorted` is re-established at every API exit — a store into `entries` that is not an order-preserving slices helper (Grow/DeleteFunc/Delete/Clip), a re-slice or an emptying is followed on every path to the exit by sorted=false or a sort; sorted is only set where `entries` is known sorted; every binary search of `entries` runs only where it is known sorted (after the sort, or on a sorted==true edge with flag and table untouched since API entry). " +
			"(total) the sort comparator reads every field of `entry` (ties on the hash are broken by the key, so the order does not depend on insertion history). " +
			"(sweep) the sweep drops exactly the entries whose key is pending; every API call that sweeps also deletes every pending key from `members` and then clears `deletedKeys` before it returns (clearing earlier would blind the two steps that read the set); the binary searches Lookup performs run only with the pending set known empty (cleared, or len()==0 tested), so a removed member is never elected. " +
			"(insert) virtual nodes are appended only for keys that are neither live nor pending deletion — the not-found edges of the two map lookups, established in the appending function, by a helper whose result implies them, or at every call site of the appending helper — and each appended entry carries saltedHash(key, i) and the same key. " +
			"(apply) in the ring's consumer, felix/dataplane/linux proxyNeighManager, every call of a member-set mutator of the ring (Insert/Remove, derived from the ring's source) is followed on every path by dirty=true, except on the size-unchanged edge of a Len() comparison that brackets exactly that one call; in the functions that decide dirtiness the ring's size feeds no other branch and is never cached (a join plus a leave keep the size but change the owners). " +
			"(ringtotal) the handler of each host-metadata message (HostMetadataUpdate, HostMetadataRemove — the arm of the type switch on the proto type) applies a member-set mutator of the ring to the message's Hostname on every path to its return, itself or in an in-package callee that is handed the message or the hostname: a node that loses its address in the manager's family (announced as an update with that address empty) leaves the ring, so the ring depends on the current metadata only. " +
			"(det) no architecture-/process-dependent primitive and no order-sensitive map iteration in the closure of New/Insert/Remove/Len/Lookup.",
		NotDecided: "That the hash function (xxh3 by default, or one supplied with WithHash) is node-independent; arithmetic of the nearest-probe selection; that all nodes feed the ring the same member set (proxy_neigh_mgr); that dirty=true actually leads to reconcileListeners (CompleteDeferredWork's gate is only checked for not deriving from the ring's size); balance.",
		Assumptions: []string{
			"go/types + go/ssa (x/tools v0.50.0) model of the current source (module lib/datastructures)",
			"slices.DeleteFunc/Delete/Grow/Clip preserve the relative order of the remaining elements; slices.SortFunc sorts by the comparator",
		},
		Run: runC45,
		Fixtures: []Fixture{
			{Name: "Insert forgets to invalidate the sorted flag", File: c45File,
				Old: "\t\t})\n\t}\n\tr.sorted = false\n", New: "\t\t})\n\t}\n", Expect: "C45.sorted/store/Ring.Insert"},
			{Name: "sort skipped for small rings", File: c45File,
				Old: "\tif !r.sorted {\n", New: "\tif !r.sorted && len(r.entries) > 16 {\n", Expect: "C45.sorted/search/Ring.Lookup"},
			{Name: "comparator ignores the key on hash ties", File: c45File,
				Old: "\t\t\treturn cmp.Compare(a.key, b.key)\n", New: "\t\t\treturn 0\n", Expect: "C45.total/"},
			{Name: "sweep leaves the pending-delete set populated", File: c45File,
				Old: "\t\tclear(r.deletedKeys)\n", New: "", Expect: "C45.sweep/Ring.Lookup/clear"},
			{Name: "sweep keeps dead members", File: c45File,
				Old: "\t\tfor k := range r.deletedKeys {\n\t\t\tdelete(r.members, k)\n\t\t}\n", New: "", Expect: "C45.sweep/Ring.Lookup/members"},
			{Name: "sweep deferred until many removals are pending", File: c45File,
				Old: "\tif len(r.deletedKeys) > 0 {\n", New: "\tif len(r.deletedKeys) > len(r.members)/2 {\n", Expect: "C45.sweep/Ring.Lookup/before-search"},
			{Name: "re-insert of a live key adds virtual nodes again", File: c45File,
				Old: "\tif _, ok := r.members[key]; ok {\n\t\tr.members[key] = value\n\t\treturn\n\t}\n", New: "", Expect: "C45.insert/Ring.Insert/guard"},
			{Name: "node join no longer marks the neighbour manager dirty", File: c45MgrFile,
				Old: "Debug(\"Proxy neighbor manager received HostMetadataUpdate\")\n\t\t\tm.dirty = true\n", New: "Debug(\"Proxy neighbor manager received HostMetadataUpdate\")\n", Expect: "C45.ringdirty/proxyNeighManager.OnUpdate/Insert"},
			{Name: "before-size sampled after the removal", File: c45MgrFile,
				Old: "\t\tbefore := m.nodeRing.Len()\n\t\tm.nodeRing.Remove(msg.Hostname)\n", New: "\t\tm.nodeRing.Remove(msg.Hostname)\n\t\tbefore := m.nodeRing.Len()\n", Expect: "C45.ringdirty/proxyNeighManager.OnUpdate/Remove"},
			{Name: "reconcile gated on the ring's size", File: c45MgrFile,
				Old: "\tif !m.dirty && !m.hasFailedListener() {\n", New: "\tif (!m.dirty || m.nodeRing.Len() == 0) && !m.hasFailedListener() {\n", Expect: "C45.ringsize/proxyNeighManager"},
			{Name: "update without an address in our family leaves the node where it was", File: c45MgrFile,
				Old: "\t\tif addr == \"\" {\n", New: "\t\tif addr == \"\" && !m.dirty {\n\t\t\treturn\n\t\t}\n\t\tif addr == \"\" {\n", Expect: "C45.ringtotal/proxyNeighManager.OnUpdate/HostMetadataUpdate"},
			{Name: "remove for a node we never announced is ignored", File: c45MgrFile,
				Old: "\tcase *proto.HostMetadataRemove:\n", New: "\tcase *proto.HostMetadataRemove:\n\t\tif msg.Hostname == m.hostname {\n\t\t\treturn\n\t\t}\n", Expect: "C45.ringtotal/proxyNeighManager.OnUpdate/HostMetadataRemove"},
			{Name: "virtual node position depends on the host byte order", File: c45File,
				Old: "binary.LittleEndian.PutUint32(idx[:], uint32(i))", New: "binary.NativeEndian.PutUint32(idx[:], uint32(i))", Expect: "C45.det/arch/Ring.saltedHash"},
			{Name: "sweep stops after the first pending key in map order", File: c45File,
				Old: "\t\tfor k := range r.deletedKeys {\n\t\t\tdelete(r.members, k)\n\t\t}\n", New: "\t\tfor k := range r.deletedKeys {\n\t\t\tdelete(r.members, k)\n\t\t\tbreak\n\t\t}\n", Expect: "C45.det/maporder/Ring.Lookup"},
		},
	})
}

type c45Model struct {
	c                                     *Ctx
	p                                     *Prog
	members, deleted, entries, sorted     *types.Var
	entryT                                types.Type
	funcs                                 []*ssa.Function
	sm                                    *c45Machine // sorted-flag protocol (also the package's call-site index)
	insert, remove, lookup, length, newFn *ssa.Function
}

func runC45(c *Ctx) {
	p := c.LoadMod(modDS, "./hashring")
	c.Rule("C45.sorted", "E-PAIR/E-GUARD", "stores to entries keep order or clear the sorted flag; sorted=true only after a sort; binary search only behind sort/sorted", 4)
	c.Rule("C45.total", "E-FIELDS", "the sort comparator reads every field of entry", 1)
	c.Rule("C45.sweep", "E-PAIR", "the sweep of dead entries drops exactly the pending keys, deletes them from members and clears the pending set before the API call returns (in this order, in the function or its helpers); Lookup's owner search runs only with the pending set known empty", 4)
	c.Rule("C45.insert", "E-GUARD/E-FLOW", "entries appended only for keys neither live nor pending; appended entry = {saltedHash(key,i), key}", 2)
	c.Rule("C45.ringdirty", "E-PAIR", "in proxyNeighManager every call of a member-set mutator of the ring (Insert/Remove) is followed on every path by dirty=true, except on the `equal` edge of a comparison of Ring.Len() taken immediately before and after that single call (the call was a no-op)", 2)
	c.Rule("C45.ringsize", "E-OWN", "in the functions of proxyNeighManager that decide dirtiness, a value of Ring.Len() only feeds a branch as such a before/after bracket of one mutation, and is never cached in the manager: size is not membership", 1)
	c.Rule("C45.ringtotal", "E-PAIR/E-FLOW", "in proxyNeighManager, every path from the type-switch arm that receives a host-metadata message (HostMetadataUpdate, HostMetadataRemove) to the handler's return applies a member-set mutator of the ring (Insert/Remove) to the message's Hostname, directly or in an in-package callee: membership is a function of the node's current metadata, never of what was seen earlier", 2)
	c.Rule("C45.det", "E-DET", "no arch/process-dependent primitive, no order-sensitive map iteration in the ring's closure", 12)

	m := &c45Model{c: c, p: p}
	tn, _ := p.LookupObj(c45Pkg, "Ring").(*types.TypeName)
	if tn == nil {
		c.Lost("type hashring.Ring")
	}
	st, _ := tn.Type().Underlying().(*types.Struct)
	if st == nil {
		c.Lost("Ring is not a struct")
	}
	nBool := 0
	for i := 0; i < st.NumFields(); i++ {
		f := st.Field(i)
		switch t := f.Type().Underlying().(type) {
		case *types.Map:
			if s, ok := t.Elem().Underlying().(*types.Struct); ok && s.NumFields() == 0 {
				m.deleted = f
			} else if _, ok := t.Elem().(*types.TypeParam); ok {
				m.members = f
			}
		case *types.Slice:
			if _, ok := t.Elem().Underlying().(*types.Struct); ok {
				m.entries = f
				m.entryT = t.Elem()
			}
		case *types.Basic:
			if t.Kind() == types.Bool {
				m.sorted = f
				nBool++
			}
		}
	}
	if m.members == nil || m.deleted == nil || m.entries == nil || m.sorted == nil || nBool != 1 {
		c.Lost("Ring fields by type (members map[string]V, pending map[string]struct{}, entries []struct, one bool): %v %v %v %v", m.members, m.deleted, m.entries, m.sorted)
	}
	for _, n := range []struct {
		name string
		dst  **ssa.Function
	}{{"Ring.Insert", &m.insert}, {"Ring.Remove", &m.remove}, {"Ring.Lookup", &m.lookup}, {"Ring.Len", &m.length}, {"New", &m.newFn}} {
		f := p.Func(c45Pkg, n.name)
		if f == nil || f.Blocks == nil {
			c.Lost("hashring.%s", n.name)
		}
		*n.dst = f
	}
	// every function with a body declared in the ring's package (methods of
	// Ring, New, helpers, closures): sites are found by what they do, wherever a
	// refactor has put them.
	sp := p.SSAPkg(c45Pkg)
	if sp == nil {
		c.Lost("package %s", c45Pkg)
	}
	var tops []*ssa.Function
	for _, name := range sortedKeys(sp.Members) {
		switch mem := sp.Members[name].(type) {
		case *ssa.Function:
			if mem.Blocks != nil && mem.Synthetic == "" {
				tops = append(tops, mem)
			}
		case *ssa.Type:
			tops = append(tops, p.methodsOf(c45Pkg, name)...)
		}
	}
	m.funcs = withClosures(tops)
	if len(m.funcs) < 6 {
		c.Lost("functions of %s: %d", c45Pkg, len(m.funcs))
	}

	c45Sorted(m)
	c45Total(m)
	c45Sweep(m)
	c45Insert(m)

	c45Manager(m)

	cl := detClosure(p, m.newFn, m.insert, m.remove, m.lookup, m.length)
	rep := detLint(p, cl, detOpts{})
	if len(rep.Funcs) < 6 {
		c.Lost("closure of the ring API has %d functions", len(rep.Funcs))
	}
	for _, f := range rep.Funcs {
		site := p.Pos(f.Pos())
		na, ta := detDescribe(p, rep.PerFn[f], "arch")
		np, tp := detDescribe(p, rep.PerFn[f], "process")
		c.Check(na+np == 0, "C45.det/arch/"+fnName(f), site, "no architecture-/process-dependent identifier used",
			fnName(f)+" uses "+strings.TrimPrefix(ta+"; "+tp, "; ")+": ring positions differ between nodes")
		nm, tm := detDescribe(p, rep.PerFn[f], "maporder")
		c.Check(nm == 0, "C45.det/maporder/"+fnName(f), site,
			fmt.Sprintf("%d map iteration(s), none with an order-sensitive effect", rep.MapRanges[f]), fnName(f)+": "+tm)
	}
}

// c45Is: v accesses the given Ring field (fields whose type mentions V are
// re-created per instantiation, so compare generic origins).
func c45Is(v ssa.Value, f *types.Var) bool {
	fv := fieldVar(v)
	return fv != nil && f != nil && fv.Origin() == f.Origin()
}

func c45SlicesFn(f *types.Func, names ...string) bool {
	if f == nil || f.Pkg() == nil || f.Pkg().Path() != "slices" {
		return false
	}
	for _, n := range names {
		if f.Name() == n {
			return true
		}
	}
	return false
}

func (m *c45Model) sortCalls(f *ssa.Function) []CallSite {
	var out []CallSite
	for _, cs := range callsIn(f, false, func(fn *types.Func) bool {
		return c45SlicesFn(fn, "SortFunc", "SortStableFunc") || (fn.Pkg() != nil && fn.Pkg().Path() == "sort" && (fn.Name() == "Slice" || fn.Name() == "SliceStable"))
	}) {
		if len(cs.Args()) > 0 && c45Is(cs.Args()[0], m.entries) {
			out = append(out, cs)
		}
	}
	return out
}

// ---- sorted-flag protocol -------------------------------------------------
//
// Abstract state = (flag, entries):
//
//	flag    F  the sorted flag is known false
//	        U  unchanged since the API call began
//	        T  stored (non-false) during this API call
//	entries S  known sorted (a sort ran, or the flag was read true while both
//	           were unchanged — the class invariant `flag ⇒ sorted` is assumed at
//	           API entry and proved at every API exit)
//	        U  unchanged since the API call began
//	        D  possibly disordered (a store that is not an order-preserving helper)
//
// Invariant at an exit: flag==F, or entries==S, or nothing was touched.
const (
	c45FlagF, c45FlagU, c45FlagT = 0, 1, 2
	c45EntS, c45EntU, c45EntD    = 0, 1, 2
)

func c45St(flag, ent int) int     { return flag*3 + ent }
func c45Bit(flag, ent int) c45Set { return 1 << uint(c45St(flag, ent)) }
func c45InvOK(s int) bool {
	flag, ent := s/3, s%3
	return flag == c45FlagF || ent == c45EntS || (flag == c45FlagU && ent == c45EntU)
}

// entriesStoreKind classifies a value stored into the entries field:
// "keep" (order-preserving: slices.Grow/DeleteFunc/Delete/Clip of entries, a
// re-slice of entries), "empty" (nil, [:0], make(_, 0, …): trivially sorted) or
// "disorder" (anything else, e.g. append).
func (m *c45Model) entriesStoreKind(v ssa.Value) string {
	switch x := v.(type) {
	case *ssa.Call:
		if c45SlicesFn(calleeOf(x.Common()), "Grow", "DeleteFunc", "Delete", "Clip") && len(x.Call.Args) > 0 && c45Is(x.Call.Args[0], m.entries) {
			return "keep"
		}
	case *ssa.Slice:
		if x.High != nil {
			if cv, ok := constOf(x.High); ok && cv.ExactString() == "0" {
				return "empty"
			}
		}
		if c45Is(x.X, m.entries) {
			return "keep"
		}
	case *ssa.MakeSlice:
		if cv, ok := constOf(x.Len); ok && cv.ExactString() == "0" {
			return "empty"
		}
	case *ssa.Const:
		if x.Value == nil {
			return "empty"
		}
	}
	return "disorder"
}

func (m *c45Model) isSortCall(in ssa.Instruction) bool {
	ci, ok := in.(ssa.CallInstruction)
	if !ok {
		return false
	}
	fn := calleeOf(ci.Common())
	if fn == nil || !(c45SlicesFn(fn, "SortFunc", "SortStableFunc") || (fn.Pkg() != nil && fn.Pkg().Path() == "sort" && (fn.Name() == "Slice" || fn.Name() == "SliceStable"))) {
		return false
	}
	a := ci.Common().Args
	return len(a) > 0 && c45Is(a[0], m.entries)
}

// body: the function with a body in the ring's package that cc calls
// statically (instantiation wrappers of generic methods resolved to the generic
// origin); nil for everything else.
func (m *c45Model) body(cc *ssa.CallCommon) *ssa.Function {
	if cc.IsInvoke() {
		return nil
	}
	sc := cc.StaticCallee()
	if sc == nil {
		return nil
	}
	if o := sc.Origin(); o != nil {
		sc = o
	}
	if sc.Blocks == nil || topFn(sc).Pkg == nil || topFn(sc).Pkg != m.p.SSAPkg(c45Pkg) {
		return nil
	}
	return sc
}

func (m *c45Model) isRoot(f *ssa.Function) bool {
	if f.Parent() != nil {
		return false
	}
	o, _ := f.Object().(*types.Func)
	return o == nil || o.Exported()
}

func (m *c45Model) sortedMachine() *c45Machine {
	names := [3]string{"false", "unchanged", "set"}
	ents := [3]string{"sorted", "unchanged", "possibly disordered"}
	return &c45Machine{
		n: 9, init: c45St(c45FlagU, c45EntU),
		body: m.body, funcs: m.funcs, isRoot: m.isRoot,
		label: func(s int) string {
			return fmt.Sprintf("%s %s / %s %s", m.sorted.Name(), names[s/3], m.entries.Name(), ents[s%3])
		},
		step: func(in ssa.Instruction, s int) (c45Set, bool) {
			flag, ent := s/3, s%3
			if m.isSortCall(in) {
				return c45Bit(flag, c45EntS), true
			}
			st, ok := in.(*ssa.Store)
			if !ok {
				return 0, false
			}
			switch {
			case c45Is(st.Addr, m.sorted):
				if cv, ok := constOf(st.Val); ok && cv.ExactString() == "false" {
					return c45Bit(c45FlagF, ent), true
				}
				return c45Bit(c45FlagT, ent), true
			case c45Is(st.Addr, m.entries):
				switch m.entriesStoreKind(st.Val) {
				case "keep":
					return 0, false
				case "empty":
					return c45Bit(flag, c45EntS), true
				}
				return c45Bit(flag, c45EntD), true
			}
			// element store entries[i] = …
			if ia, ok := st.Addr.(*ssa.IndexAddr); ok && c45Is(ia.X, m.entries) {
				return c45Bit(flag, c45EntD), true
			}
			return 0, false
		},
		edge: func(cond ssa.Value, pol bool, s int) (c45Set, bool) {
			if !c45Is(cond, m.sorted) {
				return 0, false
			}
			flag, ent := s/3, s%3
			if !pol {
				return c45Bit(c45FlagF, ent), true
			}
			if flag == c45FlagF {
				return 0, true // infeasible
			}
			if flag == c45FlagU && ent == c45EntU {
				return c45Bit(flag, c45EntS), true
			}
			return 0, false
		},
	}
}

func c45Sorted(m *c45Model) {
	c, p := m.c, m.p
	mc := m.sortedMachine()
	m.sm = mc
	entSorted := func(s int) bool { return s%3 == c45EntS }
	nStores := 0
	for _, f := range m.funcs {
		// stores into entries: the class invariant `flag ⇒ sorted` holds again at
		// every exit of every API function that can reach this function
		n, nDis := 0, 0
		for _, st := range storesToField(f, false, "", m.entries.Name()) {
			if !c45Is(st.Addr, m.entries) {
				continue
			}
			n++
			if m.entriesStoreKind(st.Val) == "disorder" {
				nDis++
			}
		}
		if n > 0 {
			nStores += n
			bad := ""
			if nDis > 0 {
				bad = mc.requireAtExit(f, c45InvOK)
			}
			c.Check(bad == "", "C45.sorted/store/"+fnName(f), p.Pos(f.Pos()),
				fmt.Sprintf("%d store(s) into %s (%d not order-preserving): every API exit is reached with %s=false or a sorted table", n, m.entries.Name(), nDis, m.sorted.Name()),
				fmt.Sprintf("%s stores into %s without an order-preserving helper, and %s: the store is not followed on every path by %s=false (a later Lookup binary-searches an unsorted table: the owner depends on insertion history)", fnName(f), m.entries.Name(), bad, m.sorted.Name()))
		}
		// sorted = <non-false> only when the table is known sorted
		for _, st := range storesToField(f, false, "", m.sorted.Name()) {
			if !c45Is(st.Addr, m.sorted) {
				continue
			}
			if cv, ok := constOf(st.Val); ok && cv.ExactString() == "false" {
				continue
			}
			bad := mc.requireBefore(st, entSorted)
			c.Check(bad == "", "C45.sorted/flag-set/"+fnName(f), p.Pos(st.Pos()),
				m.sorted.Name()+" set only after a sort of "+m.entries.Name(),
				m.sorted.Name()+" is set without a preceding sort of "+m.entries.Name()+" ("+bad+")")
		}
		// binary searches
		for _, cs := range callsIn(f, false, func(fn *types.Func) bool { return c45SlicesFn(fn, "BinarySearchFunc", "BinarySearch") }) {
			if len(cs.Args()) == 0 || !c45Is(cs.Args()[0], m.entries) {
				continue
			}
			bad := mc.requireBefore(cs.Instr, entSorted)
			c.Check(bad == "", "C45.sorted/search/"+fnName(f), p.Pos(cs.Instr.Pos()),
				"binary search reachable only through the sort or a "+m.sorted.Name()+"==true edge (in this function, a helper it calls, or every caller)",
				"binary search of "+m.entries.Name()+" is reachable with "+m.sorted.Name()+"==false and without sorting ("+bad+")")
		}
	}
	if nStores == 0 {
		c.Lost("no store into Ring.%s", m.entries.Name())
	}
}

func c45Total(m *c45Model) {
	c, p := m.c, m.p
	n := 0
	for _, f := range m.funcs {
		for _, cs := range m.sortCalls(f) {
			n++
			var cmpFn *ssa.Function
			if len(cs.Args()) > 1 {
				switch x := cs.Args()[1].(type) {
				case *ssa.Function:
					cmpFn = x
				case *ssa.MakeClosure:
					cmpFn, _ = x.Fn.(*ssa.Function)
				}
			}
			key := "C45.total/" + fnName(f)
			if cmpFn == nil {
				c.Undecided(key, p.Pos(cs.Instr.Pos()), "the comparator passed to the sort is not a function literal")
				continue
			}
			read := fieldsRead(p.closure(cmpFn), m.entryT)
			have := map[string]bool{}
			for k := range read {
				have[k] = true
			}
			miss := missing(structFieldNames(m.entryT, false), have)
			c.Check(len(miss) == 0, key, p.Pos(cs.Instr.Pos()),
				fmt.Sprintf("comparator reads all fields of entry %v", structFieldNames(m.entryT, false)),
				fmt.Sprintf("comparator never reads entry field(s) %v: entries that differ only there compare equal, so their order (and the owner on a hash tie) depends on insertion history", miss))
		}
	}
	if n == 0 {
		c.Lost("no sort of Ring.%s", m.entries.Name())
	}
}

// ---- sweep protocol ---------------------------------------------------------
//
// Abstract state = subset of {swept, membersDropped, cleared} plus `misordered`
// (the pending set was cleared before one of the two steps that read it).  At
// an API exit a sweep must be complete: swept ⇒ membersDropped ∧ cleared.
const (
	c45Swept, c45MemDropped, c45Cleared, c45Misordered = 1, 2, 4, 8
)

// isSweepCall: slices.DeleteFunc(entries, pred).
func (m *c45Model) isSweepCall(in ssa.Instruction) bool {
	ci, ok := in.(ssa.CallInstruction)
	if !ok || !c45SlicesFn(calleeOf(ci.Common()), "DeleteFunc") {
		return false
	}
	a := ci.Common().Args
	return len(a) >= 2 && c45Is(a[0], m.entries)
}

// isMemberDropRange: `range pending` whose loop deletes the ranged key from members.
func (m *c45Model) isMemberDropRange(in ssa.Instruction) bool {
	rg, ok := in.(*ssa.Range)
	if !ok || !c45Is(rg.X, m.deleted) {
		return false
	}
	found := false
	allInstrs(rg.Parent(), false, func(_ *ssa.Function, x ssa.Instruction) {
		cc, ok := isBuiltinCall(x, "delete")
		if !ok || !c45Is(cc.Args[0], m.members) {
			return
		}
		ex, ok := cc.Args[1].(*ssa.Extract)
		if !ok || ex.Index != 1 {
			return
		}
		if nx, ok := ex.Tuple.(*ssa.Next); ok && nx.Iter == ssa.Value(rg) {
			found = true
		}
	})
	return found
}

func (m *c45Model) sweepMachine() *c45Machine {
	return &c45Machine{
		n: 16, init: 0,
		body: m.body, funcs: m.funcs, isRoot: m.isRoot,
		label: func(s int) string {
			var parts []string
			for _, b := range []struct {
				bit  int
				name string
			}{{c45Swept, "entries swept"}, {c45MemDropped, "swept keys dropped from " + m.members.Name()}, {c45Cleared, m.deleted.Name() + " cleared"}, {c45Misordered, m.deleted.Name() + " cleared before it was used"}} {
				if s&b.bit != 0 {
					parts = append(parts, b.name)
				}
			}
			if len(parts) == 0 {
				return "no sweep"
			}
			return "{" + strings.Join(parts, ", ") + "}"
		},
		step: func(in ssa.Instruction, s int) (c45Set, bool) {
			switch {
			case m.isSweepCall(in), m.isMemberDropRange(in):
				bit := c45Swept
				if !m.isSweepCall(in) {
					bit = c45MemDropped
				}
				if s&c45Cleared != 0 && s&bit == 0 {
					s |= c45Misordered
				}
				return 1 << uint(s|bit), true
			}
			if cc, ok := isBuiltinCall(in, "clear"); ok && c45Is(cc.Args[0], m.deleted) {
				return 1 << uint(s|c45Cleared), true
			}
			return 0, false
		},
	}
}

func c45Sweep(m *c45Model) {
	c, p := m.c, m.p
	mc := m.sweepMachine()
	n := 0
	for _, f := range m.funcs {
		for _, cs := range callsIn(f, false, func(fn *types.Func) bool { return c45SlicesFn(fn, "DeleteFunc") }) {
			if !m.isSweepCall(cs.Instr) {
				continue
			}
			n++
			site := p.Pos(cs.Instr.Pos())
			// predicate tests the pending set with the entry's key
			predOK := false
			var pf *ssa.Function
			switch x := cs.Args()[1].(type) {
			case *ssa.MakeClosure:
				pf, _ = x.Fn.(*ssa.Function)
			case *ssa.Function:
				pf = x
			}
			if pf != nil && pf.Synthetic != "" && len(pf.Blocks) == 1 {
				// bound-method / thunk wrapper: look at the method it forwards to
				for _, in := range pf.Blocks[0].Instrs {
					if ci, ok := in.(*ssa.Call); ok {
						if g := m.body(ci.Common()); g != nil {
							pf = g
						}
					}
				}
			}
			if pf != nil {
				allInstrs(pf, false, func(_ *ssa.Function, in ssa.Instruction) {
					if lk, ok := in.(*ssa.Lookup); ok && lk.CommaOk && c45Is(lk.X, m.deleted) {
						if fv := fieldVar(lk.Index); fv != nil && types.Identical(derefType(fv.Type()), types.Typ[types.String]) {
							for _, r := range returnsOf(pf) {
								if ex, ok := r.Results[0].(*ssa.Extract); ok && ex.Tuple == ssa.Value(lk) && ex.Index == 1 {
									predOK = true
								}
							}
						}
					}
				})
			}
			c.Check(predOK, "C45.sweep/"+fnName(f)+"/predicate", site,
				"entries are dropped exactly when their key is in "+m.deleted.Name(),
				"the DeleteFunc predicate is not `key in "+m.deleted.Name()+"`")
			// at every API exit that can follow this sweep it has been completed:
			// clear(pending), after both steps that read the pending set
			bad := mc.requireAtExit(f, func(s int) bool {
				return s&c45Swept == 0 || (s&c45Cleared != 0 && s&c45Misordered == 0)
			})
			c.Check(bad == "", "C45.sweep/"+fnName(f)+"/clear", site,
				m.deleted.Name()+" is cleared on every path after the sweep",
				"after the sweep "+m.deleted.Name()+" still holds the swept keys ("+bad+"): a later Insert of such a key only un-deletes it and adds no virtual nodes, so the member can never own an address (history-dependent)")
			// members deleted for each pending key
			bad = mc.requireAtExit(f, func(s int) bool {
				return s&c45Swept == 0 || s&c45MemDropped != 0
			})
			c.Check(bad == "", "C45.sweep/"+fnName(f)+"/members", site,
				"every key of "+m.deleted.Name()+" is deleted from "+m.members.Name()+" with the sweep",
				"swept keys stay in "+m.members.Name()+" ("+bad+"): a later Insert of such a key takes the `already a member` path and adds no virtual nodes (history-dependent owner)")
		}
	}
	if n == 0 {
		c.Lost("no slices.DeleteFunc sweep of Ring.%s", m.entries.Name())
	}
	// the owner is only chosen among live entries: every binary search that
	// Lookup performs (itself or in a helper) runs with the pending set known
	// empty — cleared by the sweep, or tested empty
	pm := m.pendingEmptyMachine()
	inLookup := map[*ssa.Function]bool{}
	work := []*ssa.Function{m.lookup}
	for len(work) > 0 {
		g := work[len(work)-1]
		work = work[:len(work)-1]
		if inLookup[g] {
			continue
		}
		inLookup[g] = true
		allInstrs(g, false, func(_ *ssa.Function, in ssa.Instruction) {
			if ci, ok := in.(ssa.CallInstruction); ok {
				if h := m.body(ci.Common()); h != nil {
					work = append(work, h)
				}
			}
		})
	}
	ns := 0
	for _, f := range m.funcs {
		if !inLookup[f] {
			continue
		}
		for _, cs := range callsIn(f, false, func(fn *types.Func) bool { return c45SlicesFn(fn, "BinarySearchFunc", "BinarySearch") }) {
			if len(cs.Args()) == 0 || !c45Is(cs.Args()[0], m.entries) {
				continue
			}
			ns++
			bad := pm.requireBefore(cs.Instr, func(s int) bool { return s == 1 })
			c.Check(bad == "", "C45.sweep/"+fnName(f)+"/before-search", p.Pos(cs.Instr.Pos()),
				"the owner search runs only after the pending removals were swept ("+m.deleted.Name()+" cleared or tested empty)",
				"the binary search that picks the owner can run while "+m.deleted.Name()+" is non-empty ("+bad+"): the virtual nodes of removed members are still in "+m.entries.Name()+" and the keys still in "+m.members.Name()+", so Lookup can return a member that was removed (a freshly built ring never would)")
		}
	}
	if ns == 0 {
		c.Lost("no binary search of Ring.%s in the closure of Lookup", m.entries.Name())
	}
}

// pendingEmptyMachine: state 1 = the pending-delete set is known empty
// (cleared, or its length was compared with 0 on this edge), 0 = unknown.
func (m *c45Model) pendingEmptyMachine() *c45Machine {
	isLenPending := func(v ssa.Value) bool {
		call, ok := v.(*ssa.Call)
		if !ok {
			return false
		}
		b, ok := call.Call.Value.(*ssa.Builtin)
		return ok && b.Name() == "len" && len(call.Call.Args) == 1 && c45Is(call.Call.Args[0], m.deleted)
	}
	isConst := func(v ssa.Value, want string) bool {
		cv, ok := constOf(v)
		return ok && cv.ExactString() == want
	}
	return &c45Machine{
		n: 2, init: 0,
		body: m.body, funcs: m.funcs, isRoot: m.isRoot,
		label: func(s int) string {
			if s == 1 {
				return m.deleted.Name() + " known empty"
			}
			return m.deleted.Name() + " possibly non-empty"
		},
		step: func(in ssa.Instruction, s int) (c45Set, bool) {
			if cc, ok := isBuiltinCall(in, "clear"); ok && c45Is(cc.Args[0], m.deleted) {
				return 1 << 1, true
			}
			if mu, ok := in.(*ssa.MapUpdate); ok && c45Is(mu.Map, m.deleted) {
				return 1 << 0, true
			}
			return 0, false
		},
		edge: func(cond ssa.Value, pol bool, s int) (c45Set, bool) {
			bo, ok := cond.(*ssa.BinOp)
			if !ok {
				return 0, false
			}
			// normalise to  len(pending) OP const
			x, y, op := bo.X, bo.Y, bo.Op
			if isLenPending(y) {
				x, y = y, x
				switch op {
				case token.LSS:
					op = token.GTR
				case token.GTR:
					op = token.LSS
				case token.LEQ:
					op = token.GEQ
				case token.GEQ:
					op = token.LEQ
				}
			}
			if !isLenPending(x) {
				return 0, false
			}
			emptyWhen := map[bool]bool{} // truth value of cond → pending is empty
			switch {
			case op == token.EQL && isConst(y, "0"), op == token.LEQ && isConst(y, "0"), op == token.LSS && isConst(y, "1"):
				emptyWhen[true] = true
			case op == token.NEQ && isConst(y, "0"), op == token.GTR && isConst(y, "0"), op == token.GEQ && isConst(y, "1"):
				emptyWhen[false] = true
			default:
				return 0, false
			}
			if emptyWhen[pol] {
				return 1 << 1, true
			}
			return 0, false
		},
	}
}

// c45KeyIs: every origin of v is the parameter prm.
func c45KeyIs(v ssa.Value, prm *ssa.Parameter) bool {
	os := origins(v, nil)
	if len(os) == 0 || prm == nil {
		return false
	}
	for _, o := range os {
		if o.V != ssa.Value(prm) {
			return false
		}
	}
	return true
}

// notInGuard: target is reachable only when the key held in parameter prm of
// target's function is known absent from the map field.  The fact comes from
//   - the not-found edge of `_, ok := field[key]`,
//   - the edge on which an in-package helper called with the key returned a
//     value it returns only when the key is absent (computed from the helper's
//     returns, recursively), or
//   - every in-package call site of target's function being so guarded for the
//     argument bound to prm (the appending code was extracted into a helper).
func (m *c45Model) notInGuard(target ssa.Instruction, prm *ssa.Parameter, field *types.Var, depth int) bool {
	f := target.Parent()
	pred := func(cond ssa.Value, pol bool) bool {
		if ex, ok := cond.(*ssa.Extract); ok && ex.Index == 1 && !pol {
			if lk, ok := ex.Tuple.(*ssa.Lookup); ok && lk.CommaOk && c45Is(lk.X, field) && c45KeyIs(lk.Index, prm) {
				return true
			}
		}
		call, ok := cond.(*ssa.Call)
		if !ok || depth >= 3 {
			return false
		}
		g := m.body(call.Common())
		if g == nil || g.Signature.Results().Len() != 1 {
			return false
		}
		for i, a := range call.Call.Args {
			if i >= len(g.Params) || !c45KeyIs(a, prm) {
				continue
			}
			n, all := 0, true
			for _, r := range returnsOf(g) {
				if cv, ok := constOf(r.Results[0]); ok && (cv.ExactString() == "true") != pol {
					continue // this return yields the other value
				}
				n++
				if !m.notInGuard(r, g.Params[i], field, depth+1) {
					all = false
				}
			}
			if n > 0 && all {
				return true
			}
		}
		return false
	}
	if guardedCut(target, pred) {
		return true
	}
	if depth >= 3 || m.isRoot(f) {
		return false
	}
	idx := -1
	for i, q := range f.Params {
		if q == prm {
			idx = i
		}
	}
	sites := m.sm.callSites(f)
	if idx < 0 || len(sites) == 0 {
		return false
	}
	for _, cs := range sites {
		args := cs.Common().Args
		if idx >= len(args) {
			return false
		}
		var q *ssa.Parameter
		for _, o := range origins(args[idx], nil) {
			if pp, ok := o.V.(*ssa.Parameter); ok && pp.Parent() == cs.Parent() && c45KeyIs(args[idx], pp) {
				q = pp
			}
		}
		if q == nil || !m.notInGuard(cs, q, field, depth+1) {
			return false
		}
	}
	return true
}

func c45Insert(m *c45Model) {
	c, p := m.c, m.p
	salted := p.Func(c45Pkg, "Ring.saltedHash")
	n := 0
	for _, f := range m.funcs {
		for _, st := range storesToField(f, false, "", m.entries.Name()) {
			if !c45Is(st.Addr, m.entries) {
				continue
			}
			call, ok := st.Val.(*ssa.Call)
			if !ok {
				continue
			}
			if b, ok := call.Call.Value.(*ssa.Builtin); !ok || b.Name() != "append" {
				continue
			}
			n++
			site := p.Pos(st.Pos())
			// key = the string parameter of the function
			var keyParam *ssa.Parameter
			for _, prm := range f.Params {
				if types.Identical(prm.Type(), types.Typ[types.String]) {
					keyParam = prm
				}
			}
			if keyParam == nil {
				c.Undecided("C45.insert/"+fnName(f)+"/guard", site, "appending function has no string key parameter")
				continue
			}
			isKey := func(v ssa.Value) bool { return c45KeyIs(v, keyParam) }
			notIn := func(field *types.Var) bool { return m.notInGuard(st, keyParam, field, 0) }
			g1, g2 := notIn(m.members), notIn(m.deleted)
			c.Check(g1 && g2, "C45.insert/"+fnName(f)+"/guard", site,
				"virtual nodes appended only when the key is neither in "+m.members.Name()+" nor in "+m.deleted.Name(),
				fmt.Sprintf("virtual nodes are appended for a key that may already be live (not-in-%s guard: %v) or pending deletion (not-in-%s guard: %v): the key gets duplicate positions depending on history", m.members.Name(), g1, m.deleted.Name(), g2))
			// the appended entry literal
			okLit, why := false, "appended value is not a one-element entry literal"
			if sl, ok := call.Call.Args[1].(*ssa.Slice); ok {
				if arr, ok := sl.X.(*ssa.Alloc); ok {
					fs := map[string][]ssa.Value{}
					for _, r := range *arr.Referrers() {
						ia, ok := r.(*ssa.IndexAddr)
						if !ok {
							continue
						}
						for _, rr := range *ia.Referrers() {
							est, ok := rr.(*ssa.Store)
							if !ok || est.Addr != ssa.Value(ia) {
								continue
							}
							if ld, ok := est.Val.(*ssa.UnOp); ok {
								if lit, ok := ld.X.(*ssa.Alloc); ok {
									for k, v := range literalFieldStores(lit) {
										fs[k] = append(fs[k], v...)
									}
								}
							}
						}
					}
					names := structFieldNames(m.entryT, false)
					okLit, why = true, ""
					nHash, nKey := 0, 0
					for _, fn := range names {
						for _, v := range fs[fn] {
							if isKey(v) && types.Identical(v.Type(), types.Typ[types.String]) {
								nKey++
							} else if cl, ok := v.(*ssa.Call); ok && salted != nil && calleeOf(cl.Common()) == salted.Object() && len(cl.Call.Args) >= 2 && isKey(cl.Call.Args[1]) {
								nHash++
							} else {
								okLit, why = false, fmt.Sprintf("entry.%s = %s is neither the key nor saltedHash(key, i)", fn, path(v))
							}
						}
					}
					if okLit && (nHash != 1 || nKey != 1) {
						okLit, why = false, fmt.Sprintf("entry literal has %d saltedHash(key,·) field(s) and %d key field(s)", nHash, nKey)
					}
				}
			}
			c.Check(okLit, "C45.insert/"+fnName(f)+"/entry", site, "appended entry = {saltedHash(key, i), key}", why)
		}
	}
	if n == 0 {
		c.Lost("no append to Ring.%s", m.entries.Name())
	}
}

// ------------------------------------------------------------ ring consumer --

// c45Manager: the consumer side in felix/dataplane/linux.  proxyNeighManager
// recomputes which VIPs this node answers for only when `dirty`; every change
// of the ring's member set must therefore set it.  One Insert/Remove changes
// the member set iff it changes Len(), so skipping dirty=true is sound exactly
// on the `equal` edge of a Len() comparison that brackets that single call; any
// other use of the size (compared across several mutations, across batches,
// with a cached number) cannot tell a join+leave from no change.
func c45Manager(m *c45Model) {
	c := m.c
	const mgrT = "proxyNeighManager"
	p := c.Load(c44Pkg)
	tn, _ := p.LookupObj(c44Pkg, mgrT).(*types.TypeName)
	if tn == nil {
		c.Lost("type %s", mgrT)
	}
	st, _ := tn.Type().Underlying().(*types.Struct)
	if st == nil {
		c.Lost("%s is not a struct", mgrT)
	}
	isRingT := func(t types.Type) bool {
		n, _ := derefType(t).(*types.Named)
		return n != nil && n.Obj().Name() == "Ring" && n.Obj().Pkg() != nil && strings.HasSuffix(n.Obj().Pkg().Path(), c45Pkg)
	}
	var ringF []*types.Var
	for i := 0; i < st.NumFields(); i++ {
		if isRingT(st.Field(i).Type()) {
			ringF = append(ringF, st.Field(i))
		}
	}
	dirtyF, _ := p.LookupObj(c44Pkg, mgrT+".dirty").(*types.Var)
	if len(ringF) == 0 || dirtyF == nil {
		c.Lost("%s: hashring.Ring field / dirty field", mgrT)
	}
	// member-set mutators of Ring, derived from the ring's own source: exported
	// methods that store into the member map or the pending-delete map.
	mut := map[string]bool{}
	for _, f := range m.p.methodsOf(c45Pkg, "Ring") {
		if f.Object() == nil || !f.Object().Exported() {
			continue
		}
		// … directly or in a helper of the ring's package it calls
		seen := map[*ssa.Function]bool{}
		work := withClosures([]*ssa.Function{f})
		for len(work) > 0 {
			g := work[len(work)-1]
			work = work[:len(work)-1]
			if seen[g] {
				continue
			}
			seen[g] = true
			allInstrs(g, false, func(_ *ssa.Function, in ssa.Instruction) {
				if mu, ok := in.(*ssa.MapUpdate); ok && (c45Is(mu.Map, m.members) || c45Is(mu.Map, m.deleted)) {
					mut[f.Name()] = true
				}
				if ci, ok := in.(ssa.CallInstruction); ok {
					if h := m.body(ci.Common()); h != nil {
						work = append(work, withClosures([]*ssa.Function{h})...)
					}
				}
			})
		}
	}
	if !mut[m.insert.Name()] || !mut[m.remove.Name()] || mut[m.length.Name()] {
		c.Lost("member-set mutators of Ring derived as %v; expected Insert and Remove, not Len", sortedKeys(mut))
	}
	isRingField := func(v ssa.Value) bool {
		fv := fieldVar(v)
		for _, f := range ringF {
			if fv == f {
				return true
			}
		}
		return false
	}
	ringCall := func(in ssa.Instruction) (string, bool) {
		ci, ok := in.(ssa.CallInstruction)
		if !ok {
			return "", false
		}
		f := calleeOf(ci.Common())
		if f == nil || f.Signature().Recv() == nil || !isRingT(f.Signature().Recv().Type()) {
			return "", false
		}
		args := ci.Common().Args
		if len(args) == 0 || !isRingField(args[0]) {
			return "", false
		}
		return f.Name(), true
	}
	lenName := m.length.Name()
	mgrFuncs := withClosures(p.methodsOf(c44Pkg, mgrT))

	// per-function facts
	type fnFacts struct {
		f           *ssa.Function
		muts, lens  []ssa.Instruction
		dirtyTrue   []ssa.Instruction
		storesDirty bool
	}
	facts := map[*ssa.Function]*fnFacts{}
	for _, f := range mgrFuncs {
		ff := &fnFacts{f: f}
		allInstrs(f, false, func(_ *ssa.Function, in ssa.Instruction) {
			if n, ok := ringCall(in); ok {
				if mut[n] {
					ff.muts = append(ff.muts, in)
				} else if n == lenName {
					ff.lens = append(ff.lens, in)
				}
			}
			if s, ok := in.(*ssa.Store); ok && fieldVar(s.Addr) == dirtyF {
				ff.storesDirty = true
				if cv, ok := constOf(s.Val); ok && cv.ExactString() == "true" {
					ff.dirtyTrue = append(ff.dirtyTrue, in)
				}
			}
		})
		facts[f] = ff
	}
	isLen := func(ff *fnFacts, v ssa.Value) ssa.Instruction {
		v = c44Strip(v)
		for _, l := range ff.lens {
			if lv, ok := l.(ssa.Value); ok && lv == v {
				return l
			}
		}
		return nil
	}
	// bracket: cond is Len()@A ==/!= Len()@B with exactly one mutator call able
	// to run between A and B, which A dominates and which dominates B.  Returns
	// that call and whether cond==true means "size unchanged".
	bracket := func(ff *fnFacts, cond ssa.Value) (ssa.Instruction, bool) {
		bo, ok := cond.(*ssa.BinOp)
		if !ok || (bo.Op != token.EQL && bo.Op != token.NEQ) {
			return nil, false
		}
		a, b := isLen(ff, bo.X), isLen(ff, bo.Y)
		if a == nil || b == nil || a == b {
			return nil, false
		}
		if !instrDominates(a, b) {
			a, b = b, a
		}
		if !instrDominates(a, b) {
			return nil, false
		}
		var between []ssa.Instruction
		for _, mc := range ff.muts {
			if instrReaches(a, mc) && instrReaches(mc, b) {
				between = append(between, mc)
			}
		}
		if len(between) != 1 || !instrDominates(a, between[0]) || !instrDominates(between[0], b) {
			return nil, false
		}
		return between[0], bo.Op == token.EQL
	}
	// exemptFn: cond (negations stripped) is known to mean "the call at site
	// left the member set unchanged" when it has the returned truth value.
	type exemptFn func(cond ssa.Value) (is, unchangedWhenTrue bool)
	// pairBad: "" if every path from site to a return of its function crosses
	// dirty=true, not counting the `unchanged` edges; else a description.
	pairBad := func(ff *fnFacts, site ssa.Instruction, exempt exemptFn) string {
		hasDirtyAfter := func(b *ssa.BasicBlock, from int) bool {
			for _, d := range ff.dirtyTrue {
				if d.Block() == b && instrIndex(d) > from {
					return true
				}
			}
			return false
		}
		if hasDirtyAfter(site.Block(), instrIndex(site)) {
			return ""
		}
		bad := ""
		seen := map[*ssa.BasicBlock]bool{}
		var stack []*ssa.BasicBlock
		push := func(b *ssa.BasicBlock) {
			switch t := b.Instrs[len(b.Instrs)-1].(type) {
			case *ssa.Return:
				at := "the end of " + fnName(ff.f)
				if t.Pos().IsValid() {
					at = "the return at " + p.Pos(t.Pos())
				}
				bad = at + " is reachable after the call without dirty=true"
			case *ssa.If:
				cc, pol := stripNot(t.Cond, true)
				if is, unchangedWhenTrue := exempt(cc); is && len(b.Succs) == 2 {
					// follow only the `changed` edge
					if unchangedWhenTrue == pol {
						stack = append(stack, b.Succs[1])
					} else {
						stack = append(stack, b.Succs[0])
					}
					return
				}
				stack = append(stack, b.Succs...)
			default:
				stack = append(stack, b.Succs...)
			}
		}
		push(site.Block())
		for len(stack) > 0 && bad == "" {
			b := stack[len(stack)-1]
			stack = stack[:len(stack)-1]
			if seen[b] {
				continue
			}
			seen[b] = true
			if isPanicBlock(b) || hasDirtyAfter(b, -1) {
				continue
			}
			push(b)
		}
		return bad
	}
	// reportsChange: every return of ff.f reachable after site yields the
	// bracket comparison of site itself; gives the polarity "true = changed".
	reportsChange := func(ff *fnFacts, site ssa.Instruction) (ok, changedWhenTrue bool) {
		res := ff.f.Signature.Results()
		if res.Len() != 1 || !types.Identical(res.At(0).Type().Underlying(), types.Typ[types.Bool]) {
			return false, false
		}
		n := 0
		for _, r := range returnsOf(ff.f) {
			if !instrReaches(site, r) {
				continue
			}
			cc, pol := stripNot(r.Results[0], true)
			bm, eqWhenTrue := bracket(ff, cc)
			if bm != site {
				return false, false
			}
			chg := eqWhenTrue != pol
			if n > 0 && chg != changedWhenTrue {
				return false, false
			}
			changedWhenTrue = chg
			n++
		}
		return n > 0, changedWhenTrue
	}
	// checkSite: the pairing holds at site, or site's function hands the duty to
	// all of its callers inside the manager (extracted helper), where the call
	// is the mutation and — if the helper returns the bracket comparison — a
	// branch on its result is the `unchanged` test.
	var checkSite func(ff *fnFacts, site ssa.Instruction, exempt exemptFn, depth int) string
	checkSite = func(ff *fnFacts, site ssa.Instruction, exempt exemptFn, depth int) string {
		bad := pairBad(ff, site, exempt)
		if bad == "" || depth >= 2 {
			return bad
		}
		type caller struct {
			ff *fnFacts
			in ssa.Instruction
		}
		var callers []caller
		for _, g := range mgrFuncs {
			allInstrs(g, false, func(_ *ssa.Function, in ssa.Instruction) {
				if ci, ok := in.(ssa.CallInstruction); ok && calleeFn(ci.Common()) == ff.f {
					callers = append(callers, caller{facts[g], in})
				}
			})
		}
		if len(callers) == 0 {
			return bad
		}
		rep, changedWhenTrue := reportsChange(ff, site)
		for _, cl := range callers {
			cv, _ := cl.in.(ssa.Value)
			ex := func(cond ssa.Value) (bool, bool) {
				if rep && cv != nil && cond == cv {
					return true, !changedWhenTrue
				}
				return false, false
			}
			if b2 := checkSite(cl.ff, cl.in, ex, depth+1); b2 != "" {
				return bad + "; and in its caller " + fnName(cl.ff.f) + " " + b2
			}
		}
		return ""
	}

	nMut := 0
	var why, sizeFns []string
	for _, f := range mgrFuncs {
		ff := facts[f]
		// E-PAIR
		for _, mc := range ff.muts {
			nMut++
			mc := mc
			name, _ := ringCall(mc)
			key := fmt.Sprintf("C45.ringdirty/%s/%s", fnName(f), name)
			bad := checkSite(ff, mc, func(cond ssa.Value) (bool, bool) {
				bm, eqWhenTrue := bracket(ff, cond)
				return bm == mc, eqWhenTrue
			}, 0)
			c.Check(bad == "", key, p.Pos(mc.Pos()),
				"ring."+name+" is followed by dirty=true on every path on which it may have changed the member set",
				fmt.Sprintf("%s calls %s on the node ring, but %s (other than on the size-unchanged edge of a Len() comparison bracketing this one call): the listeners keep the VIP ownership computed from the previous member set, so this node's answer differs from a freshly started node's", fnName(f), name, bad))
		}
		// E-OWN: functions that decide dirtiness, or report a size bracket to one
		if len(ff.lens) == 0 {
			continue
		}
		reporter := false
		for _, mc := range ff.muts {
			if ok, _ := reportsChange(ff, mc); ok {
				reporter = true
			}
		}
		if !ff.storesDirty && !reporter {
			continue
		}
		sizeFns = append(sizeFns, fnName(f))
		for _, b := range f.Blocks {
			ifi, ok := b.Instrs[len(b.Instrs)-1].(*ssa.If)
			if !ok {
				continue
			}
			cc, _ := stripNot(ifi.Cond, true)
			fromLen := false
			c44BackSlice(cc, func(v ssa.Value) {
				if isLen(ff, v) != nil {
					fromLen = true
				}
			})
			if !fromLen {
				continue
			}
			if bm, _ := bracket(ff, cc); bm == nil {
				why = append(why, fmt.Sprintf("in %s the branch on `%s` at %s derives from the ring's size but is not a comparison of Len() taken immediately before and after one Insert/Remove", fnName(f), path(cc), p.Pos(cc.Pos())))
			}
		}
		allInstrs(f, false, func(_ *ssa.Function, in ssa.Instruction) {
			s, ok := in.(*ssa.Store)
			if !ok {
				return
			}
			fa, ok := s.Addr.(*ssa.FieldAddr)
			if !ok {
				return
			}
			if n, _ := derefType(fa.X.Type()).(*types.Named); n == nil || n.Obj() != tn {
				return
			}
			c44BackSlice(s.Val, func(v ssa.Value) {
				if isLen(ff, v) != nil {
					why = append(why, fmt.Sprintf("%s caches the ring's size in %s.%s at %s", fnName(f), mgrT, fieldVar(fa).Name(), p.Pos(s.Pos())))
				}
			})
		})
	}
	c.Check(len(why) == 0, "C45.ringsize/"+mgrT, p.Pos(tn.Pos()),
		fmt.Sprintf("functions that decide dirtiness and read Ring.Len() %v: the size feeds a branch only as a before/after bracket of one mutation and is never cached", sizeFns),
		strings.Join(why, "; ")+": equal numbers of joins and leaves leave the size unchanged, so ownership is not recomputed although the member set changed")
	// E-TOTAL (C45.ringtotal): the ring's member set is a function of each
	// node's CURRENT metadata.  A host-metadata message says everything there is
	// to know about its node, so its handler must (re)decide the node's
	// membership whatever the message carries: on every path from the arm of the
	// type switch that receives the message to the handler's return, a member-set
	// mutator of the ring is applied to the message's Hostname — directly, or in
	// an in-package callee handed the message or its hostname.  A path that
	// leaves the ring untouched keeps whatever an earlier message put there.
	c45RingTotal(m, p, mgrT, mgrFuncs, mut, ringCall)
	if nMut == 0 {
		c.Lost("%s never calls a member-set mutator of its ring", mgrT)
	}
}

// c45RingTotal: see the E-TOTAL comment in c45Manager.
func c45RingTotal(m *c45Model, p *Prog, mgrT string, mgrFuncs []*ssa.Function, mut map[string]bool, ringCall func(ssa.Instruction) (string, bool)) {
	c := m.c
	const protoPkg, hostField = "felix/proto", "Hostname"
	msgNames := []string{"HostMetadataUpdate", "HostMetadataRemove"}
	// msgType: t is *proto.<one of msgNames>; returns the name.
	msgType := func(t types.Type) string {
		pt, ok := t.(*types.Pointer)
		if !ok {
			return ""
		}
		n, _ := pt.Elem().(*types.Named)
		if n == nil || n.Obj().Pkg() == nil || !strings.HasSuffix(n.Obj().Pkg().Path(), protoPkg) {
			return ""
		}
		for _, x := range msgNames {
			if n.Obj().Name() == x {
				return x
			}
		}
		return ""
	}
	if len(mgrFuncs) == 0 {
		c.Lost("%s has no methods", mgrT)
	}
	mgrPkg := mgrFuncs[0].Package()
	inPkg := func(g *ssa.Function) bool { return mgrPkg != nil && g.Package() == mgrPkg }
	// track: what is known to be the message / its hostname inside one function.
	type track struct {
		msgs, hosts map[ssa.Value]bool
	}
	var isHost func(tr *track, v ssa.Value, depth int) bool
	isMsg := func(tr *track, v ssa.Value) bool { return tr.msgs[c44Strip(v)] }
	isHost = func(tr *track, v ssa.Value, depth int) bool {
		v = c44Strip(v)
		if tr.hosts[v] {
			return true
		}
		switch y := v.(type) {
		case *ssa.UnOp:
			if fa, ok := y.X.(*ssa.FieldAddr); ok && y.Op == token.MUL {
				if fv := fieldVar(fa); fv != nil && fv.Name() == hostField && isMsg(tr, fa.X) {
					return true
				}
			}
		case *ssa.Call: // generated getter: a method of the message returning the field
			g := calleeFn(y.Common())
			if g == nil || depth > 0 || len(y.Common().Args) != 1 || !isMsg(tr, y.Common().Args[0]) || g.Signature.Recv() == nil {
				return false
			}
			if len(g.Blocks) == 0 { // body not built (dependency package): the generated getter of the field
				return g.Name() == "Get"+hostField
			}
			if len(g.Params) != 1 {
				return false
			}
			sub := &track{msgs: map[ssa.Value]bool{g.Params[0]: true}}
			n := 0
			for _, r := range returnsOf(g) {
				if len(r.Results) != 1 {
					return false
				}
				if isHost(sub, r.Results[0], depth+1) {
					n++
				} else if _, isC := r.Results[0].(*ssa.Const); !isC {
					return false
				}
			}
			return n > 0
		case *ssa.Phi:
			if depth > 2 || len(y.Edges) == 0 {
				return false
			}
			for _, e := range y.Edges {
				if !isHost(tr, e, depth+1) {
					return false
				}
			}
			return true
		}
		return false
	}
	// covers: instruction in applies a mutator to the hostname (directly or via
	// an in-package callee, every path of which does).
	var covers func(tr *track, in ssa.Instruction, depth int) bool
	// uncovered: "" if every path from (b, from) to a return of b's function
	// crosses a covering instruction; else where it escapes.
	var uncovered func(tr *track, b *ssa.BasicBlock, from, depth int) string
	covers = func(tr *track, in ssa.Instruction, depth int) bool {
		ci, ok := in.(*ssa.Call) // go/defer do not count
		if !ok {
			return false
		}
		args := ci.Common().Args
		if n, ok := ringCall(in); ok {
			return mut[n] && len(args) >= 2 && isHost(tr, args[1], 0)
		}
		g := calleeFn(ci.Common())
		if g == nil || !inPkg(g) || len(g.Blocks) == 0 || depth >= 2 || len(g.Params) != len(args) {
			return false
		}
		sub := &track{msgs: map[ssa.Value]bool{}, hosts: map[ssa.Value]bool{}}
		for i, a := range args {
			if isMsg(tr, a) {
				sub.msgs[g.Params[i]] = true
			} else if isHost(tr, a, 0) {
				sub.hosts[g.Params[i]] = true
			}
		}
		if len(sub.msgs)+len(sub.hosts) == 0 {
			return false
		}
		return uncovered(sub, g.Blocks[0], 0, depth+1) == ""
	}
	uncovered = func(tr *track, b0 *ssa.BasicBlock, from, depth int) string {
		seen := map[*ssa.BasicBlock]bool{}
		type pos struct {
			b    *ssa.BasicBlock
			from int
		}
		stack := []pos{{b0, from}}
		for len(stack) > 0 {
			x := stack[len(stack)-1]
			stack = stack[:len(stack)-1]
			if x.from == 0 {
				if seen[x.b] {
					continue
				}
				seen[x.b] = true
			}
			if isPanicBlock(x.b) {
				continue
			}
			hit := false
			for i := x.from; i < len(x.b.Instrs) && !hit; i++ {
				hit = covers(tr, x.b.Instrs[i], depth)
			}
			if hit {
				continue
			}
			if r, ok := x.b.Instrs[len(x.b.Instrs)-1].(*ssa.Return); ok {
				at := "the end of " + fnName(b0.Parent())
				if r.Pos().IsValid() {
					at = "the return at " + p.Pos(r.Pos())
				}
				return at
			}
			for _, s := range x.b.Succs {
				stack = append(stack, pos{s, 0})
			}
		}
		return ""
	}

	found := map[string]int{}
	for _, f := range mgrFuncs {
		allInstrs(f, false, func(_ *ssa.Function, in ssa.Instruction) {
			ta, ok := in.(*ssa.TypeAssert)
			if !ok {
				return
			}
			name := msgType(ta.AssertedType)
			if name == "" {
				return
			}
			tr := &track{msgs: map[ssa.Value]bool{}, hosts: map[ssa.Value]bool{}}
			type start struct {
				b    *ssa.BasicBlock
				from int
			}
			var starts []start
			if !ta.CommaOk {
				tr.msgs[ta] = true
				starts = append(starts, start{ta.Block(), instrIndex(ta) + 1})
			} else {
				for _, r := range *ta.Referrers() {
					ex, ok := r.(*ssa.Extract)
					if !ok {
						continue
					}
					if ex.Index == 0 {
						tr.msgs[ex] = true
						continue
					}
					for _, b := range f.Blocks {
						ifi, ok := b.Instrs[len(b.Instrs)-1].(*ssa.If)
						if !ok || len(b.Succs) != 2 {
							continue
						}
						if cc, pol := stripNot(ifi.Cond, true); cc == ssa.Value(ex) {
							if pol {
								starts = append(starts, start{b.Succs[0], 0})
							} else {
								starts = append(starts, start{b.Succs[1], 0})
							}
						}
					}
				}
			}
			if len(tr.msgs) == 0 || len(starts) == 0 {
				return // asserted but never received as a message here
			}
			found[name]++
			key := fmt.Sprintf("C45.ringtotal/%s/%s", fnName(f), name)
			var bad []string
			for _, s := range starts {
				if at := uncovered(tr, s.b, s.from, 0); at != "" {
					bad = append(bad, at)
				}
			}
			c.Check(len(bad) == 0, key, p.Pos(ta.Pos()),
				fmt.Sprintf("every path from the %s arm to the return applies a member-set mutator of the ring (%v) to the message's %s", name, sortedKeys(mut), hostField),
				fmt.Sprintf("%s receives a %s, but %s is reachable from the arm without any of %v having been applied to the ring for msg.%s (neither directly nor in an in-package callee given the message or its hostname): on that path the node keeps the ring membership an earlier message gave it, so two Felixes with the same current datastore view but different histories hold different rings and elect different owners for a VIP", fnName(f), name, c45Uniq(bad), sortedKeys(mut), hostField))
		})
	}
	for _, n := range msgNames {
		if found[n] == 0 {
			c.Lost("%s has no type-switch arm receiving *proto.%s", mgrT, n)
		}
	}
}
