package main

import (
	"fmt"
	"go/token"
	"go/types"
	"strings"

	"golang.org/x/tools/go/ssa"
)

const (
	c45Pkg     = "lib/datastructures/hashring"
	c45File    = "lib/datastructures/hashring/hashring.go"
	c45MgrFile = "felix/dataplane/linux/proxy_neigh_mgr.go"
)

func init() {
	register(&Property{
		ID:        "C45",
		Title:     "Every node elects the same owner for a load-balancer address",
		Technique: "static analysis: sorted-flag pairing and cut-set guard of the binary search (E-PAIR/E-GUARD), comparator field closure (E-FIELDS), sweep pairing, determinism lint (E-DET) on go/ssa + go/ast of lib/datastructures/hashring; mutation/dirty pairing with a before/after size-bracket exemption and size-derived-branch ownership (E-PAIR/E-OWN) on proxyNeighManager in felix/dataplane/linux",
		DesignRef: "DESIGN.md §3 C45",
		Explanation: "History-independence clauses of hashring.Ring: (sorted) every store into `entries` is either an order-preserving slices helper (Grow/DeleteFunc/Delete/Clip) or is followed on every path by sorted=false; sorted=true is only stored after a sort of `entries`; every binary search of `entries` is reachable only through the sort or a sorted==true edge. " +
			"(total) the sort comparator reads every field of `entry` (ties on the hash are broken by the key, so the order does not depend on insertion history). " +
			"(sweep) the sweep that drops dead entries also deletes every swept key from `members` and clears `deletedKeys`, and it is guarded by the same pending set the predicate tests (a swept key can be re-inserted with fresh virtual nodes). " +
			"(insert) virtual nodes are appended only for keys that are neither live nor pending deletion, and each appended entry carries saltedHash(key, i) and the same key. " +
			"(apply) in the ring's consumer, felix/dataplane/linux proxyNeighManager, every call of a member-set mutator of the ring (Insert/Remove, derived from the ring's source) is followed on every path by dirty=true, except on the size-unchanged edge of a Len() comparison that brackets exactly that one call; in the functions that decide dirtiness the ring's size feeds no other branch and is never cached (a join plus a leave keep the size but change the owners). " +
			"(det) no architecture-/process-dependent primitive and no order-sensitive map iteration in the closure of New/Insert/Remove/Len/Lookup.",
		NotDecided: "That the hash function (xxh3 by default, or one supplied with WithHash) is node-independent; arithmetic of the nearest-probe selection; that all nodes feed the ring the same member set (proxy_neigh_mgr); that dirty=true actually leads to reconcileListeners (CompleteDeferredWork's gate is only checked for not deriving from the ring's size); balance.",
		Assumptions: []string{
			"go/types + go/ssa (x/tools v0.50.0) model of the current source (module lib/datastructures)",
			"slices.DeleteFunc/Delete/Grow/Clip preserve the relative order of the remaining elements; slices.SortFunc sorts by the comparator",
		},
		Run: runC45,
		Fixtures: []Fixture{
			{Name: "Insert forgets to invalidate the sorted flag", File: c45File,
				Old: "\t\t})\n\t}\n\tr.sorted = false\n", New: "\t\t})\n\t}\n", Expect: "C45.sorted/store/Ring.Insert"},
			{Name: "sort skipped for small rings", File: c45File,
				Old: "\tif !r.sorted {\n", New: "\tif !r.sorted && len(r.entries) > 16 {\n", Expect: "C45.sorted/search/Ring.Lookup"},
			{Name: "comparator ignores the key on hash ties", File: c45File,
				Old: "\t\t\treturn cmp.Compare(a.key, b.key)\n", New: "\t\t\treturn 0\n", Expect: "C45.total/"},
			{Name: "sweep leaves the pending-delete set populated", File: c45File,
				Old: "\t\tclear(r.deletedKeys)\n", New: "", Expect: "C45.sweep/Ring.Lookup/clear"},
			{Name: "sweep keeps dead members", File: c45File,
				Old: "\t\tfor k := range r.deletedKeys {\n\t\t\tdelete(r.members, k)\n\t\t}\n", New: "", Expect: "C45.sweep/Ring.Lookup/members"},
			{Name: "re-insert of a live key adds virtual nodes again", File: c45File,
				Old: "\tif _, ok := r.members[key]; ok {\n\t\tr.members[key] = value\n\t\treturn\n\t}\n", New: "", Expect: "C45.insert/Ring.Insert/guard"},
			{Name: "node join no longer marks the neighbour manager dirty", File: c45MgrFile,
				Old: "Debug(\"Proxy neighbor manager received HostMetadataUpdate\")\n\t\t\tm.dirty = true\n", New: "Debug(\"Proxy neighbor manager received HostMetadataUpdate\")\n", Expect: "C45.ringdirty/proxyNeighManager.OnUpdate/Insert"},
			{Name: "before-size sampled after the removal", File: c45MgrFile,
				Old: "\t\tbefore := m.nodeRing.Len()\n\t\tm.nodeRing.Remove(msg.Hostname)\n", New: "\t\tm.nodeRing.Remove(msg.Hostname)\n\t\tbefore := m.nodeRing.Len()\n", Expect: "C45.ringdirty/proxyNeighManager.OnUpdate/Remove"},
			{Name: "reconcile gated on the ring's size", File: c45MgrFile,
				Old: "\tif !m.dirty && !m.hasFailedListener() {\n", New: "\tif (!m.dirty || m.nodeRing.Len() == 0) && !m.hasFailedListener() {\n", Expect: "C45.ringsize/proxyNeighManager"},
			{Name: "virtual node position depends on the host byte order", File: c45File,
				Old: "binary.LittleEndian.PutUint32(idx[:], uint32(i))", New: "binary.NativeEndian.PutUint32(idx[:], uint32(i))", Expect: "C45.det/arch/Ring.saltedHash"},
			{Name: "sweep stops after the first pending key in map order", File: c45File,
				Old: "\t\tfor k := range r.deletedKeys {\n\t\t\tdelete(r.members, k)\n\t\t}\n", New: "\t\tfor k := range r.deletedKeys {\n\t\t\tdelete(r.members, k)\n\t\t\tbreak\n\t\t}\n", Expect: "C45.det/maporder/Ring.Lookup"},
		},
	})
}

type c45Model struct {
	c                                     *Ctx
	p                                     *Prog
	members, deleted, entries, sorted     *types.Var
	entryT                                types.Type
	funcs                                 []*ssa.Function
	insert, remove, lookup, length, newFn *ssa.Function
}

func runC45(c *Ctx) {
	p := c.LoadMod(modDS, "./hashring")
	c.Rule("C45.sorted", "E-PAIR/E-GUARD", "stores to entries keep order or clear the sorted flag; sorted=true only after a sort; binary search only behind sort/sorted", 4)
	c.Rule("C45.total", "E-FIELDS", "the sort comparator reads every field of entry", 1)
	c.Rule("C45.sweep", "E-PAIR", "sweep of dead entries is guarded by the pending set, deletes the swept keys from members and clears the pending set", 3)
	c.Rule("C45.insert", "E-GUARD/E-FLOW", "entries appended only for keys neither live nor pending; appended entry = {saltedHash(key,i), key}", 2)
	c.Rule("C45.ringdirty", "E-PAIR", "in proxyNeighManager every call of a member-set mutator of the ring (Insert/Remove) is followed on every path by dirty=true, except on the `equal` edge of a comparison of Ring.Len() taken immediately before and after that single call (the call was a no-op)", 2)
	c.Rule("C45.ringsize", "E-OWN", "in the functions of proxyNeighManager that decide dirtiness, a value of Ring.Len() only feeds a branch as such a before/after bracket of one mutation, and is never cached in the manager: size is not membership", 1)
	c.Rule("C45.det", "E-DET", "no arch/process-dependent primitive, no order-sensitive map iteration in the ring's closure", 12)

	m := &c45Model{c: c, p: p}
	tn, _ := p.LookupObj(c45Pkg, "Ring").(*types.TypeName)
	if tn == nil {
		c.Lost("type hashring.Ring")
	}
	st, _ := tn.Type().Underlying().(*types.Struct)
	if st == nil {
		c.Lost("Ring is not a struct")
	}
	nBool := 0
	for i := 0; i < st.NumFields(); i++ {
		f := st.Field(i)
		switch t := f.Type().Underlying().(type) {
		case *types.Map:
			if s, ok := t.Elem().Underlying().(*types.Struct); ok && s.NumFields() == 0 {
				m.deleted = f
			} else if _, ok := t.Elem().(*types.TypeParam); ok {
				m.members = f
			}
		case *types.Slice:
			if _, ok := t.Elem().Underlying().(*types.Struct); ok {
				m.entries = f
				m.entryT = t.Elem()
			}
		case *types.Basic:
			if t.Kind() == types.Bool {
				m.sorted = f
				nBool++
			}
		}
	}
	if m.members == nil || m.deleted == nil || m.entries == nil || m.sorted == nil || nBool != 1 {
		c.Lost("Ring fields by type (members map[string]V, pending map[string]struct{}, entries []struct, one bool): %v %v %v %v", m.members, m.deleted, m.entries, m.sorted)
	}
	for _, n := range []struct {
		name string
		dst  **ssa.Function
	}{{"Ring.Insert", &m.insert}, {"Ring.Remove", &m.remove}, {"Ring.Lookup", &m.lookup}, {"Ring.Len", &m.length}, {"New", &m.newFn}} {
		f := p.Func(c45Pkg, n.name)
		if f == nil || f.Blocks == nil {
			c.Lost("hashring.%s", n.name)
		}
		*n.dst = f
	}
	m.funcs = withClosures(p.methodsOf(c45Pkg, "Ring"))
	m.funcs = append(m.funcs, withClosures([]*ssa.Function{m.newFn})...)

	c45Sorted(m)
	c45Total(m)
	c45Sweep(m)
	c45Insert(m)

	c45Manager(m)

	cl := detClosure(p, m.newFn, m.insert, m.remove, m.lookup, m.length)
	rep := detLint(p, cl, detOpts{})
	if len(rep.Funcs) < 6 {
		c.Lost("closure of the ring API has %d functions", len(rep.Funcs))
	}
	for _, f := range rep.Funcs {
		site := p.Pos(f.Pos())
		na, ta := detDescribe(p, rep.PerFn[f], "arch")
		np, tp := detDescribe(p, rep.PerFn[f], "process")
		c.Check(na+np == 0, "C45.det/arch/"+fnName(f), site, "no architecture-/process-dependent identifier used",
			fnName(f)+" uses "+strings.TrimPrefix(ta+"; "+tp, "; ")+": ring positions differ between nodes")
		nm, tm := detDescribe(p, rep.PerFn[f], "maporder")
		c.Check(nm == 0, "C45.det/maporder/"+fnName(f), site,
			fmt.Sprintf("%d map iteration(s), none with an order-sensitive effect", rep.MapRanges[f]), fnName(f)+": "+tm)
	}
}

// c45Is: v accesses the given Ring field (fields whose type mentions V are
// re-created per instantiation, so compare generic origins).
func c45Is(v ssa.Value, f *types.Var) bool {
	fv := fieldVar(v)
	return fv != nil && f != nil && fv.Origin() == f.Origin()
}

func c45SlicesFn(f *types.Func, names ...string) bool {
	if f == nil || f.Pkg() == nil || f.Pkg().Path() != "slices" {
		return false
	}
	for _, n := range names {
		if f.Name() == n {
			return true
		}
	}
	return false
}

func (m *c45Model) sortCalls(f *ssa.Function) []CallSite {
	var out []CallSite
	for _, cs := range callsIn(f, false, func(fn *types.Func) bool {
		return c45SlicesFn(fn, "SortFunc", "SortStableFunc") || (fn.Pkg() != nil && fn.Pkg().Path() == "sort" && (fn.Name() == "Slice" || fn.Name() == "SliceStable"))
	}) {
		if len(cs.Args()) > 0 && c45Is(cs.Args()[0], m.entries) {
			out = append(out, cs)
		}
	}
	return out
}

func c45Sorted(m *c45Model) {
	c, p := m.c, m.p
	nStores := 0
	for _, f := range m.funcs {
		pd := postDominators(f)
		var falseStores []*ssa.Store
		for _, st := range storesToField(f, false, "", m.sorted.Name()) {
			if !c45Is(st.Addr, m.sorted) {
				continue
			}
			if cv, ok := constOf(st.Val); ok && cv.String() == "false" {
				falseStores = append(falseStores, st)
			}
		}
		// stores into entries
		var bad []string
		n := 0
		for _, st := range storesToField(f, false, "", m.entries.Name()) {
			if !c45Is(st.Addr, m.entries) {
				continue
			}
			n++
			keeps := false
			if call, ok := st.Val.(*ssa.Call); ok {
				if c45SlicesFn(calleeOf(call.Common()), "Grow", "DeleteFunc", "Delete", "Clip") && len(call.Call.Args) > 0 && c45Is(call.Call.Args[0], m.entries) {
					keeps = true
				}
			}
			if keeps {
				continue
			}
			cleared := false
			for _, fs := range falseStores {
				if instrPostDominates(pd, fs, st) {
					cleared = true
				}
			}
			if !cleared {
				bad = append(bad, fmt.Sprintf("store of %s into %s at %s is not followed on every path by %s=false", path(st.Val), m.entries.Name(), p.Pos(st.Pos()), m.sorted.Name()))
			}
		}
		if n > 0 {
			nStores += n
			c.Check(len(bad) == 0, "C45.sorted/store/"+fnName(f), p.Pos(f.Pos()),
				fmt.Sprintf("%d store(s) into %s: order-preserving helper or followed by %s=false", n, m.entries.Name(), m.sorted.Name()),
				strings.Join(bad, "; ")+" (a later Lookup binary-searches an unsorted table: the owner depends on insertion history)")
		}
		// sorted = true only after a sort
		sorts := m.sortCalls(f)
		for _, st := range storesToField(f, false, "", m.sorted.Name()) {
			if !c45Is(st.Addr, m.sorted) {
				continue
			}
			if cv, ok := constOf(st.Val); ok && cv.String() == "false" {
				continue
			}
			dom := false
			for _, s := range sorts {
				if instrDominates(s.Instr, st) {
					dom = true
				}
			}
			c.Check(dom, "C45.sorted/flag-set/"+fnName(f), p.Pos(st.Pos()),
				m.sorted.Name()+" set only after a sort of "+m.entries.Name(), m.sorted.Name()+" is set without a dominating sort of "+m.entries.Name())
		}
		// binary searches
		for _, cs := range callsIn(f, false, func(fn *types.Func) bool { return c45SlicesFn(fn, "BinarySearchFunc", "BinarySearch") }) {
			if len(cs.Args()) == 0 || !c45Is(cs.Args()[0], m.entries) {
				continue
			}
			ok := c45CutBy(cs.Instr, sorts, func(cond ssa.Value, pol bool) bool { return pol && c45Is(cond, m.sorted) })
			c.Check(ok, "C45.sorted/search/"+fnName(f), p.Pos(cs.Instr.Pos()),
				"binary search reachable only through the sort or a "+m.sorted.Name()+"==true edge",
				"binary search of "+m.entries.Name()+" is reachable with "+m.sorted.Name()+"==false and without sorting")
		}
	}
	if nStores == 0 {
		c.Lost("no store into Ring.%s", m.entries.Name())
	}
}

// c45CutBy: every path from entry to target crosses one of the cut calls or an
// If edge accepted by pred.
func c45CutBy(target ssa.Instruction, cuts []CallSite, pred EdgePred) bool {
	fn := target.Parent()
	cutBlocks := map[*ssa.BasicBlock]bool{}
	for _, cs := range cuts {
		if cs.Instr.Block() == target.Block() {
			if instrIndex(cs.Instr) < instrIndex(target) {
				return true
			}
			continue
		}
		cutBlocks[cs.Instr.Block()] = true
	}
	seen := map[*ssa.BasicBlock]bool{}
	st := []*ssa.BasicBlock{fn.Blocks[0]}
	for len(st) > 0 {
		b := st[len(st)-1]
		st = st[:len(st)-1]
		if seen[b] {
			continue
		}
		seen[b] = true
		if b == target.Block() {
			return false
		}
		if cutBlocks[b] || isPanicBlock(b) {
			continue
		}
		if ifi, ok := b.Instrs[len(b.Instrs)-1].(*ssa.If); ok && len(b.Succs) == 2 {
			for k, s := range b.Succs {
				cnd, pol := stripNot(ifi.Cond, k == 0)
				if b.Succs[0] != b.Succs[1] && pred(cnd, pol) {
					continue
				}
				st = append(st, s)
			}
			continue
		}
		st = append(st, b.Succs...)
	}
	return true
}

func c45Total(m *c45Model) {
	c, p := m.c, m.p
	n := 0
	for _, f := range m.funcs {
		for _, cs := range m.sortCalls(f) {
			n++
			var cmpFn *ssa.Function
			if len(cs.Args()) > 1 {
				switch x := cs.Args()[1].(type) {
				case *ssa.Function:
					cmpFn = x
				case *ssa.MakeClosure:
					cmpFn, _ = x.Fn.(*ssa.Function)
				}
			}
			key := "C45.total/" + fnName(f)
			if cmpFn == nil {
				c.Undecided(key, p.Pos(cs.Instr.Pos()), "the comparator passed to the sort is not a function literal")
				continue
			}
			read := fieldsRead(p.closure(cmpFn), m.entryT)
			have := map[string]bool{}
			for k := range read {
				have[k] = true
			}
			miss := missing(structFieldNames(m.entryT, false), have)
			c.Check(len(miss) == 0, key, p.Pos(cs.Instr.Pos()),
				fmt.Sprintf("comparator reads all fields of entry %v", structFieldNames(m.entryT, false)),
				fmt.Sprintf("comparator never reads entry field(s) %v: entries that differ only there compare equal, so their order (and the owner on a hash tie) depends on insertion history", miss))
		}
	}
	if n == 0 {
		c.Lost("no sort of Ring.%s", m.entries.Name())
	}
}

func c45Sweep(m *c45Model) {
	c, p := m.c, m.p
	n := 0
	for _, f := range m.funcs {
		pd := postDominators(f)
		for _, cs := range callsIn(f, false, func(fn *types.Func) bool { return c45SlicesFn(fn, "DeleteFunc") }) {
			if len(cs.Args()) < 2 || !c45Is(cs.Args()[0], m.entries) {
				continue
			}
			n++
			site := p.Pos(cs.Instr.Pos())
			// predicate tests the pending set with the entry's key
			predOK := false
			if mc, ok := cs.Args()[1].(*ssa.MakeClosure); ok {
				pf := mc.Fn.(*ssa.Function)
				allInstrs(pf, false, func(_ *ssa.Function, in ssa.Instruction) {
					if lk, ok := in.(*ssa.Lookup); ok && lk.CommaOk && c45Is(lk.X, m.deleted) {
						if fv := fieldVar(lk.Index); fv != nil && types.Identical(derefType(fv.Type()), types.Typ[types.String]) {
							for _, r := range returnsOf(pf) {
								if ex, ok := r.Results[0].(*ssa.Extract); ok && ex.Tuple == ssa.Value(lk) && ex.Index == 1 {
									predOK = true
								}
							}
						}
					}
				})
			}
			c.Check(predOK, "C45.sweep/"+fnName(f)+"/predicate", site,
				"entries are dropped exactly when their key is in "+m.deleted.Name(),
				"the DeleteFunc predicate is not `key in "+m.deleted.Name()+"`")
			// clear(pending) post-dominates
			cleared := false
			allInstrs(f, false, func(_ *ssa.Function, in ssa.Instruction) {
				if cc, ok := isBuiltinCall(in, "clear"); ok && c45Is(cc.Args[0], m.deleted) && instrPostDominates(pd, in, cs.Instr) {
					cleared = true
				}
			})
			c.Check(cleared, "C45.sweep/"+fnName(f)+"/clear", site,
				m.deleted.Name()+" is cleared on every path after the sweep",
				"after the sweep "+m.deleted.Name()+" still holds the swept keys: a later Insert of such a key only un-deletes it and adds no virtual nodes, so the member can never own an address (history-dependent)")
			// members deleted for each pending key
			memDel := false
			allInstrs(f, false, func(_ *ssa.Function, in ssa.Instruction) {
				cc, ok := isBuiltinCall(in, "delete")
				if !ok || !c45Is(cc.Args[0], m.members) {
					return
				}
				ex, ok := cc.Args[1].(*ssa.Extract)
				if !ok || ex.Index != 1 {
					return
				}
				nx, ok := ex.Tuple.(*ssa.Next)
				if !ok {
					return
				}
				rg, ok := nx.Iter.(*ssa.Range)
				if !ok || !c45Is(rg.X, m.deleted) {
					return
				}
				if instrPostDominates(pd, rg, cs.Instr) || instrDominates(rg, cs.Instr) {
					memDel = true
				}
			})
			c.Check(memDel, "C45.sweep/"+fnName(f)+"/members", site,
				"every key of "+m.deleted.Name()+" is deleted from "+m.members.Name()+" with the sweep",
				"swept keys stay in "+m.members.Name()+": a later Insert of such a key takes the `already a member` path and adds no virtual nodes (history-dependent owner)")
		}
	}
	if n == 0 {
		c.Lost("no slices.DeleteFunc sweep of Ring.%s", m.entries.Name())
	}
}

func c45Insert(m *c45Model) {
	c, p := m.c, m.p
	salted := p.Func(c45Pkg, "Ring.saltedHash")
	n := 0
	for _, f := range m.funcs {
		for _, st := range storesToField(f, false, "", m.entries.Name()) {
			if !c45Is(st.Addr, m.entries) {
				continue
			}
			call, ok := st.Val.(*ssa.Call)
			if !ok {
				continue
			}
			if b, ok := call.Call.Value.(*ssa.Builtin); !ok || b.Name() != "append" {
				continue
			}
			n++
			site := p.Pos(st.Pos())
			// key = the string parameter of the function
			var keyParam *ssa.Parameter
			for _, prm := range f.Params {
				if types.Identical(prm.Type(), types.Typ[types.String]) {
					keyParam = prm
				}
			}
			if keyParam == nil {
				c.Undecided("C45.insert/"+fnName(f)+"/guard", site, "appending function has no string key parameter")
				continue
			}
			isKey := func(v ssa.Value) bool {
				for _, o := range origins(v, nil) {
					if o.V != ssa.Value(keyParam) {
						return false
					}
				}
				return true
			}
			notIn := func(field *types.Var) bool {
				return guardedCut(st, func(cond ssa.Value, pol bool) bool {
					if pol {
						return false
					}
					ex, ok := cond.(*ssa.Extract)
					if !ok || ex.Index != 1 {
						return false
					}
					lk, ok := ex.Tuple.(*ssa.Lookup)
					return ok && lk.CommaOk && c45Is(lk.X, field) && isKey(lk.Index)
				})
			}
			g1, g2 := notIn(m.members), notIn(m.deleted)
			c.Check(g1 && g2, "C45.insert/"+fnName(f)+"/guard", site,
				"virtual nodes appended only when the key is neither in "+m.members.Name()+" nor in "+m.deleted.Name(),
				fmt.Sprintf("virtual nodes are appended for a key that may already be live (not-in-%s guard: %v) or pending deletion (not-in-%s guard: %v): the key gets duplicate positions depending on history", m.members.Name(), g1, m.deleted.Name(), g2))
			// the appended entry literal
			okLit, why := false, "appended value is not a one-element entry literal"
			if sl, ok := call.Call.Args[1].(*ssa.Slice); ok {
				if arr, ok := sl.X.(*ssa.Alloc); ok {
					fs := map[string][]ssa.Value{}
					for _, r := range *arr.Referrers() {
						ia, ok := r.(*ssa.IndexAddr)
						if !ok {
							continue
						}
						for _, rr := range *ia.Referrers() {
							est, ok := rr.(*ssa.Store)
							if !ok || est.Addr != ssa.Value(ia) {
								continue
							}
							if ld, ok := est.Val.(*ssa.UnOp); ok {
								if lit, ok := ld.X.(*ssa.Alloc); ok {
									for k, v := range literalFieldStores(lit) {
										fs[k] = append(fs[k], v...)
									}
								}
							}
						}
					}
					names := structFieldNames(m.entryT, false)
					okLit, why = true, ""
					nHash, nKey := 0, 0
					for _, fn := range names {
						for _, v := range fs[fn] {
							if isKey(v) && types.Identical(v.Type(), types.Typ[types.String]) {
								nKey++
							} else if cl, ok := v.(*ssa.Call); ok && salted != nil && calleeOf(cl.Common()) == salted.Object() && len(cl.Call.Args) >= 2 && isKey(cl.Call.Args[1]) {
								nHash++
							} else {
								okLit, why = false, fmt.Sprintf("entry.%s = %s is neither the key nor saltedHash(key, i)", fn, path(v))
							}
						}
					}
					if okLit && (nHash != 1 || nKey != 1) {
						okLit, why = false, fmt.Sprintf("entry literal has %d saltedHash(key,·) field(s) and %d key field(s)", nHash, nKey)
					}
				}
			}
			c.Check(okLit, "C45.insert/"+fnName(f)+"/entry", site, "appended entry = {saltedHash(key, i), key}", why)
		}
	}
	if n == 0 {
		c.Lost("no append to Ring.%s", m.entries.Name())
	}
}

// ------------------------------------------------------------ ring consumer --

// c45Manager: the consumer side in felix/dataplane/linux.  proxyNeighManager
// recomputes which VIPs this node answers for only when `dirty`; every change
// of the ring's member set must therefore set it.  One Insert/Remove changes
// the member set iff it changes Len(), so skipping dirty=true is sound exactly
// on the `equal` edge of a Len() comparison that brackets that single call; any
// other use of the size (compared across several mutations, across batches,
// with a cached number) cannot tell a join+leave from no change.
func c45Manager(m *c45Model) {
	c := m.c
	const mgrT = "proxyNeighManager"
	p := c.Load(c44Pkg)
	tn, _ := p.LookupObj(c44Pkg, mgrT).(*types.TypeName)
	if tn == nil {
		c.Lost("type %s", mgrT)
	}
	st, _ := tn.Type().Underlying().(*types.Struct)
	if st == nil {
		c.Lost("%s is not a struct", mgrT)
	}
	isRingT := func(t types.Type) bool {
		n, _ := derefType(t).(*types.Named)
		return n != nil && n.Obj().Name() == "Ring" && n.Obj().Pkg() != nil && strings.HasSuffix(n.Obj().Pkg().Path(), c45Pkg)
	}
	var ringF []*types.Var
	for i := 0; i < st.NumFields(); i++ {
		if isRingT(st.Field(i).Type()) {
			ringF = append(ringF, st.Field(i))
		}
	}
	dirtyF, _ := p.LookupObj(c44Pkg, mgrT+".dirty").(*types.Var)
	if len(ringF) == 0 || dirtyF == nil {
		c.Lost("%s: hashring.Ring field / dirty field", mgrT)
	}
	// member-set mutators of Ring, derived from the ring's own source: exported
	// methods that store into the member map or the pending-delete map.
	mut := map[string]bool{}
	for _, f := range m.p.methodsOf(c45Pkg, "Ring") {
		if f.Object() == nil || !f.Object().Exported() {
			continue
		}
		for _, g := range withClosures([]*ssa.Function{f}) {
			allInstrs(g, false, func(_ *ssa.Function, in ssa.Instruction) {
				if mu, ok := in.(*ssa.MapUpdate); ok && (c45Is(mu.Map, m.members) || c45Is(mu.Map, m.deleted)) {
					mut[f.Name()] = true
				}
			})
		}
	}
	if !mut[m.insert.Name()] || !mut[m.remove.Name()] || mut[m.length.Name()] {
		c.Lost("member-set mutators of Ring derived as %v; expected Insert and Remove, not Len", sortedKeys(mut))
	}
	isRingField := func(v ssa.Value) bool {
		fv := fieldVar(v)
		for _, f := range ringF {
			if fv == f {
				return true
			}
		}
		return false
	}
	ringCall := func(in ssa.Instruction) (string, bool) {
		ci, ok := in.(ssa.CallInstruction)
		if !ok {
			return "", false
		}
		f := calleeOf(ci.Common())
		if f == nil || f.Signature().Recv() == nil || !isRingT(f.Signature().Recv().Type()) {
			return "", false
		}
		args := ci.Common().Args
		if len(args) == 0 || !isRingField(args[0]) {
			return "", false
		}
		return f.Name(), true
	}
	lenName := m.length.Name()
	mgrFuncs := withClosures(p.methodsOf(c44Pkg, mgrT))

	// per-function facts
	type fnFacts struct {
		f           *ssa.Function
		muts, lens  []ssa.Instruction
		dirtyTrue   []ssa.Instruction
		storesDirty bool
	}
	facts := map[*ssa.Function]*fnFacts{}
	for _, f := range mgrFuncs {
		ff := &fnFacts{f: f}
		allInstrs(f, false, func(_ *ssa.Function, in ssa.Instruction) {
			if n, ok := ringCall(in); ok {
				if mut[n] {
					ff.muts = append(ff.muts, in)
				} else if n == lenName {
					ff.lens = append(ff.lens, in)
				}
			}
			if s, ok := in.(*ssa.Store); ok && fieldVar(s.Addr) == dirtyF {
				ff.storesDirty = true
				if cv, ok := constOf(s.Val); ok && cv.ExactString() == "true" {
					ff.dirtyTrue = append(ff.dirtyTrue, in)
				}
			}
		})
		facts[f] = ff
	}
	isLen := func(ff *fnFacts, v ssa.Value) ssa.Instruction {
		v = c44Strip(v)
		for _, l := range ff.lens {
			if lv, ok := l.(ssa.Value); ok && lv == v {
				return l
			}
		}
		return nil
	}
	// bracket: cond is Len()@A ==/!= Len()@B with exactly one mutator call able
	// to run between A and B, which A dominates and which dominates B.  Returns
	// that call and whether cond==true means "size unchanged".
	bracket := func(ff *fnFacts, cond ssa.Value) (ssa.Instruction, bool) {
		bo, ok := cond.(*ssa.BinOp)
		if !ok || (bo.Op != token.EQL && bo.Op != token.NEQ) {
			return nil, false
		}
		a, b := isLen(ff, bo.X), isLen(ff, bo.Y)
		if a == nil || b == nil || a == b {
			return nil, false
		}
		if !instrDominates(a, b) {
			a, b = b, a
		}
		if !instrDominates(a, b) {
			return nil, false
		}
		var between []ssa.Instruction
		for _, mc := range ff.muts {
			if instrReaches(a, mc) && instrReaches(mc, b) {
				between = append(between, mc)
			}
		}
		if len(between) != 1 || !instrDominates(a, between[0]) || !instrDominates(between[0], b) {
			return nil, false
		}
		return between[0], bo.Op == token.EQL
	}
	// exemptFn: cond (negations stripped) is known to mean "the call at site
	// left the member set unchanged" when it has the returned truth value.
	type exemptFn func(cond ssa.Value) (is, unchangedWhenTrue bool)
	// pairBad: "" if every path from site to a return of its function crosses
	// dirty=true, not counting the `unchanged` edges; else a description.
	pairBad := func(ff *fnFacts, site ssa.Instruction, exempt exemptFn) string {
		hasDirtyAfter := func(b *ssa.BasicBlock, from int) bool {
			for _, d := range ff.dirtyTrue {
				if d.Block() == b && instrIndex(d) > from {
					return true
				}
			}
			return false
		}
		if hasDirtyAfter(site.Block(), instrIndex(site)) {
			return ""
		}
		bad := ""
		seen := map[*ssa.BasicBlock]bool{}
		var stack []*ssa.BasicBlock
		push := func(b *ssa.BasicBlock) {
			switch t := b.Instrs[len(b.Instrs)-1].(type) {
			case *ssa.Return:
				at := "the end of " + fnName(ff.f)
				if t.Pos().IsValid() {
					at = "the return at " + p.Pos(t.Pos())
				}
				bad = at + " is reachable after the call without dirty=true"
			case *ssa.If:
				cc, pol := stripNot(t.Cond, true)
				if is, unchangedWhenTrue := exempt(cc); is && len(b.Succs) == 2 {
					// follow only the `changed` edge
					if unchangedWhenTrue == pol {
						stack = append(stack, b.Succs[1])
					} else {
						stack = append(stack, b.Succs[0])
					}
					return
				}
				stack = append(stack, b.Succs...)
			default:
				stack = append(stack, b.Succs...)
			}
		}
		push(site.Block())
		for len(stack) > 0 && bad == "" {
			b := stack[len(stack)-1]
			stack = stack[:len(stack)-1]
			if seen[b] {
				continue
			}
			seen[b] = true
			if isPanicBlock(b) || hasDirtyAfter(b, -1) {
				continue
			}
			push(b)
		}
		return bad
	}
	// reportsChange: every return of ff.f reachable after site yields the
	// bracket comparison of site itself; gives the polarity "true = changed".
	reportsChange := func(ff *fnFacts, site ssa.Instruction) (ok, changedWhenTrue bool) {
		res := ff.f.Signature.Results()
		if res.Len() != 1 || !types.Identical(res.At(0).Type().Underlying(), types.Typ[types.Bool]) {
			return false, false
		}
		n := 0
		for _, r := range returnsOf(ff.f) {
			if !instrReaches(site, r) {
				continue
			}
			cc, pol := stripNot(r.Results[0], true)
			bm, eqWhenTrue := bracket(ff, cc)
			if bm != site {
				return false, false
			}
			chg := eqWhenTrue != pol
			if n > 0 && chg != changedWhenTrue {
				return false, false
			}
			changedWhenTrue = chg
			n++
		}
		return n > 0, changedWhenTrue
	}
	// checkSite: the pairing holds at site, or site's function hands the duty to
	// all of its callers inside the manager (extracted helper), where the call
	// is the mutation and — if the helper returns the bracket comparison — a
	// branch on its result is the `unchanged` test.
	var checkSite func(ff *fnFacts, site ssa.Instruction, exempt exemptFn, depth int) string
	checkSite = func(ff *fnFacts, site ssa.Instruction, exempt exemptFn, depth int) string {
		bad := pairBad(ff, site, exempt)
		if bad == "" || depth >= 2 {
			return bad
		}
		type caller struct {
			ff *fnFacts
			in ssa.Instruction
		}
		var callers []caller
		for _, g := range mgrFuncs {
			allInstrs(g, false, func(_ *ssa.Function, in ssa.Instruction) {
				if ci, ok := in.(ssa.CallInstruction); ok && calleeFn(ci.Common()) == ff.f {
					callers = append(callers, caller{facts[g], in})
				}
			})
		}
		if len(callers) == 0 {
			return bad
		}
		rep, changedWhenTrue := reportsChange(ff, site)
		for _, cl := range callers {
			cv, _ := cl.in.(ssa.Value)
			ex := func(cond ssa.Value) (bool, bool) {
				if rep && cv != nil && cond == cv {
					return true, !changedWhenTrue
				}
				return false, false
			}
			if b2 := checkSite(cl.ff, cl.in, ex, depth+1); b2 != "" {
				return bad + "; and in its caller " + fnName(cl.ff.f) + " " + b2
			}
		}
		return ""
	}

	nMut := 0
	var why, sizeFns []string
	for _, f := range mgrFuncs {
		ff := facts[f]
		// E-PAIR
		for _, mc := range ff.muts {
			nMut++
			mc := mc
			name, _ := ringCall(mc)
			key := fmt.Sprintf("C45.ringdirty/%s/%s", fnName(f), name)
			bad := checkSite(ff, mc, func(cond ssa.Value) (bool, bool) {
				bm, eqWhenTrue := bracket(ff, cond)
				return bm == mc, eqWhenTrue
			}, 0)
			c.Check(bad == "", key, p.Pos(mc.Pos()),
				"ring."+name+" is followed by dirty=true on every path on which it may have changed the member set",
				fmt.Sprintf("%s calls %s on the node ring, but %s (other than on the size-unchanged edge of a Len() comparison bracketing this one call): the listeners keep the VIP ownership computed from the previous member set, so this node's answer differs from a freshly started node's", fnName(f), name, bad))
		}
		// E-OWN: functions that decide dirtiness, or report a size bracket to one
		if len(ff.lens) == 0 {
			continue
		}
		reporter := false
		for _, mc := range ff.muts {
			if ok, _ := reportsChange(ff, mc); ok {
				reporter = true
			}
		}
		if !ff.storesDirty && !reporter {
			continue
		}
		sizeFns = append(sizeFns, fnName(f))
		for _, b := range f.Blocks {
			ifi, ok := b.Instrs[len(b.Instrs)-1].(*ssa.If)
			if !ok {
				continue
			}
			cc, _ := stripNot(ifi.Cond, true)
			fromLen := false
			c44BackSlice(cc, func(v ssa.Value) {
				if isLen(ff, v) != nil {
					fromLen = true
				}
			})
			if !fromLen {
				continue
			}
			if bm, _ := bracket(ff, cc); bm == nil {
				why = append(why, fmt.Sprintf("in %s the branch on `%s` at %s derives from the ring's size but is not a comparison of Len() taken immediately before and after one Insert/Remove", fnName(f), path(cc), p.Pos(cc.Pos())))
			}
		}
		allInstrs(f, false, func(_ *ssa.Function, in ssa.Instruction) {
			s, ok := in.(*ssa.Store)
			if !ok {
				return
			}
			fa, ok := s.Addr.(*ssa.FieldAddr)
			if !ok {
				return
			}
			if n, _ := derefType(fa.X.Type()).(*types.Named); n == nil || n.Obj() != tn {
				return
			}
			c44BackSlice(s.Val, func(v ssa.Value) {
				if isLen(ff, v) != nil {
					why = append(why, fmt.Sprintf("%s caches the ring's size in %s.%s at %s", fnName(f), mgrT, fieldVar(fa).Name(), p.Pos(s.Pos())))
				}
			})
		})
	}
	c.Check(len(why) == 0, "C45.ringsize/"+mgrT, p.Pos(tn.Pos()),
		fmt.Sprintf("functions that decide dirtiness and read Ring.Len() %v: the size feeds a branch only as a before/after bracket of one mutation and is never cached", sizeFns),
		strings.Join(why, "; ")+": equal numbers of joins and leaves leave the size unchanged, so ownership is not recomputed although the member set changed")
	if nMut == 0 {
		c.Lost("%s never calls a member-set mutator of its ring", mgrT)
	}
}
