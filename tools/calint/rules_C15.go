package main

import (
	"fmt"
	"go/token"
	"go/types"
	"strings"

	"golang.org/x/tools/go/ssa"
)

const (
	c15IptPkg = "felix/iptables"
	c15NftPkg = "felix/nftables"
	c15GenPkg = "felix/generictables"
)

func init() {
	register(&Property{
		ID:        "C15",
		Title:     "iptables/nftables sync converges and leaves other software's rules alone",
		Technique: "static analysis: cut-set guard analysis on the restore/transaction error, path analysis of the failure edge, loop-scope ownership of index-based deletes, data-flow of the hashed string, key-sensitive ordering of definition removal against refcount release, pairing of view drops with dirty-set resets (go/ssa + AST over felix/iptables, felix/nftables, felix/generictables)",
		DesignRef: "DESIGN.md §3 C15",
		Explanation: "Decides structural clauses of the property: (commit) in iptables.Table.applyUpdates and nftables.NftablesTable.applyUpdates every mutation of the believed dataplane state (chainToDataplaneHashes, chainToFullRules) and every reset of the dirty sets lies behind the nil-error edge of the call that runs the restore command / nft transaction, or behind the 'nothing to write' test; per-key edits of the believed state happen nowhere else; " +
			"(own) in iptables.Table.loadDataplaneState a chain name read from the kernel enters dirtyChains (whole-chain rewrite/delete) only under ourChainsRegexp.MatchString(name); " +
			"(delvalue) index-based line renderers (RenderReplace, RenderInsertAtRuleNumber, renderDeleteByIndexLine) are used in applyUpdates only inside loops over dirtyChains, never for insert/append chains shared with other software; " +
			"(invalidate) after a failed write the cached view is invalidated or reloaded before the next write attempt; " +
			"(hash) the string hashed for a rule is produced by the same rendering function that produces the line/rule written to the kernel, and RuleHashes chains the previous hash before each rule and seeds with the chain name; " +
			"(reread) the two things that suppress a re-read of the kernel table - the lastReadTime stamp the refresh timer is measured from and inSyncWithDataPlane=true - are set, in both tables, only where a kernel read certainly happens (the store is dominated by a read call, or dominates one that post-dominates it; helper functions are justified through all their call sites), and in-sync is never asserted from inside the write path (applyUpdates and its callees): a write is not a read; " +
			"(defrelease) in both tables, in every method, a removal or replacement of chainNameToChain[k] (direct, or through a method that does it for its parameter) is never followed by a refcount release keyed on the same k that looks chainNameToChain[k] up to release the chains that definition refers to (decrefChain and anything that hands its parameter to it): the references held by the old definition are given up while the old definition is still there, so no chain keeps a refcount that nothing will drop; " +
			"(viewdrop) a method that replaces the believed view chainToDataplaneHashes by a fresh/cleared map without reading the kernel (nftables queueTableRecreate) also resets, on every path, each pending-deletion dirty set (the table fields applyUpdates loops over while consulting desiredStateOfChain), and no mark made on the way to that reset is wiped by it; the iptables table only ever replaces the view by what a read returned.",
		NotDecided: "That the comparison between the hashes read back and the expected hashes in loadDataplaneState distinguishes a chain that is absent from the kernel (nil) from one that is present and empty (seed C15-1: reflect.DeepEqual -> slices.Equal): absence is encoded only in the nil-vs-empty value convention shared by the save-output parser, RuleHashes and the comparator, not in any branch or lookup shape, so the only static test would be a whitelist of comparator names; that the refresh test in Apply is measured against lastReadTime. Convergence from an arbitrary kernel state (delta arithmetic, index bookkeeping of insert/append chains); that ourChainsRegexp matches exactly Felix's chains; parsing of iptables-save output; behaviour of iptables-restore/nft themselves.",
		Assumptions: []string{
			"go/types + go/ssa (x/tools v0.50.0) model of the current source, CGO_ENABLED=0 build",
			"iptables-restore and nft transactions are atomic per invocation; logrus Panic*/Fatal* do not return",
		},
		Run: runC15,
		Fixtures: []Fixture{
			{Name: "iptables hashes committed before the restore ran", File: "felix/iptables/table.go",
				Old: "\t\tnewHashes[chainName] = newChainHashes\n\t\tnewChainToFullRules[chainName] = newRules\n", New: "\t\tnewHashes[chainName] = newChainHashes\n\t\tnewChainToFullRules[chainName] = newRules\n\t\tt.chainToDataplaneHashes[chainName] = newChainHashes\n", Expect: "C15.commit/Table.applyUpdates/chainToDataplaneHashes"},
			{Name: "iptables restore error ignored", File: "felix/iptables/table.go",
				Old: "\t\tif err := t.execIptablesRestore(buf); err != nil {\n\t\t\treturn fmt.Errorf(\"writing out buffer: %w\", err)\n\t\t}\n\n\t\tt.lastWriteTime", New: "\t\tif err := t.execIptablesRestore(buf); err != nil {\n\t\t\tt.logCxt.WithError(err).Warn(\"restore failed\")\n\t\t}\n\n\t\tt.lastWriteTime", Expect: "C15.commit/Table.applyUpdates/"},
			{Name: "nftables dirty sets cleared before the transaction ran", File: "felix/nftables/table.go",
				Old: "\twroteToDataplane := tx.NumOperations() > 0\n", New: "\tt.dirtyChains = set.New[string]()\n\twroteToDataplane := tx.NumOperations() > 0\n", Expect: "C15.commit/NftablesTable.applyUpdates/dirtyChains"},
			{Name: "foreign chain queued for whole-chain rewrite", File: "felix/iptables/table.go",
				Old: "\t\t\t\t\tlogCxt.Info(\"Found unexpected insert, marking for cleanup\")\n\t\t\t\t\tt.dirtyInsertAppend.Add(chainName)", New: "\t\t\t\t\tlogCxt.Info(\"Found unexpected insert, marking for cleanup\")\n\t\t\t\t\tt.dirtyChains.Add(chainName)", Expect: "C15.own/Table.loadDataplaneState"},
			{Name: "hook rules deleted by index in a shared chain", File: "felix/iptables/table.go",
				Old: "\t\t\t\tline, deleteRenderingErr = t.renderDeleteByValueLine(chainName, i)\n", New: "\t\t\t\tline, deleteRenderingErr = t.renderDeleteByIndexLine(chainName, i+1), nil\n", Expect: "C15.delvalue/Table.applyUpdates/renderDeleteByIndexLine"},
			{Name: "failed iptables restore leaves the cache marked in-sync", File: "felix/iptables/table.go",
				Old: "\t\tt.inSyncWithDataPlane = false\n\t\tcountNumRestoreErrors.Inc()\n", New: "\t\tcountNumRestoreErrors.Inc()\n", Expect: "C15.invalidate/Table"},
			{Name: "failed nft transaction retried without reload", File: "felix/nftables/table.go",
				Old: "\t\t\t\t} else {\n\t\t\t\t\t// Reload the data plane state in case we're out of sync.\n\t\t\t\t\tt.loadDataplaneState()\n\t\t\t\t}\n", New: "\t\t\t\t}\n", Expect: "C15.invalidate/NftablesTable"},
			{Name: "iptables hash computed from a different rendering", File: "felix/iptables/renderer.go",
				Old: "\t\treturn i.RenderAppend(r, chain, \"HASH\", features)\n", New: "\t\treturn chain + fmt.Sprint(r.Action)\n", Expect: "C15.hash/iptablesRenderer"},
			{Name: "nftables write counted as a read (refresh timer starved on a busy node)", File: "felix/nftables/table.go",
				Old: "\tif wroteToDataplane && t.disabled && len(t.chainToDataplaneHashes) != 0 {\n", New: "\tif wroteToDataplane {\n\t\tt.lastReadTime = t.timeNow()\n\t}\n\tif wroteToDataplane && t.disabled && len(t.chainToDataplaneHashes) != 0 {\n", Expect: "C15.reread/NftablesTable.applyUpdates/lastReadTime"},
			{Name: "iptables Apply stamps the read time whether or not it read", File: "felix/iptables/table.go",
				Old: "\tt.gaugeNumChains.Set(float64(len(t.chainRefCounts)))\n", New: "\tt.lastReadTime = now\n\tt.gaugeNumChains.Set(float64(len(t.chainRefCounts)))\n", Expect: "C15.reread/Table.Apply/lastReadTime"},
			{Name: "iptables write stamps the read time as well as the write time", File: "felix/iptables/table.go",
				Old: "\t\tt.lastWriteTime = t.timeNow()\n", New: "\t\tt.lastWriteTime = t.timeNow()\n\t\tt.lastReadTime = t.lastWriteTime\n", Expect: "C15.reread/Table.applyUpdates/lastReadTime"},
			{Name: "nftables successful write re-asserts in-sync (a skipped resync is forgotten)", File: "felix/nftables/table.go",
				Old: "\twroteToDataplane := tx.NumOperations() > 0\n", New: "\tt.inSyncWithDataPlane = true\n\twroteToDataplane := tx.NumOperations() > 0\n", Expect: "C15.reread/NftablesTable.applyUpdates/inSyncWithDataPlane"},
			{Name: "rule position no longer hashed", File: "felix/generictables/rules.go",
				Old: "\t\ts.Reset()\n\t\t_, err = s.Write(hash)\n", New: "\t\ts.Reset()\n\t\t_, err = s.Write(nil)\n", Expect: "C15.hash/RuleHashes/chained"},
			{Name: "iptables chain definition dropped before its forced self-reference is released (children leak)", File: "felix/iptables/table.go",
				Old: "\t\tif oldChain.ForceProgramming {\n\t\t\tt.decrefChain(name)\n\t\t}\n\t\tt.maybeDecrefReferredChains(name, oldChain.Rules)\n\t\tdelete(t.chainNameToChain, name)\n",
				New: "\t\tdelete(t.chainNameToChain, name)\n\t\tif oldChain.ForceProgramming {\n\t\t\tt.decrefChain(name)\n\t\t}\n\t\tt.maybeDecrefReferredChains(name, oldChain.Rules)\n", Expect: "C15.defrelease/Table.RemoveChainByName/chainNameToChain"},
			{Name: "iptables new chain definition installed before the old one's references are released", File: "felix/iptables/table.go",
				Old: "\tif oldChain := t.chainNameToChain[chain.Name]; oldChain != nil {\n\t\toldNumRules = len(oldChain.Rules)\n\t\tif oldChain.ForceProgramming {",
				New: "\toldChain := t.chainNameToChain[chain.Name]\n\tt.chainNameToChain[chain.Name] = chain\n\tif oldChain != nil {\n\t\toldNumRules = len(oldChain.Rules)\n\t\tif oldChain.ForceProgramming {", Expect: "C15.defrelease/Table.UpdateChain/chainNameToChain"},
			{Name: "nftables table recreate keeps stale pending deletions", File: "felix/nftables/table.go",
				Old: "\tt.dirtyChains = set.New[string]()\n\tfor chainName := range t.chainNameToChain {\n", New: "\tfor chainName := range t.chainNameToChain {\n", Expect: "C15.viewdrop/NftablesTable.queueTableRecreate/dirtyChains/reset"},
			{Name: "nftables table recreate resets the dirty set after re-marking the wanted chains", File: "felix/nftables/table.go",
				Old: "\tt.flowtableDirty = t.flowtableEnabled\n\n\t// We already know what the table will contain", New: "\tt.dirtyChains = set.New[string]()\n\tt.flowtableDirty = t.flowtableEnabled\n\n\t// We already know what the table will contain", Expect: "C15.viewdrop/NftablesTable.queueTableRecreate/dirtyChains/order"},
		},
	})
}

func runC15(c *Ctx) {
	want := map[string]bool{c15IptPkg: true, c15NftPkg: true, c15GenPkg: true}
	if c.Overlay != nil {
		want = map[string]bool{}
		for f := range c.Overlay {
			for _, k := range []string{c15IptPkg, c15NftPkg, c15GenPkg} {
				if strings.Contains(f, "/"+k+"/") {
					want[k] = true
				}
			}
		}
	}
	floor := func(n int) int {
		if c.Overlay != nil {
			return 0 // a sensitivity fixture re-analyses only the package it mutates
		}
		return n
	}
	c.Rule("C15.commit", "E-ORDER/E-ERR", "believed dataplane state and dirty sets are mutated in applyUpdates only behind the nil-error edge of the restore/transaction call or the nothing-to-write test; per-key edits only there", floor(12))
	c.Rule("C15.invalidate", "E-ERR", "a failed write invalidates or reloads the cached view before the next write attempt", floor(2))
	c.Rule("C15.hash", "E-FLOW/E-ORDER", "hashed string comes from the renderer that writes the rule; RuleHashes chains previous hash and seeds with the chain name", floor(7))
	c.Rule("C15.reread", "E-ORDER", "lastReadTime and inSyncWithDataPlane=true (the suppressors of a kernel re-read) are set only where a kernel read certainly happens; in-sync is never asserted inside the write path", floor(5))
	c.Rule("C15.defrelease", "E-ORDER", "a chain's definition (chainNameToChain[k]) is removed/replaced only after every refcount release keyed on k that looks that definition up to release the chains it refers to", floor(6))
	c.Rule("C15.viewdrop", "E-PAIR", "a transition that drops the believed view (chainToDataplaneHashes) without reading the kernel resets every pending-deletion dirty set (the sets applyUpdates walks consulting desiredStateOfChain), and the reset does not wipe the re-marking", floor(3))
	nCommit, nInv, nHash := 0, 0, 0
	if want[c15IptPkg] {
		c.Rule("C15.own", "E-GUARD", "iptables.Table.loadDataplaneState: dirtyChains.Add(name) only under ourChainsRegexp.MatchString(name)", 2)
		c.Rule("C15.delvalue", "E-OWN", "index-based line renderers are called in applyUpdates only inside loops over dirtyChains", 2)
		p := c.Load(c15IptPkg)
		nCommit += c15Commit(c, p, c15IptPkg, "Table", []string{"chainToDataplaneHashes", "chainToFullRules"}, []string{"dirtyChains", "dirtyInsertAppend"})
		nInv += c15Invalidate(c, p, c15IptPkg, "Table")
		c15DefRelease(c, p, c15IptPkg, "Table")
		c15ViewDrop(c, p, c15IptPkg, "Table")
		c15Own(c, p)
		c15DelValue(c, p)
		nHash += c15HashRenderer(c, p, c15IptPkg, "iptablesRenderer")
		saveCmd := c15Field(c, p, c15IptPkg, "Table", "iptablesSaveCmd")
		c15Reread(c, p, c15IptPkg, "Table", func(ci ssa.CallInstruction) bool {
			// the command factory invoked on the configured iptables-save binary
			cc := ci.Common()
			if cc.IsInvoke() || cc.Signature() == nil || cc.Signature().Results().Len() != 1 || !types.IsInterface(cc.Signature().Results().At(0).Type()) {
				return false
			}
			for _, a := range cc.Args {
				if fieldVar(a) == saveCmd {
					return true
				}
			}
			return false
		})
	}
	if want[c15NftPkg] {
		p := c.Load(c15NftPkg)
		nCommit += c15Commit(c, p, c15NftPkg, "NftablesTable", []string{"chainToDataplaneHashes"}, []string{"dirtyChains", "dirtyBaseChains"})
		nInv += c15Invalidate(c, p, c15NftPkg, "NftablesTable")
		c15DefRelease(c, p, c15NftPkg, "NftablesTable")
		c15ViewDrop(c, p, c15NftPkg, "NftablesTable")
		nHash += c15HashRenderer(c, p, c15NftPkg, "nftRenderer")
		nftField := c15Field(c, p, c15NftPkg, "NftablesTable", "nft")
		c15Reread(c, p, c15NftPkg, "NftablesTable", func(ci ssa.CallInstruction) bool {
			// a query method (data, error) invoked on the table's own knftables handle
			cc := ci.Common()
			if !cc.IsInvoke() || fieldVar(cc.Value) != nftField {
				return false
			}
			res := cc.Signature().Results()
			return res.Len() == 2 && c17IsErrorType(res.At(1).Type()) && !c17IsErrorType(res.At(0).Type())
		})
	}
	if want[c15GenPkg] {
		p := c.Load(c15GenPkg)
		nHash += c15RuleHashes(c, p)
	}
	_, _, _ = nCommit, nInv, nHash
}

// c15WriteCalls: calls in fn (own body) returning an error whose callee, within
// depth 2, invokes a `Run` method through an interface (cmdshim.CmdIface.Run,
// knftables.Interface.Run): the point where the kernel is written.
func c15IsRun(f *types.Func) bool {
	if f == nil || f.Name() != "Run" {
		return false
	}
	sig, _ := f.Type().(*types.Signature)
	if sig == nil || sig.Recv() == nil {
		return false
	}
	_, isIface := sig.Recv().Type().Underlying().(*types.Interface)
	return isIface
}

func c15WriteCalls(fn *ssa.Function) []ssa.CallInstruction {
	var out []ssa.CallInstruction
	for _, b := range fn.Blocks {
		for _, in := range b.Instrs {
			ci, ok := in.(ssa.CallInstruction)
			if !ok {
				continue
			}
			cc := ci.Common()
			if cc.Signature() == nil || !c17ReturnsError(cc.Signature()) {
				continue
			}
			if c15IsRun(calleeOf(cc)) {
				out = append(out, ci)
				continue
			}
			if sf := calleeFn(cc); sf != nil && containsCall(sf, 1, c15IsRun) {
				out = append(out, ci)
			}
		}
	}
	return out
}

// c15NothingToWrite accepts the edges on which the update is known to be empty:
// `buf.Empty()` true, or `tx.NumOperations() > 0` false / `== 0` true.
func c15NothingToWrite(cond ssa.Value, pol bool) bool {
	if cs, ok := condCall(cond); ok && cs.Callee != nil && cs.Callee.Name() == "Empty" {
		return pol
	}
	// a bool local holding the comparison (wroteToDataplane) is the same SSA value
	bo, ok := cond.(*ssa.BinOp)
	if !ok {
		return false
	}
	isNumOps := func(v ssa.Value) bool {
		cs, ok := condCall(v)
		return ok && cs.Callee != nil && cs.Callee.Name() == "NumOperations"
	}
	isZero := func(v ssa.Value) bool {
		k, ok := constOf(v)
		return ok && k.ExactString() == "0"
	}
	switch bo.Op {
	case token.GTR:
		return isNumOps(bo.X) && isZero(bo.Y) && !pol
	case token.EQL:
		return isNumOps(bo.X) && isZero(bo.Y) && pol
	case token.NEQ:
		return isNumOps(bo.X) && isZero(bo.Y) && !pol
	}
	return false
}

func c15Field(c *Ctx, p *Prog, pkg, typ, field string) *types.Var {
	v, _ := p.LookupObj(pkg, typ+"."+field).(*types.Var)
	if v == nil {
		c.Lost("%s.%s.%s", pkg, typ, field)
	}
	return v
}

func c15Commit(c *Ctx, p *Prog, pkg, typ string, state, dirty []string) int {
	apply := p.Func(pkg, typ+".applyUpdates")
	if apply == nil {
		c.Lost("%s.%s.applyUpdates", pkg, typ)
	}
	writes := c15WriteCalls(apply)
	if len(writes) == 0 {
		c.Lost("%s.applyUpdates contains no call that runs the restore command / transaction", typ)
	}
	committed := anyOf(c17NilEdge(c17ErrOf(writes...)), c15NothingToWrite)
	n := 0
	check := func(field string, ins []ssa.Instruction, what string) {
		for _, in := range ins {
			n++
			key := fmt.Sprintf("C15.commit/%s.applyUpdates/%s", typ, field)
			at := c17PosInParent(in, apply)
			if at == nil {
				c.Undecided(key, p.Pos(in.Pos()), "%s of %s inside a closure of applyUpdates whose point of use cannot be located", what, field)
				continue
			}
			c.Check(guardedCut(at, committed), key, p.Pos(in.Pos()),
				what+" only after the write call returned nil (or nothing was written)",
				fmt.Sprintf("%s of %s.%s at %s is reachable before %s has returned nil: a failed or not-yet-run write would be recorded as programmed", what, typ, field, p.Pos(in.Pos()), c17CalleeName(writes[0])))
		}
	}
	for _, f := range state {
		fv := c15Field(c, p, pkg, typ, f)
		st, pk := c17FieldMutations(apply, fv)
		if len(st)+len(pk) == 0 {
			c.Lost("%s.applyUpdates never updates %s", typ, f)
		}
		check(f, st, "replacement")
		check(f, pk, "per-key update")
		// per-key edits of the believed state happen nowhere else
		bad := ""
		for _, m := range p.methodsOf(pkg, typ) {
			if m == apply {
				continue
			}
			if _, pk := c17FieldMutations(m, fv); len(pk) > 0 {
				bad = fnName(m) + " at " + p.Pos(pk[0].Pos())
			}
		}
		n++
		c.Check(bad == "", fmt.Sprintf("C15.commit/writers/%s.%s", typ, f), p.Pos(apply.Pos()),
			"per-key edits of "+f+" occur only in applyUpdates (other writers replace the whole view)",
			"per-key edit of "+typ+"."+f+" outside applyUpdates in "+bad+": the believed state can drift from the kernel without a write")
	}
	for _, f := range dirty {
		fv := c15Field(c, p, pkg, typ, f)
		st, _ := c17FieldMutations(apply, fv)
		if len(st) == 0 {
			c.Lost("%s.applyUpdates never resets %s", typ, f)
		}
		check(f, st, "reset")
	}
	return n
}

// c15Invalidate: L1 — in the function that invokes Run, every path from a
// non-nil Run error to a return stores false into inSyncWithDataPlane; or
// L2 — in Apply, every path from the non-nil edge of applyUpdates back to the
// next applyUpdates call passes a call that (re)establishes inSyncWithDataPlane.
func c15Invalidate(c *Ctx, p *Prog, pkg, typ string) int {
	flag := c15Field(c, p, pkg, typ, "inSyncWithDataPlane")
	applyUpd := p.Func(pkg, typ+".applyUpdates")
	apply := p.Func(pkg, typ+".Apply")
	if applyUpd == nil || apply == nil {
		c.Lost("%s.%s.Apply/applyUpdates", pkg, typ)
	}
	key := "C15.invalidate/" + typ
	storesFlag := func(fn *ssa.Function, depth int) bool {
		found := false
		var rec func(f *ssa.Function, d int)
		seen := map[*ssa.Function]bool{}
		rec = func(f *ssa.Function, d int) {
			if f == nil || seen[f] || f.Blocks == nil {
				return
			}
			seen[f] = true
			if st, _ := c17FieldMutations(f, flag); len(st) > 0 {
				found = true
				return
			}
			if d > 0 {
				allInstrs(f, true, func(_ *ssa.Function, in ssa.Instruction) {
					if ci, ok := in.(ssa.CallInstruction); ok {
						rec(calleeFn(ci.Common()), d-1)
					}
				})
			}
		}
		rec(fn, depth)
		return found
	}
	// L1
	l1 := false
	var runFn *ssa.Function
	for _, m := range p.methodsOf(pkg, typ) {
		for _, cs := range callsIn(m, false, c15IsRun) {
			if !c17ReturnsError(cs.Common().Signature()) {
				continue
			}
			runFn = m
			var inval []ssa.Instruction
			st, _ := c17FieldMutations(m, flag)
			for _, s := range st {
				if k, ok := constOf(s.(*ssa.Store).Val); ok && k.ExactString() == "false" && s.Parent() == m {
					inval = append(inval, s)
				}
			}
			ok := len(inval) > 0
			for _, r := range returnsOf(m) {
				if !c17PathsThrough(cs.Instr, r, inval, c17NilEdge(c17ErrOf(cs.Instr))) {
					ok = false
				}
			}
			l1 = ok
		}
	}
	if runFn == nil {
		c.Lost("no method of %s invokes Run", typ)
	}
	// L2
	l2 := false
	var site string
	for _, cs := range callsIn(apply, false, func(f *types.Func) bool { return true }) {
		if calleeFn(cs.Common()) != applyUpd {
			continue
		}
		site = p.Pos(cs.Instr.Pos())
		var via []ssa.Instruction
		for _, b := range apply.Blocks {
			for _, in := range b.Instrs {
				if ci, ok := in.(ssa.CallInstruction); ok && in != ssa.Instruction(cs.Instr) {
					if sf := calleeFn(ci.Common()); sf != nil && sf != applyUpd && storesFlag(sf, 1) {
						via = append(via, in)
					}
				}
			}
		}
		// paths from the failed call back to itself: successors of the block, target = the call
		l2 = len(via) > 0 && c15LoopBackThrough(cs.Instr, via, c17NilEdge(c17ErrOf(cs.Instr)))
	}
	if site == "" {
		c.Lost("%s.Apply does not call applyUpdates", typ)
	}
	switch {
	case l1:
		c.Ok(key, p.Pos(runFn.Pos()), "%s stores inSyncWithDataPlane=false on every path from a failed Run to its return", fnName(runFn))
	case l2:
		c.Ok(key, site, "every retry path in Apply from a failed applyUpdates passes a call that reloads or resets the cached view")
	default:
		c.Violate(key, site, "after a failed write neither %s marks the cache invalid on every error path nor does %s.Apply reload/reset the view on every retry path: the retry would diff against a view the kernel may not have", fnName(runFn), typ)
	}
	return 1
}

// c15LoopBackThrough: every path that leaves `call` on a non-cut edge and comes
// back to `call` executes one of via.
func c15LoopBackThrough(call ssa.Instruction, via []ssa.Instruction, cut EdgePred) bool {
	// `call` is both source and target; c17PathsThrough treats same-block
	// from<to specially, so walk from the block's terminator instead.
	b := call.Block()
	term := b.Instrs[len(b.Instrs)-1]
	for _, v := range via {
		if v.Block() == b && instrIndex(v) > instrIndex(call) {
			return true
		}
	}
	if !blockReach(b)[b] {
		return true // no retry loop at all
	}
	// target: first instruction of the block containing call
	return c17PathsThrough(term, b.Instrs[0], via, cut)
}

func c15Own(c *Ctx, p *Prog) {
	fn := p.Func(c15IptPkg, "Table.loadDataplaneState")
	dirty := c15Field(c, p, c15IptPkg, "Table", "dirtyChains")
	re := c15Field(c, p, c15IptPkg, "Table", "ourChainsRegexp")
	if fn == nil {
		c.Lost("iptables.Table.loadDataplaneState")
	}
	n := 0
	for _, cs := range callsIn(fn, true, func(f *types.Func) bool { return f.Name() == "Add" }) {
		if fieldVar(cs.Args()[0]) != dirty {
			continue
		}
		n++
		name := cs.Args()[1]
		g := guardedCut(cs.Instr, callCond(true, func(g CallSite) bool {
			return g.Callee != nil && g.Callee.Name() == "MatchString" && len(g.Args()) == 2 && fieldVar(g.Args()[0]) == re &&
				(g.Args()[1] == name || path(g.Args()[1]) == path(name))
		}))
		c.Check(g, "C15.own/Table.loadDataplaneState/dirtyChains.Add", p.Pos(cs.Instr.Pos()),
			"chain read from the kernel is queued for whole-chain rewrite only under ourChainsRegexp.MatchString(name)",
			"dirtyChains.Add("+path(name)+") in loadDataplaneState is not guarded by ourChainsRegexp.MatchString on that name: a chain owned by other software would be flushed/deleted")
	}
	if n == 0 {
		c.Lost("loadDataplaneState never adds to dirtyChains")
	}
}

func c15DelValue(c *Ctx, p *Prog) {
	fn := p.Func(c15IptPkg, "Table.applyUpdates")
	dirty := c15Field(c, p, c15IptPkg, "Table", "dirtyChains")
	if fn == nil {
		c.Lost("iptables.Table.applyUpdates")
	}
	byIndex := map[string]bool{"RenderReplace": true, "RenderInsertAtRuleNumber": true, "renderDeleteByIndexLine": true}
	n := 0
	for _, cs := range callsIn(fn, true, func(f *types.Func) bool { return byIndex[f.Name()] }) {
		n++
		rf, rs := p.rangedField(cs.Instr.Pos())
		key := "C15.delvalue/Table.applyUpdates/" + cs.Callee.Name()
		switch {
		case rs == nil:
			c.Violate(key, p.Pos(cs.Instr.Pos()), "index-based %s is used outside any loop over a dirty set", cs.Callee.Name())
		case rf != dirty:
			name := "<expr>"
			if rf != nil {
				name = rf.Name()
			}
			c.Violate(key, p.Pos(cs.Instr.Pos()), "index-based %s is used in a loop over %s: rule numbers in chains shared with other software race with their edits (must delete by full rule)", cs.Callee.Name(), name)
		default:
			c.Ok(key, p.Pos(cs.Instr.Pos()), "index-based %s only inside a loop over dirtyChains (Felix-owned chains)", cs.Callee.Name())
		}
	}
	if n == 0 {
		c.Lost("applyUpdates uses no index-based line renderer")
	}
}

// c15HashRenderer: the closure handed to generictables.RuleHashes returns the
// result of a rendering function R of the same renderer; every exported Render*
// method that produces what is written to the kernel obtains its rule text from
// the same function (directly R, or R and its siblings share one inner function).
func c15HashRenderer(c *Ctx, p *Prog, pkg, typ string) int {
	rh := p.Func(pkg, typ+".RuleHashes")
	if rh == nil {
		c.Lost("%s.%s.RuleHashes", pkg, typ)
	}
	key := "C15.hash/" + typ
	var hashFn *ssa.Function // function whose result is hashed
	for _, cs := range callsIn(rh, false, func(f *types.Func) bool {
		return f.Name() == "RuleHashes" && f.Pkg() != nil && f.Pkg().Path() == calicoPrefix+c15GenPkg
	}) {
		cl := c17FuncOfValue(cs.Args()[1])
		if cl == nil {
			c.Undecided(key+"/source", p.Pos(cs.Instr.Pos()), "render function passed to generictables.RuleHashes is not a function literal")
			return 1
		}
		for _, r := range returnsOf(cl) {
			for _, o := range origins(r.Results[0], nil) {
				call, ok := o.V.(*ssa.Call)
				var sf *ssa.Function
				if ok {
					sf = calleeFn(call.Common())
				}
				if sf == nil || recvTypeName(calleeOf(call.Common())) != typ {
					c.Violate(key+"/source", p.Pos(r.Pos()), "the string hashed for a rule (%s) is not produced by a rendering method of %s: what is hashed can differ from what is written", path(r.Results[0]), typ)
					return 1
				}
				// the rule argument must be the closure's own rule parameter
				usesRule := false
				for _, a := range call.Common().Args {
					if a == ssa.Value(cl.Params[0]) {
						usesRule = true
					}
				}
				if !usesRule {
					c.Violate(key+"/source", p.Pos(r.Pos()), "hash rendering does not render the rule being hashed")
					return 1
				}
				hashFn = sf
			}
		}
	}
	if hashFn == nil {
		c.Lost("%s.RuleHashes does not call generictables.RuleHashes", typ)
	}
	c.Ok(key+"/source", p.Pos(rh.Pos()), "hashed string is the result of %s on the rule being hashed", fnName(hashFn))
	// inner(f): f itself plus the in-type functions whose result f returns
	inner := func(f *ssa.Function) map[*ssa.Function]bool {
		out := map[*ssa.Function]bool{f: true}
		for _, r := range returnsOf(f) {
			for _, res := range r.Results {
				for _, o := range origins(res, nil) {
					if call, ok := o.V.(*ssa.Call); ok {
						if sf := calleeFn(call.Common()); sf != nil && recvTypeName(calleeOf(call.Common())) == typ {
							out[sf] = true
						}
					}
				}
			}
		}
		return out
	}
	hi := inner(hashFn)
	var bad []string
	nW := 0
	for _, m := range p.methodsOf(pkg, typ) {
		o, _ := m.Object().(*types.Func)
		if o == nil || !o.Exported() || !strings.HasPrefix(o.Name(), "Render") {
			continue
		}
		nW++
		shared := false
		for f := range inner(m) {
			if hi[f] {
				shared = true
			}
		}
		// struct-building renderers (nft): a field of the returned literal comes from the hashed function
		if !shared {
			allInstrs(m, false, func(_ *ssa.Function, in ssa.Instruction) {
				if call, ok := in.(*ssa.Call); ok {
					if sf := calleeFn(call.Common()); sf != nil && hi[sf] {
						shared = true
					}
				}
			})
		}
		if !shared {
			bad = append(bad, o.Name())
		}
	}
	if nW == 0 {
		c.Lost("%s has no exported Render* method", typ)
	}
	c.Check(len(bad) == 0, key+"/writers", p.Pos(rh.Pos()),
		fmt.Sprintf("all %d exported Render* methods take the rule text from the function that is hashed", nW),
		fmt.Sprintf("%s.%v build the written rule without the function whose output is hashed (%s): a rendering change would not change the hash and the kernel rule would not be rewritten", typ, bad, fnName(hashFn)))
	return 2
}

// c15RuleHashes: position sensitivity and chain-name seed in generictables.RuleHashes.
func c15RuleHashes(c *Ctx, p *Prog) int {
	fn := p.Func(c15GenPkg, "RuleHashes")
	if fn == nil {
		c.Lost("generictables.RuleHashes")
	}
	nameField, _ := p.LookupObj(c15GenPkg, "Chain.Name").(*types.Var)
	if nameField == nil || len(fn.Params) < 2 {
		c.Lost("generictables.Chain.Name / RuleHashes signature")
	}
	renderParam := fn.Params[1]
	site := p.Pos(fn.Pos())
	isHashM := func(name string) func(*types.Func) bool {
		return func(f *types.Func) bool {
			if f.Name() != name {
				return false
			}
			sig := f.Type().(*types.Signature)
			return sig.Recv() != nil && (qualTypeName(sig.Recv().Type()) == "hash.Hash" || qualTypeName(sig.Recv().Type()) == "io.Writer")
		}
	}
	writes := callsIn(fn, false, isHashM("Write"))
	sums := callsIn(fn, false, isHashM("Sum"))
	var render ssa.CallInstruction
	for _, b := range fn.Blocks {
		for _, in := range b.Instrs {
			if ci, ok := in.(ssa.CallInstruction); ok && ci.Common().Value == ssa.Value(renderParam) {
				render = ci
			}
		}
	}
	if render == nil || len(writes) == 0 || len(sums) == 0 {
		c.Lost("RuleHashes: render call / hash Write / Sum not found")
	}
	arg := func(cs CallSite) ssa.Value { return cs.Args()[1] }
	derives := func(v ssa.Value, pred func(ssa.Value) bool) bool {
		for _, o := range origins(v, nil) {
			if pred(o.V) {
				return true
			}
		}
		return false
	}
	var wRule, wPrev, wSeed *CallSite
	var loopSum *CallSite
	for i := range writes {
		w := writes[i]
		switch {
		case derives(arg(w), func(v ssa.Value) bool { return v == render.(ssa.Value) }):
			wRule = &writes[i]
		case derives(arg(w), func(v ssa.Value) bool { return fieldVar(v) == nameField }):
			wSeed = &writes[i]
		}
	}
	// the loop-carried hash: a value whose origins are exclusively Sum calls, at least one of which is after the render call
	isSum := func(v ssa.Value) bool {
		for _, s := range sums {
			if sv, ok := s.Instr.(ssa.Value); ok && sv == v {
				return true
			}
		}
		return false
	}
	for i := range writes {
		w := writes[i]
		if &writes[i] == wRule || &writes[i] == wSeed {
			continue
		}
		os := origins(arg(w), nil)
		all := len(os) > 0
		for _, o := range os {
			if !isSum(o.V) {
				all = false
			}
		}
		if all {
			wPrev = &writes[i]
		}
	}
	for i := range sums {
		if wRule != nil && instrDominates(wRule.Instr, sums[i].Instr) {
			loopSum = &sums[i]
		}
	}
	n := 0
	n++
	c.Check(wRule != nil && loopSum != nil, "C15.hash/RuleHashes/rendered", site,
		"the rendered rule is written into the hash before the per-rule Sum",
		"RuleHashes does not write the output of renderFunc into the hash before taking the rule's Sum")
	n++
	okChain := wPrev != nil && wRule != nil && instrDominates(wPrev.Instr, wRule.Instr) && loopSum != nil &&
		derives(arg(*wPrev), func(v ssa.Value) bool { return v == loopSum.Instr.(ssa.Value) })
	c.Check(okChain, "C15.hash/RuleHashes/chained", site,
		"each rule's hash input starts with the previous rule's hash (position-sensitive)",
		"RuleHashes does not write the previous hash (loop-carried Sum) before the rule: a rule's hash would not depend on its position, so reordered or shifted rules would be considered in sync")
	n++
	okSeed := false
	if wSeed != nil && wPrev != nil {
		for _, s := range sums {
			if instrDominates(wSeed.Instr, s.Instr) && (loopSum == nil || s.Instr != loopSum.Instr) &&
				derives(arg(*wPrev), func(v ssa.Value) bool { return v == s.Instr.(ssa.Value) }) {
				okSeed = true
			}
		}
	}
	c.Check(okSeed, "C15.hash/RuleHashes/seed", site,
		"the first rule chains from a hash of the chain name",
		"RuleHashes does not seed the chain of hashes with Chain.Name: identical rules in different chains would share hashes")
	return n
}

// c15Reread: the refresh timer in Apply is measured from lastReadTime and the
// reload is skipped while inSyncWithDataPlane is true.  Both may therefore only
// be set where the kernel table is certainly read: a store is justified when a
// read call R of the same function dominates it, or it dominates R and R
// post-dominates it (stamp taken just before the read).  A function without a
// read of its own (extracted helper) is justified when every one of its static
// call sites is.  A read call is a read primitive (isPrim) or a static call
// whose callee reaches one within three levels.  For inSyncWithDataPlane=true a
// second justification exists (the view was reset by construction, pending a
// table recreate), so there the obligation is the weaker "not inside the write
// path": applyUpdates and everything it statically reaches.
func c15Reread(c *Ctx, p *Prog, pkg, typ string, isPrim func(ssa.CallInstruction) bool) {
	stamp := c15Field(c, p, pkg, typ, "lastReadTime")
	flag := c15Field(c, p, pkg, typ, "inSyncWithDataPlane")
	applyUpd := p.Func(pkg, typ+".applyUpdates")
	if applyUpd == nil {
		c.Lost("%s.%s.applyUpdates", pkg, typ)
	}
	var funcs []*ssa.Function // top-level functions with bodies of this package
	for _, f := range p.AllFuncs() {
		if f.Parent() == nil && f.Blocks != nil && f.Pkg != nil && f.Pkg.Pkg.Path() == calicoPrefix+pkg {
			funcs = append(funcs, f)
		}
	}
	reachMemo := map[*ssa.Function]bool{}
	var reaches func(f *ssa.Function, d int, seen map[*ssa.Function]bool) bool
	reaches = func(f *ssa.Function, d int, seen map[*ssa.Function]bool) bool {
		if f == nil || f.Blocks == nil || seen[f] {
			return false
		}
		seen[f] = true
		found := false
		allInstrs(f, true, func(_ *ssa.Function, in ssa.Instruction) {
			ci, ok := in.(ssa.CallInstruction)
			if !ok || found {
				return
			}
			if isPrim(ci) || (d > 0 && reaches(calleeFn(ci.Common()), d-1, seen)) {
				found = true
			}
		})
		return found
	}
	isRead := func(ci ssa.CallInstruction) bool {
		if isPrim(ci) {
			return true
		}
		sf := calleeFn(ci.Common())
		if sf == nil {
			return false
		}
		if v, ok := reachMemo[sf]; ok {
			return v
		}
		v := reaches(sf, 3, map[*ssa.Function]bool{})
		reachMemo[sf] = v
		return v
	}
	anyRead := false
	for _, f := range funcs {
		allInstrs(f, true, func(_ *ssa.Function, in ssa.Instruction) {
			if ci, ok := in.(ssa.CallInstruction); ok && isPrim(ci) {
				anyRead = true
			}
		})
	}
	if !anyRead {
		c.Lost("%s: no kernel read primitive found in the package (read anchor lost)", typ)
	}
	// justified: "" if a kernel read certainly accompanies `in`; else why not.
	var justified func(in ssa.Instruction, depth int) string
	justified = func(in ssa.Instruction, depth int) string {
		top := in.Parent()
		for top.Parent() != nil {
			top = top.Parent()
		}
		at := c17PosInParent(in, top)
		if at == nil {
			return "it sits in a closure of " + fnName(top) + " whose point of use cannot be located"
		}
		pd := postDominators(top)
		nReads := 0
		for _, b := range top.Blocks {
			for _, x := range b.Instrs {
				r, ok := x.(ssa.CallInstruction)
				if !ok || x == at || !isRead(r) {
					continue
				}
				nReads++
				if instrDominates(x, at) || (instrDominates(at, x) && instrPostDominates(pd, x, at)) {
					return ""
				}
			}
		}
		if nReads > 0 {
			return fnName(top) + " reads the kernel only on some paths through this point"
		}
		if depth == 0 {
			return fnName(top) + " performs no kernel read"
		}
		nSites := 0
		for _, g := range funcs {
			var why string
			allInstrs(g, true, func(_ *ssa.Function, x ssa.Instruction) {
				if ci, ok := x.(ssa.CallInstruction); ok && calleeFn(ci.Common()) == top {
					nSites++
					if w := justified(x, depth-1); w != "" && why == "" {
						why = w
					}
				}
			})
			if why != "" {
				return fnName(top) + " performs no kernel read and is called from " + fnName(g) + ", where " + why
			}
		}
		if nSites == 0 {
			return fnName(top) + " performs no kernel read and has no static call site to justify it"
		}
		return ""
	}
	writePath := reachableFuncs([]*ssa.Function{applyUpd}, nil)
	topOf := func(f *ssa.Function) *ssa.Function {
		for f.Parent() != nil {
			f = f.Parent()
		}
		return f
	}
	nStamp, nFlag := 0, 0
	for _, f := range funcs {
		st, _ := c17FieldMutations(f, stamp)
		for _, in := range st {
			if _, isConst := in.(*ssa.Store).Val.(*ssa.Const); isConst {
				continue // zero value: can only force a re-read
			}
			nStamp++
			key := fmt.Sprintf("C15.reread/%s/lastReadTime", fnName(f))
			why := justified(in, 2)
			c.Check(why == "", key, p.Pos(in.Pos()),
				"read time is stamped only where the kernel table is certainly read",
				fmt.Sprintf("%s.lastReadTime is set in %s at %s but %s: the refresh timer (the only repair path for out-of-band edits between writes) is pushed back without a read", typ, fnName(f), p.Pos(in.Pos()), why))
		}
		st, _ = c17FieldMutations(f, flag)
		for _, in := range st {
			k, ok := constOf(in.(*ssa.Store).Val)
			if ok && k.ExactString() == "false" {
				continue
			}
			nFlag++
			key := fmt.Sprintf("C15.reread/%s/inSyncWithDataPlane", fnName(f))
			why := justified(in, 2)
			switch {
			case why == "":
				c.Ok(key, p.Pos(in.Pos()), "in-sync is asserted where the kernel table was certainly read")
			case !writePath[topOf(in.Parent())]:
				c.Ok(key, p.Pos(in.Pos()), "in-sync is asserted outside the write path (%s)", why)
			default:
				c.Violate(key, p.Pos(in.Pos()), "%s.inSyncWithDataPlane is set to true in %s at %s, inside the write path (reachable from applyUpdates), but %s: a pending or skipped resync would be cancelled by a write", typ, fnName(f), p.Pos(in.Pos()), why)
			}
		}
	}
	if nStamp == 0 {
		c.Lost("%s.lastReadTime is never set", typ)
	}
	if nFlag == 0 {
		c.Lost("%s.inSyncWithDataPlane is never set to true", typ)
	}
}

// ---------------------------------------------------------------------------
// C15.defrelease (E-ORDER)
//
// chainRefCounts decides which chains are wanted in the kernel.  The function
// that gives up a reference to chain k (refcount decrement / delete keyed by its
// parameter k) looks the *definition* of k up in chainNameToChain[k] to give up,
// recursively, the references that definition holds on other chains.  A mutator
// that removes or replaces chainNameToChain[k] must therefore finish every such
// release keyed on k first: afterwards the release would find no definition (or
// the new one) and the chains the old definition referred to keep their
// refcount for ever - they stay programmed although nothing reaches them.
//
// Derived structurally, per table type:
//   releaser (f,i): f looks up chainNameToChain[param i] and decrements/deletes
//                   chainRefCounts[param i]; or f passes its param i to a releaser.
//   mutator  (f,i): f stores/deletes chainNameToChain[param i]; or passes param i
//                   to a mutator.
// In every method, for every mutation event (direct store/delete of
// chainNameToChain[k], or call of a mutator with key k) no release event with
// the same key (same SSA value, or same access path on the same root) may be
// reachable afterwards.  A key rooted in a loop variable is only "the same" on
// paths that do not re-enter the block defining that variable.
// ---------------------------------------------------------------------------

type c15KP struct {
	f *ssa.Function
	i int
}

// c15ParamIdx: v is (on every origin) the i-th parameter of f; -1 otherwise.
func c15ParamIdx(f *ssa.Function, v ssa.Value) int {
	os := origins(v, nil)
	idx := -1
	for _, o := range os {
		pr, ok := o.V.(*ssa.Parameter)
		if !ok || pr.Parent() != f {
			return -1
		}
		j := -1
		for k, q := range f.Params {
			if q == pr {
				j = k
			}
		}
		if j < 0 || (idx != -1 && idx != j) {
			return -1
		}
		idx = j
	}
	return idx
}

// c15KeyAccess decomposes a key into the value whose identity decides which
// object is denoted (root) and the sequence of field selections applied to it
// (loads and type conversions are transparent).
func c15KeyAccess(v ssa.Value) (root ssa.Value, sel string) {
	for i := 0; i < 16; i++ {
		switch x := v.(type) {
		case *ssa.UnOp:
			if x.Op != token.MUL {
				return v, sel
			}
			v = x.X
		case *ssa.FieldAddr:
			sel = "." + fieldName(x.X.Type(), x.Field) + sel
			v = x.X
		case *ssa.Field:
			sel = "." + fieldName(x.X.Type(), x.Field) + sel
			v = x.X
		case *ssa.ChangeType:
			v = x.X
		case *ssa.Convert:
			v = x.X
		default:
			return v, sel
		}
	}
	return v, sel
}

func c15KeyRoot(v ssa.Value) ssa.Value {
	r, _ := c15KeyAccess(v)
	return r
}

// c15SameKey: the same SSA value, or the same field selection on the same root.
func c15SameKey(a, b ssa.Value) bool {
	if a == b {
		return true
	}
	ra, sa := c15KeyAccess(a)
	rb, sb := c15KeyAccess(b)
	return ra == rb && sa == sb && sa != ""
}

func c15KeyText(v ssa.Value) string {
	r, sel := c15KeyAccess(v)
	switch x := r.(type) {
	case *ssa.Parameter:
		return x.Name() + sel
	case *ssa.Const:
		return path(r) + sel
	}
	return "<element>" + sel
}

// c15ReachesSameKey: b can execute after a while key still denotes the same
// object (paths through the block that (re)defines a loop-variant root are cut).
func c15ReachesSameKey(a, b ssa.Instruction, key ssa.Value) bool {
	if a.Parent() != b.Parent() {
		return false
	}
	if a.Block() == b.Block() && instrIndex(a) < instrIndex(b) {
		return true
	}
	var avoid *ssa.BasicBlock
	if ri, ok := c15KeyRoot(key).(ssa.Instruction); ok && ri.Block() != nil && blockReach(ri.Block())[ri.Block()] {
		avoid = ri.Block()
	}
	seen := map[*ssa.BasicBlock]bool{}
	st := append([]*ssa.BasicBlock(nil), a.Block().Succs...)
	for len(st) > 0 {
		x := st[len(st)-1]
		st = st[:len(st)-1]
		if seen[x] || x == avoid {
			continue
		}
		seen[x] = true
		if x == b.Block() {
			return true
		}
		st = append(st, x.Succs...)
	}
	return false
}

type c15KeyEvent struct {
	in   ssa.Instruction
	key  ssa.Value
	what string
}

func c15DefRelease(c *Ctx, p *Prog, pkg, typ string) int {
	defs := c15Field(c, p, pkg, typ, "chainNameToChain")
	refs := c15Field(c, p, pkg, typ, "chainRefCounts")
	methods := p.methodsOf(pkg, typ)
	if len(methods) == 0 {
		c.Lost("%s.%s has no methods", pkg, typ)
	}
	isMethod := map[*ssa.Function]bool{}
	for _, m := range methods {
		isMethod[m] = true
	}
	rel, mut := map[c15KP]bool{}, map[c15KP]bool{}
	// direct mutations of chainNameToChain in a function's own body
	directMut := func(f *ssa.Function) []c15KeyEvent {
		var out []c15KeyEvent
		allInstrs(f, false, func(_ *ssa.Function, in ssa.Instruction) {
			if mu, ok := in.(*ssa.MapUpdate); ok && fieldVar(mu.Map) == defs {
				out = append(out, c15KeyEvent{in, mu.Key, "replacement of the definition"})
			}
			if cc, ok := isBuiltinCall(in, "delete"); ok && len(cc.Args) == 2 && fieldVar(cc.Args[0]) == defs {
				out = append(out, c15KeyEvent{in, cc.Args[1], "removal of the definition"})
			}
		})
		return out
	}
	for _, f := range methods {
		looks, decs := map[int]bool{}, map[int]bool{}
		allInstrs(f, false, func(_ *ssa.Function, in ssa.Instruction) {
			switch x := in.(type) {
			case *ssa.Lookup:
				if fieldVar(x.X) == defs {
					if i := c15ParamIdx(f, x.Index); i >= 0 {
						looks[i] = true
					}
				}
			case *ssa.MapUpdate:
				if fieldVar(x.Map) == refs {
					if bo, ok := x.Value.(*ssa.BinOp); ok && bo.Op == token.SUB {
						if i := c15ParamIdx(f, x.Key); i >= 0 {
							decs[i] = true
						}
					}
				}
			default:
				if cc, ok := isBuiltinCall(in, "delete"); ok && len(cc.Args) == 2 && fieldVar(cc.Args[0]) == refs {
					if i := c15ParamIdx(f, cc.Args[1]); i >= 0 {
						decs[i] = true
					}
				}
			}
		})
		for i := range looks {
			if decs[i] {
				rel[c15KP{f, i}] = true
			}
		}
		for _, e := range directMut(f) {
			if i := c15ParamIdx(f, e.key); i >= 0 {
				mut[c15KP{f, i}] = true
			}
		}
	}
	if len(rel) == 0 {
		c.Lost("%s: no method gives up a reference (decrement/delete of chainRefCounts[k]) by looking up chainNameToChain[k] for its own parameter k", typ)
	}
	// closure over parameter passing
	for changed := true; changed; {
		changed = false
		for _, f := range methods {
			allInstrs(f, false, func(_ *ssa.Function, in ssa.Instruction) {
				ci, ok := in.(ssa.CallInstruction)
				if !ok {
					return
				}
				g := calleeFn(ci.Common())
				if g == nil || !isMethod[g] || ci.Common().IsInvoke() {
					return
				}
				for j, a := range ci.Common().Args {
					for _, set := range []map[c15KP]bool{rel, mut} {
						if set[c15KP{g, j}] {
							if i := c15ParamIdx(f, a); i >= 0 && !set[c15KP{f, i}] {
								set[c15KP{f, i}] = true
								changed = true
							}
						}
					}
				}
			})
		}
	}
	// mutations hidden in closures cannot be ordered against the method body
	n := 0
	for _, f := range methods {
		_, pk := c17FieldMutations(f, defs)
		for _, in := range pk {
			if in.Parent() != f {
				n++
				c.Undecided(fmt.Sprintf("C15.defrelease/%s/chainNameToChain", fnName(f)), p.Pos(in.Pos()), "chainNameToChain is mutated inside a closure of %s: cannot order it against the releases", fnName(f))
			}
		}
	}
	for _, f := range methods {
		muts := directMut(f)
		var rels []c15KeyEvent
		allInstrs(f, false, func(_ *ssa.Function, in ssa.Instruction) {
			ci, ok := in.(ssa.CallInstruction)
			if !ok {
				return
			}
			g := calleeFn(ci.Common())
			if g == nil || !isMethod[g] || ci.Common().IsInvoke() {
				return
			}
			for j, a := range ci.Common().Args {
				if mut[c15KP{g, j}] {
					muts = append(muts, c15KeyEvent{in, a, "call of " + fnName(g) + " (which removes/replaces the definition)"})
				}
				if rel[c15KP{g, j}] {
					rels = append(rels, c15KeyEvent{in, a, fnName(g)})
				}
			}
		})
		for _, m := range muts {
			n++
			key := fmt.Sprintf("C15.defrelease/%s/chainNameToChain", fnName(f))
			bad := ""
			for _, r := range rels {
				if r.in == m.in || !c15SameKey(m.key, r.key) {
					continue
				}
				if c15ReachesSameKey(m.in, r.in, m.key) {
					bad = fmt.Sprintf("%s of chainNameToChain[%s] at %s can be followed by %s(%s) at %s", m.what, c15KeyText(m.key), p.Pos(m.in.Pos()), r.what, c15KeyText(r.key), p.Pos(r.in.Pos()))
					break
				}
			}
			c.Check(bad == "", key, p.Pos(m.in.Pos()),
				"every release of a reference to this chain that consults its definition is finished before the definition is removed/replaced",
				"in "+fnName(f)+" "+bad+": that release looks the chain's definition up in chainNameToChain to give up the references the definition holds on other chains, so it now finds none (or the new one); the chains the old definition jumped to keep a refcount nobody will drop and stay programmed in the kernel after a successful Apply")
		}
	}
	return n
}

// ---------------------------------------------------------------------------
// C15.viewdrop (E-PAIR)
//
// A dirty chain that is not in the desired state is a pending *deletion*: the
// write path flushes and deletes it by name, which presupposes that the chain is
// in the kernel, i.e. in the believed view chainToDataplaneHashes.  A transition
// that throws the believed view away without reading the kernel (assigns a fresh
// map / clears it: "nothing of what we knew survives") voids every pending
// deletion, so in the same transition each pending-deletion set must be reset,
// and the reset must not wipe marks made after it (the re-marking of what is
// wanted).  Pending-deletion sets are derived, not named: the fields of the
// table over which applyUpdates loops while consulting desiredStateOfChain.
// ---------------------------------------------------------------------------

func c15ViewDrop(c *Ctx, p *Prog, pkg, typ string) int {
	view := c15Field(c, p, pkg, typ, "chainToDataplaneHashes")
	applyUpd := p.Func(pkg, typ+".applyUpdates")
	desired := p.Func(pkg, typ+".desiredStateOfChain")
	if applyUpd == nil || desired == nil {
		c.Lost("%s.%s.applyUpdates/desiredStateOfChain", pkg, typ)
	}
	var pend []*types.Var
	seenPend := map[*types.Var]bool{}
	for _, cs := range callsIn(applyUpd, true, func(f *types.Func) bool { return f == desired.Object() }) {
		rf, _ := p.rangedField(cs.Instr.Pos())
		if rf == nil || seenPend[rf] {
			continue
		}
		if own, _ := p.LookupObj(pkg, typ+"."+rf.Name()).(*types.Var); own != rf {
			continue
		}
		seenPend[rf] = true
		pend = append(pend, rf)
	}
	if len(pend) == 0 {
		c.Lost("%s.applyUpdates: no loop over a field of the table consults desiredStateOfChain (pending-deletion sets not found)", typ)
	}
	// touches(g): does g (depth 2 through static calls, closures included) reset / add to S
	type touch struct{ reset, add bool }
	var touches func(g *ssa.Function, s *types.Var, d int, seen map[*ssa.Function]bool) touch
	direct := func(in ssa.Instruction, s *types.Var) touch {
		var t touch
		if st, ok := in.(*ssa.Store); ok {
			if fa, ok := st.Addr.(*ssa.FieldAddr); ok && fieldVar(fa) == s {
				t.reset = true
			}
		}
		if ci, ok := in.(ssa.CallInstruction); ok {
			cc := ci.Common()
			if f := calleeOf(cc); f != nil {
				var recv ssa.Value
				if cc.IsInvoke() {
					recv = cc.Value
				} else if len(cc.Args) > 0 && cc.Signature() != nil && cc.Signature().Recv() != nil {
					recv = cc.Args[0]
				}
				if recv != nil && fieldVar(recv) == s {
					switch {
					case f.Name() == "Clear":
						t.reset = true
					case strings.HasPrefix(f.Name(), "Add"):
						t.add = true
					}
				}
			}
		}
		return t
	}
	touches = func(g *ssa.Function, s *types.Var, d int, seen map[*ssa.Function]bool) touch {
		var t touch
		if g == nil || g.Blocks == nil || seen[g] {
			return t
		}
		seen[g] = true
		allInstrs(g, true, func(_ *ssa.Function, in ssa.Instruction) {
			x := direct(in, s)
			t.reset = t.reset || x.reset
			t.add = t.add || x.add
			if ci, ok := in.(ssa.CallInstruction); ok && d > 0 {
				x := touches(calleeFn(ci.Common()), s, d-1, seen)
				t.reset = t.reset || x.reset
				t.add = t.add || x.add
			}
		})
		return t
	}
	n, nRead := 0, 0
	var firstRead ssa.Instruction
	for _, f := range p.methodsOf(pkg, typ) {
		var drops []ssa.Instruction
		st, _ := c17FieldMutations(f, view)
		for _, in := range st {
			fiat, und := true, false
			for _, o := range origins(in.(*ssa.Store).Val, nil) {
				switch v := o.V.(type) {
				case *ssa.MakeMap:
				case *ssa.Const:
					if !v.IsNil() {
						und = true
					}
				case *ssa.Call:
					fiat = false
				default:
					und = true
				}
			}
			switch {
			case !fiat:
				nRead++
				if firstRead == nil {
					firstRead = in
				}
			case und:
				n++
				c.Undecided(fmt.Sprintf("C15.viewdrop/%s/chainToDataplaneHashes", fnName(f)), p.Pos(in.Pos()), "cannot tell whether the value assigned to the believed view (%s) comes from a kernel read", path(in.(*ssa.Store).Val))
			default:
				drops = append(drops, in)
			}
		}
		allInstrs(f, true, func(_ *ssa.Function, in ssa.Instruction) {
			if cc, ok := isBuiltinCall(in, "clear"); ok && len(cc.Args) == 1 && fieldVar(cc.Args[0]) == view {
				drops = append(drops, in)
			}
		})
		for _, v0 := range drops {
			v := c17PosInParent(v0, f)
			for _, s := range pend {
				keyBase := fmt.Sprintf("C15.viewdrop/%s/%s", fnName(f), s.Name())
				if v == nil {
					n++
					c.Undecided(keyBase+"/reset", p.Pos(v0.Pos()), "the believed view is dropped inside a closure of %s whose point of use cannot be located", fnName(f))
					continue
				}
				var resets, adds []ssa.Instruction
				for _, b := range f.Blocks {
					for _, in := range b.Instrs {
						t := direct(in, s)
						if ci, ok := in.(ssa.CallInstruction); ok && !t.reset && !t.add {
							t = touches(calleeFn(ci.Common()), s, 2, map[*ssa.Function]bool{})
							// range-over-func / callback bodies consumed by this call
							for _, a := range ci.Common().Args {
								if cl := c17FuncOfValue(a); cl != nil && cl.Parent() != nil {
									x := touches(cl, s, 2, map[*ssa.Function]bool{})
									t.reset = t.reset || x.reset
									t.add = t.add || x.add
								}
							}
						}
						switch {
						case t.reset:
							resets = append(resets, in)
						case t.add:
							adds = append(adds, in)
						}
					}
				}
				pd := postDominators(f)
				var paired []ssa.Instruction
				for _, r := range resets {
					if r == v || instrDominates(r, v) || instrPostDominates(pd, r, v) {
						paired = append(paired, r)
					}
				}
				n++
				c.Check(len(paired) > 0, keyBase+"/reset", p.Pos(v0.Pos()),
					"dropping the believed view is paired, on every path, with a reset of this pending-deletion set",
					fmt.Sprintf("%s drops the believed view %s.chainToDataplaneHashes at %s without reading the kernel, but does not reset %s on every path through that point: chains that are dirty and no longer wanted stay queued for flush/delete although, by the new view, they are not in the kernel - the next write addresses chains that do not exist and can fail on every retry", fnName(f), typ, p.Pos(v0.Pos()), s.Name()))
				bad := ""
				for _, r := range paired {
					for _, a := range adds {
						if a != r && !c17PathsThrough(a, r, []ssa.Instruction{v}, nil) {
							bad = fmt.Sprintf("marks made at %s can be wiped by the reset at %s", p.Pos(a.Pos()), p.Pos(r.Pos()))
						}
					}
				}
				n++
				c.Check(bad == "", keyBase+"/order", p.Pos(v0.Pos()),
					"no mark made for the rebuilt view is wiped by the reset",
					fmt.Sprintf("in %s, which drops the believed view at %s, %s of %s: chains marked for (re)programming after the view was dropped are forgotten and never written", fnName(f), p.Pos(v0.Pos()), bad, s.Name()))
			}
		}
	}
	if n == 0 {
		if nRead == 0 {
			c.Lost("%s.chainToDataplaneHashes is never replaced", typ)
		}
		n++
		c.Ok(fmt.Sprintf("C15.viewdrop/%s/chainToDataplaneHashes", typ), p.Pos(firstRead.Pos()), "the believed view is only ever replaced by what a call returned (%d site(s)); no method drops it without reading", nRead)
	}
	return n
}
